import GomlVerif.Model.Sem
/-
Model of `crates/compiler/src/compile_match.rs`: the match compiler that turns a pattern
matrix into a decision tree (`compile_rows` and the per-type `compile_*_case` functions),
together with the source-level meaning of a pattern matrix (`firstMatch`).

Mirrors the Rust as it is now (including the `fix:` commit that gives a string match
without catch-all a `missing` default):

* `moveVars`      = `move_variable_patterns` (variable/wildcard columns leave the row, a
                    variable becomes `let name = column-variable` around the body; later columns
                    are wrapped further out);
* `branchVar`     = `branch_variable` (count map over all rows, `max_by_key` over the columns of
                    row 0 = LAST maximum; the type is the annotation of the last pattern seen);
* `plan`          = the row distribution of `compile_{unit,bool,int,string,enum,struct,tuple}_case`
                    (which sub-matrices exist, which temporaries are generated, in which order);
* `compileRows`   = `compile_rows`; the sub-matrices are compiled left to right, threading the
                    gensym counter; fuel is justified by `measure` (see `Props/C06.lean`);
* `DT.toExpr`     = the Core expression the Rust builds for the tree.

Arm bodies are a type parameter.  Generated names are `S.gen n` (`x{n}` in the Rust).
The int/string cases are written as "one filter per literal key" instead of the Rust's single
pass that appends to every bucket; the two produce the same buckets in the same order
(first occurrence of the literal), which the L1 tie checks on every run.
-/
namespace Goml.Match
open Goml Goml.Sem

deriving instance DecidableEq for Goml.Prim

inductive Pat where
  | wild (ty : Ty)
  | var (name : String) (ty : Ty)
  | prim (p : Prim) (ty : Ty)
  | tuple (items : List Pat) (ty : Ty)
  | constr (c : Ctor) (args : List Pat) (ty : Ty)
  deriving Inhabited

def Pat.ty : Pat → Ty
  | .wild t => t
  | .var _ t => t
  | .prim _ t => t
  | .tuple _ t => t
  | .constr _ _ t => t

/-- `let name = var` wrapped around an arm body by `move_variable_patterns` -/
structure Bind where
  name : String
  var : String
  ty : Ty
  deriving Inhabited

structure Row (β : Type) where
  cols : List (String × Pat)
  /-- outermost first -/
  binds : List Bind
  body : β
  bodyTy : Ty

structure Sig where
  enums : List EnumDef
  structs : List StructDef
  gen : Nat → String

def realGen (n : Nat) : String := "x" ++ toString n

inductive Err where
  | unreachable (msg : String)
  | panic (msg : String)
  /-- "non-exhaustive match on integer literal of type …; add a wildcard arm" -/
  | nonExhaustiveInt (ty : Ty)
  deriving Inhabited

abbrev M := Except Err

/-! ## decision trees -/

inductive Head where
  | ctor (c : Ctor) (ty : Ty) (vars : List (String × Ty))
  | lit (p : Prim)

mutual
inductive DT (β : Type) where
  | leaf (binds : List Bind) (b : β)
  | missing (ty : Ty)
  /-- `let x = v.i in rest` -/
  | letProj (x : String) (i : Nat) (ty : Ty) (v : String) (vty : Ty) (rest : DT β)
  /-- `let x = cget c i v in rest` -/
  | letGet (x : String) (c : Ctor) (i : Nat) (ty : Ty) (v : String) (vty : Ty) (rest : DT β)
  | switch (ty : Ty) (v : String) (vty : Ty) (cases : Cases β)
inductive Cases (β : Type) where
  | nil
  | dflt (t : DT β)
  | cons (h : Head) (t : DT β) (rest : Cases β)
end

def Head.toExpr : Head → Expr
  | .ctor c ty vars => .constr c ty (vars.map (fun v => .var v.1 v.2))
  | .lit p => .prim p

def emissing (ty : Ty) : Expr :=
  .call ty (.var "missing" (.func [.string] ty)) [.prim (.str "")]

def wrapBinds : List Bind → Expr → Expr
  | [], e => e
  | b :: bs, e => .letE b.name (.var b.var b.ty) (wrapBinds bs e)

mutual
def DT.toExpr : DT Expr → Expr
  | .leaf binds b => wrapBinds binds b
  | .missing ty => emissing ty
  | .letProj x i ty v vty rest => .letE x (.proj i ty (.var v vty)) rest.toExpr
  | .letGet x c i ty v vty rest => .letE x (.cget c i ty (.var v vty)) rest.toExpr
  | .switch ty v vty cases => .matchE ty (.var v vty) cases.arms cases.dfltExpr
def Cases.arms : Cases Expr → List Arm
  | .nil => []
  | .dflt _ => []
  | .cons h t rest => .mk h.toExpr t.toExpr :: rest.arms
def Cases.dfltExpr : Cases Expr → Option Expr
  | .nil => none
  | .dflt t => some t.toExpr
  | .cons _ _ rest => rest.dfltExpr
end

/-! ## meaning of decision trees (fuel-free; `Props/C06.lean` embeds it into `Sem.eval`) -/

def lookupVar (ρ : Env) (x : String) : Val := (lookupEnv ρ x).getD (.fn x)

inductive Leaf (β : Type) where
  | body (b : β) (ρ : Env)
  | missing
  | stuck (why : String)

/-- the environment an arm body runs in: its `let name = var` evaluated outermost first -/
def bindSeq : List Bind → Env → Env
  | [], ρ => ρ
  | b :: bs, ρ => bindSeq bs ((b.name, lookupVar ρ b.var) :: ρ)

mutual
def DT.eval : DT β → Env → Leaf β
  | .leaf binds b, ρ => .body b (bindSeq binds ρ)
  | .missing _, _ => .missing
  | .letProj x i _ v _ rest, ρ =>
    match lookupVar ρ v with
    | .tuple vs =>
      match vs[i]? with
      | some u => rest.eval ((x, u) :: ρ)
      | none => .stuck "tuple index out of range"
    | _ => .stuck "projection from a non-tuple"
  | .letGet x _ i _ v _ rest, ρ =>
    match lookupVar ρ v with
    | .enumV _ _ args =>
      match args[i]? with
      | some u => rest.eval ((x, u) :: ρ)
      | none => .stuck "constructor field out of range"
    | .structV _ fs =>
      match fs[i]? with
      | some u => rest.eval ((x, u) :: ρ)
      | none => .stuck "struct field out of range"
    | _ => .stuck "field access on a non-constructor value"
  | .switch _ v _ cases, ρ => cases.eval (lookupVar ρ v) ρ
def Cases.eval : Cases β → Val → Env → Leaf β
  | .nil, _, _ => .stuck "no arm selected and no default"
  | .dflt t, _, ρ => t.eval ρ
  | .cons h t rest, v, ρ => if armMatches h.toExpr v then t.eval ρ else rest.eval v ρ
end

/-- no `let name = var` of a leaf shadows the variable a later one reads (true when pattern
    variables are never spelled like column variables; checked on every real tree by the driver) -/
def bindsOK : List Bind → Bool
  | [] => true
  | b :: bs => bs.all (fun c => c.var != b.name) && bindsOK bs

mutual
def leavesOK : DT β → Bool
  | .leaf binds _ => bindsOK binds
  | .missing _ => true
  | .letProj _ _ _ _ _ rest => leavesOK rest
  | .letGet _ _ _ _ _ _ rest => leavesOK rest
  | .switch _ _ _ cases => casesOK cases
def casesOK : Cases β → Bool
  | .nil => true
  | .dflt t => leavesOK t
  | .cons _ t rest => leavesOK t && casesOK rest
end


/-! ## source-level meaning of patterns -/

def litMatches (p : Prim) (v : Val) : Bool := (valEq (primVal p) v).getD false

def oapp {α : Type} (a b : Option (List α)) : Option (List α) :=
  match a, b with
  | some x, some y => some (x ++ y)
  | _, _ => none

mutual
/-- bindings produced when `p` matches `v`; `none` when it does not -/
def matchPat : Pat → Val → Option (List (String × Val))
  | .wild _, _ => some []
  | .var x _, v => some [(x, v)]
  | .prim p _, v => if litMatches p v then some [] else none
  | .tuple ps _, v =>
    match v with
    | .tuple vs => matchPats ps vs
    | _ => none
  | .constr c ps _, v =>
    match c, v with
    | .enum _ _ idx, .enumV _ i vs => if idx = i then matchPats ps vs else none
    | .struct _, .structV _ vs => matchPats ps vs
    | _, _ => none
def matchPats : List Pat → List Val → Option (List (String × Val))
  | [], vs => if vs.isEmpty then some [] else none
  | p :: ps, vs =>
    match vs with
    | v :: vs => oapp (matchPat p v) (matchPats ps vs)
    | [] => none
end

def colsMatch (ρ : Env) : List (String × Pat) → Option (List (String × Val))
  | [] => some []
  | c :: cs => oapp (matchPat c.2 (lookupVar ρ c.1)) (colsMatch ρ cs)

def bindVals (ρ : Env) (bs : List Bind) : List (String × Val) :=
  bs.map (fun b => (b.name, lookupVar ρ b.var))

def rowMatch (ρ : Env) (r : Row β) : Option (List (String × Val)) :=
  oapp (some (bindVals ρ r.binds)) (colsMatch ρ r.cols)

/-- the first row all of whose columns match, with the bindings of exactly that row -/
def firstMatch (ρ : Env) : List (Row β) → Option (β × List (String × Val))
  | [] => none
  | r :: rs =>
    match rowMatch ρ r with
    | some σ => some (r.body, σ)
    | none => firstMatch ρ rs

/-! ## "value has the shape the patterns of its column assume" -/

def findEnum (S : Sig) (n : String) : Option EnumDef := S.enums.find? (fun d => d.name = n)
def findStruct (S : Sig) (n : String) : Option StructDef := S.structs.find? (fun d => d.name = n)

def enumName : Ty → Option String
  | .enum n => some n
  | .app (.enum n) _ => some n
  | _ => none
def structName : Ty → Option String
  | .struct n => some n
  | .app (.struct n) _ => some n
  | _ => none

mutual
def conf (S : Sig) : Pat → Val → Bool
  | .wild _, _ => true
  | .var _ _, _ => true
  | .prim p _, v => (valEq (primVal p) v).isSome
  | .tuple ps ty, v =>
    match ty, v with
    | .tuple typs, .tuple vs => typs.length = vs.length && ps.length = vs.length && confs S ps vs
    | _, _ => false
  | .constr c ps ty, v =>
    match c, v with
    | .enum _ _ idx, .enumV _ i vs =>
      match (enumName ty).bind (findEnum S) with
      | some d =>
        match d.variants[i]? with
        | some vr => vr.2.length = vs.length && (if idx = i then ps.length = vs.length && confs S ps vs else true)
        | none => false
      | none => false
    | .struct _, .structV _ vs =>
      match (structName ty).bind (findStruct S) with
      | some d => d.fields.length = vs.length && ps.length = vs.length && confs S ps vs
      | none => false
    | _, _ => false
def confs (S : Sig) : List Pat → List Val → Bool
  | [], _ => true
  | p :: ps, vs =>
    match vs with
    | v :: vs => conf S p v && confs S ps vs
    | [] => true
end

/-! ## `move_variable_patterns` -/

def isVarOrWild : Pat → Bool
  | .var _ _ => true
  | .wild _ => true
  | _ => false

def varBinds : List (String × Pat) → List Bind
  | [] => []
  | c :: cs =>
    match c.2 with
    | .var a ty => varBinds cs ++ [⟨a, c.1, ty⟩]
    | _ => varBinds cs

def moveVars (r : Row β) : Row β :=
  { r with cols := r.cols.filter (fun c => !isVarOrWild c.2), binds := varBinds r.cols ++ r.binds }

/-! ## `branch_variable` -/

def countVar (rows : List (Row β)) (x : String) : Nat :=
  (rows.map (fun r => (r.cols.filter (fun c => c.1 = x)).length)).sum

/-- Rust `Iterator::max_by_key`: the LAST of several equally maximal elements -/
def lastMaxBy (f : String → Nat) : List String → Option String
  | [] => none
  | x :: xs => some (xs.foldl (fun acc y => if f acc > f y then acc else y) x)

/-- `var_ty[&var]`: the annotation of the last pattern inserted for `x` -/
def colTy (x : String) : List (String × Pat) → Option Ty → Option Ty
  | [], acc => acc
  | c :: cs, acc => colTy x cs (if c.1 = x then some c.2.ty else acc)

def allCols (rows : List (Row β)) : List (String × Pat) := rows.flatMap (·.cols)

def branchVar (rows : List (Row β)) : Option (String × Ty) :=
  match rows with
  | [] => none
  | r0 :: _ =>
    match lastMaxBy (countVar rows) (r0.cols.map (·.1)) with
    | none => none
    | some x =>
      match colTy x (allCols rows) none with
      | some t => some (x, t)
      | none => none

/-! ## row distribution of the `compile_*_case` functions -/

def removeCol (x : String) : List (String × Pat) → Option (Pat × List (String × Pat))
  | [] => none
  | c :: cs =>
    if c.1 = x then some (c.2, cs)
    else match removeCol x cs with
      | some (q, cs') => some (q, c :: cs')
      | none => none

def filterMapE {α γ : Type} (f : α → M (Option γ)) : List α → M (List γ)
  | [] => .ok []
  | a :: as =>
    match f a with
    | .error e => .error e
    | .ok o =>
      match filterMapE f as with
      | .error e => .error e
      | .ok rest => .ok (match o with | some b => b :: rest | none => rest)

def mapE {α γ : Type} (f : α → M γ) : List α → M (List γ)
  | [] => .ok []
  | a :: as =>
    match f a with
    | .error e => .error e
    | .ok b =>
      match mapE f as with
      | .error e => .error e
      | .ok rest => .ok (b :: rest)

def isUnitP : Prim → Bool
  | .unit => true
  | _ => false
def isBoolP : Prim → Bool
  | .bool _ => true
  | _ => false
def isIntP (bits : Nat) (signed : Bool) : Prim → Bool
  | .int b s _ => b = bits && s = signed
  | _ => false
def isStrP : Prim → Bool
  | .str _ => true
  | _ => false

/-- rows of the bucket of literal `k`: rows with that literal on `bv` (column removed) and
    rows that do not test `bv` -/
def specLit (okP : Prim → Bool) (bv : String) (k : Prim) (r : Row β) : M (Option (Row β)) :=
  match removeCol bv r.cols with
  | none => .ok (some r)
  | some (.prim p _, cs) =>
    if okP p then .ok (if p = k then some { r with cols := cs } else none)
    else .error (.panic "expected primitive pattern of the scrutinee's type")
  | some _ => .error (.unreachable "expected literal pattern")

/-- `default_rows`: rows that do not test `bv` -/
def specDflt (okP : Prim → Bool) (bv : String) (r : Row β) : M (Option (Row β)) :=
  match removeCol bv r.cols with
  | none => .ok (some r)
  | some (.prim p _, _) =>
    if okP p then .ok none
    else .error (.panic "expected primitive pattern of the scrutinee's type")
  | some _ => .error (.unreachable "expected literal pattern")

/-- keys of `value_rows` (an `IndexMap`): literals on `bv` in order of first occurrence -/
def litKeys (okP : Prim → Bool) (bv : String) : List (Row β) → M (List Prim)
  | [] => .ok []
  | r :: rs =>
    match litKeys okP bv rs with
    | .error e => .error e
    | .ok ks =>
      match removeCol bv r.cols with
      | none => .ok ks
      | some (.prim p _, _) =>
        if okP p then .ok (p :: ks.filter (fun k => k ≠ p))
        else .error (.panic "expected primitive pattern of the scrutinee's type")
      | some _ => .error (.unreachable "expected literal pattern")

/-- bucket of variant `idx` (`compile_constructor_cases`): the column leaves, the argument
    patterns are appended as columns on the variant's field variables -/
def specEnum (bv : String) (nvariants idx : Nat) (vars : List String) (r : Row β) : M (Option (Row β)) :=
  match removeCol bv r.cols with
  | none => .ok (some r)
  | some (.constr (.enum _ _ i) args _, cs) =>
    if nvariants ≤ i then .error (.panic "index out of bounds: variant index")
    else .ok (if i = idx then some { r with cols := cs ++ vars.zip args } else none)
  | some (.constr (.struct _) _ _, _) => .error (.panic "expected enum constructor in compile_constructor_cases")
  | some _ => .error (.unreachable "expected constructor pattern")

/-- tuple case: every column on `bv` is replaced, in place, by one column per item -/
def expandTuple (bv : String) (names : List String) : List (String × Pat) → M (List (String × Pat))
  | [] => .ok []
  | c :: cs =>
    match expandTuple bv names cs with
    | .error e => .error e
    | .ok rest =>
      if c.1 = bv then
        match c.2 with
        | .tuple items _ =>
          if names.length < items.length then .error (.panic "index out of bounds: tuple item")
          else .ok (names.zip items ++ rest)
        | _ => .error (.unreachable "expected tuple pattern")
      else .ok (c :: rest)

def specTuple (bv : String) (names : List String) (r : Row β) : M (Option (Row β)) :=
  match expandTuple bv names r.cols with
  | .error e => .error e
  | .ok cs => .ok (some { r with cols := cs })

def expandStruct (bv : String) (names : List String) : List (String × Pat) → M (List (String × Pat))
  | [] => .ok []
  | c :: cs =>
    match expandStruct bv names cs with
    | .error e => .error e
    | .ok rest =>
      if c.1 = bv then
        match c.2 with
        | .constr (.struct _) args _ => .ok (names.zip args ++ rest)
        | _ => .error (.unreachable "expected struct pattern")
      else .ok (c :: rest)

def specStruct (bv : String) (names : List String) (r : Row β) : M (Option (Row β)) :=
  match expandStruct bv names r.cols with
  | .error e => .error e
  | .ok cs => .ok (some { r with cols := cs })

/-! ## types of the generated field variables -/

mutual
def substTy (σ : List (String × Ty)) : Ty → Ty
  | .tuple ts => .tuple (substTys σ ts)
  | .app t args => .app (substTy σ t) (substTys σ args)
  | .param n =>
    match σ.find? (fun p => p.1 = n) with
    | some p => p.2
    | none => .param n
  | .array len e => .array len (substTy σ e)
  | .vec e => .vec (substTy σ e)
  | .ref e => .ref (substTy σ e)
  | .func ps r => .func (substTys σ ps) (substTy σ r)
  | t => t
def substTys (σ : List (String × Ty)) : List Ty → List Ty
  | [] => []
  | t :: ts => substTy σ t :: substTys σ ts
end

def genNames (g : Nat → String) : Nat → Nat → List String
  | _, 0 => []
  | n, k + 1 => g n :: genNames g (n + 1) k

/-- one `ConstructorCase` per variant, field variables generated variant by variant -/
def enumHeads (g : Nat → String) (tname : String) (σ : List (String × Ty)) :
    Nat → Nat → List (String × List Ty) → List (Ctor × List (String × Ty)) × Nat
  | n, _, [] => ([], n)
  | n, idx, v :: rest =>
    let vars := (genNames g n v.2.length).zip (substTys σ v.2)
    let r := enumHeads g tname σ (n + v.2.length) (idx + 1) rest
    ((.enum tname v.1 idx, vars) :: r.1, r.2)

inductive Kind where
  | unit | bool | string
  | int (bits : Nat) (signed : Bool)
  | enumK (name : String) (targs : List Ty)
  | structK (name : String) (targs : List Ty)
  | tupleK (typs : List Ty)
  | bad (e : Err)

def kindOf : Ty → Kind
  | .unit => .unit
  | .bool => .bool
  | .string => .string
  | .int b s => .int b s
  | .enum n => .enumK n []
  | .struct n => .structK n []
  | .app (.enum n) args => .enumK n args
  | .app (.struct n) args => .structK n args
  | .app _ _ => .bad (.panic "Expected TEnum or TStruct inside TApp")
  | .tuple ts => .tupleK ts
  | .float _ => .bad (.panic "Matching on floating point types is not supported")
  | .vec _ => .bad (.panic "Matching on Vec types is not supported")
  | .ref _ => .bad (.panic "Matching on reference types is not supported")
  | .dyn _ => .bad (.panic "Matching on dyn trait objects is not supported")
  | _ => .bad (.unreachable "branch variable of a type that has no patterns")

inductive Shape where
  | lits (keys : List Prim) (dflt : Bool)
  | enumS (heads : List (Ctor × List (String × Ty)))
  | tupleS (vars : List (String × Ty))
  | structS (c : Ctor) (vars : List (String × Ty))

structure Plan (β : Type) where
  shape : Shape
  /-- gensym counter after the case's own temporaries -/
  n1 : Nat
  /-- sub-matrices, compiled left to right -/
  subs : List (List (Row β))
  /-- the `ty` handed to the recursive `compile_rows` calls -/
  subTy : Ty

def enumSubs (bv : String) (nvariants : Nat) (rows : List (Row β)) :
    List (Ctor × List (String × Ty)) → Nat → M (List (List (Row β)))
  | [], _ => .ok []
  | h :: hs, idx =>
    match filterMapE (specEnum bv nvariants idx (h.2.map (·.1))) rows with
    | .error e => .error e
    | .ok s =>
      match enumSubs bv nvariants rows hs (idx + 1) with
      | .error e => .error e
      | .ok rest => .ok (s :: rest)

def litPlan (okP : Prim → Bool) (n : Nat) (bv : String) (subTy : Ty) (keys : List Prim) (dflt : Bool)
    (rows : List (Row β)) : M (Plan β) :=
  match mapE (fun k => filterMapE (specLit okP bv k) rows) keys with
  | .error e => .error e
  | .ok subs =>
    if dflt then
      match filterMapE (specDflt okP bv) rows with
      | .error e => .error e
      | .ok d => .ok ⟨.lits keys true, n, subs ++ [d], subTy⟩
    else .ok ⟨.lits keys false, n, subs, subTy⟩

def plan (S : Sig) (n : Nat) (bv : String) (bty ty : Ty) (rows : List (Row β)) : M (Plan β) :=
  match kindOf bty with
  | .bad e => .error e
  -- unit and bool hand `bvar.ty` (not the result type) to the recursive calls
  | .unit => litPlan isUnitP n bv bty [.unit] false rows
  | .bool => litPlan isBoolP n bv bty [.bool true, .bool false] false rows
  | .int b s =>
    match litKeys (isIntP b s) bv rows with
    | .error e => .error e
    | .ok keys =>
      match filterMapE (specDflt (isIntP b s) bv) rows with
      | .error e => .error e
      | .ok [] => .error (.nonExhaustiveInt bty)
      | .ok _ => litPlan (isIntP b s) n bv ty keys true rows
  | .string =>
    match litKeys isStrP bv rows with
    | .error e => .error e
    | .ok keys => litPlan isStrP n bv ty keys true rows
  | .enumK name targs =>
    match findEnum S name with
    | none => .error (.panic "Enum not found")
    | some d =>
      -- the Rust indexes `cases[idx]` for the pattern of row 0: with no variants that panics
      if d.variants.isEmpty then .error (.panic "index out of bounds: enum without variants") else
      let hs := enumHeads S.gen name (d.generics.zip targs) n 0 d.variants
      match enumSubs bv d.variants.length rows hs.1 0 with
      | .error e => .error e
      | .ok subs => .ok ⟨.enumS hs.1, hs.2, subs, ty⟩
  | .structK name targs =>
    match findStruct S name with
    | none => .error (.panic "Unknown struct")
    | some d =>
      if !d.generics.isEmpty && d.generics.length ≠ targs.length then
        .error (.panic "Struct expects a different number of type arguments")
      else
        let names := genNames S.gen n d.fields.length
        let vars := names.zip (substTys (d.generics.zip targs) (d.fields.map (·.2)))
        match filterMapE (specStruct bv names) rows with
        | .error e => .error e
        | .ok s => .ok ⟨.structS (.struct name) vars, n + d.fields.length, [s], ty⟩
  | .tupleK typs =>
    let names := genNames S.gen n typs.length
    match filterMapE (specTuple bv names) rows with
    | .error e => .error e
    | .ok s => .ok ⟨.tupleS (names.zip typs), n + typs.length, [s], ty⟩

/-! ## assembling the tree -/

def wrapProj (v : String) (vty : Ty) : Nat → List (String × Ty) → DT β → DT β
  | _, [], t => t
  | i, x :: xs, t => .letProj x.1 i x.2 v vty (wrapProj v vty (i + 1) xs t)

def wrapGet (c : Ctor) (v : String) (vty : Ty) : Nat → List (String × Ty) → DT β → DT β
  | _, [], t => t
  | i, x :: xs, t => .letGet x.1 c i x.2 v vty (wrapGet c v vty (i + 1) xs t)

def litCases : List Prim → List (DT β) → Bool → Cases β
  | k :: ks, ts, d =>
    match ts with
    | t :: ts => .cons (.lit k) t (litCases ks ts d)
    | [] => .nil
  | [], ts, d =>
    match ts, d with
    | [t], true => .dflt t
    | _, _ => .nil

def enumCases (v : String) (vty : Ty) : List (Ctor × List (String × Ty)) → List (DT β) → Cases β
  | h :: hs, ts =>
    match ts with
    | t :: ts => .cons (.ctor h.1 vty h.2) (wrapGet h.1 v vty 0 h.2 t) (enumCases v vty hs ts)
    | [] => .nil
  | [], _ => .nil

def build (bodyTy : Ty) (bv : String) (bty : Ty) : Shape → List (DT β) → DT β
  | .lits keys d, ts => .switch bodyTy bv bty (litCases keys ts d)
  | .enumS hs, ts => .switch bodyTy bv bty (enumCases bv bty hs ts)
  | .tupleS vars, ts =>
    match ts with
    | [t] => wrapProj bv bty 0 vars t
    | _ => .missing .unit
  | .structS c vars, ts =>
    match ts with
    | [t] => wrapGet c bv bty 0 vars t
    | _ => .missing .unit

def compileSeq (rec : Nat → List (Row β) → Option (M (DT β × Nat))) :
    Nat → List (List (Row β)) → Option (M (List (DT β) × Nat))
  | n, [] => some (.ok ([], n))
  | n, rs :: rest =>
    match rec n rs with
    | none => none
    | some (.error e) => some (.error e)
    | some (.ok r) =>
      match compileSeq rec r.2 rest with
      | none => none
      | some (.error e) => some (.error e)
      | some (.ok q) => some (.ok (r.1 :: q.1, q.2))

/-- `compile_rows`; returns the tree and the gensym counter after it.
    `none` = out of fuel (never happens when `fuel > measure rows`, see `compileRows_total`);
    `some (.error _)` = the Rust panics / reports the diagnostic. -/
def compileRows (S : Sig) : Nat → Ty → Nat → List (Row β) → Option (M (DT β × Nat))
  | 0, _, _, _ => none
  | fuel + 1, ty, n, rows =>
    match rows.map moveVars with
    | [] => some (.ok (.missing ty, n))
    | r0 :: rest =>
      if r0.cols.isEmpty then some (.ok (.leaf r0.binds r0.body, n))
      else
        match branchVar (r0 :: rest) with
        | none => some (.error (.unreachable "no branch variable"))
        | some bvt =>
          match plan S n bvt.1 bvt.2 ty (r0 :: rest) with
          | .error e => some (.error e)
          | .ok pl =>
            match compileSeq (compileRows S fuel pl.subTy) pl.n1 pl.subs with
            | none => none
            | some (.error e) => some (.error e)
            | some (.ok q) => some (.ok (build r0.bodyTy bvt.1 bvt.2 pl.shape q.1, q.2))

/-! ## fuel: a pattern-size measure -/

mutual
def Pat.size : Pat → Nat
  | .wild _ => 1
  | .var _ _ => 1
  | .prim _ _ => 1
  | .tuple ps _ => 1 + Pat.sizes ps
  | .constr _ ps _ => 1 + Pat.sizes ps
def Pat.sizes : List Pat → Nat
  | [] => 0
  | p :: ps => p.size + Pat.sizes ps
end

def colsSize : List (String × Pat) → Nat
  | [] => 0
  | c :: cs => c.2.size + colsSize cs

def measure : List (Row β) → Nat
  | [] => 0
  | r :: rs => 1 + colsSize r.cols + measure rs

/-! ## `match e { arms }` and the destructuring `let` -/

structure ArmIn (β : Type) where
  pat : Pat
  body : β
  bodyTy : Ty

def makeRows (x : String) (arms : List (ArmIn β)) : List (Row β) :=
  arms.map (fun a => ⟨[(x, a.pat)], [], a.body, a.bodyTy⟩)

inductive Scrut where
  /-- `match x { … }` on a variable: no temporary -/
  | var (x : String)
  /-- any other scrutinee: compiled separately, bound once to `mtmp{n}` -/
  | other (e : Expr)

/-- `EMatch` arm of `compile_expr`.  `mtmp` is the name the gensym returned for the temporary
    (the Rust takes it BEFORE compiling the scrutinee, whose own gensyms are not modelled:
    the counter `n` handed in is the one after both). -/
def compileMatch (S : Sig) (fuel : Nat) (ty : Ty) (mtmp : String) (n : Nat) (sc : Scrut)
    (arms : List (ArmIn Expr)) : Option (M (Expr × Nat)) :=
  match sc with
  | .var x =>
    match compileRows S fuel ty n (makeRows x arms) with
    | none => none
    | some (.error e) => some (.error e)
    | some (.ok r) => some (.ok (r.1.toExpr, r.2))
  | .other e =>
    match compileRows S fuel ty n (makeRows mtmp arms) with
    | none => none
    | some (.error e) => some (.error e)
    | some (.ok r) => some (.ok (.letE mtmp e r.1.toExpr, r.2))

/-- destructuring `let pat = e; rest` (`compile_block_exprs`) and the stand-alone form
    (`compile_expr`, `rest = ()`): two rows, the pattern and a wildcard whose body is `missing` -/
def compileLet (S : Sig) (fuel : Nat) (ty : Ty) (mtmp : String) (n : Nat) (e : Expr) (pat : Pat)
    (rest : Expr) (restTy : Ty) : Option (M (Expr × Nat)) :=
  let rows : List (Row Expr) :=
    [⟨[(mtmp, pat)], [], rest, restTy⟩, ⟨[(mtmp, .wild pat.ty)], [], emissing restTy, restTy⟩]
  match compileRows S fuel ty n rows with
  | none => none
  | some (.error e) => some (.error e)
  | some (.ok r) => some (.ok (.letE mtmp e r.1.toExpr, r.2))

end Goml.Match
