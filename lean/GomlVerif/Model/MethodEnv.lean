import GomlVerif.Model.Mangle
/-!
# C17 — which package's impl table a call form of an inherent method consults

Import-free apart from `Model/Mangle.lean` (no Mathlib).  Transcribes `typer/util.rs::resolve_type_name`,
`typer/check.rs::env_for_receiver_ty`, `lookup_inherent_method_for_ty` and the environment choices of
`infer_static_member_call_expr`.  Tied by the source anchors of `tools/extract.py::gen_dispatch` and by the
multi-package programs of `gv c17sem` (behaviour under Go.Sem).
-/
namespace Goml.Mangle

/-! ### which package's impl table a call form consults (`typer/util.rs::resolve_type_name`,
`typer/check.rs::env_for_receiver_ty`, `lookup_inherent_method_for_ty`, `infer_static_member_call_expr`)

Inherent impls live in the package of their type (`define_inherent_impl`: "Inherent impl for
non-local type … is not allowed"), so for a type of another package every question about its
methods has to be put to THAT package's table, not to the table of the package being checked. -/

/-- `PackageTypeEnv` as far as inherent impls go: the package being checked, its own table and the
tables of its dependencies -/
structure PkgInhEnvs where
  package : Name
  current : InhEnv
  deps : List (Name × InhEnv)

/-- `str::split_once("::")` -/
def splitOnceColons : Name → Option (Name × Name)
  | [] => none
  | c :: rest =>
    match c, rest with
    | ':', ':' :: tail => some ([], tail)
    | _, _ => (splitOnceColons rest).map fun r => (c :: r.1, r.2)

def lookupDep (deps : List (Name × InhEnv)) (p : Name) : Option InhEnv :=
  (deps.find? fun d => d.1 == p).map (·.2)

def pkgMain : Name := ['M', 'a', 'i', 'n']
def pkgBuiltin : Name := ['B', 'u', 'i', 'l', 't', 'i', 'n']

/-- `resolve_type_name`: the resolved name of a written type path and the environment of the
package that defines it -/
def resolveTypeName (G : PkgInhEnvs) (n : Name) : Name × InhEnv :=
  if n == ['S', 'e', 'l', 'f'] then (n, G.current)
  else match splitOnceColons n with
    | some (p, rest) =>
      if p == pkgBuiltin then (rest, G.current)
      else if p == pkgMain && G.package == pkgMain then (rest, G.current)
      else if p == G.package then (n, G.current)
      else match lookupDep G.deps p with
        | some d => (n, d)
        | none => (n, G.current)
    | none =>
      if G.package == pkgMain || G.package == pkgBuiltin then (n, G.current)
      else (G.package ++ [':', ':'] ++ n, G.current)

/-- `env_for_receiver_ty`: the environment of the package that defines the receiver's type -/
def envForReceiverTy (G : PkgInhEnvs) : Ty → InhEnv
  | .tenum n => (resolveTypeName G n).2
  | .tstruct n => (resolveTypeName G n).2
  | .tapp t _ => envForReceiverTy G t
  | _ => G.current

/-- dot form `x.m(..)` in a multi-package program (`lookup_inherent_method_for_ty`) -/
def dotFormLookupPkg (G : PkgInhEnvs) (recvTy : Ty) (m : Name) : Option InhFound :=
  lookupInherentMethod (envForReceiverTy G recvTy) recvTy m

/-- `pathFormLookup` with the guard ("does an impl of a single instantiation define `m`?") put to a
table `Eg` that may differ from the table `E` the lookups go to -/
def pathFormLookupGuard (Eg E : InhEnv) (base : Name) (firstArgTy : Option Ty) (m : Name) : Option InhFound :=
  let bare := lookupInherentMethod E (.tstruct base) m
  if instantiationImplDefines Eg base m then
    match firstArgTy with
    | some t =>
      if constrName t == some base then
        match lookupInherentMethod E t m with
        | some f => some f
        | none => bare
      else bare
    | none => bare
  else bare

/-- path form `Written::m(x, ..)` in a multi-package program: the written path is resolved, and the
guard AND the lookups are put to the table of the package that defines the type -/
def pathFormLookupPkg (G : PkgInhEnvs) (written : Name) (firstArgTy : Option Ty) (m : Name) : Option InhFound :=
  let r := resolveTypeName G written
  pathFormLookupGuard r.2 r.2 r.1 firstArgTy m

end Goml.Mangle
