import GomlVerif.Model.Syntax
import GomlVerif.Model.Mangle
import GomlVerif.Gen.MonoLookup
/-!
Model of `crates/compiler/src/mono.rs` over the unified expression language.

* `substTy`, `hasTParam`, `unify` (template vs. actual, filling a substitution), `key` (`SubstKey`),
  `specName` (`spec_name_for`, via `Mangle.specNameFor`), `ensureInstance`
* `monoExpr` — `mono_expr`: substitutes types, re-derives the callee's substitution at every call of a
  generic function and queues the instance, resolves `ETraitCall` to `trait_impl#Tr#Ty#m`
* `loop`/`phase1` — the work list of `mono()`
* `collapse`/`ensureTy`/`rewriteExpr` — `TypeMono`: generic enum/struct applications become their
  own monomorphic definitions (phase 2)
* `mono` — both phases.

Traversal order, the order in which instances are queued and type instances are registered, and
the cases `unify` / `collapse_type_apps` handle are those of the Rust.  A place where the Rust
panics sets `err` (first message wins) and the traversal goes on as if the call were left alone.
Import-free apart from `Syntax` and `Mangle` (names), so that `gomlmodel` links.
-/
namespace Goml.Mono
open Goml

/-! ### types as `Mangle.Ty` (for the name encoders) -/

def intPrim (bits : Nat) (signed : Bool) : Gen.Prim :=
  if signed then
    (if bits == 8 then .int8 else if bits == 16 then .int16 else if bits == 64 then .int64 else .int32)
  else
    (if bits == 8 then .uint8 else if bits == 16 then .uint16 else if bits == 64 then .uint64 else .uint32)

mutual
def toM : Ty → Mangle.Ty
  | .unit => .prim .unit
  | .bool => .prim .bool
  | .string => .prim .string
  | .int b s => .prim (intPrim b s)
  | .float b => .prim (if b == 32 then .float32 else .float64)
  | .tuple ts => .ttuple (toMs ts)
  | .enum n => .tenum n.toList
  | .struct n => .tstruct n.toList
  | .dyn tr => .tdyn tr.toList
  | .app t args => .tapp (toM t) (toMs args)
  | .array len e => .tarray len (toM e)
  | .vec e => .tvec (toM e)
  | .ref e => .tref (toM e)
  | .param n => .tparam n.toList
  | .func ps r => .tfunc (toMs ps) (toM r)
  | .tvar n => .tvar n
def toMs : List Ty → List Mangle.Ty
  | [] => []
  | t :: ts => toM t :: toMs ts
end

/-- `names::ty_compact` -/
def tyCompact (t : Ty) : String := String.ofList (Mangle.tyCompact (toM t))

/-- `names::trait_impl_fn_name` -/
def traitImplFnName (tr : String) (forTy : Ty) (m : String) : String :=
  String.ofList (Mangle.traitImplFnName tr.toList (toM forTy) m.toList)

/-- `Ty::get_constr_name_unsafe`; `none` where the Rust panics -/
def constrName : Ty → Option String
  | .enum n => some n
  | .struct n => some n
  | .app t _ => constrName t
  | .vec _ => some "Vec"
  | .ref _ => some "Ref"
  | _ => none

/-! ### structural equality of types (Rust's derived `PartialEq`) -/

mutual
def tyBeq : Ty → Ty → Bool
  | .unit, b => match b with | .unit => true | _ => false
  | .bool, b => match b with | .bool => true | _ => false
  | .string, b => match b with | .string => true | _ => false
  | .int n s, b => match b with | .int n' s' => n == n' && s == s' | _ => false
  | .float n, b => match b with | .float n' => n == n' | _ => false
  | .tuple ts, b => match b with | .tuple us => tysBeq ts us | _ => false
  | .enum n, b => match b with | .enum n' => n == n' | _ => false
  | .struct n, b => match b with | .struct n' => n == n' | _ => false
  | .dyn n, b => match b with | .dyn n' => n == n' | _ => false
  | .app t ts, b => match b with | .app u us => tyBeq t u && tysBeq ts us | _ => false
  | .array n e, b => match b with | .array n' e' => n == n' && tyBeq e e' | _ => false
  | .vec e, b => match b with | .vec e' => tyBeq e e' | _ => false
  | .ref e, b => match b with | .ref e' => tyBeq e e' | _ => false
  | .param n, b => match b with | .param n' => n == n' | _ => false
  | .func ps r, b => match b with | .func qs r' => tysBeq ps qs && tyBeq r r' | _ => false
  | .tvar n, b => match b with | .tvar n' => n == n' | _ => false
def tysBeq : List Ty → List Ty → Bool
  | [], us => match us with | [] => true | _ => false
  | t :: ts, us => match us with | u :: us' => tyBeq t u && tysBeq ts us' | [] => false
end

/-! ### substitutions (`IndexMap<String, Ty>`: insertion order, distinct keys) -/

abbrev Subst := List (String × Ty)

def lookup (σ : Subst) (x : String) : Option Ty :=
  match σ with
  | [] => none
  | (k, v) :: rest => if k == x then some v else lookup rest x

/-- `IndexMap::insert`: an existing key keeps its position and gets the new value -/
def insert (σ : Subst) (x : String) (v : Ty) : Subst :=
  match σ with
  | [] => [(x, v)]
  | (k, w) :: rest => if k == x then (k, v) :: rest else (k, w) :: insert rest x v

mutual
/-- `mono::subst_ty` -/
def substTy (σ : Subst) : Ty → Ty
  | .param n => (lookup σ n).getD (.param n)
  | .tuple ts => .tuple (substTys σ ts)
  | .app t args => .app (substTy σ t) (substTys σ args)
  | .array len e => .array len (substTy σ e)
  | .vec e => .vec (substTy σ e)
  | .ref e => .ref (substTy σ e)
  | .func ps r => .func (substTys σ ps) (substTy σ r)
  | t => t
def substTys (σ : Subst) : List Ty → List Ty
  | [] => []
  | t :: ts => substTy σ t :: substTys σ ts
end

mutual
/-- `mono::has_tparam` -/
def hasTParam : Ty → Bool
  | .param _ => true
  | .tuple ts => hasTParams ts
  | .app t args => hasTParam t || hasTParams args
  | .array _ e => hasTParam e
  | .vec e => hasTParam e
  | .ref e => hasTParam e
  | .func ps r => hasTParams ps || hasTParam r
  | _ => false
def hasTParams : List Ty → Bool
  | [] => false
  | t :: ts => hasTParam t || hasTParams ts
end

mutual
/-- `mono::unify(template, actual, subst)`; `none` = `Err` -/
def unify : Ty → Ty → Subst → Option Subst
  | .param n, a, σ =>
    match lookup σ n with
    | some prev => if tyBeq prev a then some σ else none
    | none => some (σ ++ [(n, a)])
  | .unit, a, σ => match a with | .unit => some σ | _ => none
  | .bool, a, σ => match a with | .bool => some σ | _ => none
  | .string, a, σ => match a with | .string => some σ | _ => none
  | .int b s, a, σ => match a with | .int b' s' => if b == b' && s == s' then some σ else none | _ => none
  | .float b, a, σ => match a with | .float b' => if b == b' then some σ else none | _ => none
  | .tuple l, a, σ =>
    match a with
    | .tuple r => if l.length != r.length then none else unifyList l r σ
    | _ => none
  | .enum ln, a, σ => match a with | .enum rn => if ln == rn then some σ else none | _ => none
  | .struct ln, a, σ => match a with | .struct rn => if ln == rn then some σ else none | _ => none
  | .app lt la, a, σ =>
    match a with
    | .app rt ra =>
      if la.length != ra.length then none
      else match unify lt rt σ with
        | some σ' => unifyList la ra σ'
        | none => none
    | _ => none
  | .array ll le, a, σ => match a with | .array rl re => if ll != rl then none else unify le re σ | _ => none
  | .ref le, a, σ => match a with | .ref re => unify le re σ | _ => none
  | .func lp lr, a, σ =>
    match a with
    | .func rp rr =>
      if lp.length != rp.length then none
      else match unifyList lp rp σ with
        | some σ' => unify lr rr σ'
        | none => none
    | _ => none
  | .vec le, a, σ => match a with | .vec re => unify le re σ | _ => none
  | .dyn ln, a, σ => match a with | .dyn rn => if ln == rn then some σ else none | _ => none
  | .tvar _, _, _ => none
/-- the `for (a, b) in l.iter().zip(r.iter())` loops (stop at the shorter list) -/
def unifyList : List Ty → List Ty → Subst → Option Subst
  | [], _, σ => some σ
  | t :: ts, as, σ =>
    match as with
    | [] => some σ
    | a :: as' =>
      match unify t a σ with
      | some σ' => unifyList ts as' σ'
      | none => none
end

/-! ### instance keys and names -/

def keyLe (a b : String) : Bool := Mangle.nameLe a.toList b.toList

def insertByKey (p : String × Ty) : List (String × Ty) → List (String × Ty)
  | [] => [p]
  | q :: qs => if keyLe p.1 q.1 then p :: q :: qs else q :: insertByKey p qs

/-- `SubstKey::new`: the entries sorted by parameter name -/
def key : Subst → List (String × Ty)
  | [] => []
  | p :: ps => insertByKey p (key ps)

def entriesBeq : List (String × Ty) → List (String × Ty) → Bool
  | [], [] => true
  | (k, v) :: r, (k', v') :: r' => k == k' && tyBeq v v' && entriesBeq r r'
  | _, _ => false

/-- `mono::spec_name_for` -/
def specName (orig : String) (σ : Subst) : String :=
  String.ofList (Mangle.specNameFor orig.toList (σ.map fun p => (p.1.toList, toM p.2)))

/-! ### phase 1: specialisation of functions -/

structure Inst where
  name : String
  key : List (String × Ty)
  spec : String
  deriving Inhabited

structure Work where
  name : String
  subst : Subst
  spec : String
  deriving Inhabited

structure Ctx where
  instances : List Inst := []
  queued : List (String × List (String × Ty)) := []
  out : List Fn := []
  work : List Work := []
  /-- first place where the Rust would have panicked -/
  err : Option String := none
  deriving Inhabited

def Ctx.fail (c : Ctx) (msg : String) : Ctx :=
  match c.err with
  | some _ => c
  | none => { c with err := some msg }

def findInst (is : List Inst) (name : String) (k : List (String × Ty)) : Option Inst :=
  is.find? fun i => i.name == name && entriesBeq i.key k

/-- `Ctx::ensure_instance` -/
def ensureInstance (c : Ctx) (name : String) (s : Subst) : String × Ctx :=
  let k := key s
  match findInst c.instances name k with
  | some i => (i.spec, c)
  | none =>
    let spec := specName name s
    let c : Ctx := { c with instances := c.instances ++ [Inst.mk name k spec] }
    if c.queued.any (fun q => q.1 == name && entriesBeq q.2 k) then (spec, c)
    else (spec, { c with queued := c.queued ++ [(name, k)], work := c.work ++ [Work.mk name s spec] })

/-- `fn_is_generic` -/
def fnIsGeneric (f : Fn) : Bool :=
  !f.generics.isEmpty || f.params.any (fun p => hasTParam p.2) || hasTParam f.ret

/-- `orig_fns: IndexMap<String, core::Fn>` built by successive `insert`s -/
def insertFn (fs : List Fn) (f : Fn) : List Fn :=
  match fs with
  | [] => [f]
  | g :: rest => if g.name == f.name then f :: rest else g :: insertFn rest f

def origFns (fns : List Fn) : List Fn := fns.foldl insertFn []

def findFn (F : List Fn) (n : String) : Option Fn := F.find? (·.name == n)

/-- `names::parse_inherent_method_fn_name` -/
def parseInherent (n : String) : Option (String × String) :=
  (Mangle.parseInherent n.toList).map fun p => (String.ofList p.1, String.ofList p.2)

/-- `Ctx::new`: `inherent_method_index` lookup — the last generic `inherent#…` function with that
(base type, method) (`IndexMap::insert` overwrites) -/
def inherentIndex (F : List Fn) (base method : String) : Option Fn :=
  (F.filter fun f => !f.generics.isEmpty && f.name.startsWith "inherent#" &&
    (match parseInherent f.name with
     | some (b, m) => b == base && m == method
     | none => false)).getLast?

/-- one of the two lookups of the `ECall` case -/
def lookupBy (F : List Fn) (fname : String) : Gen.CalleeLookup → Option Fn
  | .asSpelled => findFn F fname
  | .inherentIndex =>
    match parseInherent fname with
    | some (b, m) => inherentIndex F b m
    | none => none

/-- callee lookup of the `ECall` case: the lookups in the order `Gen.calleeLookupOrder` (regenerated from
mono.rs: the name as Core spells it first, `inherent_method_index` only when that fails — so with
`impl[T] B[T]` and `impl B[int32]` both defining `m`, a call named `inherent#B#B[int32]#m` keeps meaning
the exact impl, as the typer resolved it) -/
def findCallee (F : List Fn) (fname : String) : Option Fn :=
  Gen.calleeLookupOrder.findSome? (lookupBy F fname)

def primTy : Prim → Ty
  | .unit => .unit
  | .bool _ => .bool
  | .int b s _ => .int b s
  | .float b _ => .float b
  | .str _ => .string

/-- `get_ty` (nodes whose annotation the dump drops take it from the sub-expression that carries it) -/
def getTy : Expr → Ty
  | .var _ t => t
  | .prim p => primTy p
  | .tag _ t => t
  | .constr _ t _ => t
  | .tuple t _ => t
  | .array t _ => t
  | .closure t _ _ => t
  | .letE _ _ b => getTy b
  | .matchE t _ _ _ => t
  | .ite _ t _ => getTy t
  | .while _ _ => .unit
  | .go _ => .unit
  | .cget _ _ t _ => t
  | .un _ t _ => t
  | .bin _ t _ _ => t
  | .call t _ _ => t
  | .toDyn _ _ t _ => t
  | .dynCall _ _ t _ _ => t
  | .traitCall _ _ t _ _ => t
  | .proj _ t _ => t

def getTys : List Expr → List Ty
  | [] => []
  | e :: es => getTy e :: getTys es

/-- `update_constructor_type` -/
def updateCtor (k : Ctor) (newTy : Ty) : Ctor :=
  match k, newTy with
  | .enum _ v i, .enum n => .enum n v i
  | .enum t v i, .app b _ => .enum ((constrName b).getD t) v i
  | .struct _, .struct n => .struct n
  | .struct t, .app b _ => .struct ((constrName b).getD t)
  | k, _ => k

/-- does `update_constructor_type` panic (`get_constr_name_unsafe` on a head that is no constructor) -/
def updateCtorPanics (newTy : Ty) : Bool :=
  match newTy with
  | .app b _ => (constrName b).isNone
  | _ => false

def substParams (σ : Subst) : List (String × Ty) → List (String × Ty)
  | [] => []
  | (x, t) :: rest => (x, substTy σ t) :: substParams σ rest

/-- `specialize_fn_value`: a generic function used as a value is specialised at the function type of
the use site; `none` = the name stays as it is -/
def specializeValue (F : List Fn) (x : String) (ty : Ty) (c : Ctx) : Option (String × Ctx) :=
  match findFn F x with
  | none => none
  | some callee =>
    if !fnIsGeneric callee then none
    else
      match ty with
      | .func params ret =>
        if params.length != callee.params.length then none
        else
          match unifyList (callee.params.map (·.2)) params [] with
          | none => none
          | some s1 =>
            match unify callee.ret ret s1 with
            | none => none
            | some cs => if cs.any (fun p => hasTParam p.2) then none else some (ensureInstance c callee.name cs)
      | _ => none

/-- the `EVar` case -/
def monoVar (F : List Fn) (σ : Subst) (x : String) (ty : Ty) (c : Ctx) : Expr × Ctx :=
  let nty := substTy σ ty
  match specializeValue F x nty c with
  | some r => (.var r.1 nty, r.2)
  | none => (.var x nty, c)

/-- the tail of the `ECall` case once callee and arguments are transformed -/
def resolveCall (F : List Fn) (nty : Ty) (f' : Expr) (args' : List Expr) (c : Ctx) : Expr × Ctx :=
  match f' with
  | .var fname fty =>
    match findCallee F fname with
    | none => (.call nty f' args', c)
    | some callee =>
      if !fnIsGeneric callee then (.call nty f' args', c)
      else
        match unifyList (callee.params.map (·.2)) (getTys args') [] with
        | none => (.call nty f' args', c.fail ("monomorphization unification failed for " ++ callee.name))
        | some s1 =>
          match unify callee.ret nty s1 with
          | none => (.call nty f' args', c.fail ("monomorphization return type unification failed for " ++ callee.name))
          | some cs =>
            if cs.any (fun p => hasTParam p.2) then (.call nty f' args', c)
            else
              let r := ensureInstance c callee.name cs
              (.call nty (.var r.1 fty) args', r.2)
  | _ => (.call nty f' args', c)

mutual
/-- `mono_expr` -/
def monoExpr (F : List Fn) (σ : Subst) : Expr → Ctx → Expr × Ctx
  | .var x ty, c => monoVar F σ x ty c
  | .prim p, c => (.prim p, c)
  | .tag i ty, c => (.tag i (substTy σ ty), c)
  | .constr k ty args, c =>
    let nty := substTy σ ty
    let r := monoList F σ args c
    (.constr (updateCtor k nty) nty r.1, if updateCtorPanics nty then r.2.fail "Expected a constructor type" else r.2)
  | .tuple ty items, c =>
    let r := monoList F σ items c
    (.tuple (substTy σ ty) r.1, r.2)
  | .array ty items, c =>
    let r := monoList F σ items c
    (.array (substTy σ ty) r.1, r.2)
  | .closure ty ps body, c =>
    let r := monoExpr F σ body c
    (.closure (substTy σ ty) (substParams σ ps) r.1, r.2)
  | .letE x v b, c =>
    let r1 := monoExpr F σ v c
    let r2 := monoExpr F σ b r1.2
    (.letE x r1.1 r2.1, r2.2)
  | .matchE ty s arms none, c =>
    let r1 := monoExpr F σ s c
    let r2 := monoArms F σ arms r1.2
    (.matchE (substTy σ ty) r1.1 r2.1 none, r2.2)
  | .matchE ty s arms (some d), c =>
    let r1 := monoExpr F σ s c
    let r2 := monoArms F σ arms r1.2
    let r3 := monoExpr F σ d r2.2
    (.matchE (substTy σ ty) r1.1 r2.1 (some r3.1), r3.2)
  | .ite cnd t e, c =>
    let r1 := monoExpr F σ cnd c
    let r2 := monoExpr F σ t r1.2
    let r3 := monoExpr F σ e r2.2
    (.ite r1.1 r2.1 r3.1, r3.2)
  | .while cnd b, c =>
    let r1 := monoExpr F σ cnd c
    let r2 := monoExpr F σ b r1.2
    (.while r1.1 r2.1, r2.2)
  | .go e, c =>
    let r := monoExpr F σ e c
    (.go r.1, r.2)
  | .cget k idx ty e, c =>
    let r := monoExpr F σ e c
    let scrutTy := substTy σ (getTy e)
    (.cget (updateCtor k scrutTy) idx (substTy σ ty) r.1,
      if updateCtorPanics scrutTy then r.2.fail "Expected a constructor type" else r.2)
  | .un op ty e, c =>
    let r := monoExpr F σ e c
    (.un op (substTy σ ty) r.1, r.2)
  | .bin op ty l r, c =>
    let r1 := monoExpr F σ l c
    let r2 := monoExpr F σ r r1.2
    (.bin op (substTy σ ty) r1.1 r2.1, r2.2)
  | .call ty (.var x fty) args, c =>
    -- a callee named directly is specialised by `resolveCall`, once the argument types are known
    let r2 := monoList F σ args c
    resolveCall F (substTy σ ty) (.var x (substTy σ fty)) r2.1 r2.2
  | .call ty f args, c =>
    let r1 := monoExpr F σ f c
    let r2 := monoList F σ args r1.2
    resolveCall F (substTy σ ty) r1.1 r2.1 r2.2
  | .toDyn tr forTy ty e, c =>
    let r := monoExpr F σ e c
    (.toDyn tr (substTy σ forTy) (substTy σ ty) r.1, r.2)
  | .dynCall tr m ty recv args, c =>
    let r1 := monoExpr F σ recv c
    let r2 := monoList F σ args r1.2
    (.dynCall tr m (substTy σ ty) r1.1 r2.1, r2.2)
  | .traitCall tr m ty recv args, c =>
    let r1 := monoExpr F σ recv c
    let r2 := monoList F σ args r1.2
    let all := r1.1 :: r2.1
    let nty := substTy σ ty
    (.call nty (.var (traitImplFnName tr (getTy r1.1) m) (.func (getTys all) nty)) all, r2.2)
  | .proj idx ty e, c =>
    let r := monoExpr F σ e c
    (.proj idx (substTy σ ty) r.1, r.2)
def monoList (F : List Fn) (σ : Subst) : List Expr → Ctx → List Expr × Ctx
  | [], c => ([], c)
  | e :: es, c =>
    let r1 := monoExpr F σ e c
    let r2 := monoList F σ es r1.2
    (r1.1 :: r2.1, r2.2)
def monoArms (F : List Fn) (σ : Subst) : List Arm → Ctx → List Arm × Ctx
  | [], c => ([], c)
  | .mk lhs body :: rest, c =>
    let r1 := monoExpr F σ lhs c
    let r2 := monoExpr F σ body r1.2
    let r3 := monoArms F σ rest r2.2
    (.mk r1.1 r2.1 :: r3.1, r3.2)
end

/-- the seeds of the work list: every non-generic function, at the empty substitution -/
def seed (F : List Fn) : Ctx :=
  (F.filter fun f => !fnIsGeneric f).foldl (fun c f => (ensureInstance c f.name []).2) {}

/-- one iteration of `while let Some(..) = ctx.work.pop_front()` -/
def step (F : List Fn) (c : Ctx) : Option Ctx :=
  match c.work with
  | [] => none
  | w :: rest =>
    match findFn F w.name with
    | none => some ({ c with work := rest }.fail ("unknown function: " ++ w.name))
    | some f =>
      let r := monoExpr F w.subst f.body { c with work := rest }
      some { r.2 with out := r.2.out ++ [{ name := w.spec, generics := [], params := substParams w.subst f.params,
                                           ret := substTy w.subst f.ret, body := r.1 }] }

/-- the work-list loop; `none` = fuel exhausted with work left (the Rust keeps running) -/
def loop (F : List Fn) : Nat → Ctx → Option Ctx
  | 0, c => if c.work.isEmpty then some c else none
  | fuel + 1, c =>
    match step F c with
    | none => some c
    | some c' => loop F fuel c'

def phase1 (fuel : Nat) (fns : List Fn) : Option Ctx :=
  let F := origFns fns
  loop F fuel (seed F)

/-! ### phase 2: generic enum/struct applications become monomorphic definitions -/

structure TM where
  enumBase : List EnumDef
  structBase : List StructDef
  map : List ((String × List Ty) × String) := []
  monoEnums : List EnumDef := []
  monoStructs : List StructDef := []
  err : Option String := none
  deriving Inhabited

def TM.fail (m : TM) (msg : String) : TM :=
  match m.err with
  | some _ => m
  | none => { m with err := some msg }

def findEnum (es : List EnumDef) (n : String) : Option EnumDef := es.find? (·.name == n)
def findStruct (ss : List StructDef) (n : String) : Option StructDef := ss.find? (·.name == n)

/-- `TypeMono::ensure_instance`: name of the instance -/
def monoTypeName (name : String) (args : List Ty) : String :=
  String.ofList (Mangle.monoTypeName name.toList (toMs args))

def zipSubst : List String → List Ty → Subst → Subst
  | g :: gs, a :: as, σ => zipSubst gs as (insert σ g a)
  | _, _, σ => σ

def insertEnum (es : List EnumDef) (d : EnumDef) : List EnumDef :=
  match es with
  | [] => [d]
  | e :: rest => if e.name == d.name then d :: rest else e :: insertEnum rest d

def insertStruct (ss : List StructDef) (d : StructDef) : List StructDef :=
  match ss with
  | [] => [d]
  | s :: rest => if s.name == d.name then d :: rest else s :: insertStruct rest d

def findMap (m : List ((String × List Ty) × String)) (name : String) (args : List Ty) : Option String :=
  (m.find? fun e => e.1.1 == name && tysBeq e.1.2 args).map (·.2)

mutual
/-- `TypeMono::collapse_type_apps`; every recursive call consumes one unit of fuel (the Rust
recursion is bounded only by the memo table `map`) -/
def collapse : Nat → Ty → TM → Ty × TM
  | 0, t, m => (t, m.fail "fuel")
  | fuel + 1, t, m =>
    match t with
    | .app base args =>
      if args.isEmpty then
        let r := collapse fuel base m
        (.app r.1 [], r.2)
      else
        match constrName base with
        | none => (t, m.fail "Expected a constructor type")
        | some bn =>
          if (findEnum m.enumBase bn).isSome then
            let r := ensureTy fuel bn args m
            (.enum r.1, r.2)
          else if (findStruct m.structBase bn).isSome then
            let r := ensureTy fuel bn args m
            (.struct r.1, r.2)
          else
            let r1 := collapse fuel base m
            let r2 := collapseList fuel args r1.2
            (.app r1.1 r2.1, r2.2)
    | .tuple ts =>
      let r := collapseList fuel ts m
      (.tuple r.1, r.2)
    | .func ps ret =>
      let r1 := collapseList fuel ps m
      let r2 := collapse fuel ret r1.2
      (.func r1.1 r2.1, r2.2)
    | .array len e =>
      let r := collapse fuel e m
      (.array len r.1, r.2)
    | .ref e =>
      let r := collapse fuel e m
      (.ref r.1, r.2)
    | .vec e =>
      let r := collapse fuel e m
      (.vec r.1, r.2)
    | t => (t, m)
def collapseList : Nat → List Ty → TM → List Ty × TM
  | 0, ts, m => (ts, m.fail "fuel")
  | fuel + 1, ts, m =>
    match ts with
    | [] => ([], m)
    | t :: rest =>
      let r1 := collapse fuel t m
      let r2 := collapseList fuel rest r1.2
      (r1.1 :: r2.1, r2.2)
/-- fields of one variant / of a struct: substitute, then collapse -/
def collapseFields : Nat → Subst → List Ty → TM → List Ty × TM
  | 0, _, ts, m => (ts, m.fail "fuel")
  | fuel + 1, σ, ts, m =>
    match ts with
    | [] => ([], m)
    | t :: rest =>
      let r1 := collapse fuel (substTy σ t) m
      let r2 := collapseFields fuel σ rest r1.2
      (r1.1 :: r2.1, r2.2)
def collapseVariants : Nat → Subst → List (String × List Ty) → TM → List (String × List Ty) × TM
  | 0, _, vs, m => (vs, m.fail "fuel")
  | fuel + 1, σ, vs, m =>
    match vs with
    | [] => ([], m)
    | (vn, fs) :: rest =>
      let r1 := collapseFields fuel σ fs m
      let r2 := collapseVariants fuel σ rest r1.2
      ((vn, r1.1) :: r2.1, r2.2)
def collapseNamed : Nat → Subst → List (String × Ty) → TM → List (String × Ty) × TM
  | 0, _, fs, m => (fs, m.fail "fuel")
  | fuel + 1, σ, fs, m =>
    match fs with
    | [] => ([], m)
    | (fnm, t) :: rest =>
      let r1 := collapse fuel (substTy σ t) m
      let r2 := collapseNamed fuel σ rest r1.2
      ((fnm, r1.1) :: r2.1, r2.2)
/-- `TypeMono::ensure_instance` -/
def ensureTy : Nat → String → List Ty → TM → String × TM
  | 0, name, args, m => (monoTypeName name args, m.fail "fuel")
  | fuel + 1, name, args, m =>
    match findMap m.map name args with
    | some u => (u, m)
    | none =>
      let newName := monoTypeName name args
      let m := { m with map := m.map ++ [((name, args), newName)] }
      match findEnum m.enumBase name with
      | some d =>
        let m := if d.generics.length != args.length then m.fail ("enum generic argument length mismatch for " ++ name) else m
        let r := collapseVariants fuel (zipSubst d.generics args []) d.variants m
        (newName, { r.2 with monoEnums := insertEnum r.2.monoEnums { name := newName, generics := [], variants := r.1 } })
      | none =>
        match findStruct m.structBase name with
        | some d =>
          let m := if d.generics.length != args.length then m.fail ("struct generic argument length mismatch for " ++ name) else m
          let r := collapseNamed fuel (zipSubst d.generics args []) d.fields m
          (newName, { r.2 with monoStructs := insertStruct r.2.monoStructs { name := newName, generics := [], fields := r.1 } })
        | none => (newName, m)
end

def collapseParams (fuel : Nat) : List (String × Ty) → TM → List (String × Ty) × TM
  | [], m => ([], m)
  | (x, t) :: rest, m =>
    let r1 := collapse fuel t m
    let r2 := collapseParams fuel rest r1.2
    ((x, r1.1) :: r2.1, r2.2)

mutual
/-- `rewrite_expr_types` (children and annotation in the order the Rust evaluates them) -/
def rewriteExpr (fuel : Nat) : Expr → TM → Expr × TM
  | .var x ty, m =>
    let r := collapse fuel ty m
    (.var x r.1, r.2)
  | .prim p, m => (.prim p, m)
  | .tag i ty, m =>
    let r := collapse fuel ty m
    (.tag i r.1, r.2)
  | .constr k ty args, m =>
    let r1 := collapse fuel ty m
    let r2 := rewriteList fuel args r1.2
    (.constr (updateCtor k r1.1) r1.1 r2.1, r2.2)
  | .tuple ty items, m =>
    let r1 := rewriteList fuel items m
    let r2 := collapse fuel ty r1.2
    (.tuple r2.1 r1.1, r2.2)
  | .array ty items, m =>
    let r1 := rewriteList fuel items m
    let r2 := collapse fuel ty r1.2
    (.array r2.1 r1.1, r2.2)
  | .closure ty ps body, m =>
    let r1 := collapseParams fuel ps m
    let r2 := rewriteExpr fuel body r1.2
    let r3 := collapse fuel ty r2.2
    (.closure r3.1 r1.1 r2.1, r3.2)
  | .letE x v b, m =>
    let r1 := rewriteExpr fuel v m
    let r2 := rewriteExpr fuel b r1.2
    (.letE x r1.1 r2.1, r2.2)
  | .matchE ty s arms none, m =>
    let r1 := rewriteExpr fuel s m
    let r2 := rewriteArms fuel arms r1.2
    let r4 := collapse fuel ty r2.2
    (.matchE r4.1 r1.1 r2.1 none, r4.2)
  | .matchE ty s arms (some d), m =>
    let r1 := rewriteExpr fuel s m
    let r2 := rewriteArms fuel arms r1.2
    let r3 := rewriteExpr fuel d r2.2
    let r4 := collapse fuel ty r3.2
    (.matchE r4.1 r1.1 r2.1 (some r3.1), r4.2)
  | .ite cnd t e, m =>
    let r1 := rewriteExpr fuel cnd m
    let r2 := rewriteExpr fuel t r1.2
    let r3 := rewriteExpr fuel e r2.2
    (.ite r1.1 r2.1 r3.1, r3.2)
  | .while cnd b, m =>
    let r1 := rewriteExpr fuel cnd m
    let r2 := rewriteExpr fuel b r1.2
    (.while r1.1 r2.1, r2.2)
  | .go e, m =>
    let r := rewriteExpr fuel e m
    (.go r.1, r.2)
  | .cget k idx ty e, m =>
    let r1 := rewriteExpr fuel e m
    let r2 := collapse fuel ty r1.2
    (.cget (updateCtor k (getTy r1.1)) idx r2.1 r1.1, r2.2)
  | .un op ty e, m =>
    let r1 := rewriteExpr fuel e m
    let r2 := collapse fuel ty r1.2
    (.un op r2.1 r1.1, r2.2)
  | .bin op ty l r, m =>
    let r1 := rewriteExpr fuel l m
    let r2 := rewriteExpr fuel r r1.2
    let r3 := collapse fuel ty r2.2
    (.bin op r3.1 r1.1 r2.1, r3.2)
  | .call ty f args, m =>
    let r1 := rewriteExpr fuel f m
    let r2 := rewriteList fuel args r1.2
    let r3 := collapse fuel ty r2.2
    (.call r3.1 r1.1 r2.1, r3.2)
  | .toDyn tr forTy ty e, m =>
    let r1 := collapse fuel forTy m
    let r2 := rewriteExpr fuel e r1.2
    let r3 := collapse fuel ty r2.2
    (.toDyn tr r1.1 r3.1 r2.1, r3.2)
  | .dynCall tr mth ty recv args, m =>
    let r1 := rewriteExpr fuel recv m
    let r2 := rewriteList fuel args r1.2
    let r3 := collapse fuel ty r2.2
    (.dynCall tr mth r3.1 r1.1 r2.1, r3.2)
  | .traitCall tr mth ty recv args, m =>
    let r1 := rewriteExpr fuel recv m
    let r2 := rewriteList fuel args r1.2
    let r3 := collapse fuel ty r2.2
    (.traitCall tr mth r3.1 r1.1 r2.1, r3.2)
  | .proj idx ty e, m =>
    let r1 := rewriteExpr fuel e m
    let r2 := collapse fuel ty r1.2
    (.proj idx r2.1 r1.1, r2.2)
def rewriteList (fuel : Nat) : List Expr → TM → List Expr × TM
  | [], m => ([], m)
  | e :: es, m =>
    let r1 := rewriteExpr fuel e m
    let r2 := rewriteList fuel es r1.2
    (r1.1 :: r2.1, r2.2)
def rewriteArms (fuel : Nat) : List Arm → TM → List Arm × TM
  | [], m => ([], m)
  | .mk lhs body :: rest, m =>
    let r1 := rewriteExpr fuel lhs m
    let r2 := rewriteExpr fuel body r1.2
    let r3 := rewriteArms fuel rest r2.2
    (.mk r1.1 r2.1 :: r3.1, r3.2)
end

def rewriteFn (fuel : Nat) (f : Fn) (m : TM) : Fn × TM :=
  let r1 := collapseParams fuel f.params m
  let r2 := collapse fuel f.ret r1.2
  let r3 := rewriteExpr fuel f.body r2.2
  ({ f with params := r1.1, ret := r2.1, body := r3.1 }, r3.2)

def rewriteFns (fuel : Nat) : List Fn → TM → List Fn × TM
  | [], m => ([], m)
  | f :: fs, m =>
    let r1 := rewriteFn fuel f m
    let r2 := rewriteFns fuel fs r1.2
    (r1.1 :: r2.1, r2.2)

structure Out where
  fns : List Fn
  monoEnums : List EnumDef
  monoStructs : List StructDef
  /-- `monoenv.mono_funcs` -/
  funcs : List (String × Ty)
  err : Option String
  deriving Inhabited

def insertFunc (fs : List (String × Ty)) (n : String) (t : Ty) : List (String × Ty) :=
  match fs with
  | [] => [(n, t)]
  | (k, v) :: rest => if k == n then (k, t) :: rest else (k, v) :: insertFunc rest n t

/-- `mono::mono`; `none` = the work list did not empty within `fuel` iterations -/
def mono (fuel tyFuel : Nat) (enums : List EnumDef) (structs : List StructDef) (fns : List Fn) : Option Out :=
  match phase1 fuel fns with
  | none => none
  | some c =>
    let r := rewriteFns tyFuel c.out { enumBase := enums, structBase := structs }
    some { fns := r.1, monoEnums := r.2.monoEnums, monoStructs := r.2.monoStructs,
           funcs := r.1.foldl (fun acc f => insertFunc acc f.name (.func (f.params.map (·.2)) f.ret)) [],
           err := match c.err with | some e => some e | none => r.2.err }

end Goml.Mono
