import GomlVerif.Model.Syntax
import GomlVerif.Model.Sem
import GomlVerif.Model.LiftSim
/-
`monoOk`: a decidable structural check of a Core program `P` against its monomorphised form `P'`
(`Model/Mono.lean`, both phases), used by the pipeline composition (`Props/C01pipe.lean`).

`pairs` lists (Core function, Mono instance) — what `mono.rs` keeps in `Ctx.instances`.  The
check walks the body of every Core function next to the body of each of its instances and accepts
when the instance is the Core body with

* every type annotation replaced by anything (`Sem` never reads an annotation except the two
  mentioned below),
* every reference to a top-level function replaced by a reference to one of ITS instances
  (`fnOk`: a name that is a function of neither program — a local, a builtin, an extern — stays),
* constructors renamed to another type name with the same variant index (phase 2 of `mono`
  turns `Point[int32]` into `Point__int32`; `Sem` compares indices only),
* `ToDyn` keeping its trait and the dispatch key of its type, every implementation row of that
  key naming a function that denotes the same thing on both sides.

Binders (`let`, parameters, closure parameters) must not be spelled like a function of either
program, so that a renamed function reference cannot be captured.  `ETraitCall` is rejected: its
`Sem` meaning dispatches on the runtime value, `mono` resolves it by the static type, and that
the two agree is a typing invariant no theorem here provides (`traitcall_commutes` in C07 takes
it as a hypothesis).  A struct type with a user method `apply` is rejected, because `Sem.apply`
reads `inherent#S#S#apply` off a struct value (the representation of lifted closures).

`Lemmas/PipeMonoSim.lean` proves that an accepted pair is a lock-step simulation under `Sem`.
Import-free apart from other `Model/` files.
-/
namespace Goml.MonoSim
open Goml

structure Cx where
  P : Prog
  P' : Prog
  pairs : List (String × String)

/-- a name that is a function of neither program -/
def noGlobal (c : Cx) (x : String) : Bool := (c.P.findFn x).isNone && (c.P'.findFn x).isNone

def pairMem (c : Cx) (x x' : String) : Bool := c.pairs.any (fun p => p.1 == x && p.2 == x')

/-- `x'` in `P'` denotes what `x` denotes in `P` -/
def fnOk (c : Cx) (x x' : String) : Bool := (x == x' && noGlobal c x) || pairMem c x x'

/-- the name `Sem.apply` looks up for a struct value -/
def applyName (n : String) : String := "inherent#" ++ n ++ "#" ++ n ++ "#apply"

def structOk (c : Cx) (n n' : String) : Bool :=
  (c.P.findFn (applyName n)).isNone && (c.P'.findFn (applyName n')).isNone

def ctorOk (c : Cx) : Ctor → Ctor → Bool
  | .enum _ _ i, k' => match k' with | .enum _ _ j => i == j | _ => false
  | .struct n, k' => match k' with | .struct n' => structOk c n n' | _ => false

/-- every implementation row for the dispatch key names a function that means the same on both
    sides (`Sem`'s `dynCall` looks the row up by the trait written at the CALL and the key carried by
    the VALUE, so the condition is per key, for every trait) -/
def dynOk (c : Cx) (key : String) : Bool :=
  c.P.impls.all (fun r => !(r.2.1 == key) || fnOk c r.2.2.2 r.2.2.2)

def namesOk (c : Cx) (ps ps' : List (String × Ty)) : Bool :=
  ps.map (·.1) == ps'.map (·.1) && ps.all (fun p => noGlobal c p.1)

mutual
def eOk (c : Cx) : Expr → Expr → Bool
  | .var x _, e' => match e' with | .var x' _ => fnOk c x x' | _ => false
  | .prim p, e' => match e' with | .prim q => Lift.primEq p q | _ => false
  | .tag i _, e' => match e' with | .tag j _ => i == j | _ => false
  | .constr k _ args, e' =>
    match e' with
    | .constr k' _ args' => ctorOk c k k' && eOkL c args args'
    | _ => false
  | .tuple _ items, e' => match e' with | .tuple _ items' => eOkL c items items' | _ => false
  | .array _ items, e' => match e' with | .array _ items' => eOkL c items items' | _ => false
  | .closure _ ps body, e' =>
    match e' with
    | .closure _ ps' body' => namesOk c ps ps' && eOk c body body'
    | _ => false
  | .letE x v b, e' =>
    match e' with
    | .letE x' v' b' => x == x' && noGlobal c x && eOk c v v' && eOk c b b'
    | _ => false
  | .matchE _ s arms d, e' =>
    match e' with
    | .matchE _ s' arms' d' => eOk c s s' && eOkA c arms arms' && eOkO c d d'
    | _ => false
  | .ite a t e, e' =>
    match e' with
    | .ite a' t' e2' => eOk c a a' && eOk c t t' && eOk c e e2'
    | _ => false
  | .while a b, e' => match e' with | .while a' b' => eOk c a a' && eOk c b b' | _ => false
  | .go e, e' => match e' with | .go e2' => eOk c e e2' | _ => false
  | .cget _ i _ e, e' => match e' with | .cget _ i' _ e2' => i == i' && eOk c e e2' | _ => false
  | .un op _ e, e' => match e' with | .un op' _ e2' => decide (op = op') && eOk c e e2' | _ => false
  | .bin op _ l r, e' =>
    match e' with
    | .bin op' _ l' r' => decide (op = op') && eOk c l l' && eOk c r r'
    | _ => false
  | .call _ f args, e' =>
    match e' with
    | .call _ f' args' => eOk c f f' && eOkL c args args'
    | _ => false
  | .toDyn tr forTy _ e, e' =>
    match e' with
    | .toDyn tr' forTy' _ e2' =>
      tr == tr' && Sem.tyKey forTy == Sem.tyKey forTy' && dynOk c (Sem.tyKey forTy) && eOk c e e2'
    | _ => false
  | .dynCall tr m _ recv args, e' =>
    match e' with
    | .dynCall tr' m' _ recv' args' => tr == tr' && m == m' && eOk c recv recv' && eOkL c args args'
    | _ => false
  | .traitCall _ _ _ _ _, _ => false
  | .proj i _ e, e' => match e' with | .proj i' _ e2' => i == i' && eOk c e e2' | _ => false
termination_by structural e _ => e
def eOkL (c : Cx) : List Expr → List Expr → Bool
  | [], es' => match es' with | [] => true | _ :: _ => false
  | e :: es, es' => match es' with | e' :: rest' => eOk c e e' && eOkL c es rest' | [] => false
termination_by structural es _ => es
def eOkO (c : Cx) : Option Expr → Option Expr → Bool
  | none, d' => match d' with | none => true | some _ => false
  | some d, d' => match d' with | some d' => eOk c d d' | none => false
termination_by structural d _ => d
def eOkA (c : Cx) : List Arm → List Arm → Bool
  | [], as' => match as' with | [] => true | _ :: _ => false
  | .mk lhs body :: rest, as' =>
    match as' with
    | .mk lhs' body' :: rest' =>
      Lift.headEq (Lift.armHead lhs) (Lift.armHead lhs') && eOk c body body' && eOkA c rest rest'
    | [] => false
termination_by structural as _ => as
end

/-- a Core function and one of its instances -/
def fnPairOk (c : Cx) (f g : Fn) : Bool := namesOk c f.params g.params && eOk c f.body g.body

def pairOk (c : Cx) (p : String × String) : Bool :=
  match c.P.findFn p.1, c.P'.findFn p.2 with
  | some f, some g => fnPairOk c f g
  | _, _ => false

/-- every listed (function, instance) pair is accepted, the dispatch table is unchanged, and
    `main` is its own instance -/
def monoOk (c : Cx) : Bool :=
  c.pairs.all (pairOk c) && decide (c.P.impls = c.P'.impls) && pairMem c "main" "main"

/-! ### why a program is rejected (reports only; the verdict is `monoOk`) -/

mutual
partial def whyE (c : Cx) : Expr → Expr → Option String
  | .var x _, .var x' _ => if fnOk c x x' then none else some ("fn-ref:" ++ x)
  | .prim p, .prim q => if Lift.primEq p q then none else some "prim"
  | .tag i _, .tag j _ => if i == j then none else some "tag"
  | .constr k _ args, .constr k' _ args' =>
    if ctorOk c k k' then whyL c args args'
    else match k with | .struct _ => some "struct-with-apply-method" | _ => some "ctor"
  | .tuple _ a, .tuple _ b => whyL c a b
  | .array _ a, .array _ b => whyL c a b
  | .closure _ ps b, .closure _ ps' b' => if namesOk c ps ps' then whyE c b b' else some "binder-spelled-like-function"
  | .letE x v b, .letE x' v' b' =>
    if x == x' && noGlobal c x then (whyE c v v').orElse fun _ => whyE c b b' else some "binder-spelled-like-function"
  | .matchE _ s arms d, .matchE _ s' arms' d' =>
    (whyE c s s').orElse fun _ => (whyA c arms arms').orElse fun _ =>
      match d, d' with
      | some d, some d' => whyE c d d'
      | none, none => none
      | _, _ => some "shape"
  | .ite a t e, .ite a' t' e' => (whyE c a a').orElse fun _ => (whyE c t t').orElse fun _ => whyE c e e'
  | .while a b, .while a' b' => (whyE c a a').orElse fun _ => whyE c b b'
  | .go e, .go e' => whyE c e e'
  | .cget _ i _ e, .cget _ i' _ e' => if i == i' then whyE c e e' else some "cget"
  | .un op _ e, .un op' _ e' => if op == op' then whyE c e e' else some "op"
  | .bin op _ l r, .bin op' _ l' r' => if op == op' then (whyE c l l').orElse fun _ => whyE c r r' else some "op"
  | .call _ f args, .call _ f' args' => (whyE c f f').orElse fun _ => whyL c args args'
  | .toDyn tr ft _ e, .toDyn tr' ft' _ e' =>
    if !(tr == tr' && Sem.tyKey ft == Sem.tyKey ft') then some "dyn-key-changed"
    else if !dynOk c (Sem.tyKey ft) then some "dyn-impl-not-instantiated"
    else whyE c e e'
  | .dynCall tr m _ r args, .dynCall tr' m' _ r' args' =>
    if tr == tr' && m == m' then (whyE c r r').orElse fun _ => whyL c args args' else some "dyncall"
  | .traitCall .., _ => some "traitcall"
  | .proj i _ e, .proj i' _ e' => if i == i' then whyE c e e' else some "proj"
  | _, _ => some "shape"
partial def whyL (c : Cx) : List Expr → List Expr → Option String
  | [], [] => none
  | e :: es, e' :: es' => (whyE c e e').orElse fun _ => whyL c es es'
  | _, _ => some "shape"
partial def whyA (c : Cx) : List Arm → List Arm → Option String
  | [], [] => none
  | .mk l b :: rest, .mk l' b' :: rest' =>
    if Lift.headEq (Lift.armHead l) (Lift.armHead l') then (whyE c b b').orElse fun _ => whyA c rest rest'
    else some "arm-head"
  | _, _ => some "shape"
end

def whyNot (c : Cx) : Option String :=
  if !pairMem c "main" "main" then some "no-main-instance"
  else if !decide (c.P.impls = c.P'.impls) then some "impls"
  else c.pairs.findSome? fun p =>
    match c.P.findFn p.1, c.P'.findFn p.2 with
    | some f, some g =>
      if !namesOk c f.params g.params then some "binder-spelled-like-function" else whyE c f.body g.body
    | _, _ => some "pair-not-found"

end Goml.MonoSim
