/-
C10 — numbers.  Executable model of goml's numeric pipeline (import-free).

Literals (what the Rust does today, read from the sources named in each doc comment):

  token text  `[0-9]+` + optional suffix            lexer/src/lib.rs  (regexes: `Gen/NumTypes.lexRules`)
  → digits    suffix stripped                        ast/src/lower.rs  (`strip_suffix`)
  → type      from the *form* only (suffix, or int32 / float64 when unsuffixed; an annotation never
              changes it)                            typer/check.rs `infer_expr`  (`Gen/NumTypes.litForms`)
  → accept?   `str::parse::<iN/uN>` succeeds         typer/check.rs `parse_signed_integer` / `parse_unsigned_integer`
  → value     parsed *again*, `unwrap_or(0)`         typer/tast_builder.rs `parse_signed` / `parse_unsigned`
  → Go text   `value.to_string()`                    go/compile.rs `go_literal_from_primitive`, go_pprint.rs `Expr::Int`
  → Go value  untyped constant converted to the declared Go type (`var x int8 = 5`).

Operators: goml operator → `goast::Go*Op` → printed symbol (tables in `Gen/OpMap`); the *source* meaning is
given on mathematical integers with an explicit wrap (`semBinInt`), the *Go* meaning on machine words
(`goBinInt`, two's complement `BitVec`), so that `Props/C10.opmap_faithful` has content.
-/
namespace Goml.Num

/-! ## integer types -/

/-- an integer type = signedness and width; determined by the Rust carrier type of its `Prim` variant -/
structure IntTy where
  signed : Bool
  bits : Nat
  deriving DecidableEq, Repr

/-- `common.rs` `Prim::IntN { value: iN }`: the carrier type fixes range and wrap-around -/
def IntTy.ofRust : String → Option IntTy
  | "i8" => some ⟨true, 8⟩ | "i16" => some ⟨true, 16⟩ | "i32" => some ⟨true, 32⟩ | "i64" => some ⟨true, 64⟩
  | "u8" => some ⟨false, 8⟩ | "u16" => some ⟨false, 16⟩ | "u32" => some ⟨false, 32⟩ | "u64" => some ⟨false, 64⟩
  | _ => none

/-- what the Go specification says about the predeclared sized integer types -/
def IntTy.ofGo : String → Option IntTy
  | "int8" => some ⟨true, 8⟩ | "int16" => some ⟨true, 16⟩ | "int32" => some ⟨true, 32⟩ | "int64" => some ⟨true, 64⟩
  | "uint8" => some ⟨false, 8⟩ | "uint16" => some ⟨false, 16⟩ | "uint32" => some ⟨false, 32⟩ | "uint64" => some ⟨false, 64⟩
  | _ => none

def IntTy.minVal (t : IntTy) : Int := if t.signed then -(2 ^ (t.bits - 1)) else 0
def IntTy.maxVal (t : IntTy) : Int := if t.signed then 2 ^ (t.bits - 1) - 1 else 2 ^ t.bits - 1

/-- the mathematical range of the type -/
def IntTy.InRange (t : IntTy) (v : Int) : Prop := t.minVal ≤ v ∧ v ≤ t.maxVal

instance (t : IntTy) (v : Int) : Decidable (t.InRange v) := by unfold IntTy.InRange; exact inferInstance

/-! ## decimal digits -/

def digitVal (c : Char) : Option Nat :=
  if 48 ≤ c.toNat ∧ c.toNat ≤ 57 then some (c.toNat - 48) else none

def isDigit (c : Char) : Bool := (digitVal c).isSome

/-- value of a digit string, most significant digit first; non-digits count as 0 (only used on digit strings) -/
def decVal (cs : List Char) : Nat := cs.foldl (fun a c => a * 10 + (digitVal c).getD 0) 0

/-- a literal token body as the lexer produces it: one or more ASCII digits -/
def IsDigits (cs : List Char) : Prop := cs ≠ [] ∧ ∀ c ∈ cs, isDigit c = true

instance (cs : List Char) : Decidable (IsDigits cs) := by unfold IsDigits; exact inferInstance

/-! ## `str::parse::<iN/uN>` (core::num `from_str_radix`, radix 10) -/

inductive ParseErr where
  | empty | invalidDigit | posOverflow | negOverflow
  deriving DecidableEq, Repr

/-- positive accumulation: `result = result.checked_mul(10)?.checked_add(d)?` -/
def accPos (hi : Int) : Int → List Char → Except ParseErr Int
  | acc, [] => .ok acc
  | acc, c :: cs =>
    match digitVal c with
    | none => .error .invalidDigit
    | some d => if acc * 10 + d > hi then .error .posOverflow else accPos hi (acc * 10 + d) cs

/-- negative accumulation: `result = result.checked_mul(10)?.checked_sub(d)?` -/
def accNeg (lo : Int) : Int → List Char → Except ParseErr Int
  | acc, [] => .ok acc
  | acc, c :: cs =>
    match digitVal c with
    | none => .error .invalidDigit
    | some d => if acc * 10 - d < lo then .error .negOverflow else accNeg lo (acc * 10 - d) cs

/-- `<iN/uN as FromStr>::from_str`: optional sign (`-` only for signed types), then digits -/
def parseInt (t : IntTy) (s : List Char) : Except ParseErr Int :=
  match s with
  | [] => .error .empty
  | c :: rest =>
    if (c = '+' ∨ c = '-') ∧ rest = [] then .error .invalidDigit
    else if c = '+' then accPos t.maxVal 0 rest
    else if c = '-' ∧ t.signed = true then accNeg t.minVal 0 rest
    else accPos t.maxVal 0 (c :: rest)

/-! ## the compiler's literal check and the value it builds -/

inductive LitResult where
  | accept (v : Int)
  | doesNotFit          -- "Integer literal … does not fit in …"
  | invalid             -- "Invalid integer literal: …"
  deriving DecidableEq, Repr

def classify : Except ParseErr Int → LitResult
  | .ok v => .accept v
  | .error .empty => .invalid
  | .error .invalidDigit => .invalid
  | .error .posOverflow => .doesNotFit
  | .error .negOverflow => .doesNotFit

/-- `check.rs` `parse_signed_integer` (`unsignedPath = false`) / `parse_unsigned_integer` (`true`:
    a leading `-` is refused before parsing) at carrier type `t` -/
def checkLit (unsignedPath : Bool) (t : IntTy) (s : List Char) : LitResult :=
  if unsignedPath = true ∧ s.head? = some '-' then .doesNotFit else classify (parseInt t s)

/-- `tast_builder.rs` `parse_signed(&value).unwrap_or(0)` / `parse_unsigned(…)`: the value that reaches Core -/
def builderValue (unsignedPath : Bool) (t : IntTy) (s : List Char) : Int :=
  if unsignedPath = true ∧ s.head? = some '-' then 0
  else match parseInt t s with
    | .ok v => v
    | .error _ => 0

/-! ## printing a value as a Go literal, and Go's reading of it -/

def digitChar (d : Nat) : Char :=
  match d with
  | 0 => '0' | 1 => '1' | 2 => '2' | 3 => '3' | 4 => '4'
  | 5 => '5' | 6 => '6' | 7 => '7' | 8 => '8' | _ => '9'

/-- Rust `u64::to_string` / Go `%d` of a non-negative number: shortest decimal, no leading zeros -/
def natToDec (n : Nat) : List Char :=
  if n < 10 then [digitChar n] else natToDec (n / 10) ++ [digitChar (n % 10)]
decreasing_by omega

/-- Rust `iN::to_string` and Go `fmt.Sprintf("%d", v)`: `-` then the magnitude -/
def intToDec (v : Int) : List Char :=
  if v < 0 then '-' :: natToDec v.natAbs else natToDec v.natAbs

/-- `go_literal_from_primitive` + `go_pprint` `Expr::Int`: the literal text is `value.to_string()` -/
def goLit (v : Int) : List Char := intToDec v

def octVal (cs : List Char) : Option Nat :=
  cs.foldl (fun a c => match a, digitVal c with
    | some a, some d => if d < 8 then some (a * 8 + d) else none
    | _, _ => none) (some 0)

/-- Go's reading of an `int_lit` token made of digits: `0` alone, a decimal without leading zero, or —
    with a leading `0` — a (legacy) **octal** literal.  This is why printing the value, not the source
    text, matters: goml `010` is ten, Go `010` is eight. -/
def goIntToken (cs : List Char) : Option Nat :=
  match cs with
  | [] => none
  | c :: rest =>
    if ¬ (∀ x ∈ c :: rest, isDigit x = true) then none
    else if c = '0' ∧ rest ≠ [] then octVal rest
    else some (decVal (c :: rest))

/-- the emitted operand is `tok` or `-tok`; Go reads `-tok` as the negated untyped constant -/
def goConst (cs : List Char) : Option Int :=
  match cs with
  | '-' :: rest => (goIntToken rest).map fun n => -(n : Int)
  | _ => (goIntToken cs).map fun n => (n : Int)

/-- `var x T = <const>`: the constant must be representable in `T`, otherwise the Go compiler rejects the file -/
def goTyped (t : IntTy) (cs : List Char) : Option Int :=
  match goConst cs with
  | some v => if t.InRange v then some v else none
  | none => none

/-- Go `fmt.Sprintf("%d", v)` for an integer `v` -/
def sprintfD (v : Int) : List Char := intToDec v

/-- reading a decimal rendering back (independent of `parseInt`: no range, optional `-`) -/
def readDec (cs : List Char) : Option Int :=
  match cs with
  | '-' :: rest => if IsDigits rest then some (-(decVal rest : Int)) else none
  | _ => if IsDigits cs then some (decVal cs : Int) else none

/-! ## operators -/

inductive BinOp where
  | add | sub | mul | div | and | or | lt | gt | le | ge | eq | ne
  deriving DecidableEq, Repr

inductive UnOp where
  | neg | not
  deriving DecidableEq, Repr

/-- variant names of `common_defs::BinaryOp` -/
def BinOp.name : BinOp → String
  | .add => "Add" | .sub => "Sub" | .mul => "Mul" | .div => "Div" | .and => "And" | .or => "Or"
  | .lt => "Less" | .gt => "Greater" | .le => "LessEq" | .ge => "GreaterEq" | .eq => "Eq" | .ne => "NotEq"

def UnOp.name : UnOp → String
  | .neg => "Neg" | .not => "Not"

def BinOp.all : List BinOp := [.add, .sub, .mul, .div, .and, .or, .lt, .gt, .le, .ge, .eq, .ne]
def UnOp.all : List UnOp := [.neg, .not]

def BinOp.ofName (s : String) : Option BinOp := BinOp.all.find? (·.name == s)
def UnOp.ofName (s : String) : Option UnOp := UnOp.all.find? (·.name == s)

/-- result of evaluating one operator application -/
inductive Val where
  | int (v : Int)
  | bool (b : Bool)
  | panic          -- run-time failure
  | illTyped       -- operator not defined at this operand class
  deriving DecidableEq, Repr

/-- wrap a mathematical integer into the range of `t`: modulo 2^bits, balanced for signed types -/
def IntTy.wrap (t : IntTy) (x : Int) : Int :=
  if t.signed then x.bmod (2 ^ t.bits) else x % ((2 ^ t.bits : Nat) : Int)

/-- **source meaning** of a binary operator on two integers of type `t` (both in range):
    arithmetic is exact arithmetic followed by `wrap`; `/` truncates toward zero and fails on a zero divisor;
    comparisons compare the mathematical values -/
def semBinInt (op : BinOp) (t : IntTy) (a b : Int) : Val :=
  match op with
  | .add => .int (t.wrap (a + b))
  | .sub => .int (t.wrap (a - b))
  | .mul => .int (t.wrap (a * b))
  | .div => if b = 0 then .panic else .int (t.wrap (a.tdiv b))
  | .lt => .bool (decide (a < b))
  | .gt => .bool (decide (a > b))
  | .le => .bool (decide (a ≤ b))
  | .ge => .bool (decide (a ≥ b))
  | .eq => .bool (decide (a = b))
  | .ne => .bool (decide (a ≠ b))
  | .and => .illTyped
  | .or => .illTyped

def semBinBool (op : BinOp) (a b : Bool) : Val :=
  match op with
  | .and => .bool (a && b)
  | .or => .bool (a || b)
  | .eq => .bool (a == b)
  | .ne => .bool (a != b)
  | _ => .illTyped

def semUnInt (op : UnOp) (t : IntTy) (a : Int) : Val :=
  match op with
  | .neg => .int (t.wrap (-a))
  | .not => .illTyped

def semUnBool (op : UnOp) (a : Bool) : Val :=
  match op with
  | .not => .bool (!a)
  | .neg => .illTyped

/-- result of a Go operator on machine words of width `n` -/
inductive GoVal (n : Nat) where
  | bits (v : BitVec n)
  | bool (b : Bool)
  | panic
  | invalid
  deriving DecidableEq, Repr

/-- **Go meaning** of the binary operator spelled `sym` on two operands of one sized integer type
    (Go spec, "Arithmetic operators" / "Integer overflow" / "Comparison operators"): two's-complement words;
    `/` truncates toward zero, panics on a zero divisor; ordering uses the type's signedness -/
def goBinInt (sym : String) (signed : Bool) {n : Nat} (a b : BitVec n) : GoVal n :=
  if sym = "+" then .bits (a + b)
  else if sym = "-" then .bits (a - b)
  else if sym = "*" then .bits (a * b)
  else if sym = "/" then (if b = 0 then .panic else .bits (if signed then a.sdiv b else a / b))
  else if sym = "<" then .bool (if signed then a.slt b else a.ult b)
  else if sym = ">" then .bool (if signed then b.slt a else b.ult a)
  else if sym = "<=" then .bool (if signed then a.sle b else a.ule b)
  else if sym = ">=" then .bool (if signed then b.sle a else b.ule a)
  else if sym = "==" then .bool (a == b)
  else if sym = "!=" then .bool (a != b)
  else .invalid

def goBinBool (sym : String) (a b : Bool) : Val :=
  if sym = "&&" then .bool (a && b)
  else if sym = "||" then .bool (a || b)
  else if sym = "==" then .bool (a == b)
  else if sym = "!=" then .bool (a != b)
  else .illTyped

def goUnInt (sym : String) {n : Nat} (a : BitVec n) : GoVal n :=
  if sym = "-" then .bits (-a) else .invalid

def goUnBool (sym : String) (a : Bool) : Val :=
  if sym = "!" then .bool (!a) else .illTyped

/-- the number a machine word of type `t` stands for -/
def IntTy.toZ (t : IntTy) (a : BitVec t.bits) : Int := if t.signed then a.toInt else (a.toNat : Int)

/-- the machine word of a number (wraps) -/
def IntTy.ofZ (t : IntTy) (v : Int) : BitVec t.bits := BitVec.ofInt t.bits v

def GoVal.denote (t : IntTy) : GoVal t.bits → Val
  | .bits v => .int (t.toZ v)
  | .bool b => .bool b
  | .panic => .panic
  | .invalid => .illTyped

/-- Go evaluates an operator whose operands are both *constants* exactly, at compile time, and rejects the
    program when the result is not representable in the target type or a constant divisor is zero
    (Go spec, "Constant expressions").  `none` = the Go compiler rejects the file. -/
def goConstBin (sym : String) (t : IntTy) (a b : Int) : Option Val :=
  let fit (v : Int) : Option Val := if t.InRange v then some (.int v) else none
  if sym = "+" then fit (a + b)
  else if sym = "-" then fit (a - b)
  else if sym = "*" then fit (a * b)
  else if sym = "/" then (if b = 0 then none else fit (a.tdiv b))
  else if sym = "<" then some (.bool (decide (a < b)))
  else if sym = ">" then some (.bool (decide (a > b)))
  else if sym = "<=" then some (.bool (decide (a ≤ b)))
  else if sym = ">=" then some (.bool (decide (a ≥ b)))
  else if sym = "==" then some (.bool (decide (a = b)))
  else if sym = "!=" then some (.bool (decide (a ≠ b)))
  else some .illTyped

/-! ## table plumbing (the tables themselves are generated into `Gen/*`) -/

def lookup (k : String) : List (String × String) → Option String
  | [] => none
  | (a, b) :: rest => if a = k then some b else lookup k rest

/-- printed Go symbol of a goml operator: `compile.rs` table, then `go_pprint.rs` table -/
def goSymOf (opMap goSym : List (String × String)) (name : String) : Option String :=
  match lookup name opMap with
  | some g => lookup g goSym
  | none => none

/-- `tast_builder.rs`, unsuffixed integer pattern of type `ty`: (Prim variant, parser kind) by the `int_prim_for_ty`
    table, `_` being its default arm -/
def patPrimOf (tbl : List (String × String × String)) (ty : String) : Option (String × String) :=
  match tbl.find? (·.1 == ty) with
  | some r => some (r.2.1, r.2.2)
  | none => (tbl.find? (·.1 == "_")).map fun r => (r.2.1, r.2.2)

/-- `check.rs` `check_pat_int`, `integer_literal_target(ty).unwrap_or(tast::Ty::TInt32)`: the type an unsuffixed integer
    pattern is validated at — the scrutinee's type when that is already known to be an integer type (`some ty`), and
    `int32` while it is still a type variable (`none`: operator result, un-annotated let of one, closure parameter,
    generic call result, `if` result) -/
def patTarget (known : Option String) : String :=
  match known with
  | some ty => ty
  | none => "TInt32"

/-- an unsuffixed integer pattern end to end: validated at `target` (`check_pat_int`); the constraint
    `TypeEqual(target, scrutinee)` is pushed unconditionally, so the program is only accepted when the scrutinee's final
    type IS `target`; the value is then rebuilt at the final type by `tast_builder.rs` (`unwrap_or(0)`, no diagnostics).
    `some v` = accepted with pattern value `v`. -/
def patUnsufAccept (ut uf : Bool) (target final : IntTy) (s : List Char) : Option Int :=
  match checkLit ut target s with
  | .accept _ => if target = final then some (builderValue uf final s) else none
  | _ => none

/-- verbs that render a float in a readable decimal form; `%d` on a float prints `%!d(float32=3.5)` -/
def floatVerbOk (v : String) : Bool := v = "%g" || v = "%v" || v = "%f" || v = "%G" || v = "%F"
def intVerbOk (v : String) : Bool := v = "%d" || v = "%v"

def isFloatGoTy (g : String) : Bool := g = "TFloat32" || g = "TFloat64"
def isIntGoTy (g : String) : Bool :=
  g = "TInt8" || g = "TInt16" || g = "TInt32" || g = "TInt64" || g = "TUint8" || g = "TUint16" || g = "TUint32" || g = "TUint64"

def verbOk (row : String × String × String) : Bool :=
  if isFloatGoTy row.2.1 then floatVerbOk row.2.2
  else if isIntGoTy row.2.1 then intVerbOk row.2.2
  else false

end Goml.Num
