import GomlVerif.Gen.Consts
import GomlVerif.Gen.Recovery
/-
Model of the parser's progress machinery (`crates/parser/src/parser.rs:95-210`, `input.rs`):
cursor over the non-trivia tokens, the fuel counter (`Gen.parserFuel`, regenerated from the
source), `peek`/`nth`/`eof`/`at`/`eat`/`advance`/`expect`/`advance_with_error`, the loop shape
`while !p.at(k) && !p.eof() { body }` and the top-level dispatch of `file()`.
Trivia skipping is abstracted away (the token list is the list of non-trivia tokens).
Only imports generated tables, so the `gomlmodel` executable links.
-/
namespace Goml.ParserFuel

abbrev Kind := String

def EOF : Kind := "eof"

def FUEL : Nat := Gen.parserFuel

structure St where
  toks : List Kind
  cursor : Nat
  fuel : Nat
  stuckReported : Bool
  /-- "parser did not consume input while parsing" diagnostics pushed by `peek`/`nth` -/
  stuckDiags : Nat
  /-- `Event::Error` pushed by `expect` / `advance_with_error` -/
  errors : Nat
  /-- `Event::Advance` -/
  advances : Nat
  deriving Repr, DecidableEq

def init (toks : List Kind) : St :=
  { toks, cursor := 0, fuel := FUEL, stuckReported := false, stuckDiags := 0, errors := 0, advances := 0 }

/-- `Input::peek_raw_kind` at an offset -/
def kindAt (s : St) (n : Nat) : Kind := s.toks.getD (s.cursor + n) EOF

/-- `Parser::eof` = `Input::eof`: the real end of input, independent of the fuel -/
def isEof (s : St) : Bool := s.toks.length ≤ s.cursor

/-- the fuel check shared by `peek` and `nth` -/
def look (s : St) (n : Nat) : Kind × St :=
  if s.fuel = 0 then
    (EOF, if s.stuckReported then s else { s with stuckReported := true, stuckDiags := s.stuckDiags + 1 })
  else
    (kindAt s n, { s with fuel := s.fuel - 1 })

def peek (s : St) : Kind × St := look s 0
def nth (s : St) (n : Nat) : Kind × St := look s n

/-- `Parser::advance`: refuel, `Input::skip` (a no-op at the end), clear the stuck flag, push `Advance` -/
def advance (s : St) : St :=
  { s with fuel := FUEL, cursor := if s.cursor < s.toks.length then s.cursor + 1 else s.cursor,
           stuckReported := false, advances := s.advances + 1 }

def atK (s : St) (k : Kind) : Bool × St :=
  let (c, s') := peek s
  (c == k, s')

def atAny (s : St) (ks : List Kind) : Bool × St :=
  let (c, s') := peek s
  (ks.contains c, s')

def eat (s : St) (k : Kind) : Bool × St :=
  let (b, s') := atK s k
  if b then (true, advance s') else (false, s')

def advanceWithError (s : St) : St := advance { s with errors := s.errors + 1 }

/-- `should_consume_on_expect_failure` -/
def shouldConsume (k : Kind) : Bool := !Gen.recoveryTokens.contains k

/-- `Parser::expect` -/
def expect (s : St) (k : Kind) : St :=
  let (b, s1) := eat s k
  if b then s1
  else
    let (cur, s2) := peek s1
    if cur == EOF || !shouldConsume cur then { s2 with errors := s2.errors + 1 }
    else advanceWithError s2

/-! ## loops -/

/-- `while !p.at(k) && !p.eof() { body }` (or `while !p.eof() { body }` for `stop = none`), run
for at most `n` iterations; `none` = still running after `n` iterations -/
def runLoop (stop : Option Kind) (body : St → St) : Nat → St → Option (St × Nat)
  | 0, s =>
    match stop with
    | some k => let (b, s1) := atK s k; if b || isEof s1 then some (s1, 0) else none
    | none => if isEof s then some (s, 0) else none
  | n + 1, s =>
    match stop with
    | some k =>
      let (b, s1) := atK s k
      if b || isEof s1 then some (s1, 0)
      else (runLoop stop body n (body s1)).map fun (r, c) => (r, c + 1)
    | none =>
      if isEof s then some (s, 0)
      else (runLoop stop body n (body s)).map fun (r, c) => (r, c + 1)

/-- the fuel-AWARE reading of "at the end of input", `self.at(T![eof])`: one `peek`, so it answers
`true` whenever the parser is out of fuel. This is NOT `Parser::eof` (the translator asserts that
`eof()` is the plain `self.input.eof()`, i.e. `isEof`); it is in the model so that the theorems can
say what every `!p.eof()` guard and the top-level loop rely on (`Props/C12.lean`). -/
def eofViaPeek (s : St) : Bool × St := atK s EOF

/-- `while !p.at(T![eof]) { body }`: the top-level loop if `eof()` went through `peek()` -/
def runLoopPeekEof (body : St → St) : Nat → St → Option (St × Nat)
  | 0, s => let (b, s1) := eofViaPeek s; if b then some (s1, 0) else none
  | n + 1, s =>
    let (b, s1) := eofViaPeek s
    if b then some (s1, 0)
    else (runLoopPeekEof body n (body s1)).map fun (r, c) => (r, c + 1)

/-- an `if p.at(..) {..} else if p.at_any(..) {..} … else { p.advance_with_error(..) }` chain:
every guard is one `peek`; the branch taken is an arbitrary parser function -/
def dispatch : List ((Kind → Bool) × (St → St)) → St → St
  | [], s => advanceWithError s
  | (g, f) :: rest, s =>
    let (c, s1) := peek s
    if g c then f s1 else dispatch rest s1

/-! ## where an `Event::Error` is attached (`build_tree`) -/

/-- `tokens.get(cursor).map(range).or_else(|| tokens.last().map(range))` -/
def errorRange (ranges : List (Nat × Nat)) (cursor : Nat) : Option (Nat × Nat) :=
  match ranges[cursor]? with
  | some r => some r
  | none => ranges.getLast?

end Goml.ParserFuel
