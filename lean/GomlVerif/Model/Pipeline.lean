import GomlVerif.Model.Mono
import GomlVerif.Model.MonoSim
import GomlVerif.Model.Lift
import GomlVerif.Model.LiftSim
import GomlVerif.Model.Anf
import GomlVerif.Model.AnfFrag
import GomlVerif.Model.GoCompile
import GomlVerif.Model.GoFrag
import GomlVerif.Model.Dce
/-
The composite middle end `anf ∘ lift ∘ mono`, sequenced as `pipeline::compile` does
(`crates/compiler/src/pipeline/pipeline.rs`; the order of the four calls is asserted from the Rust
text on every run, `Gen/PipelineOrder.lean`):

    let (mono, monoenv)        = mono::mono(genv, core);
    let (lifted_core, liftenv) = lift::lambda_lift(monoenv, &gensym, mono);
    let (anf, anfenv)          = anf::anf_file(liftenv, &gensym, lifted_core);

Every stage is the model owned by its property (`Mono.mono`, `Lift.liftFile`, `Anf.anfFns`); this
file only adds the glue the Rust has between them: what `GlobalLiftEnv` can see of `monoenv`
(`liftEnv`), the one `Gensym` shared by `lambda_lift` and `anf_file` (the counter `lift` leaves is
the counter `anf` starts from), and the decidable fragment of the composition theorem
(`Props/C01pipe.lean`).  Import-free apart from `Model/` files (compiled into `gomlmodel`).
-/
namespace Goml.Pipeline
open Goml

/-- input of the middle end: the linked Core file with the type definitions of `genv`, the
    dispatch table `Sem` uses for `dyn`, and the value of the shared `Gensym` when `mono` returns
    (`compile_match` has used it before) -/
structure PipeIn where
  gensym : Nat := 0
  enums : List EnumDef := []
  structs : List StructDef := []
  prog : Prog

/-- iterations of `mono`'s work list / depth of `collapse_type_apps` after which the model gives
    up (the Rust has no bound; `none` = the model did not finish) -/
def monoFuel : Nat := 5000
def tyFuel : Nat := 100000

/-- what `GlobalLiftEnv::get_struct` / `get_enum` / `get_func` see of the `GlobalMonoEnv`:
    `mono_structs` shadow `genv.structs()`, non-generic `mono_enums` shadow non-generic
    `genv.enums()`, `mono_funcs` -/
def liftEnv (i : PipeIn) (o : Mono.Out) : Lift.Env :=
  { gensym := i.gensym
    funcs := o.funcs
    structs := o.monoStructs ++ i.structs.filter (fun d => !o.monoStructs.any (·.name == d.name))
    enums := o.monoEnums.filter (fun d => d.generics.isEmpty) ++
      i.enums.filter (fun d => !o.monoEnums.any (·.name == d.name) && d.generics.isEmpty) }

/-- (Core function, Mono instance) for every instance `mono` created (`Ctx.instances`) -/
def monoPairs (fns : List Fn) : List (String × String) :=
  match Mono.phase1 monoFuel fns with
  | some c => c.instances.map (fun i => (i.name, i.spec))
  | none => []

/-- every intermediate program of one run of the middle end -/
structure Stages where
  mono : Prog
  monoOut : Mono.Out
  pairs : List (String × String)
  env : Lift.Env
  lift : Prog
  /-- the `Gensym` counter when `lambda_lift` returns -/
  gensym : Nat
  anf : Prog

/-- `none`: `mono` did not finish within the model's fuel, or the Rust would have panicked in `mono` -/
def stages (i : PipeIn) : Option Stages :=
  match Mono.mono monoFuel tyFuel i.enums i.structs i.prog.fns with
  | none => none
  | some o =>
    match o.err with
    | some _ => none
    | none =>
      let M : Prog := { i.prog with fns := o.fns }
      let env := liftEnv i o
      let L := Lift.liftProg env M
      let n := (Lift.liftFile env M.fns).2.gensym
      some { mono := M, monoOut := o, pairs := monoPairs i.prog.fns, env := env, lift := L, gensym := n,
             anf := Anf.anfProg L n }

/-- **the composite middle end**: Core program ↦ ANF program -/
def pipeline (i : PipeIn) : Option Prog := (stages i).map (·.anf)

/-! ### the fragment of `pipeline_preserves`: one conjunct per theorem that needs it -/

/-- `MonoSim.run_definite` (new, `Lemmas/PipeMonoSim.lean`): the monomorphised program is the Core
    program up to annotations, instance names and type names; no `ETraitCall`, no binder spelled
    like a function -/
def fragMono (i : PipeIn) (s : Stages) : Bool :=
  MonoSim.monoOk { P := i.prog, P' := s.mono, pairs := s.pairs }

/-- `Lift.lift_preserves_partial` (C08): `DirectFlow` — every closure's environment and apply
    function are found by the structural check, every rewritten call goes through a variable whose
    closure type the check can establish -/
def fragLift (s : Stages) : Bool := Lift.DirectFlow s.env s.mono

/-- `C09.anf_run_preserves_partial` (C09): `FileInAnfFragment` — widening the scope of let-bound
    operands captures nothing, no temporary `t<n>` handed out occurs in the source -/
def fragAnf (s : Stages) : Bool := (Anf.anfFragFlags s.lift.fns s.gensym).all (fun b => b)

def inPipeFragment (i : PipeIn) : Bool :=
  match stages i with
  | none => false
  | some s => fragMono i s && fragLift s && fragAnf s

/-- the fragment of `pipeline_preserves_partial` (chain from the Mono program on): the Core → Mono
    link is left to the per-program validation (e.g. because of `ETraitCall`) -/
def inLiftAnfFragment (i : PipeIn) : Bool :=
  match stages i with
  | none => false
  | some s => fragLift s && fragAnf s

/-- why a program is outside (reports only): one entry per failing conjunct -/
def pipeReasons (i : PipeIn) : List String :=
  match Mono.mono monoFuel tyFuel i.enums i.structs i.prog.fns with
  | none => ["mono:fuel"]
  | some o =>
    match o.err, stages i with
    | some e, _ => ["mono:panic:" ++ e]
    | none, none => ["mono:?"]
    | none, some s =>
      (if fragMono i s then [] else
        ["mono:" ++ ((MonoSim.whyNot { P := i.prog, P' := s.mono, pairs := s.pairs }).getD "?")]) ++
      (if fragLift s then [] else ["lift:not-direct-flow"]) ++
      (if fragAnf s then [] else ["anf:scope-or-temporary"])

/-! ## the back end: annotated ANF, `go_file` before and after dead-code elimination

`go/compile.rs` reads the ANF *with* the `ty` fields the shared dump (and therefore `Syntax.Expr`)
omits: `ImmPrim.ty`, `ALet.ty`, `EIf.ty`, `EWhile.ty`, `EGo.ty` (`Model/GoCompile.lean` works on
`AExpr`).  `annotA` puts them back the way `anf.rs` computes them: the type of a literal, the type
of the body of a `let` (`body_expr.get_ty()`; for a source `let` the `ELet.ty` the Lift node
carries, which is the body's type except for the known closure-as-value artefact, C09's `EQT`),
the type of the `then` branch, `unit` for `while` and `go`.  `annot_toExpr`
(`Lemmas/PipeBack.lean`) proves that erasing the annotations again gives the ANF program back. -/

open Goml.GoCompile (Imm CExpr AExpr AArm ADflt AFn AFile)

def annotI : Expr → Option Imm
  | .var x t => some (.var x t)
  | .prim p => some (.prim p (Mono.primTy p))
  | .tag i t => some (.tag i t)
  | _ => none

def annotIs : List Expr → Option (List Imm)
  | [] => some []
  | e :: es =>
    match annotI e, annotIs es with
    | some i, some is => some (i :: is)
    | _, _ => none

/-- an `AExpr` that is a bare `CExpr` -/
def asC : Option AExpr → Option CExpr
  | some (.ret c) => some c
  | _ => none

mutual
def annotA : Expr → Option AExpr
  | .var x t => some (.ret (.imm (.var x t)))
  | .prim p => some (.ret (.imm (.prim p (Mono.primTy p))))
  | .tag i t => some (.ret (.imm (.tag i t)))
  | .constr c t args => (annotIs args).map fun is => .ret (.constr c is t)
  | .tuple t items => (annotIs items).map fun is => .ret (.tuple is t)
  | .array t items => (annotIs items).map fun is => .ret (.array is t)
  | .closure _ _ _ => none
  | .letE x v b =>
    match asC (annotA v), annotA b with
    | some v', some b' => some (.letE x v' b' b'.annTy)
    | _, _ => none
  | .matchE t s arms d =>
    match annotI s, annotArms arms, annotD d with
    | some s', some arms', some d' => some (.ret (.matchE s' arms' d' t))
    | _, _, _ => none
  | .ite c t e =>
    match annotI c, annotA t, annotA e with
    | some c', some t', some e' => some (.ret (.ite c' t' e' t'.annTy))
    | _, _, _ => none
  | .while c b =>
    match annotA c, annotA b with
    | some c', some b' => some (.ret (.while c' b' .unit))
    | _, _ => none
  | .go e => (annotI e).map fun i => .ret (.go i .unit)
  | .cget c i t e => (annotI e).map fun e' => .ret (.cget e' c i t)
  | .un op t e => (annotI e).map fun e' => .ret (.un op e' t)
  | .bin op t l r =>
    match annotI l, annotI r with
    | some l', some r' => some (.ret (.bin op l' r' t))
    | _, _ => none
  | .call t f args =>
    match annotI f, annotIs args with
    | some f', some is => some (.ret (.call f' is t))
    | _, _ => none
  | .toDyn tr ft t e => (annotI e).map fun e' => .ret (.toDyn tr ft e' t)
  | .dynCall tr m t r args =>
    match annotI r, annotIs args with
    | some r', some is => some (.ret (.dynCall tr m r' is t))
    | _, _ => none
  | .traitCall _ _ _ _ _ => none
  | .proj i t e => (annotI e).map fun e' => .ret (.proj e' i t)
def annotArms : List Arm → Option (List AArm)
  | [] => some []
  | .mk lhs body :: rest =>
    match annotI lhs, annotA body, annotArms rest with
    | some l, some b, some r => some (.mk l b :: r)
    | _, _, _ => none
def annotD : Option Expr → Option ADflt
  | none => some .none
  | some e => (annotA e).map .some
end

def annotFn (f : Fn) : Option AFn :=
  if f.generics.isEmpty then
    (annotA f.body).map fun b => { name := f.name, params := f.params, ret := f.ret, body := b }
  else none

def annotFile : List Fn → Option AFile
  | [] => some []
  | f :: fs =>
    match annotFn f, annotFile fs with
    | some a, some as => some (a :: as)
    | _, _ => none

/-- input of the whole model pipeline: the middle-end input plus what `go/compile.rs` reads of
    `GlobalGoEnv` (`GoCompile.Env`: struct / enum tables in the iteration orders of `goenv`, trait
    signatures, extern declarations, `apply` method types — `gv gocomp`'s `env_dump`; like the
    dispatch table it is data of the compilation, taken from the real one by the tie) -/
structure E2EIn where
  pipe : PipeIn
  goenv : GoCompile.Env := {}

/-- the intermediate results of the back half -/
structure BackStages where
  mid : Stages
  /-- the annotated ANF file `go_file` is given -/
  afile : AFile
  /-- the `Gensym` counter when `anf_file` returns -/
  gensym : Nat
  /-- `go_file` up to, not including, `eliminate_dead_vars` -/
  pre : Go.GFile
  /-- did the model reach a place where `go/compile.rs` panics -/
  ok : Bool
  /-- the emitted file: `eliminate_dead_vars pre` -/
  emitted : Go.GFile

def backStages (i : E2EIn) : Option BackStages :=
  match stages i.pipe with
  | none => none
  | some s =>
    match annotFile s.anf.fns with
    | none => none
    | some file =>
      let n := (Anf.anfFns s.lift.fns s.gensym).2
      let r := GoCompile.goFilePreSt i.goenv file n
      some { mid := s, afile := file, gensym := n, pre := r.1, ok := r.2.ok, emitted := Dce.eliminateDeadVars r.1 }

/-- **Core ↦ Go file before dead-code elimination** (`go_file` without its last step) -/
def compileGoPre (i : E2EIn) : Option Go.GFile := (backStages i).map (·.pre)

/-- **the whole model pipeline**: Core ↦ emitted Go file -/
def compileGo (i : E2EIn) : Option Go.GFile := (backStages i).map (·.emitted)

/-- `GoCompileProps.compile_preserves_run` (gocomp): `main` and everything it calls lie in the
    back end's proved fragment without trait objects (`GoFrag.closedOK` on the set `goodFns`
    computes) -/
def fragGoPlain (i : E2EIn) (b : BackStages) : Bool :=
  let G := GoFrag.goodFns i.goenv b.afile b.gensym
  GoFrag.closedOK i.goenv b.afile b.gensym G && G.contains "main"

/-- `GoCompileProps.compile_preserves_run_dyn` (gocomp): the same with trait objects admitted
    (`closedOKD` on `goodFnsD`), under its decidable hypothesis on the dispatch table of the ANF
    program (`implsOK`: `Sem`'s lookup (trait, key of the receiver type, method) finds the function
    the vtable wrapper calls) -/
def fragGoDyn (i : E2EIn) (b : BackStages) : Bool :=
  let G := GoFrag.goodFnsD i.goenv b.afile b.gensym
  GoFrag.closedOKD i.goenv b.afile b.gensym G && G.contains "main" && GoFrag.implsOK i.goenv b.afile G b.mid.anf

/-- the back end's conjunct of `InE2EFragment`: one of the two, and `main` takes no parameters -/
def fragGo (i : E2EIn) (b : BackStages) : Bool :=
  (fragGoPlain i b || fragGoDyn i b) && b.afile.any (fun f => f.name == "main" && f.params.isEmpty)

/-- the fragment of `core_to_go_preserves`: `InPipeFragment` and the back end's fragment -/
def inE2EFragment (i : E2EIn) : Bool :=
  inPipeFragment i.pipe &&
    match backStages i with
    | none => false
    | some b => fragGo i b

/-- `Dce.dce_file_preserves`: the compiled file (before dead-code elimination) satisfies the
    per-file contract of the DCE theorem (`Dce.fileDceOK`: every function's body inside the contract
    of `dce_preserves_syn` for its parameter environment, function names distinct) -/
def fragDce (b : BackStages) : Bool := Dce.fileDceOK b.pre

/-- the fragment of `core_to_emitted_go_preserves`: `inE2EFragment` and the DCE contract of the
    compiled file -/
def inEmitFragment (i : E2EIn) : Bool :=
  inE2EFragment i &&
    match backStages i with
    | none => false
    | some b => fragDce b

/-- which functions of the compiled file are outside the DCE contract (reports only) -/
def dceReasons (i : E2EIn) : List String :=
  match backStages i with
  | none => []
  | some b =>
    (if decide ((b.pre.funcs.map (·.name)).Nodup) then [] else ["dce:duplicate-function-names"]) ++
    (b.pre.funcs.filter (fun f => !Dce.fnDceOK f)).map fun f =>
      "dce:" ++ f.name ++ ":" ++
        (if (f.params.map (·.1)).contains "_" then "blank-parameter"
         else if !(Dce.scopeErrs (Dce.localsOf f) (f.params.map (·.1)) f.body).isEmpty then "scope"
         else if !Dce.shapeOK f.body then "shape"
         else "semOK")

/-- why a program is outside the back end's fragment (reports only): the reason `main` is -/
def goReasons (i : E2EIn) : List String :=
  match backStages i with
  | none => ["go:anf-not-annotatable"]
  | some b =>
    if fragGo i b then [] else
    let G := GoFrag.goodFnsD i.goenv b.afile b.gensym
    let closed := GoFrag.closedOKD i.goenv b.afile b.gensym G
    if closed && G.contains "main" && !GoFrag.implsOK i.goenv b.afile G b.mid.anf then ["go:dispatch-table(implsOK)"] else
    let rec go (st : GoCompile.St) : List AFn → List String
      | [] => ["go:no-main"]
      | f :: rest =>
        if f.name == "main" then
          [("go:main:" ++ ((GoFrag.outsideReason i.goenv b.afile b.gensym G closed st f).getD
            (if f.params.isEmpty then "?" else "main-has-parameters")))] ++
          -- the ROOT reason: the first failing clause of the deepest callee on the chain of `callee-outside-fragment`s
          (let r := GoFrag.rootReason i.goenv b.afile b.gensym G closed (b.afile.length + 1) [] "main"
           if r.1 == "main" then [] else ["go:root:" ++ r.2 ++ "@" ++ r.1])
        else go (GoCompile.compileFn i.goenv st f).2 rest
    go { n := b.gensym, ok := true } b.afile

end Goml.Pipeline
