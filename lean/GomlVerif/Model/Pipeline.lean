import GomlVerif.Model.Mono
import GomlVerif.Model.MonoSim
import GomlVerif.Model.Lift
import GomlVerif.Model.LiftSim
import GomlVerif.Model.Anf
import GomlVerif.Model.AnfFrag
/-
The composite middle end `anf ∘ lift ∘ mono`, sequenced as `pipeline::compile` does
(`crates/compiler/src/pipeline/pipeline.rs`; the order of the four calls is asserted from the Rust
text on every run, `Gen/PipelineOrder.lean`):

    let (mono, monoenv)        = mono::mono(genv, core);
    let (lifted_core, liftenv) = lift::lambda_lift(monoenv, &gensym, mono);
    let (anf, anfenv)          = anf::anf_file(liftenv, &gensym, lifted_core);

Every stage is the model owned by its property (`Mono.mono`, `Lift.liftFile`, `Anf.anfFns`); this
file only adds the glue the Rust has between them: what `GlobalLiftEnv` can see of `monoenv`
(`liftEnv`), the one `Gensym` shared by `lambda_lift` and `anf_file` (the counter `lift` leaves is
the counter `anf` starts from), and the decidable fragment of the composition theorem
(`Props/C01pipe.lean`).  Import-free apart from `Model/` files (compiled into `gomlmodel`).
-/
namespace Goml.Pipeline
open Goml

/-- input of the middle end: the linked Core file with the type definitions of `genv`, the
    dispatch table `Sem` uses for `dyn`, and the value of the shared `Gensym` when `mono` returns
    (`compile_match` has used it before) -/
structure PipeIn where
  gensym : Nat := 0
  enums : List EnumDef := []
  structs : List StructDef := []
  prog : Prog

/-- iterations of `mono`'s work list / depth of `collapse_type_apps` after which the model gives
    up (the Rust has no bound; `none` = the model did not finish) -/
def monoFuel : Nat := 5000
def tyFuel : Nat := 100000

/-- what `GlobalLiftEnv::get_struct` / `get_enum` / `get_func` see of the `GlobalMonoEnv`:
    `mono_structs` shadow `genv.structs()`, non-generic `mono_enums` shadow non-generic
    `genv.enums()`, `mono_funcs` -/
def liftEnv (i : PipeIn) (o : Mono.Out) : Lift.Env :=
  { gensym := i.gensym
    funcs := o.funcs
    structs := o.monoStructs ++ i.structs.filter (fun d => !o.monoStructs.any (·.name == d.name))
    enums := o.monoEnums.filter (fun d => d.generics.isEmpty) ++
      i.enums.filter (fun d => !o.monoEnums.any (·.name == d.name) && d.generics.isEmpty) }

/-- (Core function, Mono instance) for every instance `mono` created (`Ctx.instances`) -/
def monoPairs (fns : List Fn) : List (String × String) :=
  match Mono.phase1 monoFuel fns with
  | some c => c.instances.map (fun i => (i.name, i.spec))
  | none => []

/-- every intermediate program of one run of the middle end -/
structure Stages where
  mono : Prog
  monoOut : Mono.Out
  pairs : List (String × String)
  env : Lift.Env
  lift : Prog
  /-- the `Gensym` counter when `lambda_lift` returns -/
  gensym : Nat
  anf : Prog

/-- `none`: `mono` did not finish within the model's fuel, or the Rust would have panicked in `mono` -/
def stages (i : PipeIn) : Option Stages :=
  match Mono.mono monoFuel tyFuel i.enums i.structs i.prog.fns with
  | none => none
  | some o =>
    match o.err with
    | some _ => none
    | none =>
      let M : Prog := { i.prog with fns := o.fns }
      let env := liftEnv i o
      let L := Lift.liftProg env M
      let n := (Lift.liftFile env M.fns).2.gensym
      some { mono := M, monoOut := o, pairs := monoPairs i.prog.fns, env := env, lift := L, gensym := n,
             anf := Anf.anfProg L n }

/-- **the composite middle end**: Core program ↦ ANF program -/
def pipeline (i : PipeIn) : Option Prog := (stages i).map (·.anf)

/-! ### the fragment of `pipeline_preserves`: one conjunct per theorem that needs it -/

/-- `MonoSim.run_definite` (new, `Lemmas/PipeMonoSim.lean`): the monomorphised program is the Core
    program up to annotations, instance names and type names; no `ETraitCall`, no binder spelled
    like a function -/
def fragMono (i : PipeIn) (s : Stages) : Bool :=
  MonoSim.monoOk { P := i.prog, P' := s.mono, pairs := s.pairs }

/-- `Lift.lift_preserves_partial` (C08): `DirectFlow` — every closure's environment and apply
    function are found by the structural check, every rewritten call goes through a variable whose
    closure type the check can establish -/
def fragLift (s : Stages) : Bool := Lift.DirectFlow s.env s.mono

/-- `C09.anf_run_preserves_partial` (C09): `FileInAnfFragment` — widening the scope of let-bound
    operands captures nothing, no temporary `t<n>` handed out occurs in the source -/
def fragAnf (s : Stages) : Bool := (Anf.anfFragFlags s.lift.fns s.gensym).all (fun b => b)

def inPipeFragment (i : PipeIn) : Bool :=
  match stages i with
  | none => false
  | some s => fragMono i s && fragLift s && fragAnf s

/-- the fragment of `pipeline_preserves_partial` (chain from the Mono program on): the Core → Mono
    link is left to the per-program validation (e.g. because of `ETraitCall`) -/
def inLiftAnfFragment (i : PipeIn) : Bool :=
  match stages i with
  | none => false
  | some s => fragLift s && fragAnf s

/-- why a program is outside (reports only): one entry per failing conjunct -/
def pipeReasons (i : PipeIn) : List String :=
  match Mono.mono monoFuel tyFuel i.enums i.structs i.prog.fns with
  | none => ["mono:fuel"]
  | some o =>
    match o.err, stages i with
    | some e, _ => ["mono:panic:" ++ e]
    | none, none => ["mono:?"]
    | none, some s =>
      (if fragMono i s then [] else
        ["mono:" ++ ((MonoSim.whyNot { P := i.prog, P' := s.mono, pairs := s.pairs }).getD "?")]) ++
      (if fragLift s then [] else ["lift:not-direct-flow"]) ++
      (if fragAnf s then [] else ["anf:scope-or-temporary"])

end Goml.Pipeline
