import GomlVerif.Gen.BindingPower
/-!
# C11 — model of the expression parser and of the CST → AST lowering of operator expressions

Mirrors, for the operator fragment of the expression grammar
(identifiers, integer literals, parentheses, the two prefix operators, the twelve binary
operators, `.field`, `.index`, calls):

* `crates/parser/src/expr.rs`: `expr_bp` (the Pratt loop), `atom`, `arg_list`/`arg`, over the
  binding-power tables that `tools/extract.py` regenerates into `Gen/BindingPower.lean`;
* `crates/ast/src/lower.rs`: `lower_expr_with_args` / `apply_trailing_args` (how postfix
  operations that the parser attached *outside* a prefix operator are re-attached to its operand).

The parser gives `(` the postfix power 21, *below* the prefix power 23, so `-f(x).y` is the CST
`((-f)(x)).y`; `.` is an ordinary infix (23, 24) whose right operand is parsed as an expression.
Lowering repairs this: a postfix operation whose receiver spine starts at a prefix operator is
pushed (as a `Trail`) into the operand of that operator.

Import-free (apart from the generated table) so that `gomlmodel` links.
-/
namespace Goml.Pratt
open Goml.Gen.BindingPower

/-! ## Trees (the `ast::Expr` fragment) -/

inductive UnOp where
  | neg | not
  deriving DecidableEq, Repr, Inhabited

inductive BinOp where
  | or | and | eq | ne | lt | gt | le | ge | add | sub | mul | div
  deriving DecidableEq, Repr, Inhabited

/-- `ast::Expr` restricted to operator expressions.
`var` = `EPath` of one non-constructor identifier, `lit` = `EInt` (text as written),
`un` = `EUnary`, `bin` = `EBinary`, `call` = `ECall`, `field` = `EField`, `proj` = `EProj`. -/
inductive Ast where
  | var (x : String)
  | lit (digits : List Char)
  | un (o : UnOp) (e : Ast)
  | bin (o : BinOp) (l r : Ast)
  | call (f : Ast) (args : List Ast)
  | field (e : Ast) (x : String)
  | proj (e : Ast) (n : Nat)
  deriving Repr, Inhabited

/-! ## Tokens and concrete syntax trees -/

/-- significant tokens; `op .LParen` is `(` (it is the postfix operator of the table) -/
inductive Tok where
  | ident (s : String)
  | int (digits : List Char)
  | rparen
  | comma
  | op (k : TK)
  deriving DecidableEq, Repr, Inhabited

/-- the rowan node kinds the fragment produces: `EXPR_IDENT`, `EXPR_INT`, `EXPR_PAREN`,
`EXPR_PREFIX`, `EXPR_BINARY` (also for `.`), `EXPR_CALL` with its `ARG_LIST` -/
inductive Cst where
  | ident (s : String)
  | int (digits : List Char)
  | paren (e : Cst)
  | prefix (k : TK) (e : Cst)
  | binary (k : TK) (l r : Cst)
  | call (f : Cst) (args : List Cst)
  deriving Repr, Inhabited

/-! ## The Pratt loop (`expr_bp`), with fuel

`none` = the real parser would report a diagnostic (error recovery is not modelled). -/

mutual
/-- `expr_bp(p, min_bp)`: a prefix operator and its operand, or an atom; then the loop -/
def exprBp : Nat → Nat → List Tok → Option (Cst × List Tok)
  | 0, _, _ => none
  | fuel + 1, minBp, ts =>
    match ts with
    | [] => none
    | .op k :: rest =>
      match prefixBp k with
      | some rbp =>
        -- `let m = p.open(); p.advance(); expect_expr_bp(r_bp); close(EXPR_PREFIX)`
        match exprBp fuel rbp rest with
        | some (e, rest') => loopBp fuel minBp (.prefix k e) rest'
        | none => none
      | none =>
        match k with
        | .LParen =>
          -- `atom`: `(` expr `)` (unit and tuple literals are outside the fragment)
          match exprBp fuel 0 rest with
          | some (e, .rparen :: rest') => loopBp fuel minBp (.paren e) rest'
          | _ => none
        | _ => none
    | .ident s :: rest => loopBp fuel minBp (.ident s) rest
    | .int s :: rest => loopBp fuel minBp (.int s) rest
    | _ => none
/-- the `loop { … }` of `expr_bp`: postfix first, then infix, else stop -/
def loopBp : Nat → Nat → Cst → List Tok → Option (Cst × List Tok)
  | 0, _, _, _ => none
  | fuel + 1, minBp, lhs, ts =>
    match ts with
    | .op k :: rest =>
      match postfixBp k with
      | some lbp =>
        if lbp < minBp then some (lhs, ts)
        else
          match k with
          | .LParen =>
            match argList fuel rest with
            | some (args, rest') => loopBp fuel minBp (.call lhs args) rest'
            | none => none
          | _ => none  -- `advance_with_error("unexpected postfix operator")`
      | none =>
        match infixBp k with
        | some (lbp, rbp) =>
          if lbp < minBp then some (lhs, ts)
          else
            match exprBp fuel rbp rest with
            | some (rhs, rest') => loopBp fuel minBp (.binary k lhs rhs) rest'
            | none => none
        | none => some (lhs, ts)
    | _ => some (lhs, ts)
/-- `arg_list` after its `(`: `Arg = Expr ','?` until `)` -/
def argList : Nat → List Tok → Option (List Cst × List Tok)
  | 0, _ => none
  | fuel + 1, ts =>
    match ts with
    | .rparen :: rest => some ([], rest)
    | _ =>
      match exprBp fuel 0 ts with
      | some (e, .rparen :: rest) => some ([e], rest)
      | some (e, .comma :: rest) =>
        match argList fuel rest with
        | some (es, rest') => some (e :: es, rest')
        | none => none
      | _ => none
end

/-- fuel that always suffices (see `Props/C11.lean`, `exprBp_complete`) -/
def fuelFor (ts : List Tok) : Nat := 3 * ts.length + 3

/-- `expr(p)` on a whole token list -/
def parseCst (ts : List Tok) : Option Cst :=
  match exprBp (fuelFor ts) 0 ts with
  | some (c, []) => some c
  | _ => none

/-! ## Lowering (`lower_expr_with_args`) -/

/-- a pending postfix operation (the element type of `trailing_args`) -/
inductive Trail where
  | call (args : List Ast)
  | field (x : String)
  | proj (n : Nat)
  deriving Repr, Inhabited

def unOpOf : TK → Option UnOp
  | .Minus => some .neg
  | .Bang => some .not
  | _ => none

def binOpOf : TK → Option BinOp
  | .OrOr => some .or | .AndAnd => some .and | .EqEq => some .eq | .NotEq => some .ne
  | .Less => some .lt | .Greater => some .gt | .LessEq => some .le | .GreaterEq => some .ge
  | .Plus => some .add | .Minus => some .sub | .Star => some .mul | .Slash => some .div
  | _ => none

def digitVal (c : Char) : Option Nat :=
  if '0' ≤ c ∧ c ≤ '9' then some (c.toNat - '0'.toNat) else none

/-- `text.parse::<usize>()` on an `Int` token (digits only, overflow not modelled) -/
def digitsNat : List Char → Option Nat
  | [] => none
  | cs => cs.foldl (fun acc c => match acc, digitVal c with
      | some a, some d => some (a * 10 + d)
      | _, _ => none) (some 0)

def applyPost (e : Ast) : Trail → Ast
  | .call args => .call e args
  | .field x => .field e x
  | .proj n => .proj e n

/-- `apply_trailing_args`: wrap the postfix operations, innermost first -/
def applyTrail (e : Ast) : List Trail → Ast
  | [] => e
  | t :: ts => applyTrail (applyPost e t) ts

/-- does the receiver spine (callee of a call / left side of `.`) start at a prefix operator
that is not protected by parentheses? (`receiver_starts_with_prefix` in lower.rs) -/
def prefixSpine : Cst → Bool
  | .call f _ => prefixSpine f
  | .binary k l _ => if k = .Dot then prefixSpine l else false
  | .prefix _ _ => true
  | _ => false

/-- `is_postfix` in the `CallExpr` case: the callee is itself a call or a `.` access -/
def isPostfixNode : Cst → Bool
  | .call _ _ => true
  | .binary k _ _ => decide (k = .Dot)
  | _ => false

/-- the right operand of `.`: an `Int` token is a tuple index, an identifier a field name -/
def dotPost : Cst → Option Trail
  | .int s => (digitsNat s).map .proj
  | .ident x => some (.field x)
  | _ => none

mutual
/-- `lower_expr_with_args(ctx, node, trailing_args)`; `none` = a lowering diagnostic -/
def lower : Cst → List Trail → Option Ast
  | .ident s, tr => some (applyTrail (.var s) tr)
  | .int s, tr => if tr.isEmpty then some (.lit s) else none
  | .paren e, tr =>
    -- parentheses end the re-association: the pending operations apply to the whole
    match lower e [] with
    | some a => some (applyTrail a tr)
    | none => none
  | .prefix k e, tr =>
    -- postfix operations bind tighter than the prefix operator: they go to the operand
    match lower e tr, unOpOf k with
    | some a, some o => some (.un o a)
    | _, _ => none
  | .call f args, tr =>
    match lowerList args with
    | none => none
    | some as =>
      match f with
      | .ident s => some (applyTrail (.call (.var s) as) tr)
      | _ =>
        if isPostfixNode f && !prefixSpine f then
          match lower f [] with
          | some fe => some (applyTrail (.call fe as) tr)
          | none => none
        else
          -- the callee is (or its receiver chain starts at) a prefix operator, a parenthesised
          -- expression or something that cannot be called: hand the call down
          lower f (.call as :: tr)
  | .binary k l r, tr =>
    if k = .Dot then
      if prefixSpine l then
        match dotPost r with
        | some post => lower l (post :: tr)
        | none => none
      else
        match lower l [], dotPost r with
        | some le, some post => some (applyTrail le (post :: tr))
        | _, _ => none
    else
      match lower l [], binOpOf k with
      | some le, some o =>
        match lower r tr with
        | some re => some (.bin o le re)
        | none => none
      | _, _ => none
def lowerList : List Cst → Option (List Ast)
  | [] => some []
  | c :: cs =>
    match lower c [], lowerList cs with
    | some a, some as => some (a :: as)
    | _, _ => none
end

/-- source tokens → tree, as `parse_ast_file` computes it for one expression -/
def parse (ts : List Tok) : Option Ast :=
  match parseCst ts with
  | some c => lower c []
  | none => none

/-! ## Printing with only the necessary parentheses (documented levels)

`||` 1, `&&` 2, `== !=` 3, `< > <= >=` 4, `+ -` 5, `* /` 6, prefix `- !` 7,
postfix (call, `.field`, `.index`) 8. Binary operators are left-associative: the left operand is
printed at the operator's level, the right operand one level higher. -/

def BinOp.level : BinOp → Nat
  | .or => 1 | .and => 2 | .eq => 3 | .ne => 3
  | .lt => 4 | .gt => 4 | .le => 4 | .ge => 4
  | .add => 5 | .sub => 5 | .mul => 6 | .div => 6

def prefixLevel : Nat := 7
def postfixLevel : Nat := 8

def BinOp.tk : BinOp → TK
  | .or => .OrOr | .and => .AndAnd | .eq => .EqEq | .ne => .NotEq
  | .lt => .Less | .gt => .Greater | .le => .LessEq | .ge => .GreaterEq
  | .add => .Plus | .sub => .Minus | .mul => .Star | .div => .Slash

def UnOp.tk : UnOp → TK
  | .neg => .Minus | .not => .Bang

def natDigits : Nat → List Char
  | n => if h : n < 10 then [Char.ofNat (48 + n)] else natDigits (n / 10) ++ [Char.ofNat (48 + n % 10)]
decreasing_by omega

def parens (b : Bool) (ts : List Tok) : List Tok :=
  if b then .op .LParen :: ts ++ [.rparen] else ts

mutual
/-- `printMin t p`: the tokens of `t` in a context that requires level `p` -/
def printMin : Ast → Nat → List Tok
  | .var x, _ => [.ident x]
  | .lit s, _ => [.int s]
  | .un o e, p => parens (prefixLevel < p) (.op o.tk :: printMin e prefixLevel)
  | .bin o l r, p => parens (o.level < p) (printMin l o.level ++ .op o.tk :: printMin r (o.level + 1))
  | .call f args, _ => printMin f postfixLevel ++ .op .LParen :: printArgs args
  | .field e x, _ => printMin e postfixLevel ++ [.op .Dot, .ident x]
  | .proj e n, _ => printMin e postfixLevel ++ [.op .Dot, .int (natDigits n)]
/-- the arguments of a call and the closing `)` -/
def printArgs : List Ast → List Tok
  | [] => [.rparen]
  | a :: as => printMin a 0 ++ printMore as
/-- what follows an argument: `)` or `,` and the next argument -/
def printMore : List Ast → List Tok
  | [] => [.rparen]
  | a :: as => .comma :: (printMin a 0 ++ printMore as)
end

def isLit : Ast → Bool
  | .lit _ => true
  | _ => false

mutual
/-- well-formedness of a tree: an integer literal — and, through the check's placeholders, every
other primary expression that lowering refuses to apply pending operations to (literals of every kind,
tuple / array / struct literals, `if`, `match`, `while`) — is never *called* directly: `1(x)`,
`(a, b)(x)`, `if c { f } else { g }(x)` are lowering diagnostics by design ("Cannot apply arguments to
integer literal"). It may be the receiver of `.field` / `.0` (`7 . f`, `(a, b) . 0 (x)`). -/
def wf : Ast → Bool
  | .var _ => true
  | .lit _ => true
  | .un _ e => wf e
  | .bin _ l r => wf l && wf r
  | .call f args => !isLit f && wf f && wfList args
  | .field e _ => wf e
  | .proj e _ => wf e
def wfList : List Ast → Bool
  | [] => true
  | a :: as => wf a && wfList as
end

/-! ## Text rendering (driver side; the lexer itself belongs to C12) -/

def Tok.text : Tok → String
  | .ident s => s
  | .int s => String.ofList s
  | .rparen => ")"
  | .comma => ","
  | .op k => k.spelling

def render (ts : List Tok) : String := " ".intercalate (ts.map Tok.text)

end Goml.Pratt
