/-
Model of the position logic of the editor queries (`crates/compiler/src/query.rs`):

* `LineIndex::new` / `LineIndex::offset` of the `line-index` crate (what `(line, col)` means),
* the bounds / char-boundary glue around it (`offset_at` in query.rs); the three switches of
  `Glue` are regenerated from the Rust source text into `Gen/QueryGlue.lean`, so the same model
  mirrors the code with and without the checks,
* rowan's `token_at_offset` on the leaf tokens of the syntax tree and the three
  `TokenAtOffset::Between` tie-break rules,
* `ident_prefix_at_offset` and the completion-placeholder insertion.

A text is the byte sequence of a Rust `&str` (offsets in query.rs are byte offsets); bytes are
`Nat`s. Import-free so that the `gomlmodel` executable links.
-/
namespace Goml.Query

abbrev Text := List Nat

/-- `u32` arithmetic bound (`TextSize` is a `u32`) -/
def U32 : Nat := 4294967296

/-! ## `line_index::LineIndex` -/

/-- `analyze_source_file`: for every `\n` at byte `i` the offset `i + 1` (start of the next line) -/
def newlinesFrom (pos : Nat) : Text → List Nat
  | [] => []
  | b :: bs => if b = 10 then (pos + 1) :: newlinesFrom (pos + 1) bs else newlinesFrom (pos + 1) bs

def newlines (t : Text) : List Nat := newlinesFrom 0 t

/-- `LineIndex::start_offset` -/
def startOffset (nl : List Nat) : Nat → Option Nat
  | 0 => some 0
  | l + 1 => nl[l]?

/-- `LineIndex::offset`: `start_offset(line).map(|start| start + col)`; `TextSize + TextSize` is a
plain `u32` addition, which wraps in a build without overflow checks (release, wasm) -/
def rawOffset (t : Text) (line col : Nat) : Option Nat :=
  (startOffset (newlines t) line).map fun s => (s + col) % U32

/-! ## `str::is_char_boundary` -/

def isCharBoundary (t : Text) (i : Nat) : Bool :=
  if i = 0 then true
  else if t.length ≤ i then i == t.length
  else
    let b := t.getD i 0
    b < 128 || 192 ≤ b

/-! ## the glue in query.rs -/

/-- which checks the code performs between `LineIndex` and the first use of the offset -/
structure Glue where
  /-- `start.checked_add(col)?` instead of `start + col` -/
  checkedAdd : Bool
  /-- `offset > src.len()` → `None` -/
  boundsCheck : Bool
  /-- `!src.is_char_boundary(offset)` → `None` -/
  boundaryCheck : Bool
  deriving Repr, DecidableEq

/-- the code before the repair: `line_index.offset(LineCol { line, col })` and nothing else -/
def Glue.unchecked : Glue := ⟨false, false, false⟩
/-- `offset_at` after the repair -/
def Glue.checked : Glue := ⟨true, true, true⟩

/-- the offset the three queries work with -/
def offsetAt (g : Glue) (t : Text) (line col : Nat) : Option Nat :=
  match startOffset (newlines t) line with
  | none => none
  | some s =>
    if g.checkedAdd && U32 ≤ s + col then none
    else
      let o := (s + col) % U32
      if g.boundsCheck && t.length < o then none
      else if g.boundaryCheck && !isCharBoundary t o then none
      else some o

/-! ## rowan `token_at_offset` over the leaves -/

structure Tok where
  kind : String
  len : Nat
  deriving Repr, BEq, DecidableEq

def totalLen : List Tok → Nat
  | [] => 0
  | t :: ts => t.len + totalLen ts

inductive TokenAt where
  | none
  | single (i : Nat)
  | between (i j : Nat)
  deriving Repr, BEq, DecidableEq

/-- index of the first non-empty token -/
def nextNonEmpty : List Tok → Nat → Option Nat
  | [], _ => Option.none
  | t :: ts, idx => if t.len = 0 then nextNonEmpty ts (idx + 1) else some idx

/-- the non-empty leaves whose closed range contains `off`, scanning left to right
(`children_with_tokens().filter(!empty && start ≤ off ≤ end)`, recursively, flattened) -/
def tokenAtFrom : List Tok → Nat → Nat → Nat → TokenAt
  | [], _, _, _ => .none
  | t :: ts, idx, start, off =>
    if t.len = 0 then tokenAtFrom ts (idx + 1) start off
    else if off < start then .none
    else if off < start + t.len then .single idx
    else if off = start + t.len then
      match nextNonEmpty ts (idx + 1) with
      | some j => .between idx j
      | Option.none => .single idx
    else tokenAtFrom ts (idx + 1) (start + t.len) off

/-- `SyntaxNode::token_at_offset`: `Option.none` is the `assert!` failure
("Bad offset: range 0..len offset off") -/
def rowanTokenAt (toks : List Tok) (off : Nat) : Option TokenAt :=
  if totalLen toks < off then Option.none else some (tokenAtFrom toks 0 0 off)

def kindAt (toks : List Tok) (i : Nat) : String := ((toks[i]?).map (·.kind)).getD ""

/-- `hover_type`: `Between(x, y)` → `x` if it is an identifier, else `y` -/
def hoverPick (toks : List Tok) : TokenAt → Option Nat
  | .none => Option.none
  | .single i => some i
  | .between i j => if kindAt toks i == "Ident" then some i else some j

/-- `dot_completions`: the `.` token at `dot_offset` (right one first) -/
def dotPick (toks : List Tok) : TokenAt → Option Nat
  | .none => Option.none
  | .single i => if kindAt toks i == "Dot" then some i else Option.none
  | .between i j =>
    if kindAt toks j == "Dot" then some j else if kindAt toks i == "Dot" then some i else Option.none

/-- `colon_colon_completions`: `Between(x, y)` → `y` if it is an identifier, else `x` -/
def colonPick (toks : List Tok) : TokenAt → Option Nat
  | .none => Option.none
  | .single i => some i
  | .between i j => if kindAt toks j == "Ident" then some j else some i

/-- start offset of token `i` -/
def tokStart : List Tok → Nat → Nat
  | [], _ => 0
  | _ :: _, 0 => 0
  | t :: ts, i + 1 => t.len + tokStart ts i

/-! ## identifier prefix and the completion placeholder -/

def isIdentByte (b : Nat) : Bool :=
  (97 ≤ b && b ≤ 122) || (65 ≤ b && b ≤ 90) || (48 ≤ b && b ≤ 57) || b == 95

/-- number of identifier bytes immediately before `off` -/
def identRun (t : Text) (off : Nat) : Nat := ((t.take off).reverse.takeWhile isIdentByte).length

/-- `ident_prefix_at_offset`: start of the identifier prefix that ends at `off`;
`src.get(start..end)?` fails unless both ends are char boundaries -/
def identPrefixStart (t : Text) (off : Nat) : Option Nat :=
  if t.length < off then none
  else
    let start := off - identRun t off
    if isCharBoundary t start && isCharBoundary t off then some start else none

/-- `String::insert_str(off, placeholder)` -/
def insertAt (t : Text) (off : Nat) (ph : Text) : Text := t.take off ++ ph ++ t.drop off

structure Prep where
  /-- where the `.` / the first `:` is -/
  anchor : Nat
  /-- offset at which the syntax tree of `parseSrc` is searched -/
  focus : Nat
  parseSrc : Text
  inserted : Bool
  deriving Repr

/-- the part of `dot_completions` before parsing -/
def dotPrepare (g : Glue) (ph : Text) (t : Text) (line col : Nat) : Option Prep :=
  match offsetAt g t line col with
  | none => none
  | some off =>
    match identPrefixStart t off with
    | none => none
    | some start =>
      if start = 0 then none                       -- `checked_sub(1)?`
      else if t[start - 1]? ≠ some 46 then none     -- not a `.`
      else
        let ins := start == off
        some { anchor := start - 1, focus := start - 1,
               parseSrc := if ins then insertAt t off ph else t, inserted := ins }

/-- the part of `colon_colon_completions` before parsing -/
def colonPrepare (g : Glue) (ph : Text) (t : Text) (line col : Nat) : Option Prep :=
  match offsetAt g t line col with
  | none => none
  | some off =>
    match identPrefixStart t off with
    | none => none
    | some start =>
      if start < 2 then none                       -- `checked_sub(2)?`
      else if t[start - 2]? ≠ some 58 ∨ t[start - 1]? ≠ some 58 then none   -- not `::`
      else
        let ins := start == off
        if !ins && off = 0 then none               -- `offset.checked_sub(1)?`
        else
          some { anchor := start - 2, focus := if ins then off else off - 1,
                 parseSrc := if ins then insertAt t off ph else t, inserted := ins }

end Goml.Query
