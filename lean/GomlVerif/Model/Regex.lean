/-! Regular-expression AST used by the generated lexer tables (`Gen/Tokens.lean`)
and a derivative-based longest-prefix matcher.

The AST is what logos' `Mir` keeps of a `#[regex]` pattern
(`logos-codegen/src/mir.rs`): literals, classes, concatenation, alternation and
loops; `x+` is `x x*`, `x{n}` is `n` copies, `.` is the class "not `\n`".
Characters are Unicode scalar values (logos compiles `&str` patterns in UTF-8
mode, so a class matches one whole scalar). -/
namespace Goml.Lex

inductive Re where
  | none                                        -- matches nothing
  | eps                                         -- matches the empty string
  | chr (c : Nat)                               -- one scalar value
  | cls (neg : Bool) (rs : List (Nat × Nat))    -- `[..]` / `[^..]`, inclusive ranges
  | seq (a b : Re)
  | alt (a b : Re)
  | star (a : Re)
deriving Repr, DecidableEq, Inhabited

namespace Re

def inRanges (n : Nat) : List (Nat × Nat) → Bool
  | [] => false
  | (lo, hi) :: rs => (lo ≤ n && n ≤ hi) || inRanges n rs

def nullable : Re → Bool
  | none => false
  | eps => true
  | chr _ => false
  | cls _ _ => false
  | seq a b => nullable a && nullable b
  | alt a b => nullable a || nullable b
  | star _ => true

/-- smart constructors: keep derivatives small (`∅·r = ∅`, `ε·r = r`, `∅|r = r`) -/
def mkSeq : Re → Re → Re
  | none, _ => none
  | eps, b => b
  | a, b => if b = none then none else seq a b

def mkAlt : Re → Re → Re
  | none, b => b
  | a, b => if b = none then a else alt a b

/-- Brzozowski derivative with respect to the scalar `c` -/
def deriv (c : Nat) : Re → Re
  | none => none
  | eps => none
  | chr d => if c = d then eps else none
  | cls neg rs => if inRanges c rs != neg then eps else none
  | seq a b =>
      if nullable a then mkAlt (mkSeq (deriv c a) b) (deriv c b) else mkSeq (deriv c a) b
  | alt a b => mkAlt (deriv c a) (deriv c b)
  | star a => mkSeq (deriv c a) (star a)

/-- `go r s n best`: `n` scalars consumed so far, `best` = longest accepted prefix so far -/
def longestGo : Re → List Char → Nat → Option Nat → Option Nat
  | r, [], n, best => if nullable r then some n else best
  | r, c :: cs, n, best =>
      let best := if nullable r then some n else best
      let r' := deriv c.toNat r
      if r' = none then best else longestGo r' cs (n + 1) best

/-- length (in scalars) of the longest prefix of `s` matched by `r` -/
def longest (r : Re) (s : List Char) : Option Nat := longestGo r s 0 Option.none

/-- logos' default priority of a pattern (`Mir::priority`) -/
def priority : Re → Nat
  | none => 0
  | eps => 0
  | chr _ => 2
  | cls _ _ => 2
  | seq a b => priority a + priority b
  | alt a b => min (priority a) (priority b)
  | star _ => 0

end Re

/-- one `#[regex(..)]` rule of `TokenKind` -/
structure RegexRule where
  kind : Nat
  name : String
  src : String
  re : Re
  prio : Option Nat
  callback : Option String
deriving Repr

end Goml.Lex
