/-
C05 — model of local-name resolution (`crates/compiler/src/typer/name_resolution.rs`,
`resolve_fn` / `resolve_expr` / `resolve_pat` / `resolve_closure_param`).

`resolve*` mirrors the Rust: ONE environment (a vector searched from the back, `rfind`)
that is *mutated* by every binder, a fresh-id counter, and an explicit save/restore
exactly where the Rust calls `enter_scope` (blocks, match arms, closures).
`spec*` is the declarative reading of the property: the environment is an argument
that is only ever passed *down*.
-/
namespace Goml.Resolve

/-- pattern: a variable binder (with the source offset as `tag`) or any other pattern form
    (wildcard, literal, constructor, tuple, struct) with its sub-patterns in source order -/
inductive Pat where
  | var (x : String) (tag : Nat)
  | other (ps : List Pat)
  deriving Repr, Inhabited

mutual
inductive Expr where
  /-- single-segment path in expression position -/
  | var (x : String) (tag : Nat)
  /-- any expression form that binds nothing: children in the order the resolver visits them
      (call, operators, tuple, array, struct literal, if, while, go, field, proj, literals) -/
  | node (es : List Expr)
  | block (items : List Item)
  | matchE (scrut : Expr) (arms : List Arm)
  | closure (params : List (String × Nat)) (body : Expr)
inductive Item where
  | letI (p : Pat) (v : Expr)
  | exprI (e : Expr)
inductive Arm where
  | mk (p : Pat) (body : Expr)
end

/-- observable result of resolution -/
inductive Ev where
  | bind (id tag : Nat)
  | use (tag : Nat) (res : Option Nat)
  deriving Repr, BEq, DecidableEq, Inhabited

abbrev Env := List (String × Nat)

/-- `ResolveLocalEnv::rfind` -/
def lookup (env : Env) (x : String) : Option Nat :=
  match env.reverse.find? (fun p => p.1 == x) with
  | some p => some p.2
  | none => none

structure St where
  env : Env
  next : Nat
  out : List Ev
  deriving Repr, Inhabited

/-! ### implementation model (state threading, as in the Rust) -/

mutual
def resolvePat : Pat → St → St
  | .var x tag, s =>
    { env := s.env ++ [(x, s.next)], next := s.next + 1, out := s.out ++ [Ev.bind s.next tag] }
  | .other ps, s => resolvePats ps s
def resolvePats : List Pat → St → St
  | [], s => s
  | p :: ps, s => resolvePats ps (resolvePat p s)
end

def resolveParams : List (String × Nat) → St → St
  | [], s => s
  | (x, tag) :: ps, s =>
    resolveParams ps
      { env := s.env ++ [(x, s.next)], next := s.next + 1, out := s.out ++ [Ev.bind s.next tag] }

mutual
def resolveExpr : Expr → St → St
  | .var x tag, s => { s with out := s.out ++ [Ev.use tag (lookup s.env x)] }
  | .node es, s => resolveList es s
  | .block items, s =>
    -- `let mut block_env = env.enter_scope()` … the outer env is untouched
    let s' := resolveItems items s
    { s' with env := s.env }
  | .matchE scrut arms, s => resolveArms arms (resolveExpr scrut s)
  | .closure ps body, s =>
    let s1 := resolveParams ps s
    let s2 := resolveExpr body s1
    { s2 with env := s.env }
def resolveList : List Expr → St → St
  | [], s => s
  | e :: es, s => resolveList es (resolveExpr e s)
def resolveItems : List Item → St → St
  | [], s => s
  | .letI p v :: rest, s => resolveItems rest (resolvePat p (resolveExpr v s))
  | .exprI e :: rest, s => resolveItems rest (resolveExpr e s)
def resolveArms : List Arm → St → St
  | [], s => s
  | .mk p body :: rest, s =>
    let s1 := resolvePat p s
    let s2 := resolveExpr body s1
    resolveArms rest { s2 with env := s.env }
end

/-- `resolve_fn`: parameters first, then the body -/
def resolveFn (params : List (String × Nat)) (body : Expr) : St :=
  resolveExpr body (resolveParams params { env := [], next := 0, out := [] })

/-! ### specification (environment passed down only) -/

structure Out where
  evs : List Ev
  next : Nat
  deriving Repr

mutual
/-- binders introduced by a pattern, in source order, numbered from `n` -/
def patBinds : Pat → Nat → Env × List Ev × Nat
  | .var x tag, n => ([(x, n)], [Ev.bind n tag], n + 1)
  | .other ps, n => patsBinds ps n
def patsBinds : List Pat → Nat → Env × List Ev × Nat
  | [], n => ([], [], n)
  | p :: ps, n =>
    let r1 := patBinds p n
    let r2 := patsBinds ps r1.2.2
    (r1.1 ++ r2.1, r1.2.1 ++ r2.2.1, r2.2.2)
end

def paramBinds : List (String × Nat) → Nat → Env × List Ev × Nat
  | [], n => ([], [], n)
  | (x, tag) :: ps, n =>
    let r := paramBinds ps (n + 1)
    ((x, n) :: r.1, Ev.bind n tag :: r.2.1, r.2.2)

mutual
def specExpr (env : Env) (n : Nat) : Expr → Out
  | .var x tag => ⟨[Ev.use tag (lookup env x)], n⟩
  | .node es => specList env n es
  | .block items => specItems env n items
  | .matchE scrut arms =>
    let o1 := specExpr env n scrut
    let o2 := specArms env o1.next arms
    ⟨o1.evs ++ o2.evs, o2.next⟩
  | .closure ps body =>
    let b := paramBinds ps n
    let o := specExpr (env ++ b.1) b.2.2 body
    ⟨b.2.1 ++ o.evs, o.next⟩
def specList (env : Env) (n : Nat) : List Expr → Out
  | [] => ⟨[], n⟩
  | e :: es =>
    let o1 := specExpr env n e
    let o2 := specList env o1.next es
    ⟨o1.evs ++ o2.evs, o2.next⟩
/-- a `let` extends the environment of the *rest of its block* only -/
def specItems (env : Env) (n : Nat) : List Item → Out
  | [] => ⟨[], n⟩
  | .letI p v :: rest =>
    let o1 := specExpr env n v
    let b := patBinds p o1.next
    let o3 := specItems (env ++ b.1) b.2.2 rest
    ⟨o1.evs ++ b.2.1 ++ o3.evs, o3.next⟩
  | .exprI e :: rest =>
    let o1 := specExpr env n e
    let o3 := specItems env o1.next rest
    ⟨o1.evs ++ o3.evs, o3.next⟩
/-- the variables of an arm's pattern are visible in that arm's body only -/
def specArms (env : Env) (n : Nat) : List Arm → Out
  | [] => ⟨[], n⟩
  | .mk p body :: rest =>
    let b := patBinds p n
    let o1 := specExpr (env ++ b.1) b.2.2 body
    let o2 := specArms env o1.next rest
    ⟨b.2.1 ++ o1.evs ++ o2.evs, o2.next⟩
end

def specFn (params : List (String × Nat)) (body : Expr) : Out :=
  let b := paramBinds params 0
  let o := specExpr b.1 b.2.2 body
  ⟨b.2.1 ++ o.evs, o.next⟩

/-! ### declarative well-scopedness (names only, no ids) -/

mutual
def patNames : Pat → List String
  | .var x _ => [x]
  | .other ps => patsNames ps
def patsNames : List Pat → List String
  | [] => []
  | p :: ps => patNames p ++ patsNames ps
end

mutual
/-- every variable use has a binder of its name among the enclosing binders `Γ` -/
def scopedExpr (Γ : List String) : Expr → Bool
  | .var x _ => Γ.contains x
  | .node es => scopedList Γ es
  | .block items => scopedItems Γ items
  | .matchE scrut arms => scopedExpr Γ scrut && scopedArms Γ arms
  | .closure ps body => scopedExpr (Γ ++ ps.map (·.1)) body
def scopedList (Γ : List String) : List Expr → Bool
  | [] => true
  | e :: es => scopedExpr Γ e && scopedList Γ es
def scopedItems (Γ : List String) : List Item → Bool
  | [] => true
  | .letI p v :: rest => scopedExpr Γ v && scopedItems (Γ ++ patNames p) rest
  | .exprI e :: rest => scopedExpr Γ e && scopedItems Γ rest
def scopedArms (Γ : List String) : List Arm → Bool
  | [] => true
  | .mk p body :: rest => scopedExpr (Γ ++ patNames p) body && scopedArms Γ rest
end

def allResolved (evs : List Ev) : Bool :=
  evs.all fun
    | .use _ none => false
    | _ => true

end Goml.Resolve
