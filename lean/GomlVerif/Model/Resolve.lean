/-
C05 — model of local-name resolution (`crates/compiler/src/typer/name_resolution.rs`,
`resolve_fn` / `resolve_expr` / `resolve_pat` / `resolve_closure_param`).

`resolve*` mirrors the Rust: ONE environment (a vector searched from the back, `rfind`)
that is *mutated* by every binder, a fresh-id counter, and an explicit save/restore
exactly where the Rust calls `enter_scope` (blocks, match arms, closures).
`spec*` is the declarative reading of the property: the environment is an argument
that is only ever passed *down*.

Package-level names form the outermost scope (`Globals`): constructors (variants of the
package's enums, structs of the file) and definitions (functions, externs, type names,
builtins).  A bare name in expression position is looked up in the local environment FIRST
(`resolveName`), then among the constructors, then among the definitions.  `ast/src/lower.rs`
classifies a bare name by spelling before name resolution runs; its verdict arrives here as the
node kind (`Expr.con` = "lowering said constructor"): the resolver never consults the local
environment for such a node, the specification does, and `conOk*` is the decidable condition
under which the two agree (lowering called no locally bound name a constructor).
-/
namespace Goml.Resolve

/-- pattern: a variable binder (with the source offset as `tag`) or any other pattern form
    (wildcard, literal, constructor, tuple, struct) with its sub-patterns in source order -/
inductive Pat where
  | var (x : String) (tag : Nat)
  | other (ps : List Pat)
  deriving Repr, Inhabited

mutual
inductive Expr where
  /-- single-segment path in expression position (`EPath`, also as the callee of a call) -/
  | var (x : String) (tag : Nat)
  /-- bare name that AST lowering classified as a constructor (`EConstr` with a one-segment
      path), applied to `args` (none for a nullary use) -/
  | con (x : String) (tag : Nat) (args : List Expr)
  /-- any expression form that binds nothing: children in the order the resolver visits them
      (call, operators, tuple, array, struct literal, if, while, go, field, proj, literals) -/
  | node (es : List Expr)
  | block (items : List Item)
  | matchE (scrut : Expr) (arms : List Arm)
  | closure (params : List (String × Nat)) (body : Expr)
inductive Item where
  | letI (p : Pat) (v : Expr)
  | exprI (e : Expr)
inductive Arm where
  | mk (p : Pat) (body : Expr)
end

/-- what a bare name in expression position refers to -/
inductive Ref where
  /-- the local binder with this id (parameter, let, pattern variable, closure parameter) -/
  | loc (id : Nat)
  /-- a constructor of the package -/
  | ctor
  /-- a package-level definition or a builtin -/
  | defn
  /-- nothing: `NameRef::Unresolved` -/
  | unbound
  deriving Repr, BEq, DecidableEq, Inhabited

/-- package-level names visible unqualified in one file -/
structure Globals where
  /-- variants of the enums of the package (`ConstructorIndex`) and structs of the file
      (`collect_constructor_names`) -/
  ctors : List String
  /-- `def_names` of the package and `builtin_names` -/
  defs : List String
  deriving Repr, Inhabited

/-- observable result of resolution -/
inductive Ev where
  | bind (id tag : Nat)
  | use (tag : Nat) (res : Ref)
  deriving Repr, BEq, DecidableEq, Inhabited

abbrev Env := List (String × Nat)

/-- `ResolveLocalEnv::rfind` -/
def lookup (env : Env) (x : String) : Option Nat :=
  match env.reverse.find? (fun p => p.1 == x) with
  | some p => some p.2
  | none => none

/-- `resolve_expr`, `EPath` arm for a one-segment path: locals, then constructors, then
    definitions and builtins -/
def resolveName (G : Globals) (env : Env) (x : String) : Ref :=
  match lookup env x with
  | some i => .loc i
  | none => if G.ctors.contains x then .ctor else if G.defs.contains x then .defn else .unbound

structure St where
  env : Env
  next : Nat
  out : List Ev
  deriving Repr, Inhabited

/-! ### implementation model (state threading, as in the Rust) -/

mutual
def resolvePat : Pat → St → St
  | .var x tag, s =>
    { env := s.env ++ [(x, s.next)], next := s.next + 1, out := s.out ++ [Ev.bind s.next tag] }
  | .other ps, s => resolvePats ps s
def resolvePats : List Pat → St → St
  | [], s => s
  | p :: ps, s => resolvePats ps (resolvePat p s)
end

def resolveParams : List (String × Nat) → St → St
  | [], s => s
  | (x, tag) :: ps, s =>
    resolveParams ps
      { env := s.env ++ [(x, s.next)], next := s.next + 1, out := s.out ++ [Ev.bind s.next tag] }

mutual
def resolveExpr (G : Globals) : Expr → St → St
  | .var x tag, s => { s with out := s.out ++ [Ev.use tag (resolveName G s.env x)] }
  -- the `EConstr` arm: the environment is not consulted
  | .con _ tag args, s => resolveList G args { s with out := s.out ++ [Ev.use tag .ctor] }
  | .node es, s => resolveList G es s
  | .block items, s =>
    -- `let mut block_env = env.enter_scope()` … the outer env is untouched
    let s' := resolveItems G items s
    { s' with env := s.env }
  | .matchE scrut arms, s => resolveArms G arms (resolveExpr G scrut s)
  | .closure ps body, s =>
    let s1 := resolveParams ps s
    let s2 := resolveExpr G body s1
    { s2 with env := s.env }
def resolveList (G : Globals) : List Expr → St → St
  | [], s => s
  | e :: es, s => resolveList G es (resolveExpr G e s)
def resolveItems (G : Globals) : List Item → St → St
  | [], s => s
  | .letI p v :: rest, s => resolveItems G rest (resolvePat p (resolveExpr G v s))
  | .exprI e :: rest, s => resolveItems G rest (resolveExpr G e s)
def resolveArms (G : Globals) : List Arm → St → St
  | [], s => s
  | .mk p body :: rest, s =>
    let s1 := resolvePat p s
    let s2 := resolveExpr G body s1
    resolveArms G rest { s2 with env := s.env }
end

/-- `resolve_fn`: parameters first (one fresh id each, in order), then the body -/
def resolveFn (G : Globals) (params : List (String × Nat)) (body : Expr) : St :=
  resolveExpr G body (resolveParams params { env := [], next := 0, out := [] })

/-! ### specification (environment passed down only) -/

structure Out where
  evs : List Ev
  next : Nat
  deriving Repr

mutual
/-- binders introduced by a pattern, in source order, numbered from `n` -/
def patBinds : Pat → Nat → Env × List Ev × Nat
  | .var x tag, n => ([(x, n)], [Ev.bind n tag], n + 1)
  | .other ps, n => patsBinds ps n
def patsBinds : List Pat → Nat → Env × List Ev × Nat
  | [], n => ([], [], n)
  | p :: ps, n =>
    let r1 := patBinds p n
    let r2 := patsBinds ps r1.2.2
    (r1.1 ++ r2.1, r1.2.1 ++ r2.2.1, r2.2.2)
end

def paramBinds : List (String × Nat) → Nat → Env × List Ev × Nat
  | [], n => ([], [], n)
  | (x, tag) :: ps, n =>
    let r := paramBinds ps (n + 1)
    ((x, n) :: r.1, Ev.bind n tag :: r.2.1, r.2.2)

mutual
def specExpr (G : Globals) (env : Env) (n : Nat) : Expr → Out
  | .var x tag => ⟨[Ev.use tag (resolveName G env x)], n⟩
  -- the property: however lowering classified it, a bare name refers to the innermost
  -- enclosing local binder of that name, and to a package-level name only when there is none
  | .con x tag args =>
    let o := specList G env n args
    ⟨Ev.use tag (resolveName G env x) :: o.evs, o.next⟩
  | .node es => specList G env n es
  | .block items => specItems G env n items
  | .matchE scrut arms =>
    let o1 := specExpr G env n scrut
    let o2 := specArms G env o1.next arms
    ⟨o1.evs ++ o2.evs, o2.next⟩
  | .closure ps body =>
    let b := paramBinds ps n
    let o := specExpr G (env ++ b.1) b.2.2 body
    ⟨b.2.1 ++ o.evs, o.next⟩
def specList (G : Globals) (env : Env) (n : Nat) : List Expr → Out
  | [] => ⟨[], n⟩
  | e :: es =>
    let o1 := specExpr G env n e
    let o2 := specList G env o1.next es
    ⟨o1.evs ++ o2.evs, o2.next⟩
/-- a `let` extends the environment of the *rest of its block* only -/
def specItems (G : Globals) (env : Env) (n : Nat) : List Item → Out
  | [] => ⟨[], n⟩
  | .letI p v :: rest =>
    let o1 := specExpr G env n v
    let b := patBinds p o1.next
    let o3 := specItems G (env ++ b.1) b.2.2 rest
    ⟨o1.evs ++ b.2.1 ++ o3.evs, o3.next⟩
  | .exprI e :: rest =>
    let o1 := specExpr G env n e
    let o3 := specItems G env o1.next rest
    ⟨o1.evs ++ o3.evs, o3.next⟩
/-- the variables of an arm's pattern are visible in that arm's body only -/
def specArms (G : Globals) (env : Env) (n : Nat) : List Arm → Out
  | [] => ⟨[], n⟩
  | .mk p body :: rest =>
    let b := patBinds p n
    let o1 := specExpr G (env ++ b.1) b.2.2 body
    let o2 := specArms G env o1.next rest
    ⟨b.2.1 ++ o1.evs ++ o2.evs, o2.next⟩
end

def specFn (G : Globals) (params : List (String × Nat)) (body : Expr) : Out :=
  let b := paramBinds params 0
  let o := specExpr G b.1 b.2.2 body
  ⟨b.2.1 ++ o.evs, o.next⟩

/-! ### declarative well-scopedness (names only, no ids) -/

mutual
def patNames : Pat → List String
  | .var x _ => [x]
  | .other ps => patsNames ps
def patsNames : List Pat → List String
  | [] => []
  | p :: ps => patNames p ++ patsNames ps
end

mutual
/-- every bare name has a binder of its name among the enclosing binders `Γ` (package-level
    names are the outermost entries of `Γ`) -/
def scopedExpr (Γ : List String) : Expr → Bool
  | .var x _ => Γ.contains x
  | .con x _ args => Γ.contains x && scopedList Γ args
  | .node es => scopedList Γ es
  | .block items => scopedItems Γ items
  | .matchE scrut arms => scopedExpr Γ scrut && scopedArms Γ arms
  | .closure ps body => scopedExpr (Γ ++ ps.map (·.1)) body
def scopedList (Γ : List String) : List Expr → Bool
  | [] => true
  | e :: es => scopedExpr Γ e && scopedList Γ es
def scopedItems (Γ : List String) : List Item → Bool
  | [] => true
  | .letI p v :: rest => scopedExpr Γ v && scopedItems (Γ ++ patNames p) rest
  | .exprI e :: rest => scopedExpr Γ e && scopedItems Γ rest
def scopedArms (Γ : List String) : List Arm → Bool
  | [] => true
  | .mk p body :: rest => scopedExpr (Γ ++ patNames p) body && scopedArms Γ rest
end

mutual
/-- AST lowering called no locally bound name a constructor: every `con x` names a constructor
    of `G` and has no binder `x` among the enclosing LOCAL binders `Γ` -/
def conOkExpr (G : Globals) (Γ : List String) : Expr → Bool
  | .var _ _ => true
  | .con x _ args => !Γ.contains x && G.ctors.contains x && conOkList G Γ args
  | .node es => conOkList G Γ es
  | .block items => conOkItems G Γ items
  | .matchE scrut arms => conOkExpr G Γ scrut && conOkArms G Γ arms
  | .closure ps body => conOkExpr G (Γ ++ ps.map (·.1)) body
def conOkList (G : Globals) (Γ : List String) : List Expr → Bool
  | [] => true
  | e :: es => conOkExpr G Γ e && conOkList G Γ es
def conOkItems (G : Globals) (Γ : List String) : List Item → Bool
  | [] => true
  | .letI p v :: rest => conOkExpr G Γ v && conOkItems G (Γ ++ patNames p) rest
  | .exprI e :: rest => conOkExpr G Γ e && conOkItems G Γ rest
def conOkArms (G : Globals) (Γ : List String) : List Arm → Bool
  | [] => true
  | .mk p body :: rest => conOkExpr G (Γ ++ patNames p) body && conOkArms G Γ rest
end

def allResolved (evs : List Ev) : Bool :=
  evs.all fun
    | .use _ .unbound => false
    | _ => true

/-- ids handed out to binders, in order -/
def bindIds (evs : List Ev) : List Nat :=
  evs.filterMap fun
    | .bind id _ => some id
    | _ => none

end Goml.Resolve
