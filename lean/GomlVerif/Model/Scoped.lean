import GomlVerif.Model.Syntax
/-!
Scope closedness of a stage output, independently of types (C03: "every variable use is in scope
of a binder"): `unbound B e` lists the variable occurrences of `e` that are neither under a binder
of that name (`let`, closure parameter) nor in `B` (parameters of the function, functions of the
file, builtins).  Arm heads bind nothing in the IRs after the match compiler (fields are fetched
by `let x = cget …`), as in `Wt.errsArms`.
-/
namespace Goml.Scoped
open Goml

mutual
def unbound (B : List String) : Expr → List String
  | .var x _ => if x ∈ B then [] else [x]
  | .prim _ => []
  | .tag _ _ => []
  | .constr _ _ args => unboundList B args
  | .tuple _ items => unboundList B items
  | .array _ items => unboundList B items
  | .closure _ ps body => unbound (ps.map (·.1) ++ B) body
  | .letE x v b => unbound B v ++ unbound (x :: B) b
  | .matchE _ s arms none => unbound B s ++ unboundArms B arms
  | .matchE _ s arms (some d) => unbound B s ++ unboundArms B arms ++ unbound B d
  | .ite c t e => unbound B c ++ unbound B t ++ unbound B e
  | .while c b => unbound B c ++ unbound B b
  | .go e => unbound B e
  | .cget _ _ _ e => unbound B e
  | .un _ _ e => unbound B e
  | .bin _ _ l r => unbound B l ++ unbound B r
  | .call _ f args => unbound B f ++ unboundList B args
  | .toDyn _ _ _ e => unbound B e
  | .dynCall _ _ _ recv args => unbound B recv ++ unboundList B args
  | .traitCall _ _ _ recv args => unbound B recv ++ unboundList B args
  | .proj _ _ e => unbound B e
def unboundList (B : List String) : List Expr → List String
  | [] => []
  | e :: es => unbound B e ++ unboundList B es
def unboundArms (B : List String) : List Arm → List String
  | [] => []
  | .mk _ body :: rest => unbound B body ++ unboundArms B rest
end

/-- the body of `f` mentions only its parameters, its own binders and the global names `G` -/
def scopedFn (G : List String) (f : Fn) : Bool := (unbound (f.params.map (·.1) ++ G) f.body).isEmpty

def scopedFns (G : List String) (fs : List Fn) : Bool := fs.all (scopedFn G)

end Goml.Scoped
