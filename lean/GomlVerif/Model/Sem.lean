import GomlVerif.Model.Syntax
import GomlVerif.Model.Derive
import GomlVerif.Model.FloatFmt
/-
Source-level meaning of the unified expression language: a definitional big-step
interpreter with an observable world (stdout, reference store, spawned activations).
Call-by-value, left-to-right, first matching arm, short-circuit `&&`/`||`,
fixed-width integers that wrap, division truncating toward zero, division by zero and
out-of-range indexing fail at that point.
-/
namespace Goml.Sem
open Goml

inductive Val where
  | unit
  | bool (b : Bool)
  | int (bits : Nat) (signed : Bool) (v : Int)
  | float (bits : Nat) (x : Float)
  | str (s : String)
  | tuple (vs : List Val)
  | enumV (ty : String) (idx : Nat) (args : List Val)
  | structV (ty : String) (fields : List Val)
  | array (vs : List Val)
  | vec (vs : List Val)
  | ref (loc : Nat)
  | closure (params : List String) (body : Expr) (env : List (String × Val))
  | fn (name : String)
  | dyn (tr : String) (tyKey : String) (v : Val)
  deriving Inhabited

abbrev Env := List (String × Val)

inductive Fail where
  | panic (kind : String)
  | fuel
  /-- the program does something the dynamic semantics has no rule for (ill-typed IR) -/
  | stuck (why : String)
  deriving Repr, Inhabited, BEq

structure World where
  out : String := ""
  store : Array Val := #[]
  /-- activations started by `go`, oldest first (closure values to be applied to no arguments) -/
  spawned : List Val := []
  /-- `extern` calls: uninterpreted events -/
  externs : List String := []
  /-- schedule: `true` runs a spawned activation to completion at the `go` (one legal schedule);
      `false` never runs it (the other extreme: the spawner finishes first and the program exits) -/
  eager : Bool := true
  deriving Inhabited

inductive Res (α : Type) where
  | ok (a : α) (w : World)
  | fail (f : Fail) (w : World)
  deriving Inhabited

def wrap (bits : Nat) (signed : Bool) (v : Int) : Int :=
  let m : Int := (2 : Int) ^ bits
  let r := v % m
  if signed && r ≥ m / 2 then r - m else r

def roundF (bits : Nat) (x : Float) : Float :=
  if bits == 32 then x.toFloat32.toFloat else x

def lookupEnv (ρ : Env) (x : String) : Option Val :=
  match ρ.find? (·.1 == x) with
  | some p => some p.2
  | none => none

def tyKey : Ty → String
  | .unit => "unit" | .bool => "bool" | .string => "string"
  | .int b s => (if s then "int" else "uint") ++ toString b
  | .float b => "float" ++ toString b
  | .enum n => n | .struct n => n
  | _ => "?"

def primVal : Prim → Val
  | .unit => .unit
  | .bool b => .bool b
  | .int b s v => .int b s v
  | .float b r => .float b (Float.ofBits r)
  | .str s => .str s

/-- decimal rendering used by `*_to_string` on integers -/
def showInt (v : Int) : String := toString v

def valEq : Val → Val → Option Bool
  | .unit, .unit => some true
  | .bool a, .bool b => some (a == b)
  | .int _ _ a, .int _ _ b => some (a == b)
  | .float _ a, .float _ b => some (a == b)
  | .str a, .str b => some (a == b)
  | _, _ => none

def binop (op : BinOp) (a b : Val) : Except Fail Val :=
  match op, a, b with
  | .add, .int n s x, .int _ _ y => .ok (.int n s (wrap n s (x + y)))
  | .sub, .int n s x, .int _ _ y => .ok (.int n s (wrap n s (x - y)))
  | .mul, .int n s x, .int _ _ y => .ok (.int n s (wrap n s (x * y)))
  | .div, .int n s x, .int _ _ y =>
    if y == 0 then .error (.panic "integer divide by zero") else .ok (.int n s (wrap n s (Int.tdiv x y)))
  | .add, .float n x, .float _ y => .ok (.float n (roundF n (x + y)))
  | .sub, .float n x, .float _ y => .ok (.float n (roundF n (x - y)))
  | .mul, .float n x, .float _ y => .ok (.float n (roundF n (x * y)))
  | .div, .float n x, .float _ y => .ok (.float n (roundF n (x / y)))
  | .add, .str x, .str y => .ok (.str (x ++ y))
  | .less, .int _ _ x, .int _ _ y => .ok (.bool (x < y))
  | .greater, .int _ _ x, .int _ _ y => .ok (.bool (x > y))
  | .lessEq, .int _ _ x, .int _ _ y => .ok (.bool (x ≤ y))
  | .greaterEq, .int _ _ x, .int _ _ y => .ok (.bool (x ≥ y))
  | .less, .float _ x, .float _ y => .ok (.bool (x < y))
  | .greater, .float _ x, .float _ y => .ok (.bool (x > y))
  | .lessEq, .float _ x, .float _ y => .ok (.bool (x ≤ y))
  | .greaterEq, .float _ x, .float _ y => .ok (.bool (x ≥ y))
  | .less, .str x, .str y => .ok (.bool (x < y))
  | .greater, .str x, .str y => .ok (.bool (y < x))
  | .lessEq, .str x, .str y => .ok (.bool (!(y < x)))
  | .greaterEq, .str x, .str y => .ok (.bool (!(x < y)))
  | .eq, x, y => match valEq x y with
    | some r => .ok (.bool r)
    | none => .error (.stuck "eq on non-comparable values")
  | .notEq, x, y => match valEq x y with
    | some r => .ok (.bool !r)
    | none => .error (.stuck "not_eq on non-comparable values")
  | .and, .bool x, .bool y => .ok (.bool (x && y))
  | .or, .bool x, .bool y => .ok (.bool (x || y))
  | _, _, _ => .error (.stuck "binary operator applied to values it is not defined on")

def unop (op : UnOp) (a : Val) : Except Fail Val :=
  match op, a with
  | .neg, .int n s x => .ok (.int n s (wrap n s (-x)))
  | .neg, .float n x => .ok (.float n (-x))
  | .not, .bool b => .ok (.bool !b)
  | _, _ => .error (.stuck "unary operator applied to a value it is not defined on")

/-- `unicode.IsPrint` on non-ASCII runes, as far as it does not depend on the Unicode version:
    controls, format characters, separators, private use and noncharacters are not printable;
    unassigned code points are not modelled (taken as printable) -/
def goIsPrint (c : Char) : Bool :=
  let n := c.toNat
  !( (0x80 ≤ n && n ≤ 0xA0) || n == 0xAD || n == 0x61C || n == 0x180E || n == 0x1680
   || (0x2000 ≤ n && n ≤ 0x200F) || (0x2028 ≤ n && n ≤ 0x202F) || (0x205F ≤ n && n ≤ 0x206F)
   || n == 0x3000 || n == 0xFEFF || (0xFFF0 ≤ n && n ≤ 0xFFFB) || n == 0xFFFE || n == 0xFFFF
   || (0xE000 ≤ n && n ≤ 0xF8FF) || (0xFDD0 ≤ n && n ≤ 0xFDEF)
   || (0xE0000 ≤ n && n ≤ 0xE0FFF) || 0xF0000 ≤ n || n % 0x10000 ≥ 0xFFFE )

/-- Go's `strconv.Quote` (`%q`): `Derive.goQuote` -/
def goQuote (s : String) : String := String.ofList (Derive.goQuote goIsPrint s.toList)

/-- the runtime's `json_escape_string`: `Derive.jsonQuote` -/
def jsonEscape (s : String) : String := String.ofList (Derive.jsonQuote s.toList)

/-- "a readable decimal form": the shortest decimal that reads back as the same float, laid out as
    Go's `%g` does (`Model/FloatFmt.lean`); floats are validated, not proved -/
def showFloat (bits : Nat) (x : Float) : String := Goml.FloatFmt.goFormat bits x

def utf8At (s : String) (i : Nat) : Option String :=
  let bs := s.toUTF8
  if h : i < bs.size then some (String.singleton (Char.ofNat (bs[i]).toNat)) else none

/-- builtins of `builtin.gom` / `builtins.rs`; `none` = not a builtin -/
def builtin (name : String) (args : List Val) (w : World) : Option (Res Val) :=
  match name, args with
  | "unit_to_string", [.unit] => some (.ok (.str "()") w)
  | "bool_to_string", [.bool b] => some (.ok (.str (if b then "true" else "false")) w)
  | "bool_to_json", [.bool b] => some (.ok (.str (if b then "true" else "false")) w)
  | "json_escape_string", [.str s] => some (.ok (.str (jsonEscape s)) w)
  | "string_len", [.str s] => some (.ok (.int 32 true (wrap 32 true s.utf8ByteSize)) w)
  | "string_get", [.str s, .int _ _ i] =>
    if i < 0 then some (.fail (.panic "index out of range") w)
    else match utf8At s i.toNat with
      | some c => some (.ok (.str c) w)
      | none => some (.fail (.panic "index out of range") w)
  | "string_print", [.str s] => some (.ok .unit { w with out := w.out ++ s })
  | "string_println", [.str s] => some (.ok .unit { w with out := w.out ++ s ++ "\n" })
  | "missing", [_] => some (.fail (.panic "missing") w)
  | "ref", [v] => some (.ok (.ref w.store.size) { w with store := w.store.push v })
  | "ref_get", [.ref l] =>
    match w.store[l]? with
    | some v => some (.ok v w)
    | none => some (.fail (.stuck "dangling ref") w)
  | "ref_set", [.ref l, v] =>
    if l < w.store.size then some (.ok .unit { w with store := w.store.set! l v })
    else some (.fail (.stuck "dangling ref") w)
  | "array_get", [.array vs, .int _ _ i] =>
    if i < 0 then some (.fail (.panic "index out of range") w)
    else match vs[i.toNat]? with
      | some v => some (.ok v w)
      | none => some (.fail (.panic "index out of range") w)
  | "array_set", [.array vs, .int _ _ i, v] =>
    if i < 0 || i.toNat ≥ vs.length then some (.fail (.panic "index out of range") w)
    else some (.ok (.array (vs.set i.toNat v)) w)
  | "vec_new", [] => some (.ok (.vec []) w)
  | "vec_push", [.vec vs, v] => some (.ok (.vec (vs ++ [v])) w)
  | "vec_get", [.vec vs, .int _ _ i] =>
    if i < 0 then some (.fail (.panic "index out of range") w)
    else match vs[i.toNat]? with
      | some v => some (.ok v w)
      | none => some (.fail (.panic "index out of range") w)
  | "vec_len", [.vec vs] => some (.ok (.int 32 true (wrap 32 true vs.length)) w)
  | n, [.int _ _ v] =>
    if n.endsWith "_to_string" && (n.startsWith "int" || n.startsWith "uint") then some (.ok (.str (showInt v)) w)
    else none
  | n, [.float b x] =>
    if n.endsWith "_to_string" && n.startsWith "float" then some (.ok (.str (showFloat b x)) w) else none
  | _, _ => none

/-- does arm head `lhs` select value `v` (Core/ANF arm heads: constructor, tag, literal) -/
def armMatches (lhs : Expr) (v : Val) : Bool :=
  match lhs, v with
  | .constr (.enum _ _ idx) _ _, .enumV _ i _ => idx == i
  | .tag idx _, .enumV _ i _ => idx == i
  | .prim p, v => (valEq (primVal p) v).getD false
  | _, _ => false

/-- the enum a tag belongs to (`ImmTag { index, ty }` carries the enum type; `go/compile.rs`
    finds the variant through it), so that a nullary constructor has the same value before and
    after ANF turns it into a tag -/
def tagTyName : Ty → String
  | .enum n => n
  | .app t _ => tagTyName t
  | _ => ""

/-- `&&` / `||` applied to a left operand that is not a boolean: no rule (the check happens
    before the right operand is looked at, as in `if a { b } else { false }`) -/
def logicalNonBool (op : BinOp) (a : Val) : Bool :=
  (op == .and || op == .or) && !(match a with | .bool _ => true | _ => false)

def bindParams : List String → List Val → Env → Env
  | x :: xs, v :: vs, ρ => bindParams xs vs ((x, v) :: ρ)
  | _, _, ρ => ρ

mutual
/-- `eval fuel P ρ w e`; every recursive call consumes one unit of fuel -/
def eval (fuel : Nat) (P : Prog) (ρ : Env) (w : World) (e : Expr) : Res Val :=
  match fuel with
  | 0 => .fail .fuel w
  | fuel + 1 =>
  match e with
  | .var x _ =>
    match lookupEnv ρ x with
    | some v => .ok v w
    | none => .ok (.fn x) w        -- a top-level function or builtin used as a value
  | .prim p => .ok (primVal p) w
  | .tag idx ty => .ok (.enumV (tagTyName ty) idx []) w
  | .constr c _ args =>
    match evalList fuel P ρ w args with
    | .fail f w => .fail f w
    | .ok vs w =>
      match c with
      | .enum ty _ idx => .ok (.enumV ty idx vs) w
      | .struct ty => .ok (.structV ty vs) w
  | .tuple _ items =>
    match evalList fuel P ρ w items with
    | .fail f w => .fail f w
    | .ok vs w => .ok (.tuple vs) w
  | .array _ items =>
    match evalList fuel P ρ w items with
    | .fail f w => .fail f w
    | .ok vs w => .ok (.array vs) w
  | .closure _ ps body => .ok (.closure (ps.map (·.1)) body ρ) w
  | .letE x v body =>
    match eval fuel P ρ w v with
    | .fail f w => .fail f w
    | .ok vv w => eval fuel P ((x, vv) :: ρ) w body
  | .matchE _ scrut arms dflt =>
    match eval fuel P ρ w scrut with
    | .fail f w => .fail f w
    | .ok v w => evalArms fuel P ρ w v arms dflt
  | .ite c t e =>
    match eval fuel P ρ w c with
    | .fail f w => .fail f w
    | .ok (.bool true) w => eval fuel P ρ w t
    | .ok (.bool false) w => eval fuel P ρ w e
    | .ok _ w => .fail (.stuck "if on a non-boolean") w
  | .while c b =>
    match eval fuel P ρ w c with
    | .fail f w => .fail f w
    | .ok (.bool true) w =>
      match eval fuel P ρ w b with
      | .fail f w => .fail f w
      | .ok _ w => eval fuel P ρ w (.while c b)
    | .ok (.bool false) w => .ok .unit w
    | .ok _ w => .fail (.stuck "while on a non-boolean") w
  | .go e =>
    match eval fuel P ρ w e with
    | .fail f w => .fail f w
    | .ok v w =>
      if w.eager then
        match apply fuel P w v [] with
        | .fail f w => .fail f w
        | .ok _ w => .ok .unit w
      else .ok .unit { w with spawned := w.spawned ++ [v] }
  | .cget _ idx _ e =>
    match eval fuel P ρ w e with
    | .fail f w => .fail f w
    | .ok (.enumV _ _ args) w =>
      match args[idx]? with
      | some v => .ok v w
      | none => .fail (.stuck "constructor field out of range") w
    | .ok (.structV _ fs) w =>
      match fs[idx]? with
      | some v => .ok v w
      | none => .fail (.stuck "struct field out of range") w
    | .ok _ w => .fail (.stuck "field access on a non-constructor value") w
  | .proj idx _ e =>
    match eval fuel P ρ w e with
    | .fail f w => .fail f w
    | .ok (.tuple vs) w =>
      match vs[idx]? with
      | some v => .ok v w
      | none => .fail (.stuck "tuple index out of range") w
    | .ok _ w => .fail (.stuck "projection from a non-tuple") w
  | .un op _ e =>
    match eval fuel P ρ w e with
    | .fail f w => .fail f w
    | .ok v w =>
      match unop op v with
      | .ok r => .ok r w
      | .error f => .fail f w
  | .bin op _ l r =>
    match eval fuel P ρ w l with
    | .fail f w => .fail f w
    | .ok a w =>
      -- short-circuit: the right operand is evaluated only when the left does not decide
      match op, a with
      | .and, .bool false => .ok (.bool false) w
      | .or, .bool true => .ok (.bool true) w
      | _, _ =>
        if logicalNonBool op a then .fail (.stuck "logical operator on a non-boolean") w else
        match eval fuel P ρ w r with
        | .fail f w => .fail f w
        | .ok b w =>
          match binop op a b with
          | .ok v => .ok v w
          | .error f => .fail f w
  | .call _ f args =>
    match eval fuel P ρ w f with
    | .fail f w => .fail f w
    | .ok fv w =>
      match evalList fuel P ρ w args with
      | .fail f w => .fail f w
      | .ok vs w => apply fuel P w fv vs
  | .toDyn tr forTy _ e =>
    match eval fuel P ρ w e with
    | .fail f w => .fail f w
    | .ok v w => .ok (.dyn tr (tyKey forTy) v) w
  | .dynCall tr m _ recv args =>
    match eval fuel P ρ w recv with
    | .fail f w => .fail f w
    | .ok (.dyn _ key v) w =>
      match evalList fuel P ρ w args with
      | .fail f w => .fail f w
      | .ok vs w =>
        match P.impls.find? (fun i => i.1 == tr && i.2.1 == key && i.2.2.1 == m) with
        | some i => apply fuel P w (.fn i.2.2.2) (v :: vs)
        | none => .fail (.stuck ("no impl of " ++ tr ++ " for " ++ key)) w
    | .ok _ w => .fail (.stuck "dyn call on a non-dyn value") w
  | .traitCall tr m _ recv args =>
    match eval fuel P ρ w recv with
    | .fail f w => .fail f w
    | .ok v w =>
      match evalList fuel P ρ w args with
      | .fail f w => .fail f w
      | .ok vs w =>
        let key := match v with
          | .unit => "unit" | .bool _ => "bool" | .str _ => "string"
          | .int b s _ => (if s then "int" else "uint") ++ toString b
          | .float b _ => "float" ++ toString b
          | .enumV t _ _ => t | .structV t _ => t
          | _ => "?"
        match P.impls.find? (fun i => i.1 == tr && i.2.1 == key && i.2.2.1 == m) with
        | some i => apply fuel P w (.fn i.2.2.2) (v :: vs)
        | none => .fail (.stuck ("no impl of " ++ tr ++ " for " ++ key)) w

def evalList (fuel : Nat) (P : Prog) (ρ : Env) (w : World) (es : List Expr) : Res (List Val) :=
  match fuel with
  | 0 => .fail .fuel w
  | fuel + 1 =>
  match es with
  | [] => .ok [] w
  | e :: rest =>
    match eval fuel P ρ w e with
    | .fail f w => .fail f w
    | .ok v w =>
      match evalList fuel P ρ w rest with
      | .fail f w => .fail f w
      | .ok vs w => .ok (v :: vs) w

def evalArms (fuel : Nat) (P : Prog) (ρ : Env) (w : World) (v : Val) (arms : List Arm)
    (dflt : Option Expr) : Res Val :=
  match fuel with
  | 0 => .fail .fuel w
  | fuel + 1 =>
  match arms with
  | [] =>
    match dflt with
    | some d => eval fuel P ρ w d
    | none => .fail (.stuck "no arm selected and no default") w
  | .mk lhs body :: rest =>
    if armMatches lhs v then eval fuel P ρ w body else evalArms fuel P ρ w v rest dflt

def apply (fuel : Nat) (P : Prog) (w : World) (f : Val) (args : List Val) : Res Val :=
  match fuel with
  | 0 => .fail .fuel w
  | fuel + 1 =>
  match f with
  | .closure ps body ρ => eval fuel P (bindParams ps args ρ) w body
  | .fn name =>
    match P.findFn name with
    | some fn => eval fuel P (bindParams (fn.params.map (·.1)) args []) w fn.body
    | none =>
      match builtin name args w with
      | some r => r
      | none => .ok .unit { w with externs := w.externs ++ [name] }
  | .structV n _ =>
    -- a lifted closure: its environment struct is applied through its `apply` function
    match P.findFn ("inherent#" ++ n ++ "#" ++ n ++ "#apply") with
    | some fn => eval fuel P (bindParams (fn.params.map (·.1)) (f :: args) []) w fn.body
    | none => .fail (.stuck ("no apply function for " ++ n)) w
  | _ => .fail (.stuck "call of a non-function value") w
end

/-- run the activations started by `go` after the spawner has finished (one of the schedules) -/
def drain (fuel : Nat) (P : Prog) (w : World) : Nat → World
  | 0 => w
  | k + 1 =>
    match w.spawned with
    | [] => w
    | v :: rest =>
      match apply fuel P { w with spawned := rest } v [] with
      | .ok _ w' => drain fuel P w' k
      | .fail _ w' => w'

structure Outcome where
  out : String
  status : String
  externs : List String
  deriving Repr, BEq, Inhabited

def failStr : Fail → String
  | .panic k => "panic:" ++ k
  | .fuel => "fuel"
  | .stuck s => "stuck:" ++ s

def run (fuel : Nat) (P : Prog) (entry : String := "main") (eager : Bool := true) : Outcome :=
  match apply fuel P { eager := eager } (.fn entry) [] with
  | .ok _ w => { out := w.out, status := "ok", externs := w.externs }
  | .fail f w => { out := w.out, status := failStr f, externs := w.externs }

end Goml.Sem
