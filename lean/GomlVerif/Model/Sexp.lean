/-
S-expression reader/printer shared by every line-protocol driver.
Atoms are bare tokens or double-quoted strings with \" \\ \n \t \r \xHH escapes.
Import-free so that the `gomlmodel` executable links.
-/
namespace Goml

inductive Sexp where
  | atom (s : String)
  | list (xs : List Sexp)
  deriving Repr, BEq, Inhabited

namespace Sexp

def needsQuote (s : String) : Bool :=
  s.isEmpty || s.any (fun c => c == ' ' || c == '(' || c == ')' || c == '"' || c == '\\' || c == '\n' || c == '\t' || c == '\r' || c.toNat < 32)

def hexDigit (n : Nat) : Char :=
  if n < 10 then Char.ofNat (48 + n) else Char.ofNat (87 + n)

def quote (s : String) : String :=
  "\"" ++ s.foldl (fun acc c =>
    if c == '"' then acc ++ "\\\""
    else if c == '\\' then acc ++ "\\\\"
    else if c == '\n' then acc ++ "\\n"
    else if c == '\t' then acc ++ "\\t"
    else if c == '\r' then acc ++ "\\r"
    else acc.push c) "" ++ "\""

partial def toStr : Sexp → String
  | atom s => if needsQuote s then quote s else s
  | list xs => "(" ++ " ".intercalate (xs.map toStr) ++ ")"

instance : ToString Sexp := ⟨toStr⟩

/-- tokenizer + parser over a char list; `partial` (driver-side only, no theorem mentions it) -/
partial def parseList (cs : List Char) (acc : List Sexp) : Option (List Sexp × List Char) :=
  match cs with
  | [] => some (acc.reverse, [])
  | c :: rest =>
    if c == ' ' || c == '\t' || c == '\n' || c == '\r' then parseList rest acc
    else if c == ')' then some (acc.reverse, cs)
    else if c == '(' then
      match parseList rest [] with
      | some (xs, ')' :: rest') => parseList rest' (list xs :: acc)
      | _ => none
    else if c == '"' then
      let rec str (cs : List Char) (buf : String) : Option (String × List Char) :=
        match cs with
        | [] => none
        | '"' :: r => some (buf, r)
        | '\\' :: 'n' :: r => str r (buf.push '\n')
        | '\\' :: 't' :: r => str r (buf.push '\t')
        | '\\' :: 'r' :: r => str r (buf.push '\r')
        | '\\' :: c :: r => str r (buf.push c)
        | c :: r => str r (buf.push c)
      match str rest "" with
      | some (s, rest') => parseList rest' (atom s :: acc)
      | none => none
    else
      let rec tok (cs : List Char) (buf : String) : String × List Char :=
        match cs with
        | [] => (buf, [])
        | c :: r =>
          if c == ' ' || c == '\t' || c == '\n' || c == '\r' || c == '(' || c == ')' then (buf, cs)
          else tok r (buf.push c)
      let (s, rest') := tok cs ""
      parseList rest' (atom s :: acc)

def parse (s : String) : Option Sexp :=
  match parseList s.toList [] with
  | some ([x], []) => some x
  | _ => none

def parseMany (s : String) : Option (List Sexp) :=
  match parseList s.toList [] with
  | some (xs, []) => some xs
  | _ => none

def nat? : Sexp → Option Nat
  | atom s => s.toNat?
  | _ => none

def int? : Sexp → Option Int
  | atom s => s.toInt?
  | _ => none

def str? : Sexp → Option String
  | atom s => some s
  | _ => none

def ofNat (n : Nat) : Sexp := atom (toString n)

end Sexp
end Goml
