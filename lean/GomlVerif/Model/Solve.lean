import GomlVerif.Model.Unify
/-!
Model of the constraint loop of the typer, `Typer::solve` in `crates/compiler/src/typer/unify.rs`,
with its helpers `is_concrete`, `decompose_struct_type`, `instantiate_struct_field_ty`,
`substitute_ty_params`, `Typer::inst_ty` — on top of `Model/Unify.lean`.

The global environment is read through two tables only (package `Main`, no dependencies, so
`resolve_type_name` is the identity on the unqualified names used): the struct definitions and the
trait implementations `(trait, self type) ↦ method ↦ scheme`.
-/
namespace Goml.Unify
open Goml

inductive Constraint where
  | eq (l r : Ty)
  | ovl (op trait : String) (callSite : Ty)
  | field (expr : Ty) (fld : String) (result : Ty)
  deriving Inhabited

structure StructDef where
  name : String
  generics : List String
  fields : List (String × Ty)

structure Env where
  /-- struct definitions of the current package (`Main`) -/
  structs : List StructDef
  /-- `(trait, self type, method, type of the scheme)`: one row per method of an `impl Trait for T`,
  the rows of the current package first, then those of the dependencies (the order `solve` collects them) -/
  impls : List (String × Ty × String × Ty)
  /-- the struct tables of the dependency packages -/
  deps : List (String × List StructDef) := []

/-- the diagnostics of `solve` -/
inductive SDiag where
  | unify (d : Diag)
  | noInstance | multipleInstances | overloadNonConcrete | overloadNoArgs | overloadNotFunc
  | structNotFound | structArity | noField
  | unsolved | inferenceFailed
  deriving Repr, DecidableEq, Inhabited

def SDiag.name : SDiag → String
  | .unify d => d.name
  | .noInstance => "no-instance" | .multipleInstances => "multiple-instances"
  | .overloadNonConcrete => "overload-non-concrete" | .overloadNoArgs => "overload-no-args"
  | .overloadNotFunc => "overload-not-func" | .structNotFound => "struct-not-found"
  | .structArity => "struct-arity" | .noField => "no-field"
  | .unsolved => "unsolved" | .inferenceFailed => "inference-failed"

/-- the format string of the message the Rust pushes (checked against the source by
`Props/Solve.lean::solve_messages_match_source`) -/
def SDiag.message : SDiag → String
  | .unify d => d.message
  | .structArity => "Struct {} expects {} type arguments, but got {}"
  | .noField => "Struct {} has no field {}"
  | .noInstance => "No instance found for trait {}<{:?}> for operator {}"
  | .multipleInstances => "Multiple instances found for trait {}<{:?}> for operator {}"
  | .overloadNonConcrete => "Overload resolution failed for non-concrete, non-variable type {:?}"
  | .overloadNoArgs => "Overloaded operator {} called with no arguments?"
  | .overloadNotFunc => "Overloaded constraint does not involve a function type: {:?}"
  | .structNotFound => "Struct {} not found when accessing field {}"
  | .unsolved => "Could not solve all constraints: {:?}"
  | .inferenceFailed => "Type inference failed, remaining constraints: {:?}"

/-- the diagnostics proper to `solve`, in source order -/
def SDiag.own : List SDiag :=
  [.structArity, .noField, .noInstance, .multipleInstances, .overloadNonConcrete, .overloadNoArgs, .overloadNotFunc,
   .structNotFound, .unsolved, .inferenceFailed]

/-! ### helpers -/

mutual
/-- `is_concrete` (local fn of `solve`): no type variable inside; `TParam` counts as concrete -/
def isConcrete : Ty → Bool
  | .tvar _ => false
  | .tuple ts => isConcreteL ts
  | .app t args => isConcrete t && isConcreteL args
  | .array _ e => isConcrete e
  | .vec e => isConcrete e
  | .ref e => isConcrete e
  | .func ps r => isConcreteL ps && isConcrete r
  | _ => true
def isConcreteL : List Ty → Bool
  | [] => true
  | t :: ts => isConcrete t && isConcreteL ts
end

/-- `decompose_struct_type`: `S` or `S[args]…` (nested applications collect their arguments left to right) -/
def decomposeStruct : Ty → Option (String × List Ty)
  | .struct n => some (n, [])
  | .app base args =>
    match decomposeStruct base with
    | some (n, collected) => some (n, collected ++ args)
    | none => none
  | _ => none

def lookupAssoc {α} (k : String) : List (String × α) → Option α
  | [] => none
  | (k', v) :: rest => if k' == k then some v else lookupAssoc k rest

/-- a `HashMap` filled by `insert` in order: the last binding of a key wins -/
def lookupLast {α} (k : String) (xs : List (String × α)) : Option α := lookupAssoc k xs.reverse

mutual
/-- `substitute_ty_params` -/
def substParams (sub : List (String × Ty)) : Ty → Ty
  | .param n => (lookupLast n sub).getD (.param n)
  | .tuple ts => .tuple (substParamsL sub ts)
  | .app t args => .app (substParams sub t) (substParamsL sub args)
  | .array n e => .array n (substParams sub e)
  | .vec e => .vec (substParams sub e)
  | .ref e => .ref (substParams sub e)
  | .func ps r => .func (substParamsL sub ps) (substParams sub r)
  | t => t
def substParamsL (sub : List (String × Ty)) : List Ty → List Ty
  | [] => []
  | t :: ts => substParams sub t :: substParamsL sub ts
end

def completionPlaceholder : String := "completion_placeholder"

/-- `instantiate_struct_field_ty`: `Except` the diagnostic it pushes -/
def instantiateField (sd : StructDef) (args : List Ty) (fld : String) : Except SDiag Ty :=
  if sd.generics.length ≠ args.length then .error .structArity
  else
    let sub := sd.generics.zip args
    match sd.fields.find? (fun p => p.1 == fld) with
    | some (_, ty) => .ok (substParams sub ty)
    | none => if fld == completionPlaceholder then .ok .unit else .error .noField

mutual
/-- `Typer::_go_inst_ty`: every type parameter becomes a fresh variable, the same one for the same name;
the traversal order (tuple elements, head before arguments, parameters before result) decides which
variable gets which key -/
def instTy : Store → List (String × Ty) → Ty → Store × List (String × Ty) × Ty
  | σ, sub, .param n =>
    match lookupAssoc n sub with
    | some t => (σ, sub, t)
    | none => (σ.fresh, sub ++ [(n, .tvar σ.n)], .tvar σ.n)
  | σ, sub, .tuple ts =>
    let (σ', sub', ts') := instTyL σ sub ts
    (σ', sub', .tuple ts')
  | σ, sub, .app t args =>
    let (σ1, sub1, t') := instTy σ sub t
    let (σ2, sub2, args') := instTyL σ1 sub1 args
    (σ2, sub2, .app t' args')
  | σ, sub, .array n e => let (σ', sub', e') := instTy σ sub e; (σ', sub', .array n e')
  | σ, sub, .vec e => let (σ', sub', e') := instTy σ sub e; (σ', sub', .vec e')
  | σ, sub, .ref e => let (σ', sub', e') := instTy σ sub e; (σ', sub', .ref e')
  | σ, sub, .func ps r =>
    let (σ1, sub1, ps') := instTyL σ sub ps
    let (σ2, sub2, r') := instTy σ1 sub1 r
    (σ2, sub2, .func ps' r')
  | σ, sub, t => (σ, sub, t)
def instTyL : Store → List (String × Ty) → List Ty → Store × List (String × Ty) × List Ty
  | σ, sub, [] => (σ, sub, [])
  | σ, sub, t :: ts =>
    let (σ1, sub1, t') := instTy σ sub t
    let (σ2, sub2, ts') := instTyL σ1 sub1 ts
    (σ2, sub2, t' :: ts')
end

mutual
/-- `Ty: PartialEq` (derived in the Rust): structural equality; the key test of the `trait_impls` map -/
def tyEq : Ty → Ty → Bool
  | .unit, .unit => true
  | .bool, .bool => true
  | .string, .string => true
  | .int b s, .int b' s' => b == b' && s == s'
  | .float b, .float b' => b == b'
  | .tvar a, .tvar b => a == b
  | .tuple ts, .tuple us => tyEqL ts us
  | .enum n, .enum m => n == m
  | .struct n, .struct m => n == m
  | .dyn n, .dyn m => n == m
  | .param n, .param m => n == m
  | .app t args, .app u brgs => tyEq t u && tyEqL args brgs
  | .array n e, .array m e' => n == m && tyEq e e'
  | .vec e, .vec e' => tyEq e e'
  | .ref e, .ref e' => tyEq e e'
  | .func ps r, .func qs r' => tyEqL ps qs && tyEq r r'
  | _, _ => false
def tyEqL : List Ty → List Ty → Bool
  | [], [] => true
  | t :: ts, u :: us => tyEq t u && tyEqL ts us
  | _, _ => false
end

/-- `str::split_once("::")` -/
def splitOnce : List Char → Option (List Char × List Char)
  | [] => none
  | ':' :: ':' :: rest => some ([], rest)
  | c :: rest =>
    match splitOnce rest with
    | some (a, b) => some (c :: a, b)
    | none => none

/-- `typer::util::resolve_type_name` when the current package is `Main`: the resolved name and the
struct table of the environment it points to (`Main::X`, `Builtin::X` ↦ `X` here; `Dep::X` ↦ the whole
name, in the dependency's table; anything else ↦ unchanged, here) -/
def resolveTypeName (E : Env) (name : String) : String × List StructDef :=
  if name == "Self" then (name, E.structs)
  else match splitOnce name.toList with
    | some (pkg, rest) =>
      if String.ofList pkg == "Builtin" || String.ofList pkg == "Main" then (String.ofList rest, E.structs)
      else match lookupAssoc (String.ofList pkg) E.deps with
        | some ds => (name, ds)
        | none => (name, E.structs)
    | none => (name, E.structs)

/-- the impl schemes `get_trait_impl(trait, self_ty, op)` finds (current package; no dependencies) -/
def lookupImpls (E : Env) (tr : String) (self : Ty) (op : String) : List Ty :=
  (E.impls.filter fun (t, s, m, _) => t == tr && tyEq s self && m == op).map fun (_, _, _, ty) => ty

/-! ### one pass over the queue -/

structure PassState where
  σ : Store
  diags : List SDiag          -- in the order pushed
  pending : List Constraint   -- `still_pending`
  changed : Bool

def PassState.diag (s : PassState) (d : SDiag) : PassState := { s with diags := s.diags ++ [d] }

def addDiag (ds : List SDiag) : Option Diag → List SDiag
  | none => ds
  | some d => ds ++ [.unify d]

/-- the body of `for constraint in constraints.drain(..)`; `none` = out of fuel (of `unify`/`norm`) -/
def stepC (E : Env) (f : Nat) (s : PassState) : Constraint → Option PassState
  | .eq l r =>
    match unifyF f s.σ l r with
    | none => none
    | some (d, σ') => some { s with σ := σ', diags := addDiag s.diags d, changed := s.changed || d.isNone }
  | .ovl op tr t =>
    match normF f s.σ t with
    | none => none
    | some (.func (self :: ps) ret) =>
      if isConcrete self then
        match lookupImpls E (resolveTypeName E tr).1 self op with
        | [scheme] =>
          let (σ', _, implTy) := instTy s.σ [] scheme
          some { s with σ := σ', pending := s.pending ++ [.eq (.func (self :: ps) ret) implTy], changed := true }
        | [] => some (s.diag .noInstance)
        | _ => some (s.diag .multipleInstances)
      else match self with
        | .tvar _ => some { s with pending := s.pending ++ [.ovl op tr t] }
        | _ => some (s.diag .overloadNonConcrete)
    | some (.func [] _) => some (s.diag .overloadNoArgs)
    | some _ => some (s.diag .overloadNotFunc)
  | .field e fld res =>
    match normF f s.σ e with
    | none => none
    | some ne =>
      match decomposeStruct ne with
      | some (name, args) =>
        match (resolveTypeName E name).2.find? (fun sd => sd.name == (resolveTypeName E name).1) with
        | none => some (s.diag .structNotFound)
        | some sd =>
          match instantiateField sd args fld with
          | .error d => some (s.diag d)
          | .ok fty =>
            match unifyF f s.σ res fty with
            | none => none
            | some (d, σ') => some { s with σ := σ', diags := addDiag s.diags d, changed := s.changed || d.isNone }
      | none => some { s with pending := s.pending ++ [.field ne fld res] }

def passC (E : Env) (f : Nat) : PassState → List Constraint → Option PassState
  | s, [] => some s
  | s, c :: cs =>
    match stepC E f s c with
    | none => none
    | some s' => passC E f s' cs

/-- how `solve` ends -/
inductive SolveRes where
  /-- returned: final store, diagnostics in order, remaining constraints -/
  | done (σ : Store) (diags : List SDiag) (rest : List Constraint)
  /-- `unify` / `norm` ran out of fuel -/
  | noFuel
  /-- the `while changed` loop did not end within the given number of rounds -/
  | noRounds

/-- `while changed { … }` followed by the final test; `rounds` bounds the number of passes -/
def solveLoop (E : Env) (f : Nat) : Nat → Store → List SDiag → List Constraint → SolveRes
  | 0, _, _, _ => .noRounds
  | rounds + 1, σ, diags, cs =>
    match passC E f { σ := σ, diags := diags, pending := [], changed := false } cs with
    | none => .noFuel
    | some s =>
      if s.changed then solveLoop E f rounds s.σ s.diags s.pending
      else if s.pending.isEmpty then .done s.σ s.diags []
      else .done s.σ (s.diags ++ [.unsolved, .inferenceFailed]) s.pending

/-- an upper bound on the number of passes: every pass that reports progress removes weight -/
def weight : Constraint → Nat
  | .eq _ _ => 1
  | .ovl _ _ _ => 2
  | .field _ _ _ => 1

def weightL (cs : List Constraint) : Nat := (cs.map weight).sum

/-- `Typer::solve` on the queue `cs` -/
def solve (E : Env) (f : Nat) (σ : Store) (cs : List Constraint) : SolveRes :=
  solveLoop E f (weightL cs + 1) σ [] cs

end Goml.Unify
