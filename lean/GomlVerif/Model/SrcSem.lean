import GomlVerif.Model.Sem
import GomlVerif.Model.SrcSyntax
/-
SOURCE-LEVEL meaning of goml: a definitional, dynamically typed big-step interpreter of the
SURFACE syntax (`Model/SrcSyntax.lean`, the image of `ast::File`).  Nothing the compiler's front
end computes (name resolution, types, elaborated patterns, decision trees) is consulted:

* lexical scoping exactly as property C05 states it: a binding is visible from its introduction to
  the end of its block / match arm / closure body; `let` extends the REST OF ITS BLOCK; the innermost
  binder wins; closures capture the environment of their creation BY VALUE (`Ref` cells are shared
  through the store);
* call-by-value, left to right; `&&` / `||` short-circuit; first matching arm;
* struct patterns and struct literals are BY FIELD NAME: the written order of the fields is
  irrelevant for what is bound / stored, and it IS the order in which the initialisers of a literal
  are evaluated; declaration order only fixes the stored representation;
* integer literals are typed by their suffix (unsuffixed = int32, as `typer/check.rs` `EInt`; an
  unsuffixed integer PATTERN takes the type of what it is matched against); arithmetic is
  `Sem.binop` (fixed width, wrap-around, truncating division, division by zero fails);
* a refutable `let` and a `match` with no matching arm fail with `missing` at that point;
* methods: `x.m(a)`, `Type::m(x, a)`, `Trait::m(x, a)` are dispatched on the RUNTIME type of the
  receiver; the lookup order of `typer/check.rs` (`infer_call_expr`, callee `EField`: inherent impl
  of the receiver type first, a trait method only for a receiver whose type is a type parameter)
  is mirrored; where a value does not reveal what decides statically (impls for different instances
  of one generic type, an inherent and a trait method of one name inside generic code) the result
  is `unsupported:<why>` — never a guess;
* `dyn` coercion is invisible (a value is its own dynamic package); generic functions run by
  dynamic typing; `extern "go"` calls are uninterpreted events (as in `Sem`); `go` under the same
  `eager` schedule as `Sem`.

Scalars, operators, printing and the scalar builtins are `Sem`'s (`Sem.binop`, `Sem.unop`,
`Sem.builtin`), so outcomes are `Sem.Outcome`s and comparable with `Sem.run` by `==`.
-/
namespace Goml.Src
open Goml

/-- lexical context of the code being run: its package, and whether it sits inside generic code
    (a function or impl block with type parameters) -/
structure Ctx where
  pkg : String
  generic : Bool := false
  deriving Repr, Inhabited, BEq

/-- what a function value refers to -/
inductive FnRef where
  /-- user function by qualified name (`f`, `Lib::f`) -/
  | top (qname : String)
  | builtin (name : String)
  /-- `extern "go"` function: an uninterpreted event -/
  | extern (qname : String)
  /-- n-ary enum constructor used through a path (`Lib::Shape::Box`) -/
  | ctor (ty : String) (idx : Nat) (arity : Nat)
  /-- `Type::m` -/
  | inherent (head : String) (m : String)
  /-- `Trait::m`, dispatched on the first argument -/
  | traitM (tr : String) (m : String)
  deriving Repr, Inhabited, BEq

inductive Val where
  | unit
  | bool (b : Bool)
  | int (bits : Nat) (signed : Bool) (v : Int)
  | float (bits : Nat) (x : Float)
  | str (s : String)
  | tuple (vs : List Val)
  | enumV (ty : String) (idx : Nat) (args : List Val)
  /-- fields in DECLARATION order -/
  | structV (ty : String) (fields : List Val)
  | array (vs : List Val)
  | vec (vs : List Val)
  | ref (loc : Nat)
  | closure (ctx : Ctx) (params : List String) (body : Expr) (env : List (String × Val))
  | fn (r : FnRef)
  deriving Inhabited

abbrev Env := List (String × Val)

inductive Fail where
  | panic (kind : String)
  | fuel
  | stuck (why : String)
  /-- the dynamic semantics cannot decide what the static one decides by types -/
  | unsupported (why : String)
  deriving Repr, Inhabited, BEq

structure World where
  out : String := ""
  store : Array Val := #[]
  spawned : List Val := []
  externs : List String := []
  eager : Bool := true
  deriving Inhabited

inductive Res (α : Type) where
  | ok (a : α) (w : World)
  | fail (f : Fail) (w : World)
  deriving Inhabited

def ofSemFail : Sem.Fail → Fail
  | .panic k => .panic k
  | .fuel => .fuel
  | .stuck s => .stuck s

def failStr : Fail → String
  | .panic k => "panic:" ++ k
  | .fuel => "fuel"
  | .stuck s => "stuck:" ++ s
  | .unsupported s => "unsupported:" ++ s

/-! ### environments -/

def lookupEnv (ρ : Env) (x : String) : Option Val :=
  match ρ.find? (·.1 == x) with
  | some p => some p.2
  | none => none

/-- extend `ρ` by bindings given in source order: a later binder shadows an earlier one -/
def bindAll (ρ : Env) (bs : Env) : Env := bs.reverse ++ ρ

/-! ### static tables of a project (by qualified name) -/

/-- `name_resolution.rs::full_def_name`: items of `Main` and `Builtin` are unqualified -/
def qual (pkg n : String) : String :=
  if pkg == "Main" || pkg == "Builtin" then n else pkg ++ "::" ++ n

structure ImplRow where
  pkg : String
  generics : List String
  /-- qualified trait name; `none` = inherent impl -/
  tr : Option String
  /-- head of the implementing type (`int32`, `Point`, `Lib::Shape`, `tuple`, …); `none` = a bare
      type parameter -/
  head : Option String
  /-- the implementing type has type arguments that are not all distinct type parameters
      (`Record[int32]`): two such rows with one head are told apart by types only -/
  instance_ : Bool
  methods : List FnDef
  deriving Inhabited

structure Tab where
  packages : List String := []
  fns : List (String × String × FnDef) := []       -- qualified name, package, definition
  enums : List (String × String × EnumDef) := []   -- qualified name, package, definition
  structs : List (String × StructDef) := []
  traits : List (String × TraitDef) := []
  impls : List ImplRow := []
  externs : List (String × ExternDef) := []
  builtins : List String := []
  /-- semantics parameter, `false` in the source meaning.  `true` = the initialisers of a struct
      literal run in DECLARATION order of the fields instead of the order they are written in;
      only used to attribute a divergence to exactly that choice (`tools/props/c01.py`) -/
  litDeclOrder : Bool := false
  deriving Inhabited

def intName (bits : Nat) (signed : Bool) : String := (if signed then "int" else "uint") ++ toString bits

/-- a type path as written, seen from package `pkg` (`typer/util.rs::resolve_type_name`) -/
def qualPath (pkg : String) : List String → String
  | [n] => qual pkg n
  | [p, n] => qual p n
  | segs => "::".intercalate segs

def tyHead (pkg : String) (generics : List String) : TyE → Option String
  | .unit => some "unit" | .bool => some "bool" | .string => some "string"
  | .int b s => some (intName b s)
  | .float b => some ("float" ++ toString b)
  | .tuple _ => some "tuple"
  | .array _ _ => some "array"
  | .func _ _ => some "func"
  | .dyn _ => some "dyn"
  | .con [n] =>
    if generics.contains n then none
    else if n == "Vec" || n == "Ref" then some n
    else some (qual pkg n)
  | .con path => some (qualPath pkg path)
  | .app t _ => tyHead pkg generics t

def isParamTy (generics : List String) : TyE → Bool
  | .con [n] => generics.contains n
  | _ => false

/-- does the implementing type fix a type argument (`Record[int32]`, `(int32, string)`, `[int32; 3]`)? -/
def tyIsInstance (generics : List String) : TyE → Bool
  | .app _ args => !(args.all (isParamTy generics)) || !args.eraseDups.length == args.length
  | .tuple _ => true
  | .array _ _ => true
  | .func _ _ => true
  | _ => false

def Tab.ofProg (P : Prog) (litDeclOrder : Bool := false) : Tab :=
  let items : List (String × Item) := P.files.flatMap (fun f => f.items.map (fun i => (f.package, i)))
  { litDeclOrder := litDeclOrder
    packages := (P.files.map (·.package)).eraseDups
    fns := items.filterMap (fun (pkg, i) => match i with
      | .fn d => some (qual pkg d.name, pkg, d) | _ => none)
    enums := items.filterMap (fun (pkg, i) => match i with
      | .enum d => some (qual pkg d.name, pkg, d) | _ => none)
    structs := items.filterMap (fun (pkg, i) => match i with
      | .struct d => some (qual pkg d.name, d) | _ => none)
    traits := items.filterMap (fun (pkg, i) => match i with
      | .trait d => some (qual pkg d.name, d) | _ => none)
    impls := items.filterMap (fun (pkg, i) => match i with
      | .impl d => some { pkg := pkg, generics := d.generics, tr := d.traitName.map (qualPath pkg),
                          head := tyHead pkg d.generics d.forTy,
                          instance_ := tyIsInstance d.generics d.forTy, methods := d.methods }
      | _ => none)
    externs := items.filterMap (fun (pkg, i) => match i with
      | .extern d => if d.kind == "go" then some (qual pkg d.name, d) else none | _ => none)
    builtins := items.filterMap (fun (_, i) => match i with
      | .extern d => if d.kind == "builtin" then some d.name else none | _ => none) }

def Tab.findFn (T : Tab) (q : String) : Option (String × FnDef) :=
  match T.fns.find? (·.1 == q) with
  | some r => some r.2
  | none => none

def Tab.findEnum (T : Tab) (q : String) : Option EnumDef :=
  match T.enums.find? (·.1 == q) with
  | some r => some r.2.2
  | none => none

def Tab.findStruct (T : Tab) (q : String) : Option StructDef :=
  match T.structs.find? (·.1 == q) with
  | some r => some r.2
  | none => none

def Tab.findTrait (T : Tab) (q : String) : Option TraitDef :=
  match T.traits.find? (·.1 == q) with
  | some r => some r.2
  | none => none

/-- the builtins of `builtins.rs` that `builtin.gom` does not declare -/
def containerBuiltins : List String :=
  ["array_get", "array_set", "ref", "ref_get", "ref_set", "vec_new", "vec_push", "vec_get", "vec_len"]

def Tab.isBuiltin (T : Tab) (n : String) : Bool := T.builtins.contains n || containerBuiltins.contains n

def findIdx (xs : List String) (x : String) : Option Nat :=
  let i := xs.findIdx (· == x)
  if i < xs.length then some i else none

/-- enum constructor `(enum, index, arity)` a path denotes, seen from `pkg`
    (`name_resolution.rs::constructor_path_for`): `V` must belong to exactly one enum of the
    package; `E::V`; `P::E::V` -/
def Tab.enumCtor (T : Tab) (pkg : String) : List String → Option (String × Nat × Nat)
  | [v] =>
    let cands := T.enums.filterMap (fun (q, p, d) =>
      if p == pkg then (findIdx (d.variants.map (·.1)) v).map (fun i => (q, i, ((d.variants[i]?.map (·.2.length)).getD 0)))
      else none)
    match cands with
    | [c] => some c
    | _ => none
  | [e, v] =>
    match T.findEnum (qual pkg e) with
    | some d => (findIdx (d.variants.map (·.1)) v).map (fun i => (qual pkg e, i, ((d.variants[i]?.map (·.2.length)).getD 0)))
    | none => none
  | [p, e, v] =>
    match T.findEnum (qual p e) with
    | some d => (findIdx (d.variants.map (·.1)) v).map (fun i => (qual p e, i, ((d.variants[i]?.map (·.2.length)).getD 0)))
    | none => none
  | _ => none

/-! ### values -/

def headOf : Val → String
  | .unit => "unit" | .bool _ => "bool" | .str _ => "string"
  | .int b s _ => intName b s
  | .float b _ => "float" ++ toString b
  | .tuple _ => "tuple"
  | .enumV t _ _ => t
  | .structV t _ => t
  | .array _ => "array"
  | .vec _ => "Vec"
  | .ref _ => "Ref"
  | .closure _ _ _ _ => "func"
  | .fn _ => "func"

def toSem : Val → Option Sem.Val
  | .unit => some .unit
  | .bool b => some (.bool b)
  | .int b s v => some (.int b s v)
  | .float b x => some (.float b x)
  | .str s => some (.str s)
  | _ => none

def ofSem : Sem.Val → Option Val
  | .unit => some .unit
  | .bool b => some (.bool b)
  | .int b s v => some (.int b s v)
  | .float b x => some (.float b x)
  | .str s => some (.str s)
  | _ => none

def toSemList : List Val → Option (List Sem.Val)
  | [] => some []
  | v :: vs => do let a ← toSem v; let as ← toSemList vs; pure (a :: as)

/-- the meaning of a literal: integers by suffix (unsuffixed = int32), floats by suffix
    (unsuffixed = float64; a float32 literal is the binary64 of its text rounded to binary32) -/
def litVal : Lit → Option Val
  | .unit => some .unit
  | .bool b => some (.bool b)
  | .int sfx text =>
    let (bits, signed) := sfx.getD (32, true)
    text.toInt?.map (fun n => .int bits signed (Sem.wrap bits signed n))
  | .float sfx _ bits =>
    let b := sfx.getD 64
    some (.float b (Sem.roundF b (Float.ofBits bits)))
  | .str s => some (.str s)

def binopS (op : BinOp) : Goml.BinOp :=
  match op with
  | .add => .add | .sub => .sub | .mul => .mul | .div => .div | .and => .and | .or => .or
  | .less => .less | .greater => .greater | .lessEq => .lessEq | .greaterEq => .greaterEq
  | .eq => .eq | .notEq => .notEq

def binop (op : BinOp) (a b : Val) : Except Fail Val :=
  match toSem a, toSem b with
  | some x, some y =>
    match Sem.binop (binopS op) x y with
    | .ok r => match ofSem r with
      | some v => .ok v
      | none => .error (.stuck "operator result is not a scalar")
    | .error f => .error (ofSemFail f)
  | _, _ => .error (.stuck "binary operator applied to values it is not defined on")

def unop (op : UnOp) (a : Val) : Except Fail Val :=
  match toSem a with
  | some x =>
    match Sem.unop (match op with | .neg => Goml.UnOp.neg | .not => Goml.UnOp.not) x with
    | .ok r => match ofSem r with
      | some v => .ok v
      | none => .error (.stuck "operator result is not a scalar")
    | .error f => .error (ofSemFail f)
  | none => .error (.stuck "unary operator applied to a value it is not defined on")

/-- builtins: the scalar ones are `Sem.builtin`; the container ones are restated over `Src.Val`
    (same rules as `Sem.builtin`) -/
def builtin (name : String) (args : List Val) (w : World) : Option (Res Val) :=
  match name, args with
  | "ref", [v] => some (.ok (.ref w.store.size) { w with store := w.store.push v })
  | "ref_get", [.ref l] =>
    match w.store[l]? with
    | some v => some (.ok v w)
    | none => some (.fail (.stuck "dangling ref") w)
  | "ref_set", [.ref l, v] =>
    if l < w.store.size then some (.ok .unit { w with store := w.store.set! l v })
    else some (.fail (.stuck "dangling ref") w)
  | "array_get", [.array vs, .int _ _ i] =>
    if i < 0 then some (.fail (.panic "index out of range") w)
    else match vs[i.toNat]? with
      | some v => some (.ok v w)
      | none => some (.fail (.panic "index out of range") w)
  | "array_set", [.array vs, .int _ _ i, v] =>
    if i < 0 || i.toNat ≥ vs.length then some (.fail (.panic "index out of range") w)
    else some (.ok (.array (vs.set i.toNat v)) w)
  | "vec_new", [] => some (.ok (.vec []) w)
  | "vec_push", [.vec vs, v] => some (.ok (.vec (vs ++ [v])) w)
  | "vec_get", [.vec vs, .int _ _ i] =>
    if i < 0 then some (.fail (.panic "index out of range") w)
    else match vs[i.toNat]? with
      | some v => some (.ok v w)
      | none => some (.fail (.panic "index out of range") w)
  | "vec_len", [.vec vs] => some (.ok (.int 32 true (Sem.wrap 32 true vs.length)) w)
  | n, args =>
    match toSemList args with
    | none => none
    | some sargs =>
      match Sem.builtin n sargs { out := w.out } with
      | some (.ok r sw) => (ofSem r).map (fun v => .ok v { w with out := sw.out })
      | some (.fail f sw) => some (.fail (ofSemFail f) { w with out := sw.out })
      | none => none

/-! ### patterns: first-match, binding BY FIELD NAME -/

/-- value of field `f` of a struct value whose declaration lists `decl` -/
def fieldOf (decl : List String) (vals : List Val) (f : String) : Option Val :=
  match findIdx decl f with
  | some i => vals[i]?
  | none => none

def litMatches (l : Lit) (v : Val) : Bool :=
  match l, v with
  | .unit, .unit => true
  | .bool a, .bool b => a == b
  -- an unsuffixed integer pattern has the type of the scrutinee; a suffixed one its own
  | .int none text, .int _ _ n => text.toInt? == some n
  | .int (some (b, s)) text, .int b' s' n => b == b' && s == s' && text.toInt? == some n
  | .str a, .str b => a == b
  | _, _ => false

mutual
/-- `matchPat T pkg p v`: `none` = `p` does not match `v`; `some bs` = it does, binding `bs`
    (in the order the binders are written) -/
def matchPat (T : Tab) (pkg : String) : Pat → Val → Option Env
  | .var x, v => some [(x, v)]
  | .wild, _ => some []
  | .lit l, v => if litMatches l v then some [] else none
  | .tuple ps, v =>
    match v with
    | .tuple vs => if ps.length == vs.length then matchPats T pkg ps vs else none
    | _ => none
  | .constr path ps, v =>
    match v, T.enumCtor pkg path with
    | .enumV ty idx args, some (ty', idx', _) =>
      if ty == ty' && idx == idx' && ps.length == args.length then matchPats T pkg ps args else none
    | _, _ => none
  | .struct path fps, v =>
    match v with
    | .structV ty vals =>
      if ty == qualPath pkg path then
        match T.findStruct ty with
        | some d => matchFields T pkg (d.fields.map (·.1)) vals fps
        | none => none
      else none
    | _ => none
def matchPats (T : Tab) (pkg : String) : List Pat → List Val → Option Env
  | [], _ => some []
  | _ :: _, [] => none
  | p :: ps, v :: vs =>
    match matchPat T pkg p v with
    | none => none
    | some bs =>
      match matchPats T pkg ps vs with
      | none => none
      | some bs' => some (bs ++ bs')
/-- every written field pattern is matched against the field OF THAT NAME -/
def matchFields (T : Tab) (pkg : String) (decl : List String) (vals : List Val) : List FieldPat → Option Env
  | [] => some []
  | .mk f p :: rest =>
    match fieldOf decl vals f with
    | none => none
    | some v =>
      match matchPat T pkg p v with
      | none => none
      | some bs =>
        match matchFields T pkg decl vals rest with
        | none => none
        | some bs' => some (bs ++ bs')
end

/-! ### struct literals: BY FIELD NAME -/

/-- stored representation (declaration order) from the evaluated initialisers (written order) -/
def buildStruct (decl : List String) (inits : List (String × Val)) : Option (List Val) :=
  decl.mapM (fun f => (inits.find? (·.1 == f)).map (·.2))

/-- the order in which the initialisers of a struct literal run: as written (the source meaning);
    under the `litDeclOrder` parameter, by declaration order of the fields -/
def initOrder (declOrder : Bool) (decl : List String) (fs : List FieldInit) : List FieldInit :=
  if declOrder then
    decl.filterMap (fun f => fs.find? (·.name == f)) ++ fs.filter (fun fi => !decl.contains fi.name)
  else fs

/-! ### name lookup -/

/-- a global name used as a value, seen from package `pkg` -/
def globalRef (T : Tab) (pkg : String) (x : String) : Option FnRef :=
  if (T.findFn (qual pkg x)).isSome then some (.top (qual pkg x))
  else if (T.externs.find? (·.1 == qual pkg x)).isSome then some (.extern (qual pkg x))
  else if T.isBuiltin x then some (.builtin x)
  else none

/-- `b` as a member of the trait or type named `q` (`typer/check.rs::infer_type_member_expr`): a method of
    trait `q` first; a trait `q` WITHOUT a method `b` falls through to the type of the same name (a trait and a
    struct may share their name: `trait Foo`, `struct Foo`, `Foo::inherent_method(x)`) -/
def traitOrTypeMember (T : Tab) (q b : String) : Option FnRef :=
  let viaType : Option FnRef :=
    if (T.findEnum q).isSome || (T.findStruct q).isSome then some (.inherent q b) else none
  match T.findTrait q with
  | some d => if (d.sigs.map (·.1)).contains b then some (.traitM q b) else viaType
  | none => viaType

/-- `A::b` / `P::A::b` that is not a constructor: a function of package `A`, a method of trait `A`,
    an inherent method of type `A` (`typer/check.rs::infer_type_member_expr`: trait first) -/
def memberRef (T : Tab) (pkg : String) : List String → Option FnRef
  | [a, b] =>
    if T.packages.contains a && (T.findFn (qual a b)).isSome then some (.top (qual a b))
    else if T.packages.contains a && (T.externs.find? (·.1 == qual a b)).isSome then some (.extern (qual a b))
    else if a == "Builtin" && T.isBuiltin b then some (.builtin b)
    else traitOrTypeMember T (qual pkg a) b
  | [p, a, b] => traitOrTypeMember T (qual p a) b
  | _ => none

/-- meaning of a path in expression position.  A bare name means its innermost local binder
    whatever it is spelled like (lexical scoping; `name_resolution.rs::resolve_expr`, `EPath`:
    `is_local_name` is asked before `constructor_path_for`), then constructors, then the
    package's own functions, then builtins. -/
def evalPath (T : Tab) (ctx : Ctx) (ρ : Env) (segs : List String) : Except Fail Val :=
  let localV : Option Val := match segs with | [x] => lookupEnv ρ x | _ => none
  match localV with
  | some v => .ok v
  | none =>
  match T.enumCtor ctx.pkg segs with
  | some (ty, idx, 0) => .ok (.enumV ty idx [])
  | some (ty, idx, n) => .ok (.fn (.ctor ty idx n))
  | none =>
    match segs with
    | [x] =>
      match globalRef T ctx.pkg x with
      | some r => .ok (.fn r)
      | none => .error (.stuck ("unresolved name " ++ x))
    | _ =>
      match memberRef T ctx.pkg segs with
      | some r => .ok (.fn r)
      | none => .error (.stuck ("unresolved path " ++ "::".intercalate segs))

/-! ### method lookup on the runtime type -/

def ImplRow.method (r : ImplRow) (m : String) : Option FnDef := r.methods.find? (·.name == m)

/-- inherent impl blocks for runtime head `h` that define `m` -/
def Tab.inherentCands (T : Tab) (h m : String) : List (ImplRow × FnDef) :=
  T.impls.filterMap (fun r =>
    if r.tr.isNone && r.head == some h then (r.method m).map (fun d => (r, d)) else none)

/-- trait impl blocks (of trait `tr` when given) for runtime head `h` that define `m` -/
def Tab.traitCands (T : Tab) (tr : Option String) (h m : String) : List (ImplRow × FnDef) :=
  T.impls.filterMap (fun r =>
    if r.tr.isSome && (tr.isNone || r.tr == tr) && r.head == some h then (r.method m).map (fun d => (r, d)) else none)

/-- blanket impls (`impl[T] Tr for T`) are decided by bounds, not by the value -/
def Tab.blanket (T : Tab) (m : String) : Bool :=
  T.impls.any (fun r => r.head.isNone && (r.method m).isSome)

inductive Target where
  | user (r : ImplRow) (d : FnDef)
  | builtin (name : String)

/-- `builtins.rs::builtin_inherent_methods`: `int32` has the inherent method `to_string` -/
def builtinInherent (h m : String) : Option String :=
  if h == "int32" && m == "to_string" then some "int32_to_string" else none

/-- `x.m(…)` for a receiver of runtime head `h`, in code that is (`generic`) or is not inside a
    generic definition.  Static rule (`infer_call_expr`, callee `EField`): the inherent method of
    the receiver's type; for a receiver whose type is a type parameter — which has no inherent
    methods — the method of the single bound trait that has one. -/
def dotTarget (T : Tab) (generic : Bool) (h m : String) : Except Fail Target :=
  let inh := T.inherentCands h m
  let trs := T.traitCands none h m
  if T.blanket m then .error (.unsupported "blanket impl: the bound decides, not the value")
  else match inh, trs with
  | [(r, d)], [] => .ok (.user r d)
  | [(r, d)], _ :: _ =>
    -- a concrete receiver takes the inherent method, a type-parameter receiver the trait's
    if generic then .error (.unsupported "inherent and trait method of one name in generic code")
    else .ok (.user r d)
  | _ :: _ :: _, _ => .error (.unsupported "inherent impls for several instances of one generic type")
  | [], [(r, d)] =>
    if r.instance_ && (T.impls.filter (fun r' => r'.tr == r.tr && r'.head == r.head)).length > 1
    then .error (.unsupported "trait impls for several instances of one generic type")
    else .ok (.user r d)
  | [], _ :: _ :: _ =>
    if (trs.map (·.1.tr)).eraseDups.length == 1
    then .error (.unsupported "trait impls for several instances of one generic type")
    else .error (.unsupported "method of several traits: the bound decides, not the value")
  | [], [] =>
    match builtinInherent h m with
    | some b => .ok (.builtin b)
    | none => .error (.stuck ("no method " ++ m ++ " for " ++ h))

/-- `Trait::m(x, …)` for a receiver of runtime head `h` -/
def traitTarget (T : Tab) (tr h m : String) : Except Fail Target :=
  if T.impls.any (fun r => r.tr == some tr && r.head.isNone) then
    .error (.unsupported "blanket impl: the bound decides, not the value")
  else match T.traitCands (some tr) h m with
  | [(r, d)] => .ok (.user r d)
  | [] => .error (.stuck ("no impl of " ++ tr ++ " for " ++ h))
  | _ => .error (.unsupported "trait impls for several instances of one generic type")

/-- `Type::m(…)` -/
def inherentTarget (T : Tab) (h m : String) : Except Fail Target :=
  match T.inherentCands h m with
  | [(r, d)] => .ok (.user r d)
  | [] =>
    match builtinInherent h m with
    | some b => .ok (.builtin b)
    | none => .error (.stuck ("no inherent method " ++ m ++ " for " ++ h))
  | _ => .error (.unsupported "inherent impls for several instances of one generic type")

def bindParams : List String → List Val → Env → Env
  | x :: xs, v :: vs, ρ => bindParams xs vs ((x, v) :: ρ)
  | _, _, ρ => ρ

/-! ### the interpreter -/

mutual
/-- `eval fuel T ctx ρ w e`; every recursive call consumes one unit of fuel -/
def eval (fuel : Nat) (T : Tab) (ctx : Ctx) (ρ : Env) (w : World) (e : Expr) : Res Val :=
  match fuel with
  | 0 => .fail .fuel w
  | fuel + 1 =>
  match e with
  | .path segs =>
    match evalPath T ctx ρ segs with
    | .ok v => .ok v w
    | .error f => .fail f w
  | .lit l =>
    match litVal l with
    | some v => .ok v w
    | none => .fail (.stuck "malformed literal") w
  | .constr path args =>
    match evalList fuel T ctx ρ w args with
    | .fail f w => .fail f w
    | .ok vs w =>
      -- the lowering's classification is not taken on trust: a bare name with a local binder in
      -- scope means that binder (applied to the arguments, if any are written), however the node is tagged
      let localV : Option Val := match path with | [x] => lookupEnv ρ x | _ => none
      match localV with
      | some fv => if vs.isEmpty then .ok fv w else apply fuel T w fv vs
      | none =>
      match T.enumCtor ctx.pkg path with
      | some (ty, idx, n) =>
        if n == vs.length then .ok (.enumV ty idx vs) w else .fail (.stuck "constructor arity") w
      | none =>
        -- `env.rs::lookup_constructor_with_namespace`: a struct used positionally
        match path, T.findStruct (qualPath ctx.pkg path) with
        | [_], some d =>
          if d.fields.length == vs.length then .ok (.structV (qualPath ctx.pkg path) vs) w
          else .fail (.stuck "constructor arity") w
        | _, _ => .fail (.stuck ("unknown constructor " ++ "::".intercalate path)) w
  | .structLit path fields =>
    -- initialisers run in WRITTEN order; the value stores them in declaration order
    let ty := qualPath ctx.pkg path
    match T.findStruct ty with
    | none => .fail (.stuck ("unknown struct " ++ ty)) w
    | some d =>
      match evalFields fuel T ctx ρ w (initOrder T.litDeclOrder (d.fields.map (·.1)) fields) with
      | .fail f w => .fail f w
      | .ok inits w =>
        match buildStruct (d.fields.map (·.1)) inits with
        | some vals => .ok (.structV ty vals) w
        | none => .fail (.stuck ("struct literal misses a field of " ++ ty)) w
  | .tuple items =>
    match evalList fuel T ctx ρ w items with
    | .fail f w => .fail f w
    | .ok vs w => .ok (.tuple vs) w
  | .array items =>
    match evalList fuel T ctx ρ w items with
    | .fail f w => .fail f w
    | .ok vs w => .ok (.array vs) w
  | .letE p _ v =>
    -- a `let` that is not followed by anything in its block: evaluate, match, bind nothing
    match eval fuel T ctx ρ w v with
    | .fail f w => .fail f w
    | .ok vv w =>
      match matchPat T ctx.pkg p vv with
      | some _ => .ok .unit w
      | none => .fail (.panic "missing") w
  | .closure ps body => .ok (.closure ctx (ps.map (·.1)) body ρ) w
  | .matchE scrut arms =>
    match eval fuel T ctx ρ w scrut with
    | .fail f w => .fail f w
    | .ok v w => evalArms fuel T ctx ρ w v arms
  | .ite c t e =>
    match eval fuel T ctx ρ w c with
    | .fail f w => .fail f w
    | .ok (.bool true) w => eval fuel T ctx ρ w t
    | .ok (.bool false) w => eval fuel T ctx ρ w e
    | .ok _ w => .fail (.stuck "if on a non-boolean") w
  | .while c b =>
    match eval fuel T ctx ρ w c with
    | .fail f w => .fail f w
    | .ok (.bool true) w =>
      match eval fuel T ctx ρ w b with
      | .fail f w => .fail f w
      | .ok _ w => eval fuel T ctx ρ w (.while c b)
    | .ok (.bool false) w => .ok .unit w
    | .ok _ w => .fail (.stuck "while on a non-boolean") w
  | .go e =>
    match eval fuel T ctx ρ w e with
    | .fail f w => .fail f w
    | .ok v w =>
      if w.eager then
        match apply fuel T w v [] with
        | .fail f w => .fail f w
        | .ok _ w => .ok .unit w
      else .ok .unit { w with spawned := w.spawned ++ [v] }
  | .call (.field recv m) args =>
    -- method call `recv.m(args)`: receiver first, then the arguments, then dispatch
    match eval fuel T ctx ρ w recv with
    | .fail f w => .fail f w
    | .ok rv w =>
      match evalList fuel T ctx ρ w args with
      | .fail f w => .fail f w
      | .ok vs w =>
        match dotTarget T ctx.generic (headOf rv) m with
        | .error f => .fail f w
        | .ok t => invoke fuel T w t (rv :: vs)
  | .call f args =>
    match eval fuel T ctx ρ w f with
    | .fail f w => .fail f w
    | .ok fv w =>
      match evalList fuel T ctx ρ w args with
      | .fail f w => .fail f w
      | .ok vs w => apply fuel T w fv vs
  | .un op e =>
    match eval fuel T ctx ρ w e with
    | .fail f w => .fail f w
    | .ok v w =>
      match unop op v with
      | .ok r => .ok r w
      | .error f => .fail f w
  | .bin op l r =>
    match eval fuel T ctx ρ w l with
    | .fail f w => .fail f w
    | .ok a w =>
      -- short-circuit: the right operand is evaluated only when the left does not decide
      match op, a with
      | .and, .bool false => .ok (.bool false) w
      | .or, .bool true => .ok (.bool true) w
      | _, _ =>
        match eval fuel T ctx ρ w r with
        | .fail f w => .fail f w
        | .ok b w =>
          match binop op a b with
          | .ok v => .ok v w
          | .error f => .fail f w
  | .proj e idx =>
    match eval fuel T ctx ρ w e with
    | .fail f w => .fail f w
    | .ok (.tuple vs) w =>
      match vs[idx]? with
      | some v => .ok v w
      | none => .fail (.stuck "tuple index out of range") w
    | .ok _ w => .fail (.stuck "projection from a non-tuple") w
  | .field e f =>
    match eval fuel T ctx ρ w e with
    | .fail f w => .fail f w
    | .ok (.structV ty vals) w =>
      match T.findStruct ty with
      | none => .fail (.stuck ("unknown struct " ++ ty)) w
      | some d =>
        match fieldOf (d.fields.map (·.1)) vals f with
        | some v => .ok v w
        | none => .fail (.stuck ("no field " ++ f ++ " in " ++ ty)) w
    | .ok _ w => .fail (.stuck "field access on a non-struct value") w
  | .block es => evalBlock fuel T ctx ρ w es

def evalList (fuel : Nat) (T : Tab) (ctx : Ctx) (ρ : Env) (w : World) (es : List Expr) : Res (List Val) :=
  match fuel with
  | 0 => .fail .fuel w
  | fuel + 1 =>
  match es with
  | [] => .ok [] w
  | e :: rest =>
    match eval fuel T ctx ρ w e with
    | .fail f w => .fail f w
    | .ok v w =>
      match evalList fuel T ctx ρ w rest with
      | .fail f w => .fail f w
      | .ok vs w => .ok (v :: vs) w

/-- field initialisers of a struct literal, in written order -/
def evalFields (fuel : Nat) (T : Tab) (ctx : Ctx) (ρ : Env) (w : World) (fs : List FieldInit) : Res (List (String × Val)) :=
  match fuel with
  | 0 => .fail .fuel w
  | fuel + 1 =>
  match fs with
  | [] => .ok [] w
  | .mk f e :: rest =>
    match eval fuel T ctx ρ w e with
    | .fail f w => .fail f w
    | .ok v w =>
      match evalFields fuel T ctx ρ w rest with
      | .fail f w => .fail f w
      | .ok vs w => .ok ((f, v) :: vs) w

/-- a block: its value is that of its last expression; `let p = e` binds the variables of `p` for
    the REST of the block and nowhere else; a refutable `let` that does not match fails -/
def evalBlock (fuel : Nat) (T : Tab) (ctx : Ctx) (ρ : Env) (w : World) (es : List Expr) : Res Val :=
  match fuel with
  | 0 => .fail .fuel w
  | fuel + 1 =>
  match es with
  | [] => .ok .unit w
  | [e] => eval fuel T ctx ρ w e
  | .letE p _ v :: rest =>
    match eval fuel T ctx ρ w v with
    | .fail f w => .fail f w
    | .ok vv w =>
      match matchPat T ctx.pkg p vv with
      | some bs => evalBlock fuel T ctx (bindAll ρ bs) w rest
      | none => .fail (.panic "missing") w
  | e :: rest =>
    match eval fuel T ctx ρ w e with
    | .fail f w => .fail f w
    | .ok _ w => evalBlock fuel T ctx ρ w rest

/-- first arm whose pattern matches; its variables are visible in its body only -/
def evalArms (fuel : Nat) (T : Tab) (ctx : Ctx) (ρ : Env) (w : World) (v : Val) (arms : List Arm) : Res Val :=
  match fuel with
  | 0 => .fail .fuel w
  | fuel + 1 =>
  match arms with
  | [] => .fail (.panic "missing") w
  | .mk p body :: rest =>
    match matchPat T ctx.pkg p v with
    | some bs => eval fuel T ctx (bindAll ρ bs) w body
    | none => evalArms fuel T ctx ρ w v rest

/-- run a method / function definition on already evaluated arguments -/
def invoke (fuel : Nat) (T : Tab) (w : World) (t : Target) (args : List Val) : Res Val :=
  match fuel with
  | 0 => .fail .fuel w
  | fuel + 1 =>
  match t with
  | .builtin n =>
    match builtin n args w with
    | some r => r
    | none => .fail (.stuck ("builtin " ++ n ++ " applied to values it is not defined on")) w
  | .user r d =>
    if d.params.length != args.length then .fail (.stuck ("arity of " ++ d.name)) w
    else eval fuel T { pkg := r.pkg, generic := !r.generics.isEmpty || !d.generics.isEmpty }
           (bindParams (d.params.map (·.1)) args []) w d.body

def apply (fuel : Nat) (T : Tab) (w : World) (f : Val) (args : List Val) : Res Val :=
  match fuel with
  | 0 => .fail .fuel w
  | fuel + 1 =>
  match f with
  | .closure cctx ps body ρ =>
    if ps.length != args.length then .fail (.stuck "closure arity") w
    else eval fuel T cctx (bindParams ps args ρ) w body
  | .fn (.top q) =>
    match T.findFn q with
    | some (pkg, d) =>
      if d.params.length != args.length then .fail (.stuck ("arity of " ++ q)) w
      else eval fuel T { pkg := pkg, generic := !d.generics.isEmpty } (bindParams (d.params.map (·.1)) args []) w d.body
    | none => .fail (.stuck ("unknown function " ++ q)) w
  | .fn (.builtin n) =>
    match builtin n args w with
    | some r => r
    | none => .fail (.stuck ("builtin " ++ n ++ " applied to values it is not defined on")) w
  | .fn (.extern q) => .ok .unit { w with externs := w.externs ++ [q] }
  | .fn (.ctor ty idx n) =>
    if n == args.length then .ok (.enumV ty idx args) w else .fail (.stuck "constructor arity") w
  | .fn (.inherent h m) =>
    match inherentTarget T h m with
    | .error f => .fail f w
    | .ok t => invoke fuel T w t args
  | .fn (.traitM tr m) =>
    match args with
    | [] => .fail (.unsupported "trait method without a receiver: the expected type decides") w
    | rv :: _ =>
      match traitTarget T tr (headOf rv) m with
      | .error f => .fail f w
      | .ok t => invoke fuel T w t args
  | _ => .fail (.stuck "call of a non-function value") w
end

def run (fuel : Nat) (P : Prog) (entry : String := "main") (eager : Bool := true)
    (litDeclOrder : Bool := false) : Sem.Outcome :=
  match apply fuel (Tab.ofProg P litDeclOrder) { eager := eager } (.fn (.top entry)) [] with
  | .ok _ w => { out := w.out, status := "ok", externs := w.externs }
  | .fail f w => { out := w.out, status := failStr f, externs := w.externs }

end Goml.Src
