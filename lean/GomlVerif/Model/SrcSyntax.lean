/-
SURFACE syntax of goml: a faithful image of `crates/ast/src/ast.rs` (`ast::File`, `Item`, `Expr`,
`Pat`, `TypeExpr`).  Names are kept exactly as written: paths are segment lists, struct patterns
and struct literals carry their FIELD NAMES in written order, literals carry their suffix and text.
Nothing here has been resolved, typed or elaborated.
-/
namespace Goml.Src

/-- a type as written -/
inductive TyE where
  | unit | bool | string
  | int (bits : Nat) (signed : Bool)
  | float (bits : Nat)
  | tuple (ts : List TyE)
  | con (path : List String)
  | dyn (path : List String)
  | app (t : TyE) (args : List TyE)
  | array (len : Nat) (e : TyE)
  | func (ps : List TyE) (r : TyE)
  deriving Repr, Inhabited, BEq

/-- literals: integers keep their decimal text and suffix (`none` = unsuffixed), floats keep their
    text and, beside it, the binary64 the text denotes (floats are validated, never proved) -/
inductive Lit where
  | unit
  | bool (b : Bool)
  | int (suffix : Option (Nat × Bool)) (text : String)
  | float (suffix : Option Nat) (text : String) (bits : UInt64)
  | str (s : String)
  deriving Repr, Inhabited, BEq

mutual
inductive Pat where
  | var (x : String)
  | wild
  | lit (l : Lit)
  | constr (path : List String) (args : List Pat)
  /-- `S { f: p, g: q }`: fields in WRITTEN order -/
  | struct (path : List String) (fields : List FieldPat)
  | tuple (ps : List Pat)
inductive FieldPat where
  | mk (name : String) (p : Pat)
end

instance : Inhabited Pat := ⟨.wild⟩

def FieldPat.name : FieldPat → String | .mk n _ => n
def FieldPat.pat : FieldPat → Pat | .mk _ p => p

inductive UnOp where
  | neg | not
  deriving Repr, Inhabited, BEq, DecidableEq

inductive BinOp where
  | add | sub | mul | div | and | or | less | greater | lessEq | greaterEq | eq | notEq
  deriving Repr, Inhabited, BEq, DecidableEq

mutual
inductive Expr where
  | path (segs : List String)
  | lit (l : Lit)
  /-- `V(args)` / `E::V(args)` where the lowering recognised a constructor of the same file -/
  | constr (path : List String) (args : List Expr)
  /-- `S { f: e, g: e' }`: fields in WRITTEN order -/
  | structLit (path : List String) (fields : List FieldInit)
  | tuple (items : List Expr)
  | array (items : List Expr)
  /-- a `let` statement; it extends the REST OF ITS BLOCK (see `evalBlock`) -/
  | letE (p : Pat) (ann : Option TyE) (v : Expr)
  | closure (params : List (String × Option TyE)) (body : Expr)
  | matchE (scrut : Expr) (arms : List Arm)
  | ite (c t e : Expr)
  | while (c b : Expr)
  | go (e : Expr)
  | call (f : Expr) (args : List Expr)
  | un (op : UnOp) (e : Expr)
  | bin (op : BinOp) (l r : Expr)
  | proj (e : Expr) (idx : Nat)
  | field (e : Expr) (name : String)
  | block (es : List Expr)
inductive Arm where
  | mk (p : Pat) (body : Expr)
inductive FieldInit where
  | mk (name : String) (e : Expr)
end

instance : Inhabited Expr := ⟨.lit .unit⟩

def FieldInit.name : FieldInit → String | .mk n _ => n
def FieldInit.expr : FieldInit → Expr | .mk _ e => e

structure FnDef where
  name : String
  generics : List String := []
  /-- `T: A + B` -/
  bounds : List (String × List (List String)) := []
  params : List (String × TyE) := []
  ret : Option TyE := none
  body : Expr := .lit .unit
  /-- the source text of every attribute (`ast::Attribute.text`), in order -/
  attrs : List String := []
  deriving Inhabited

structure EnumDef where
  name : String
  generics : List String := []
  variants : List (String × List TyE) := []
  attrs : List String := []
  deriving Inhabited

structure StructDef where
  name : String
  generics : List String := []
  /-- DECLARATION order: the stored representation of a struct value follows it -/
  fields : List (String × TyE) := []
  attrs : List String := []
  deriving Inhabited

structure TraitDef where
  name : String
  /-- method name, parameter types (receiver first), result -/
  sigs : List (String × List TyE × TyE) := []
  attrs : List String := []
  deriving Inhabited

structure ImplDef where
  generics : List String := []
  traitName : Option (List String) := none
  forTy : TyE := .unit
  methods : List FnDef := []
  attrs : List String := []
  deriving Inhabited

structure ExternDef where
  /-- `go` (extern "pkg" fn) or `builtin` (#[builtin] extern fn) -/
  kind : String
  name : String
  goPackage : String := ""
  goSymbol : String := ""
  arity : Nat := 0
  /-- as lowered (`ExternGo` / `ExternBuiltin`): the parameters, the result, whether a Go symbol was written -/
  params : List (String × TyE) := []
  ret : Option TyE := none
  explicitSymbol : Bool := false
  attrs : List String := []
  deriving Inhabited

inductive Item where
  | fn (f : FnDef)
  | enum (d : EnumDef)
  | struct (d : StructDef)
  | trait (d : TraitDef)
  | impl (d : ImplDef)
  | extern (d : ExternDef)
  | externType (name : String)
  deriving Inhabited

structure File where
  package : String
  imports : List String := []
  items : List Item := []
  deriving Inhabited

/-- a project: every file of every package -/
structure Prog where
  files : List File
  deriving Inhabited

end Goml.Src
