import GomlVerif.Gen.StrEscapes
/-!
# C11 — string literals: what the lexer accepts and what lowering makes of it

* `accepts` mirrors the `Str` token regex of `crates/lexer/src/lib.rs`
  (`"([^"\\\x00-\x1F]|\\(["\\bnfrt/]|u[a-fA-F0-9]{4}))*"`) on the characters between the quotes;
* `decode` mirrors `unescape_string` in `crates/ast/src/lower.rs` (JSON-style escapes, `\uXXXX`
  with UTF-16 surrogate pairs; a lone surrogate is a lowering diagnostic);
* `lowerMultiline` mirrors the `MultilineStrExpr` case: per line, leading blanks and the `\\`
  marker are dropped, the rest is kept raw, lines are joined with `\n`.

The escape table, the surrogate ranges and the arithmetic that recombines a surrogate pair are
not written here: they are `Gen/StrEscapes.lean`, regenerated from the Rust text on every run.

Import-free apart from that table. All functions work on `List Char`.
-/
namespace Goml.StrLit
open Goml.Gen.StrEscapes

def isHex (c : Char) : Bool :=
  ('0' ≤ c && c ≤ '9') || ('a' ≤ c && c ≤ 'f') || ('A' ≤ c && c ≤ 'F')

def hexVal (c : Char) : Nat :=
  if '0' ≤ c && c ≤ '9' then c.toNat - 48
  else if 'a' ≤ c && c ≤ 'f' then c.toNat - 87
  else c.toNat - 55

def hex4 (a b c d : Char) : Option Nat :=
  if isHex a && isHex b && isHex c && isHex d then
    some (((hexVal a * 16 + hexVal b) * 16 + hexVal c) * 16 + hexVal d)
  else none

/-- the one-character escapes of `unescape_string` (arms of its `match`, generated table) -/
def simpleEscape (e : Char) : Option Char :=
  (simpleTable.find? (fun p => p.1 == e.toNat)).map (fun p => Char.ofNat p.2)

/-- the escape letters the `Str` token regex admits after a backslash (generated list) -/
def lexEscape (e : Char) : Bool := lexerEscapes.contains e.toNat

/-- the `Str` regex on the text between the quotes (fuel = length, always enough) -/
def acceptsF : Nat → List Char → Bool
  | _, [] => true
  | 0, _ => false
  | f + 1, '\\' :: 'u' :: a :: b :: c :: d :: rest => (hex4 a b c d).isSome && acceptsF f rest
  | f + 1, '\\' :: e :: rest => lexEscape e && acceptsF f rest
  | f + 1, c :: rest => c != '"' && c != '\\' && 32 ≤ c.toNat && acceptsF f rest

def accepts (s : List Char) : Bool := acceptsF s.length s

def isHighSurrogate (n : Nat) : Bool := decide (highLo ≤ n) && decide (n < highHi)
def isLowSurrogate (n : Nat) : Bool := decide (lowLo ≤ n) && decide (n < lowHi)

/-- `char::from_u32`: only Unicode scalar values are characters -/
def scalar? (n : Nat) : Option Char :=
  if n < 0xD800 ∨ (0xDFFF < n ∧ n < 0x110000) then some (Char.ofNat n) else none

/-- the `'u'` arm of `unescape_string` after the four digits `a b c d`: the character denoted and
the unread rest; a high surrogate needs a following `\\uXXXX` low surrogate, the pair is recombined
by the generated `combine`; `none` = no character (`return None` / `char::from_u32(code)?`) -/
def readU (a b c d : Char) (rest : List Char) : Option (Char × List Char) :=
  match hex4 a b c d with
  | none => none
  | some hi =>
    if isHighSurrogate hi then
      match rest with
      | '\\' :: 'u' :: a' :: b' :: c' :: d' :: rest' =>
        match hex4 a' b' c' d' with
        | some lo =>
          if isLowSurrogate lo then (scalar? (combine hi lo)).map (·, rest') else none
        | none => none
      | _ => none
    else (scalar? hi).map (·, rest)

/-- `unescape_string`: `none` = "invalid escape" diagnostic -/
def decodeF : Nat → List Char → Option (List Char)
  | _, [] => some []
  | 0, _ => none
  | f + 1, '\\' :: 'u' :: a :: b :: c :: d :: rest =>
    match readU a b c d rest with
    | some (ch, rest') => (decodeF f rest').map (ch :: ·)
    | none => none
  | f + 1, '\\' :: e :: rest =>
    match simpleEscape e with
    | some c => (decodeF f rest).map (c :: ·)
    | none => none
  | _ + 1, ['\\'] => none
  | f + 1, c :: rest => (decodeF f rest).map (c :: ·)

def decode (s : List Char) : Option (List Char) := decodeF s.length s

/-- `StrExpr` lowering on the text between the quotes -/
def lowerStr (body : List Char) : Option (List Char) := decode body

/-! ### canonical escaping (the inverse used by the fidelity theorem) -/

def hexDigit (n : Nat) : Char :=
  if n < 10 then Char.ofNat (48 + n) else Char.ofNat (87 + n)

def escapeChar (c : Char) : List Char :=
  if c = '"' then ['\\', '"']
  else if c = '\\' then ['\\', '\\']
  else if c = '\n' then ['\\', 'n']
  else if c = '\t' then ['\\', 't']
  else if c = '\r' then ['\\', 'r']
  else if c.toNat < 32 then ['\\', 'u', '0', '0', hexDigit (c.toNat / 16), hexDigit (c.toNat % 16)]
  else [c]

def escape : List Char → List Char
  | [] => []
  | c :: cs => escapeChar c ++ escape cs

/-- four lower-case hexadecimal digits -/
def hex4s (n : Nat) : List Char :=
  [hexDigit (n / 4096 % 16), hexDigit (n / 256 % 16), hexDigit (n / 16 % 16), hexDigit (n % 16)]

/-- `\\uXXXX` -/
def uesc (n : Nat) : List Char := '\\' :: 'u' :: hex4s n

/-- a character spelled with `\\u` escapes only: one escape in the BMP, a UTF-16 surrogate pair above -/
def escapeU (c : Char) : List Char :=
  if c.toNat < 0x10000 then uesc c.toNat
  else uesc (0xD800 + (c.toNat - 0x10000) / 0x400) ++ uesc (0xDC00 + (c.toNat - 0x10000) % 0x400)

def escapeAllU : List Char → List Char
  | [] => []
  | c :: cs => escapeU c ++ escapeAllU cs

/-! ### multi-line strings -/

/-- split at `\n` (the separators are dropped) -/
def splitLines : List Char → List (List Char)
  | [] => [[]]
  | c :: rest =>
    if c = '\n' then [] :: splitLines rest
    else match splitLines rest with
      | l :: ls => (c :: l) :: ls
      | [] => [[c]]

/-- `str::lines` yields no final empty line -/
def dropLastEmpty : List (List Char) → List (List Char)
  | [] => []
  | [[]] => []
  | l :: ls => l :: dropLastEmpty ls

/-- … and strips one `\r` at the end of each line -/
def dropCR : List Char → List Char
  | [] => []
  | ['\r'] => []
  | c :: rest => c :: dropCR rest

def trimStart : List Char → List Char
  | ' ' :: r => trimStart r
  | '\t' :: r => trimStart r
  | l => l

def stripMarker : List Char → Option (List Char)
  | '\\' :: '\\' :: r => some r
  | _ => none

def joinLines : List (List Char) → List Char
  | [] => []
  | [l] => l
  | l :: ls => l ++ '\n' :: joinLines ls

def mapM? {α β} (f : α → Option β) : List α → Option (List β)
  | [] => some []
  | x :: xs => match f x, mapM? f xs with
    | some y, some ys => some (y :: ys)
    | _, _ => none

/-- `MultilineStrExpr` lowering on the whole token text (`str::lines`, `trim_start_matches([' ', '\t'])`,
`strip_prefix("\\\\")`, `join("\n")`) -/
def lowerMultiline (text : List Char) : Option (List Char) :=
  (mapM? (fun l => stripMarker (trimStart (dropCR l))) (dropLastEmpty (splitLines text))).map joinLines

/-! spelling of a multi-line string: per line some blanks, the `\\` marker, the content -/
def spellLine (ind content : List Char) : List Char := ind ++ '\\' :: '\\' :: content

def spellLines : List (List Char × List Char) → List Char
  | [] => []
  | [(i, l)] => spellLine i l
  | (i, l) :: rest => spellLine i l ++ '\n' :: spellLines rest

end Goml.StrLit
