/-
Unified expression language: a superset of the node kinds of Core, Mono, Lift and ANF
(`core.rs`, `mono.rs`, `lift.rs`, `anf.rs`).  Each IR is a sub-language predicate.
-/
namespace Goml

inductive Ty where
  | unit | bool
  | int (bits : Nat) (signed : Bool)
  | float (bits : Nat)
  | string
  | tuple (ts : List Ty)
  | enum (n : String)
  | struct (n : String)
  | dyn (tr : String)
  | app (t : Ty) (args : List Ty)
  | array (len : Nat) (e : Ty)
  | vec (e : Ty)
  | ref (e : Ty)
  | param (n : String)
  | func (ps : List Ty) (r : Ty)
  | tvar (n : Nat)
  deriving Repr, Inhabited, BEq

inductive Prim where
  | unit
  | bool (b : Bool)
  | int (bits : Nat) (signed : Bool) (v : Int)
  /-- `repr` is the IEEE-754 binary64 bit pattern (a float32 literal is stored widened) -/
  | float (bits : Nat) (repr : UInt64)
  | str (s : String)
  deriving Repr, Inhabited, BEq

inductive Ctor where
  | enum (ty variant : String) (idx : Nat)
  | struct (ty : String)
  deriving Repr, Inhabited, BEq, DecidableEq

inductive UnOp where
  | neg | not
  deriving Repr, Inhabited, BEq, DecidableEq

inductive BinOp where
  | add | sub | mul | div | and | or | less | greater | lessEq | greaterEq | eq | notEq
  deriving Repr, Inhabited, BEq, DecidableEq

mutual
inductive Expr where
  | var (x : String) (ty : Ty)
  | prim (p : Prim)
  /-- ANF `ImmTag`: the index of an enum variant (only as the head of a match arm) -/
  | tag (idx : Nat) (ty : Ty)
  | constr (c : Ctor) (ty : Ty) (args : List Expr)
  | tuple (ty : Ty) (items : List Expr)
  | array (ty : Ty) (items : List Expr)
  | closure (ty : Ty) (params : List (String × Ty)) (body : Expr)
  | letE (x : String) (v : Expr) (body : Expr)
  | matchE (ty : Ty) (scrut : Expr) (arms : List Arm) (dflt : Option Expr)
  | ite (c t e : Expr)
  | while (c b : Expr)
  | go (e : Expr)
  | cget (c : Ctor) (idx : Nat) (ty : Ty) (e : Expr)
  | un (op : UnOp) (ty : Ty) (e : Expr)
  | bin (op : BinOp) (ty : Ty) (l r : Expr)
  | call (ty : Ty) (f : Expr) (args : List Expr)
  | toDyn (tr : String) (forTy : Ty) (ty : Ty) (e : Expr)
  | dynCall (tr method : String) (ty : Ty) (recv : Expr) (args : List Expr)
  | traitCall (tr method : String) (ty : Ty) (recv : Expr) (args : List Expr)
  | proj (idx : Nat) (ty : Ty) (e : Expr)
inductive Arm where
  | mk (lhs : Expr) (body : Expr)
end

instance : Inhabited Expr := ⟨.prim .unit⟩

structure Fn where
  name : String
  generics : List String
  params : List (String × Ty)
  ret : Ty
  body : Expr
  deriving Inhabited

structure EnumDef where
  name : String
  generics : List String
  variants : List (String × List Ty)
  deriving Inhabited

structure StructDef where
  name : String
  generics : List String
  fields : List (String × Ty)
  deriving Inhabited

structure Prog where
  fns : List Fn
  enums : List EnumDef := []
  structs : List StructDef := []
  /-- (trait, type key, method) ↦ implementing function (environment data for `dyn` dispatch) -/
  impls : List (String × String × String × String) := []
  deriving Inhabited

def Prog.findFn (p : Prog) (n : String) : Option Fn := p.fns.find? (·.name == n)

end Goml
