import GomlVerif.Model.Lex
/-! Model of `Parser::build_tree` (`crates/parser/src/parser.rs`) and of the part of
rowan's `GreenNodeBuilder` it uses.

`build_tree` walks the event list once. For an `Open` it follows the
`forward_parent` chain (replacing every visited event by a tombstone), then calls
`start_node` for the collected kinds outermost first, skipping `TombStone`; `Close`
calls `finish_node`; `Advance` emits the token at the cursor (if any); `Error`
makes a diagnostic whose range is that of the token at the cursor, else of the last
token. After *every* event all trivia tokens at the cursor are emitted.

The model splits this in two passes that do not interact: `resolve` (events only:
forward parents and tombstones, giving `starts ks | finish | advance | error`) and
`runEvents` (cursor, builder, diagnostics). The cursor is kept as the list of tokens
not yet emitted plus its byte offset. -/
namespace Goml.Tree
open Goml.Lex

inductive Ev where
  | op (kind : Nat) (fwd : Option Nat)     -- `Event::Open { kind, forward_parent }`
  | close
  | advance
  | error (msg : String)
deriving Repr, DecidableEq, Inhabited

inductive Tree where
  | node (kind : Nat) (children : List Tree)
  | leaf (kind : Nat) (text : List Char)
deriving Repr, Inhabited

/-! ### pass 1: forward parents -/

inductive REv where
  | starts (kinds : List Nat)    -- `start_node` calls, in call order
  | finish
  | advance
  | error (msg : String)
deriving Repr, DecidableEq, Inhabited

def tombstone : Ev := .op Goml.Gen.Tokens.tombStoneKind none

/-- `while let Some(fwd) = fp { idx += fwd; fp = match replace(events[idx], tombstone) {Open{..} => .., _ => unreachable!()} }`.
`none` = the Rust panics (index out of bounds / `unreachable!`). A visited event becomes a
tombstone with no forward parent, so the walk ends after at most `len + 1` steps. -/
def chain : Nat → List Ev → Nat → Option Nat → List Nat → Option (List Nat × List Ev)
  | _, evs, _, none, kinds => some (kinds, evs)
  | 0, _, _, some _, _ => none
  | fuel + 1, evs, idx, some fwd, kinds =>
      let idx := idx + fwd
      match evs[idx]? with
      | some (.op k fp) => chain fuel (evs.set idx tombstone) idx fp (kinds ++ [k])
      | _ => none

def resolveLoop : Nat → Nat → List Ev → Option (List REv)
  | 0, _, _ => some []
  | fuel + 1, i, evs =>
      match evs[i]? with
      | none => some []
      | some ev =>
          let evs := evs.set i tombstone
          match ev with
          | .op k fp => do
              let (kinds, evs) ← chain (evs.length + 1) evs i fp [k]
              let rest ← resolveLoop fuel (i + 1) evs
              pure (.starts (kinds.reverse.filter (· != Goml.Gen.Tokens.tombStoneKind)) :: rest)
          | .close => (resolveLoop fuel (i + 1) evs).map (.finish :: ·)
          | .advance => (resolveLoop fuel (i + 1) evs).map (.advance :: ·)
          | .error m => (resolveLoop fuel (i + 1) evs).map (.error m :: ·)

def resolve (evs : List Ev) : Option (List REv) := resolveLoop evs.length 0 evs

/-! ### rowan's `GreenNodeBuilder` -/

/-- `parents: Vec<(kind, first_child)>` (innermost first here), `children: Vec<_>` -/
structure Builder where
  parents : List (Nat × Nat) := []
  children : List Tree := []
deriving Repr, Inhabited

def Builder.startNode (b : Builder) (k : Nat) : Builder :=
  { b with parents := (k, b.children.length) :: b.parents }

def Builder.token (b : Builder) (t : Tok) : Builder :=
  { b with children := b.children ++ [.leaf t.kind t.text] }

/-- `let (kind, first) = self.parents.pop().unwrap(); node(kind, children.drain(first..))` -/
def Builder.finishNode (b : Builder) : Option Builder :=
  match b.parents with
  | [] => none
  | (k, first) :: ps =>
      some { parents := ps, children := b.children.take first ++ [.node k (b.children.drop first)] }

/-- `assert_eq!(children.len(), 1); match children.pop() { Node(n) => n, Token(_) => panic!() }` -/
def Builder.finish (b : Builder) : Option Tree :=
  match b.children with
  | [.node k ch] => some (.node k ch)
  | _ => none

/-! ### pass 2: cursor, builder, diagnostics -/

structure Diag where
  msg : String
  range : Option (Nat × Nat)
deriving Repr, DecidableEq

/-- the trivia loop's test `token.kind == T![eof] || !token.kind.is_trivia()` -/
def stops (k : Nat) : Bool := k == Goml.Gen.Tokens.eofKind || !isTrivia k

structure St where
  rest : List Tok        -- `tokens[cursor..]`
  off : Nat              -- byte offset of `tokens[cursor]`
  b : Builder
  diags : List Diag
deriving Repr

def attachTrivia : List Tok → Nat → Builder → List Tok × Nat × Builder
  | [], off, b => ([], off, b)
  | t :: ts, off, b =>
      if stops t.kind then (t :: ts, off, b)
      else attachTrivia ts (off + byteLen t.text) (b.token t)

def stepEvent (lastRange : Option (Nat × Nat)) (ev : REv) (st : St) : Option St :=
  match ev with
  | .starts ks => some { st with b := ks.foldl Builder.startNode st.b }
  | .finish => st.b.finishNode.map fun b => { st with b := b }
  | .advance =>
      match st.rest with
      | t :: ts => some { st with rest := ts, off := st.off + byteLen t.text, b := st.b.token t }
      | [] => some st
  | .error m =>
      let range := match st.rest with
        | t :: _ => some (st.off, st.off + byteLen t.text)
        | [] => lastRange
      some { st with diags := st.diags ++ [⟨m, range⟩] }

/-- the trivia loop that follows every event -/
def afterEvent (st : St) : St :=
  let r := attachTrivia st.rest st.off st.b
  { st with rest := r.1, off := r.2.1, b := r.2.2 }

def runEvents (lastRange : Option (Nat × Nat)) : List REv → St → Option St
  | [], st => some st
  | ev :: evs, st =>
      match stepEvent lastRange ev st with
      | none => none
      | some st => runEvents lastRange evs (afterEvent st)

/-- `tokens.last().map(|t| t.range)` -/
def lastRangeOf (toks : List Tok) : Option (Nat × Nat) := (ranges 0 toks).getLast?

structure Built where
  tree : Tree
  diags : List Diag
  dropped : List Tok       -- tokens the events never reached (not in the tree)
deriving Repr

def buildTree (evs : List Ev) (toks : List Tok) : Option Built := do
  let revs ← resolve evs
  let st ← runEvents (lastRangeOf toks) revs { rest := toks, off := 0, b := {}, diags := [] }
  let t ← st.b.finish
  pure { tree := t, diags := st.diags, dropped := st.rest }

/-! ### observations on trees -/

mutual
def leaves : Tree → List Tok
  | .node _ ch => leavesList ch
  | .leaf k t => [⟨k, t⟩]
def leavesList : List Tree → List Tok
  | [] => []
  | t :: ts => leaves t ++ leavesList ts
end

-- all (kind, start, end) byte ranges of nodes and tokens, pre-order, tree starting at `off`
mutual
def spans : Nat → Tree → List (Nat × Nat × Nat)
  | off, .node k ch => (k, off, off + byteLen ((leavesList ch).flatMap (·.text))) :: spansList off ch
  | off, .leaf k t => [(k, off, off + byteLen t)]
def spansList : Nat → List Tree → List (Nat × Nat × Nat)
  | _, [] => []
  | off, t :: ts => spans off t ++ spansList (off + byteLen ((leaves t).flatMap (·.text))) ts
end

/-! ### hypotheses of `buildTree_lossless`, as executable checks -/

/-- nesting depth after the starts/finish of one event; `none` = `finish` at depth 0 -/
def depthAfter (d : Nat) : REv → Option Nat
  | .starts ks => some (d + ks.length)
  | .finish => if d = 0 then none else some (d - 1)
  | _ => some d

/-- after every event but the last the depth is ≥ 1; the last event is the `finish` that closes
the root (depth 1 → 0) -/
def balancedFrom : Nat → List REv → Bool
  | _, [] => false
  | d, [ev] => d == 1 && ev == .finish
  | d, ev :: evs => match depthAfter d ev with
      | some (d' + 1) => balancedFrom (d' + 1) evs
      | _ => false

def balanced (evs : List Ev) : Bool :=
  match resolve evs with
  | some revs => balancedFrom 0 revs
  | none => false

def advances : List REv → Nat
  | [] => 0
  | .advance :: evs => advances evs + 1
  | _ :: evs => advances evs

def nonTrivia : List Tok → Nat
  | [] => 0
  | t :: ts => (if stops t.kind then 1 else 0) + nonTrivia ts

end Goml.Tree
