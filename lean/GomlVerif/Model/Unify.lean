import GomlVerif.Model.Syntax
import GomlVerif.Gen.TyConsts
/-!
Model of the typer's unifier, `crates/compiler/src/typer/unify.rs`: `occurs`, `Typer::norm`,
`Typer::unify`, and the `ena` union-find table behind `Typer.uni` as that code uses it
(`new_key`, `find`, `probe_value`, `unify_var_var`, `unify_var_value`).

Types are `Syntax.Ty` (`tvar n` is `TVar(TypeVar(n))`).

The table.  `ena` keeps, per key, a parent pointer, a rank and a value, compresses paths on every
lookup and links by rank.  The typer only ever observes `find k` (the root key) and `probe_value k`
(the value at the root).  Path compression changes neither, and linking by rank reads ranks of roots
only, so the model keeps the observable part: `rep` (key ↦ root key; what `find` returns), `rank`
and `val` (both read at roots only).  `redirect` is `UnificationTable::redirect_root`.

`norm` has NO structural measure in the Rust: on a variable it recurses into the stored value, so it
terminates only when the store is acyclic — which is what the occurs check in `unify` is there to
guarantee.  The model makes that explicit with fuel (`none` = the Rust recursion does not return);
`Props/Unify.lean` proves that on an acyclic store enough fuel exists, and that `unify` keeps the
store acyclic.
-/
namespace Goml.Unify
open Goml

/-- the diagnostic a failing `unify` pushes (exactly one per failing top-level call) -/
inductive Diag where
  | occurs | varVar | varValue | tupleLen | arrayLen | funcLen | ctorName | dynName | appLen
  | paramName | paramConcrete | notEqual
  deriving Repr, DecidableEq, Inhabited

def Diag.name : Diag → String
  | .occurs => "occurs" | .varVar => "var-var" | .varValue => "var-value" | .tupleLen => "tuple-len"
  | .arrayLen => "array-len" | .funcLen => "func-len" | .ctorName => "ctor-name" | .dynName => "dyn-name"
  | .appLen => "app-len" | .paramName => "param-name" | .paramConcrete => "param-concrete"
  | .notEqual => "not-equal"

/-- the message the Rust pushes for the class (text before the first placeholder); `Props/Unify.lean`
checks the list against the messages extracted from the source -/
def Diag.message : Diag → String
  | .occurs => "occurs check failed" | .varVar => "Failed to unify type variables"
  | .varValue => "Failed to unify type variable" | .tupleLen => "Tuple types have different lengths"
  | .arrayLen => "Array types have different lengths" | .funcLen => "Function types have different parameter lengths"
  | .ctorName => "Constructor types are different" | .dynName => "Dyn trait types are different"
  | .appLen => "Constructor types have different argument lengths" | .paramName => "Type parameters are different"
  | .paramConcrete => "Cannot unify type parameter" | .notEqual => "Types are not equal"

def Diag.all : List Diag :=
  [.occurs, .varVar, .varValue, .tupleLen, .arrayLen, .funcLen, .ctorName, .dynName, .appLen, .paramName,
   .paramConcrete, .notEqual]

/-- the arms of the Rust `match (&l_norm, &r_norm)` this model was written against, in source order:
`unifyNorm` handles the first two (the or-pattern `(TVar(a), t) | (t, TVar(a))` names `TVar` twice),
`unifyCtor` the rest; the last but one is `(TParam, ty) | (ty, TParam)`, the last `_` -/
def armOrder : List String :=
  ["TVar,TVar", "TVar,TVar", "TUnit,TUnit", "TBool,TBool", "TInt32,TInt32", "TInt8,TInt8", "TInt16,TInt16",
   "TInt64,TInt64", "TUint8,TUint8", "TUint16,TUint16", "TUint32,TUint32", "TUint64,TUint64", "TFloat32,TFloat32",
   "TFloat64,TFloat64", "TString,TString", "TTuple,TTuple", "TArray,TArray", "TRef,TRef", "TVec,TVec", "TFunc,TFunc",
   "TEnum,TEnum,TStruct,TStruct", "TDyn,TDyn", "TApp,TApp", "TParam,TParam", "TParam,TParam", "_"]

/-- `InPlaceUnificationTable<TypeVar>` as observed through `find` / `probe_value` -/
structure Store where
  /-- number of keys created (`new_key`) -/
  n : Nat
  /-- `find` -/
  rep : Nat → Nat
  rank : Nat → Nat
  /-- the value slot of a key; read at roots only -/
  val : Nat → Option Ty

def Store.empty : Store := { n := 0, rep := id, rank := fun _ => 0, val := fun _ => none }

/-- `uni.new_key(None)` -/
def Store.fresh (σ : Store) : Store := { σ with n := σ.n + 1 }

/-- `uni.probe_value(v)` -/
def Store.probe (σ : Store) (v : Nat) : Option Ty := σ.val (σ.rep v)

def upd {α} (g : Nat → α) (k : Nat) (x : α) : Nat → α := fun i => if i = k then x else g i

/-- `redirect_root(new_rank, old_root, new_root, new_value)` -/
def Store.redirect (σ : Store) (newRank old new : Nat) (v : Option Ty) : Store :=
  { σ with rep := fun i => if σ.rep i = old then new else σ.rep i
           rank := upd σ.rank new newRank
           val := upd σ.val new v }

/-- `unify_roots` (`TypeVar` keeps the default `order_roots = None`): link by rank, ties redirect
the FIRST key to the second -/
def Store.unifyRoots (σ : Store) (a b : Nat) (v : Option Ty) : Store :=
  if σ.rank a > σ.rank b then σ.redirect (σ.rank a) b a v
  else if σ.rank a < σ.rank b then σ.redirect (σ.rank b) a b v
  else σ.redirect (σ.rank a + 1) a b v

/-- `<Option<Ty> as UnifyValue>::unify_values` with `Ty: EqUnifyValue`; `none` = `Err` -/
def combine : Option Ty → Option Ty → Option (Option Ty)
  | none, none => some none
  | some t, none => some (some t)
  | none, some t => some (some t)
  | some t, some u => if t == u then some (some t) else none

/-- `uni.unify_var_var(a, b)`; `none` = `Err` -/
def Store.unifyVarVar (σ : Store) (a b : Nat) : Option Store :=
  let ra := σ.rep a
  let rb := σ.rep b
  if ra = rb then some σ
  else match combine (σ.val ra) (σ.val rb) with
    | none => none
    | some v => some (σ.unifyRoots ra rb v)

/-- `uni.unify_var_value(a, Some(t))`; `none` = `Err` -/
def Store.unifyVarValue (σ : Store) (a : Nat) (t : Ty) : Option Store :=
  let ra := σ.rep a
  match combine (σ.val ra) (some t) with
  | none => none
  | some v => some { σ with val := upd σ.val ra v }

/-! ### `occurs` — `true` means the check PASSES (the variable does not occur) -/
mutual
def occursOk (a : Nat) : Ty → Bool
  | .tvar v => !(a == v)
  | .tuple ts => occursOkL a ts
  | .app t args => occursOk a t && occursOkL a args
  | .array _ e => occursOk a e
  | .vec e => occursOk a e
  | .ref e => occursOk a e
  | .func ps r => occursOkL a ps && occursOk a r
  | _ => true
def occursOkL (a : Nat) : List Ty → Bool
  | [] => true
  | t :: ts => occursOk a t && occursOkL a ts
end

/-- `Option`-valued map with the first failure winning -/
def mapO {α β} (g : α → Option β) : List α → Option (List β)
  | [] => some []
  | x :: xs => match g x with
    | none => none
    | some y => match mapO g xs with
      | none => none
      | some ys => some (y :: ys)

/-- `Typer::norm`; the fuel bounds the recursion depth, `none` = fuel exhausted -/
def normF : Nat → Store → Ty → Option Ty
  | 0, _, _ => none
  | f + 1, σ, t =>
    match t with
    | .tvar v =>
      match σ.val (σ.rep v) with
      | some u => normF f σ u
      | none => some (.tvar (σ.rep v))
    | .tuple ts => (mapO (normF f σ) ts).map Ty.tuple
    | .app t args =>
      match normF f σ t with
      | none => none
      | some t' => (mapO (normF f σ) args).map (Ty.app t')
    | .array n e => (normF f σ e).map (Ty.array n)
    | .vec e => (normF f σ e).map Ty.vec
    | .ref e => (normF f σ e).map Ty.ref
    | .func ps r =>
      match mapO (normF f σ) ps with
      | none => none
      | some ps' => (normF f σ r).map (Ty.func ps')
    | t => some t

abbrev Res := Option (Option Diag × Store)

def ok (σ : Store) : Res := some (none, σ)
def fail (d : Diag) (σ : Store) : Res := some (some d, σ)

/-- `for (a, b) in xs.iter().zip(ys.iter()) { if !self.unify(a, b) { return false; } }` -/
def unifyList (rec : Store → Ty → Ty → Res) : Store → List Ty → List Ty → Res
  | σ, t :: ts, u :: us =>
    match rec σ t u with
    | some (none, σ') => unifyList rec σ' ts us
    | r => r
  | σ, _, _ => ok σ

def isParam : Ty → Bool
  | .param _ => true
  | _ => false

/-- the arm `(TVar(a), TVar(b))` -/
def varVarArm (σ : Store) (a b : Nat) : Res :=
  match σ.unifyVarVar a b with
  | some σ' => ok σ'
  | none => fail .varVar σ

/-- the arm `(TVar(a), t) | (t, TVar(a))` -/
def bindArm (σ : Store) (a : Nat) (t : Ty) : Res :=
  if !occursOk a t then fail .occurs σ
  else match σ.unifyVarValue a t with
    | some σ' => ok σ'
    | none => fail .varValue σ

/-- the arms of `unify` for two normalised non-variable types, in the order of the Rust `match`:
equal primitives, same constructor (arity / length / name tests first, then the components left to
right), then `(TParam, _) | (_, TParam)`, then `_`. -/
def unifyCtor (rec : Store → Ty → Ty → Res) (σ : Store) (l r : Ty) : Res :=
  match l, r with
  | .unit, .unit => ok σ
  | .bool, .bool => ok σ
  | .string, .string => ok σ
  | .int b s, .int b' s' => if b = b' ∧ s = s' then ok σ else fail .notEqual σ
  | .float b, .float b' => if b = b' then ok σ else fail .notEqual σ
  | .tuple ts, .tuple us =>
    if ts.length ≠ us.length then fail .tupleLen σ else unifyList rec σ ts us
  | .array n e, .array m e' =>
    if n ≠ m ∧ n ≠ Gen.arrayWildcardLen ∧ m ≠ Gen.arrayWildcardLen then fail .arrayLen σ
    else rec σ e e'
  | .ref e, .ref e' => rec σ e e'
  | .vec e, .vec e' => rec σ e e'
  | .func ps r, .func qs r' =>
    if ps.length ≠ qs.length then fail .funcLen σ
    else match unifyList rec σ ps qs with
      | some (none, σ') => rec σ' r r'
      | x => x
  | .enum n, .enum m => if n ≠ m then fail .ctorName σ else ok σ
  | .struct n, .struct m => if n ≠ m then fail .ctorName σ else ok σ
  | .dyn n, .dyn m => if n ≠ m then fail .dynName σ else ok σ
  | .app t args, .app u brgs =>
    if args.length ≠ brgs.length then fail .appLen σ
    else match rec σ t u with
      | some (none, σ') => unifyList rec σ' args brgs
      | x => x
  | .param n, .param m => if n ≠ m then fail .paramName σ else ok σ
  | l, r => if isParam l || isParam r then fail .paramConcrete σ else fail .notEqual σ

/-- `unify` after `let l_norm = self.norm(l); let r_norm = self.norm(r);` -/
def unifyNorm (rec : Store → Ty → Ty → Res) (σ : Store) (ln rn : Ty) : Res :=
  match ln with
  | .tvar a =>
    (match rn with
     | .tvar b => varVarArm σ a b
     | _ => bindArm σ a rn)
  | _ =>
    match rn with
    | .tvar b => bindArm σ b ln
    | _ => unifyCtor rec σ ln rn

/-- `Typer::unify`.  Result: `none` = out of fuel; `some (none, σ')` = returned `true`;
`some (some d, σ')` = returned `false` after pushing the diagnostic `d`; `σ'` is the store afterwards
(a failing call keeps the bindings made before the failure). -/
def unifyF : Nat → Store → Ty → Ty → Res
  | 0, _, _, _ => none
  | f + 1, σ, l, r =>
    match normF f σ l, normF f σ r with
    | some ln, some rn => unifyNorm (unifyF f) σ ln rn
    | _, _ => none


/-- `Typer::solve` restricted to `Constraint::TypeEqual` constraints: one pass over the queue in
order, `if self.unify(diagnostics, &l, &r) { changed = true; }` — a failing constraint pushes its
diagnostic and the pass goes on with the next one (nothing is re-queued, so the `while changed` loop
runs the pass once and then finds the queue empty).  Returns the diagnostics pushed, in order, and the
final store; `none` = out of fuel.  (`Overloaded` and `StructFieldAccess` constraints, which consult
the global environment and re-queue themselves, are not modelled.) -/
def solveEqs (f : Nat) : Store → List (Ty × Ty) → Option (List Diag × Store)
  | σ, [] => some ([], σ)
  | σ, (l, r) :: cs =>
    match unifyF f σ l r with
    | none => none
    | some (d, σ') =>
      match solveEqs f σ' cs with
      | none => none
      | some (ds, σ'') => some ((match d with | none => ds | some d => d :: ds), σ'')

end Goml.Unify
