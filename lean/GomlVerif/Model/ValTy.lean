import GomlVerif.Model.Wt
import GomlVerif.Model.Sem
/-!
Typing of the VALUES of `Sem` (C03: soundness of the reference semantics w.r.t. the judgement `Wt`).

* `VT S P v τ` — value `v` of `Sem` inhabits the closed type `τ` under the type definitions of `S`
  (scalars by width, tuples pointwise, enum / struct values by their type NAME and the field types
  of the definition instantiated at the type arguments of `τ`, a closure when its code is consistent and
  in the fragment under a typing of its captured environment, a top-level function at an instance of its
  signature).  References, vectors, arrays and trait objects are not typed in this version: the
  fragment below never builds them.
* `ET S P θ ρ Γ` — the environment `ρ` binds exactly the names of `Γ`, in the same order, to values
  of the types of `Γ` instantiated by `θ` (`θ` maps the type parameters of the enclosing generic
  function to the closed types of the current activation: Core is generic, `Sem` runs the generic
  body on concrete values).
* `okE S P rf Γ K e` — the decidable fragment of `sem_preserves_types_partial`, and at the same time the
  places where `Wt` alone is too weak for the induction (each is a check the driver evaluates on every
  real Core dump):
  - a callee is one of the printing / conversion builtins, or any fragment expression of function type
    (a closure, a local holding one, a top-level function: instance of its signature by the substitution
    `matchTy` computes, checked by applying it) whose annotation is exactly `(argument types) -> result`;
  - `cget` on an ENUM value is only admitted on a variable that an enclosing arm of a `match` on that
    variable has tested for the same variant (`K`: variable ↦ variant index).  `Wt.errs` checks the
    field type against the constructor written in the node, `Sem` reads the field of whatever variant
    the value has: without the flow fact the field read is not type-safe;
  - a trait call on a receiver annotated with a concrete nominal / scalar type `τ`: the dispatch table
    row for `(trait, key τ, method)` names a function whose signature is the call's annotation
    (`Wt.errs` compares the annotation with the TRAIT's method signature only; nothing in `Wt` relates
    the dispatch table to the implementing function).
Import-free apart from `Model/` files (compiled into `gomlmodel`).
-/
namespace Goml.ValTy
open Goml Goml.Sem Goml.Wt Goml.Mono

/-- the runtime type key `Sem.eval` dispatches an `ETraitCall` on -/
def valKey : Val → String
  | .unit => "unit" | .bool _ => "bool" | .str _ => "string"
  | .int b s _ => (if s then "int" else "uint") ++ toString b
  | .float b _ => "float" ++ toString b
  | .enumV t _ _ => t | .structV t _ => t
  | _ => "?"

/-- field types of variant number `idx` of enum `tn` at the (possibly applied) type `ty` -/
def enumFieldTys (S : Sig) (tn : String) (idx : Nat) (ty : Ty) : Option (List Ty) :=
  match findEnum S.enums tn with
  | some d =>
    match d.variants[idx]? with
    | some vd => fieldTys S (.enum tn vd.1 idx) ty
    | none => none
  | none => none

def isEnumTy : Ty → Bool
  | .enum _ => true
  | .app (.enum _) (_ :: _) => true
  | _ => false

def isStructTy : Ty → Bool
  | .struct _ => true
  | .app (.struct _) (_ :: _) => true
  | _ => false

/-- the annotation of a constructor node / the scrutinee of a field read has the kind of the constructor
    (`Wt.nominalArgs` accepts `struct N` where an enum `N` is meant, and vice versa) -/
def ctorTyOk : Ctor → Ty → Bool
  | .enum _ _ _, t => isEnumTy t
  | .struct _, t => isStructTy t

/-- scalar and non-generic nominal types: the types whose dispatch key determines them -/
def concreteTy : Ty → Bool
  | .unit | .bool | .string | .int _ _ | .float _ | .enum _ | .struct _ => true
  | _ => false

/-! ### variant knowledge -/

abbrev Know := List (String × Nat)

def lookupK : Know → String → Option Nat
  | [], _ => none
  | (k, i) :: rest, x => if k == x then some i else lookupK rest x

def dropK (x : String) : Know → Know
  | [] => []
  | (k, i) :: rest => if k == x then dropK x rest else (k, i) :: dropK x rest

def scrutVar : Expr → Option String
  | .var x _ => some x
  | _ => none

/-- the scrutinee is a LOCAL variable -/
def scrutLocal (Γ : TyEnv) (e : Expr) : Option String :=
  match scrutVar e with
  | some x => if (lookupVar Γ x).isSome then some x else none
  | none => none

def learn (K : Know) (sv : Option String) (idx : Nat) : Know :=
  match sv with
  | some x => (x, idx) :: K
  | none => K

/-! ### callees -/

/-- builtins admitted as callees: result type fixed by the name, no store access -/
def builtinTy : String → Option Ty
  | "string_print" => some (.func [.string] .unit)
  | "string_println" => some (.func [.string] .unit)
  | "unit_to_string" => some (.func [.unit] .string)
  | "bool_to_string" => some (.func [.bool] .string)
  | "int8_to_string" => some (.func [.int 8 true] .string)
  | "int16_to_string" => some (.func [.int 16 true] .string)
  | "int32_to_string" => some (.func [.int 32 true] .string)
  | "int64_to_string" => some (.func [.int 64 true] .string)
  | "uint8_to_string" => some (.func [.int 8 false] .string)
  | "uint16_to_string" => some (.func [.int 16 false] .string)
  | "uint32_to_string" => some (.func [.int 32 false] .string)
  | "uint64_to_string" => some (.func [.int 64 false] .string)
  | "bool_to_json" => some (.func [.bool] .string)
  | "json_escape_string" => some (.func [.string] .string)
  | "string_len" => some (.func [.string] (.int 32 true))
  | "float32_to_string" => some (.func [.float 32] .string)
  | "float64_to_string" => some (.func [.float 64] .string)
  | _ => none

/-- the callee annotation `tf` of a call of the program function `g` is the instance of `g`'s
    signature by the substitution `matchTy` finds (checked by applying it) -/
def instSubst (g : Fn) (tf : Ty) : Option Subst :=
  match matchTy (fnTy g) tf [] with
  | some σ => if tyBeq (substTy σ (fnTy g)) tf then some σ else none
  | none => none

/-- the array / vector builtins, judged on the SHAPE of the argument types and the result type of the call
    (their schemes are polymorphic in the element type and, for arrays, in the length) -/
def polyOk (f : String) (argTys : List Ty) (ty : Ty) : Bool :=
  match f, argTys with
  | "array_get", [.array _ e, .int _ _] => tyBeq ty e
  | "array_set", [.array n e, .int _ _, e'] => tyBeq e e' && tyBeq ty (.array n e)
  | "vec_new", [] => (match ty with | .vec _ => true | _ => false)
  | "vec_push", [.vec e, e'] => tyBeq e e' && tyBeq ty (.vec e)
  | "vec_get", [.vec e, .int _ _] => tyBeq ty e
  | "vec_len", [.vec _] => tyBeq ty (.int 32 true)
  | _, _ => false

/-- the reference builtins (admitted only in the store-typed version of the theorem, `rf = true`) -/
def refOk (f : String) (argTys : List Ty) (ty : Ty) : Bool :=
  match f, argTys with
  | "ref", [e] => tyBeq ty (.ref e)
  | "ref_get", [.ref e] => tyBeq ty e
  | "ref_set", [.ref e, e'] => tyBeq e e' && tyBeq ty .unit
  | _, _ => false

/-- a top-level function used as a value (or as a callee) at the annotation `tf` -/
def fnValOk (P : Prog) (f : String) (tf : Ty) : Bool :=
  match P.findFn f with
  | some g => (instSubst g tf).isSome
  | none => false

/-- an admitted builtin used as a callee at its own type -/
def builtinOk (P : Prog) (f : String) (tf : Ty) : Bool :=
  (P.findFn f).isNone &&
    match builtinTy f with
    | some t => tyBeq t tf
    | none => f == "missing" && (match tf with | .func [.string] _ => true | _ => false)

/-- the dispatch-table row `Sem` finds for `(tr, key τ, m)` names a function of the program whose
    signature is `(τ, argument types) -> result type` of the call -/
def dispatchOk (P : Prog) (tr m : String) (τ : Ty) (argTys : List Ty) (ty : Ty) : Bool :=
  match P.impls.find? (fun i => i.1 == tr && i.2.1 == tyKey τ && i.2.2.1 == m) with
  | some row =>
    match P.findFn row.2.2.2 with
    | some g => tyBeq (fnTy g) (.func (τ :: argTys) ty)
    | none => false
  | none => false

/-! ### dispatch keys -/

def okWidth (b : Nat) : Bool := b == 8 || b == 16 || b == 32 || b == 64
def okFWidth (b : Nat) : Bool := b == 32 || b == 64

def primOk : Prim → Bool
  | .int b _ _ => okWidth b
  | .float b _ => okFWidth b
  | _ => true

/-- the scalar types of goml -/
def scalarTys : List Ty :=
  [.unit, .bool, .string, .int 8 true, .int 16 true, .int 32 true, .int 64 true,
   .int 8 false, .int 16 false, .int 32 false, .int 64 false, .float 32, .float 64]

def isScalarTy (t : Ty) : Bool := scalarTys.any (tyBeq t)

/-- strings no nominal type may be called: the keys of the scalar types and the key of "no key" -/
def reservedKeys : List String := "?" :: scalarTys.map tyKey

/-- no enum / struct is named like a reserved key; no name is both an enum and a struct -/
def namesOk (S : Sig) : Bool :=
  S.enums.all (fun d => !reservedKeys.contains d.name && (findStruct S.structs d.name).isNone) &&
  S.structs.all (fun d => !reservedKeys.contains d.name)

/-- a type whose key determines it among the types values of the program can have: a scalar, or a
    NON-GENERIC enum / struct of `S` -/
def keyable (S : Sig) (t : Ty) : Bool :=
  isScalarTy t ||
  (match t with
   | .enum n => (match findEnum S.enums n with | some d => d.generics.isEmpty | none => false)
   | .struct n => (match findStruct S.structs n with | some d => d.generics.isEmpty | none => false)
   | _ => false)

/-- one row `(tr, key, m) ↦ f` of the dispatch table: `f` is a function of the program whose first parameter has a
    keyable type of that key and whose signature is the trait's method signature at `Self :=` that type -/
def rowOk (S : Sig) (P : Prog) (r : String × String × String × String) : Bool :=
  match P.findFn r.2.2.2 with
  | some g =>
    (match g.params with
     | p :: _ =>
       keyable S p.2 && tyKey p.2 == r.2.1 &&
         (match methodTy S r.1 r.2.2.1 p.2 with
          | some t => tyBeq t (fnTy g)
          | none => false)
     | [] => false)
  | none => false

/-- **the dispatch-table check**: what makes dynamic dispatch on the runtime key agree with the static type for
    EVERY receiver type, also a type parameter instantiated at run time -/
def implsOk (S : Sig) (P : Prog) : Bool := namesOk S && P.impls.all (rowOk S P)

/-! ### trait objects -/

mutual
def noSelf : Ty → Bool
  | .struct n => !(n == "Self")
  | .tuple ts => noSelfs ts
  | .app t args => noSelf t && noSelfs args
  | .array _ e => noSelf e
  | .vec e => noSelf e
  | .ref e => noSelf e
  | .func ps r => noSelfs ps && noSelf r
  | _ => true
def noSelfs : List Ty → Bool
  | [] => true
  | t :: ts => noSelf t && noSelfs ts
end

/-- object safety of `tr::m` as far as the dynamic call needs it: `Self` is the first parameter and occurs nowhere else -/
def objSafe (S : Sig) (tr m : String) : Bool :=
  match S.traits.find? (·.name == tr) with
  | some d =>
    (match lookupTy d.methods m with
     | some (.func (s :: ps) r) => isSelf s && noSelfs ps && noSelf r
     | _ => false)
  | none => false

mutual
def okE (S : Sig) (P : Prog) (rf : Bool) (Γ : TyEnv) (K : Know) : Expr → Bool
  | .var x ty => (lookupVar Γ x).isSome || fnValOk P x ty
  | .prim p => primOk p
  | .tag _ _ => false
  | .constr c ty args => ctorTyOk c ty && okL S P rf Γ K args
  | .tuple _ items => okL S P rf Γ K items
  | .array _ items => okL S P rf Γ K items
  | .closure _ ps body => okE S P rf (bindAll ps Γ) [] body
  | .letE x v b => okE S P rf Γ K v && okE S P rf ((x, getTy v) :: Γ) (dropK x K) b
  | .matchE _ s arms d =>
    okE S P rf Γ K s && okA S P rf Γ K (scrutLocal Γ s) arms &&
      (match d with | some d => okE S P rf Γ K d | none => true)
  | .ite c t e => okE S P rf Γ K c && okE S P rf Γ K t && okE S P rf Γ K e
  | .while c b => okE S P rf Γ K c && okE S P rf Γ K b
  | .go _ => false
  | .cget c _ _ e =>
    okE S P rf Γ K e && ctorTyOk c (getTy e) &&
      (match c with
       | .struct _ => true
       | .enum _ _ ci => match e with | .var x _ => lookupK K x == some ci | _ => false)
  | .un _ _ e => okE S P rf Γ K e
  | .bin _ _ l r => okE S P rf Γ K l && okE S P rf Γ K r
  | .call ty f args =>
    okL S P rf Γ K args &&
      ((match f with
        | .var fn tf => (lookupVar Γ fn).isNone && builtinOk P fn tf && tyBeq tf (.func (getTys args) ty)
        | _ => false) ||
       (match f with
        | .var fn _ => (lookupVar Γ fn).isNone && (P.findFn fn).isNone &&
            (polyOk fn (getTys args) ty || (rf && refOk fn (getTys args) ty))
        | _ => false) ||
       (okE S P rf Γ K f && tyBeq (getTy f) (.func (getTys args) ty)))
  | .toDyn _ forTy _ e => rf && okE S P rf Γ K e && keyable S forTy
  | .dynCall tr m _ recv args => rf && okE S P rf Γ K recv && okL S P rf Γ K args && implsOk S P && objSafe S tr m
  | .traitCall tr m ty recv args =>
    okE S P rf Γ K recv && okL S P rf Γ K args &&
      ((concreteTy (getTy recv) && dispatchOk P tr m (getTy recv) (getTys args) ty) || implsOk S P)
  | .proj _ _ e => okE S P rf Γ K e
def okL (S : Sig) (P : Prog) (rf : Bool) (Γ : TyEnv) (K : Know) : List Expr → Bool
  | [] => true
  | e :: es => okE S P rf Γ K e && okL S P rf Γ K es
def okA (S : Sig) (P : Prog) (rf : Bool) (Γ : TyEnv) (K : Know) (sv : Option String) : List Arm → Bool
  | [] => true
  | .mk lhs body :: rest =>
    (match lhs with
     | .constr (.enum _ _ idx) _ _ => okE S P rf Γ (learn K sv idx) body
     | .prim _ => okE S P rf Γ K body
     | _ => false) && okA S P rf Γ K sv rest
end

mutual
/-- `VT S P v τ`: the value `v` of `Sem` inhabits the closed type `τ` -/
inductive VT (S : Sig) (P : Prog) : Val → Ty → Prop
  | unit : VT S P .unit .unit
  | bool (b : Bool) : VT S P (.bool b) .bool
  | int (b : Nat) (s : Bool) (x : Int) : okWidth b = true → VT S P (.int b s x) (.int b s)
  | float (b : Nat) (x : Float) : okFWidth b = true → VT S P (.float b x) (.float b)
  | str (s : String) : VT S P (.str s) .string
  | tuple {vs : List Val} {ts : List Ty} : VTs S P vs ts → VT S P (.tuple vs) (.tuple ts)
  | enumV {n : String} {idx : Nat} {args : List Val} {t : Ty} {fts : List Ty} :
      isEnumTy t = true → enumFieldTys S n idx t = some fts → VTs S P args fts → VT S P (.enumV n idx args) t
  | structV {n : String} {fs : List Val} {t : Ty} {fts : List Ty} :
      isStructTy t = true → fieldTys S (.struct n) t = some fts → VTs S P fs fts → VT S P (.structV n fs) t
  | array {vs : List Val} {e : Ty} {n : Nat} : VTall S P vs e → vs.length = n → VT S P (.array vs) (.array n e)
  | vec {vs : List Val} {e : Ty} : VTall S P vs e → VT S P (.vec vs) (.vec e)
  /-- a closure: its code is `Wt`-consistent and in the fragment under a typing `Γ` of the captured
      environment, at the instantiation `θ` of the activation that built it -/
  | closure {θ : Subst} {ρ : Env} {Γ : TyEnv} {pts : List (String × Ty)} {body : Expr} :
      ET S P θ ρ Γ → errs S (bindAll pts Γ) body = [] → okE S P false (bindAll pts Γ) [] body = true →
      VT S P (.closure (pts.map (·.1)) body ρ) (.func (substTys θ (pts.map (·.2))) (substTy θ (getTy body)))
  /-- a top-level function as a value, at an instance of its signature -/
  | fn {name : String} {g : Fn} (θ : Subst) :
      P.findFn name = some g → VT S P (.fn name) (substTy θ (fnTy g))
inductive VTs (S : Sig) (P : Prog) : List Val → List Ty → Prop
  | nil : VTs S P [] []
  | cons {v : Val} {vs : List Val} {t : Ty} {ts : List Ty} : VT S P v t → VTs S P vs ts → VTs S P (v :: vs) (t :: ts)
inductive VTall (S : Sig) (P : Prog) : List Val → Ty → Prop
  | nil {e : Ty} : VTall S P [] e
  | cons {v : Val} {vs : List Val} {e : Ty} : VT S P v e → VTall S P vs e → VTall S P (v :: vs) e
/-- `ET S P θ ρ Γ`: same names in the same order, values of the types of `Γ` instantiated by `θ` -/
inductive ET (S : Sig) (P : Prog) : Subst → Env → TyEnv → Prop
  | nil {θ : Subst} : ET S P θ [] []
  | cons {θ : Subst} {x : String} {v : Val} {t : Ty} {ρ : Env} {Γ : TyEnv} :
      VT S P v (substTy θ t) → ET S P θ ρ Γ → ET S P θ ((x, v) :: ρ) ((x, t) :: Γ)
end

def okFn (S : Sig) (P : Prog) (rf : Bool) (f : Fn) : Bool :=
  wtFn S f && okE S P rf (bindAll f.params []) [] f.body

/-- the whole-program hypothesis of `sem_preserves_types_partial`: the signature is the program's,
    every function is consistent (`Wt.wtFn`, what `./check C03` evaluates) and lies in the fragment -/
def okProg (S : Sig) (P : Prog) (rf : Bool := false) : Bool :=
  P.fns.all (okFn S P rf)

/-! ### reports only: first node kind outside the fragment -/

mutual
partial def whyE (S : Sig) (P : Prog) (rf : Bool) (Γ : TyEnv) (K : Know) : Expr → Option String
  | .var x ty => if (lookupVar Γ x).isSome || fnValOk P x ty then none else some ("global-as-value:" ++ x)
  | .prim p => if primOk p then none else some "literal-width"
  | .tag _ _ => some "tag"
  | .constr c ty args => if ctorTyOk c ty then whyL S P rf Γ K args else some "constr:kind"
  | .tuple _ items => whyL S P rf Γ K items
  | .array _ items => whyL S P rf Γ K items
  | .closure _ ps body => whyE S P rf (bindAll ps Γ) [] body
  | .letE x v b => (whyE S P rf Γ K v).orElse fun _ => whyE S P rf ((x, getTy v) :: Γ) (dropK x K) b
  | .matchE _ s arms d =>
    (whyE S P rf Γ K s).orElse fun _ => (whyA S P rf Γ K (scrutLocal Γ s) arms).orElse fun _ =>
      match d with | some d => whyE S P rf Γ K d | none => none
  | .ite c t e => (whyE S P rf Γ K c).orElse fun _ => (whyE S P rf Γ K t).orElse fun _ => whyE S P rf Γ K e
  | .while c b => (whyE S P rf Γ K c).orElse fun _ => whyE S P rf Γ K b
  | .go _ => some "go"
  | .cget c _ _ e =>
    (whyE S P rf Γ K e).orElse fun _ =>
      if !ctorTyOk c (getTy e) then some "cget:kind" else
      match c with
      | .struct _ => none
      | .enum _ _ ci =>
        match e with
        | .var x _ => if lookupK K x == some ci then none else some "cget:variant-not-established"
        | _ => some "cget:not-on-a-variable"
  | .un _ _ e => whyE S P rf Γ K e
  | .bin _ _ l r => (whyE S P rf Γ K l).orElse fun _ => whyE S P rf Γ K r
  | .call ty f args =>
    (whyL S P rf Γ K args).orElse fun _ =>
      let direct := match f with
        | .var fn tf => (lookupVar Γ fn).isNone &&
            ((builtinOk P fn tf && tyBeq tf (.func (getTys args) ty)) ||
              ((P.findFn fn).isNone && (polyOk fn (getTys args) ty || (rf && refOk fn (getTys args) ty))))
        | _ => false
      if direct then none else
      (match f with
       | .var fn tf =>
         if (lookupVar Γ fn).isNone && (P.findFn fn).isNone then some ("call:builtin:" ++ fn)
         else if (lookupVar Γ fn).isNone && !fnValOk P fn tf then some "call:not-the-instance-matchTy-finds"
         else none
       | _ => whyE S P rf Γ K f).orElse fun _ =>
        if !tyBeq (getTy f) (.func (getTys args) ty) then some "call:annotation-vs-arguments" else none
  | .toDyn _ forTy _ e =>
    if !rf then some "todyn" else
    (whyE S P rf Γ K e).orElse fun _ => if keyable S forTy then none else some ("todyn:source-type-" ++ tyClass forTy)
  | .dynCall tr m _ recv args =>
    if !rf then some "dyncall" else
    (whyE S P rf Γ K recv).orElse fun _ => (whyL S P rf Γ K args).orElse fun _ =>
      if !implsOk S P then some "dyncall:dispatch-table" else if !objSafe S tr m then some "dyncall:self-outside-receiver" else none
  | .traitCall tr m ty recv args =>
    (whyE S P rf Γ K recv).orElse fun _ => (whyL S P rf Γ K args).orElse fun _ =>
      if implsOk S P then none
      else if !concreteTy (getTy recv) then
        some ("traitcall:receiver-" ++ tyClass (getTy recv) ++ (if !namesOk S then ":names" else
          match P.impls.find? (fun r => !rowOk S P r) with
          | some r => ":row-not-keyable-or-signature:" ++ r.2.1
          | none => ""))
      else if !dispatchOk P tr m (getTy recv) (getTys args) ty then some "traitcall:dispatch-row-signature"
      else none
  | .proj _ _ e => whyE S P rf Γ K e
partial def whyL (S : Sig) (P : Prog) (rf : Bool) (Γ : TyEnv) (K : Know) : List Expr → Option String
  | [] => none
  | e :: es => (whyE S P rf Γ K e).orElse fun _ => whyL S P rf Γ K es
partial def whyA (S : Sig) (P : Prog) (rf : Bool) (Γ : TyEnv) (K : Know) (sv : Option String) : List Arm → Option String
  | [] => none
  | .mk lhs body :: rest =>
    (match lhs with
     | .constr (.enum _ _ idx) _ _ => whyE S P rf Γ (learn K sv idx) body
     | .prim _ => whyE S P rf Γ K body
     | _ => some "arm-head").orElse fun _ => whyA S P rf Γ K sv rest
end

def whyProg (S : Sig) (P : Prog) (rf : Bool := false) : Option String :=
  P.fns.findSome? fun f =>
    if !wtFn S f then some "wt"
    else whyE S P rf (bindAll f.params []) [] f.body

end Goml.ValTy
