import GomlVerif.Model.ValTy
/-!
Value typing of `Sem` relative to a STORE TYPING `Ψ : List Ty` (location ↦ type of its content): the version of
`ValTy.VT` that types references (C03, type soundness with `Ref`).  Same rules as `ValTy.VT`, plus
`ref l : ref e` when `Ψ[l]? = some e`; closures are judged with the fragment flag `rf = true` (the reference builtins
admitted).  `WT` is the world invariant, `Ext` append-only extension.
-/
namespace Goml.ValTyR
open Goml Goml.Sem Goml.Wt Goml.Mono Goml.ValTy

mutual
inductive VT (S : Sig) (P : Prog) (Ψ : List Ty) : Val → Ty → Prop
  | unit : VT S P Ψ .unit .unit
  | bool (b : Bool) : VT S P Ψ (.bool b) .bool
  | int (b : Nat) (s : Bool) (x : Int) : okWidth b = true → VT S P Ψ (.int b s x) (.int b s)
  | float (b : Nat) (x : Float) : okFWidth b = true → VT S P Ψ (.float b x) (.float b)
  | str (s : String) : VT S P Ψ (.str s) .string
  | tuple {vs : List Val} {ts : List Ty} : VTs S P Ψ vs ts → VT S P Ψ (.tuple vs) (.tuple ts)
  | enumV {n : String} {idx : Nat} {args : List Val} {t : Ty} {fts : List Ty} :
      isEnumTy t = true → enumFieldTys S n idx t = some fts → VTs S P Ψ args fts → VT S P Ψ (.enumV n idx args) t
  | structV {n : String} {fs : List Val} {t : Ty} {fts : List Ty} :
      isStructTy t = true → fieldTys S (.struct n) t = some fts → VTs S P Ψ fs fts → VT S P Ψ (.structV n fs) t
  | array {vs : List Val} {e : Ty} {n : Nat} : VTall S P Ψ vs e → vs.length = n → VT S P Ψ (.array vs) (.array n e)
  | vec {vs : List Val} {e : Ty} : VTall S P Ψ vs e → VT S P Ψ (.vec vs) (.vec e)
  | ref {l : Nat} {e : Ty} : Ψ[l]? = some e → VT S P Ψ (.ref l) (.ref e)
  /-- a trait object: the packed value has a keyable type, and the object carries that type's key -/
  | dyn {tr key : String} {v : Val} {τ : Ty} : keyable S τ = true → VT S P Ψ v τ → tyKey τ = key →
      VT S P Ψ (.dyn tr key v) (.dyn tr)
  | closure {θ : Subst} {ρ : Env} {Γ : TyEnv} {pts : List (String × Ty)} {body : Expr} :
      ET S P Ψ θ ρ Γ → errs S (bindAll pts Γ) body = [] → okE S P true (bindAll pts Γ) [] body = true →
      VT S P Ψ (.closure (pts.map (·.1)) body ρ) (.func (substTys θ (pts.map (·.2))) (substTy θ (getTy body)))
  | fn {name : String} {g : Fn} (θ : Subst) :
      P.findFn name = some g → VT S P Ψ (.fn name) (substTy θ (fnTy g))
inductive VTs (S : Sig) (P : Prog) (Ψ : List Ty) : List Val → List Ty → Prop
  | nil : VTs S P Ψ [] []
  | cons {v : Val} {vs : List Val} {t : Ty} {ts : List Ty} : VT S P Ψ v t → VTs S P Ψ vs ts → VTs S P Ψ (v :: vs) (t :: ts)
inductive VTall (S : Sig) (P : Prog) (Ψ : List Ty) : List Val → Ty → Prop
  | nil {e : Ty} : VTall S P Ψ [] e
  | cons {v : Val} {vs : List Val} {e : Ty} : VT S P Ψ v e → VTall S P Ψ vs e → VTall S P Ψ (v :: vs) e
inductive ET (S : Sig) (P : Prog) (Ψ : List Ty) : Subst → Env → TyEnv → Prop
  | nil {θ : Subst} : ET S P Ψ θ [] []
  | cons {θ : Subst} {x : String} {v : Val} {t : Ty} {ρ : Env} {Γ : TyEnv} :
      VT S P Ψ v (substTy θ t) → ET S P Ψ θ ρ Γ → ET S P Ψ θ ((x, v) :: ρ) ((x, t) :: Γ)
end

/-- append-only extension of a store typing -/
def Ext (Ψ Ψ' : List Ty) : Prop := ∃ Δ, Ψ' = Ψ ++ Δ

/-- the world invariant: one cell per entry of `Ψ`, each holding a value of the recorded type -/
def WT (S : Sig) (P : Prog) (Ψ : List Ty) (w : World) : Prop :=
  w.store.size = Ψ.length ∧ ∀ (l : Nat) (v : Val), w.store[l]? = some v → ∃ e, Ψ[l]? = some e ∧ VT S P Ψ v e

end Goml.ValTyR
