import GomlVerif.Model.Graph
import GomlVerif.Gen.LocalName
/-
C16 — package isolation and trait coherence: the *decision logic*.

Mirrors
  `typer/name_resolution.rs`  package_allowed (l.60, l.147), qualified value paths (l.672-700:
                              the "not imported" diagnostic and the three-way lookup), qualified type
                              paths (`lower_type_expr`, l.1298-1310), three-segment constructor paths
  `typer/util.rs`             resolve_type_name (own package / a dependency's environment / unknown)
  `typer/toplevel.rs`         define_trait_impl: trait resolution, orphan rule (`is_local_name`,
                              `is_local_nominal_type`), "already defined"
  `pipeline/pipeline.rs`      the merge of the packages' exports in type-check order with the
                              "defined in multiple packages" check (l.271-284)
The typer's inference is not modelled: a use is a *reference form* naming a standard item of a
target package; what is decided is whether the name is reachable.  Import-free.
-/
namespace Goml.Vis
open Goml.Graph

/-! ## `package_allowed` and the lookup of a qualified value path -/

/-- `package == current_package || package == "Builtin" || imports.contains(package)` -/
def packageAllowed (p cur : Pkg) (imports : List Pkg) : Bool :=
  p == cur || p == builtinName || imports.contains p

/-- what name resolution knows while it lowers one file -/
structure Ctx where
  /-- `current_package` -/
  current : Pkg
  /-- the imports of *this file* -/
  imports : List Pkg
  /-- keys of `def_names`: the package's own definitions, by full name -/
  defNames : List String
  /-- `deps`: interfaces of the packages imported by any file of the package, with the full names
      they export -/
  deps : List (Pkg × List String)

inductive Res where
  | defn
  | unresolved
  deriving DecidableEq, Repr

structure Lookup where
  res : Res
  /-- the diagnostic `package P not imported in package Q` was pushed -/
  notImported : Bool
  deriving DecidableEq, Repr

/-- name_resolution.rs l.672-700, for a path `p::…` whose display form is `full` -/
def resolveQualified (c : Ctx) (p : Pkg) (full : String) : Lookup :=
  let err := p != c.current && p != builtinName && (c.deps.lookup p).isSome && !c.imports.contains p
  let res :=
    if p == c.current || p == builtinName then
      (if c.defNames.contains full then Res.defn else Res.unresolved)
    else if c.imports.contains p then
      (match c.deps.lookup p with
       | some ex => if ex.contains full then Res.defn else Res.unresolved
       | none => Res.unresolved)
    else Res.unresolved
  ⟨res, err⟩

/-- `full_def_name`: items of `Main` and `Builtin` carry no package prefix -/
def fullDefName (pkg : Pkg) (name : String) : String :=
  if pkg == builtinName || pkg == mainName then name else pkg ++ "::" ++ name

/-! ## reference forms and impl declarations of a generated program -/

inductive Form where
  /-- `P::fP(x)` -/
  | fn
  /-- `x: P::SP` in a signature -/
  | ty
  /-- `P::SP { v: 1 }` -/
  | lit
  /-- `P::EP::K1(2)` in an expression and in patterns -/
  | ctor
  /-- `[T: P::TP]` -/
  | bound
  /-- `x: dyn P::TP` -/
  | dynT
  /-- `fP(x)` without a prefix -/
  | unq
  /-- `P::nopeP(x)`: an item that does not exist -/
  | nofn
  /-- `P::SP::mk(1)`: associated function of a type, by path -/
  | smeth
  /-- `P::SP::get(s)`: method of a type, by path, on a value `s = via::makeP()` obtained from `via` -/
  | sself
  /-- `P::TP::m(true)`: trait method, by path -/
  | tmeth
  /-- `let t = via::makeP(); t.v`: a value of a type of `P` is used, `P` itself is not named -/
  | flow
  deriving DecidableEq, Repr, Inhabited

structure Use where
  /-- 0: the file that carries the package's imports; 1: a second file without imports -/
  file : Nat
  form : Form
  target : Pkg
  /-- an own item written with the package prefix -/
  qual : Bool
  /-- `sself`, `flow`: the package whose function `makeP()` hands out the value (`P` itself when it is
      the current package or imported, else an import of the current package that imports `P`) -/
  via : Pkg := ""
  deriving DecidableEq, Repr, Inhabited

/-- the packages a use *names* (roots of its paths): `flow` names only `via` -/
def Use.named (u : Use) : List Pkg :=
  match u.form with
  | .flow => [u.via]
  | .sself => [u.via, u.target]
  | _ => [u.target]

/-- the outermost constructor of the target type of an impl -/
inductive Shape where
  /-- `H::(which)H` — a struct of package `head` -/
  | nom
  /-- `int32` -/
  | prim
  /-- `Vec[A]` -/
  | vec
  /-- `Ref[A]` -/
  | ref
  /-- `(A, int32)` -/
  | tup
  /-- `[A; 2]` -/
  | arr
  /-- `(A) -> int32` -/
  | fn
  /-- `dyn H::TH` -/
  | dynT
  /-- `H::GH[A]` — a generic struct of package `head` applied to `A` -/
  | gen
  deriving DecidableEq, Repr, Inhabited

/-- `impl tr::Ttr for TYPE` or, with `inherent`, `impl TYPE { … }`.  `head` is the package of the
    outermost nominal type (or of the trait of a `dyn`), `arg` the package of the argument struct
    `A = arg::Sarg`, or `"int32"`; both are `""` where the shape has no such part. -/
structure ImplD where
  file : Nat
  inherent : Bool
  tr : Pkg
  shape : Shape
  head : Pkg
  arg : Pkg
  which : String
  deriving DecidableEq, Repr, Inhabited

/-- key of `trait_impls`: (trait name, type) -/
structure Key where
  tr : Pkg
  shape : Shape
  head : Pkg
  arg : Pkg
  which : String
  deriving DecidableEq, Repr, Inhabited

def ImplD.key (d : ImplD) : Key := ⟨d.tr, d.shape, d.head, d.arg, d.which⟩

def intName : Pkg := "int32"

def Shape.hasHead : Shape → Bool
  | .nom | .gen | .dynT => true
  | _ => false

def Shape.hasArg : Shape → Bool
  | .vec | .ref | .tup | .arr | .fn | .gen => true
  | _ => false

/-- the packages the target type names -/
def ImplD.tyNames (d : ImplD) : List Pkg :=
  (if d.shape.hasHead then [d.head] else []) ++
  (if d.shape.hasArg && d.arg != intName then [d.arg] else [])

/-- `is_local_nominal_type`: the type is a struct/enum of the package, or a generic application
    whose head is one; `Vec`, `Ref`, tuples, arrays, function types, `dyn` and primitives belong to
    no user package -/
def ImplD.typeLocalTo (d : ImplD) (q : Pkg) : Bool :=
  (d.shape == .nom || d.shape == .gen) && d.head == q

structure PkgSrc where
  name : Pkg
  /-- union of the files' imports (file 0 carries them all) -/
  imports : List Pkg
  uses : List Use
  impls : List ImplD
  deriving Repr, Inhabited

inductive Cls where
  | notImported
  | unresolved
  | orphan
  | dupLocal
  | dupCross
  /-- `Inherent impl for non-local type … is not allowed` -/
  | inherentNonLocal
  deriving DecidableEq, Repr, Inhabited

def fileImports (q : PkgSrc) (file : Nat) : List Pkg := if file = 0 then q.imports else []

/-- a value path rooted at package `p` (`p::f(…)`, `p::T::f(…)`): name resolution reports "not
    imported" only when another file of the package imports `p` (l.674-683); it resolves — in name
    resolution for two segments, in the typer through `genv.deps` for three — only when the file
    imports `p` -/
def pathCls (q : PkgSrc) (fi : List Pkg) (p : Pkg) : List Cls :=
  if p == q.name then []
  else (if q.imports.contains p && !fi.contains p then [.notImported] else []) ++
       (if fi.contains p && q.imports.contains p then [] else [.unresolved])

/-- an own type or trait written without prefix, `SQ::mk(1)` / `TQ::m(x)`, is a two-segment path: when
    the package (some file of it) imports a package that is *named* `SQ` / `TQ`, name resolution takes the
    first segment for that package (l.672-725) and the item is not found there -/
def shadowCls (q : PkgSrc) (fi : List Pkg) (own : Bool) (pre : String) : List Cls :=
  let shadow := pre ++ q.name
  if own && q.imports.contains shadow then
    (if !fi.contains shadow then [.notImported] else []) ++ [.unresolved]
  else []

/-- diagnostics classes of one reference -/
def useClasses (q : PkgSrc) (u : Use) : List Cls :=
  let fi := fileImports q u.file
  let allowed := packageAllowed u.target q.name fi
  let inDeps := q.imports.contains u.target
  let own := u.target == q.name
  match u.form with
  | .fn =>
    if own then (if u.qual && q.name == mainName then [.unresolved] else [])
    else pathCls q fi u.target
  | .nofn =>
    if own then [.unresolved]
    else (if inDeps && !fi.contains u.target then [.notImported] else []) ++ [.unresolved]
  | .unq => if own then [] else [.unresolved]
  | .ty =>
    (if allowed then [] else [.notImported]) ++ (if own || inDeps then [] else [.unresolved])
  | .lit => if allowed then [] else [.notImported, .unresolved]
  | .dynT => if allowed then [] else [.notImported, .unresolved]
  | .ctor => if allowed then [] else [.unresolved]
  | .bound => if allowed then [] else [.unresolved]
  | .smeth => shadowCls q fi own "S" ++ pathCls q fi u.target
  | .tmeth => shadowCls q fi own "T" ++ pathCls q fi u.target
  | .sself => pathCls q fi u.via ++ shadowCls q fi own "S" ++ pathCls q fi u.target
  -- the field access needs the environment of the struct's package: present iff the package imports it
  | .flow => pathCls q fi u.via ++ (if own || inDeps then [] else [.unresolved])

/-- every package defines `impl TP for SP` itself -/
def stdKey (p : Pkg) : Key := ⟨p, .nom, p, "", "S"⟩

structure LocalSt where
  cls : List Cls
  /-- keys of the package's `trait_impls` -/
  reg : List Key
  deriving Repr

/-- `define_trait_impl` / `define_inherent_impl` for one declaration -/
def implStep (q : PkgSrc) (st : LocalSt) (d : ImplD) : LocalSt :=
  let fi := fileImports q d.file
  -- a package named in the type that is not visible: "not imported" + unknown type / trait
  let tyCls := if d.tyNames.all (fun n => packageAllowed n q.name fi) then [] else [Cls.notImported, Cls.unresolved]
  let typeLocal := d.typeLocalTo q.name
  if d.inherent then
    if typeLocal then { st with cls := st.cls ++ tyCls }
    else { st with cls := st.cls ++ tyCls ++ [.inherentNonLocal] }
  else if !packageAllowed d.tr q.name fi then
    -- the trait does not resolve: "not imported" + "Trait … is not defined", nothing else is checked
    { st with cls := st.cls ++ [.notImported, .unresolved] }
  else
    let traitLocal := d.tr == q.name
    if !traitLocal && !typeLocal then { st with cls := st.cls ++ tyCls ++ [.orphan] }
    else if st.reg.contains d.key then { st with cls := st.cls ++ tyCls ++ [.dupLocal] }
    else { cls := st.cls ++ tyCls, reg := st.reg ++ [d.key] }

/-- type-checking one package: the classes of its diagnostics and its registered impls -/
def localCheck (q : PkgSrc) : LocalSt :=
  q.impls.foldl (implStep q) { cls := q.uses.flatMap (useClasses q), reg := [stdKey q.name] }

/-- the merge loop of `typecheck_packages`: a key already in the global environment is reported -/
def mergeStep (acc : List Cls × List Key) (reg : List Key) : List Cls × List Key :=
  (acc.1 ++ (reg.filter fun k => acc.2.contains k).map (fun _ => Cls.dupCross), acc.2 ++ reg)

structure World where
  disk : Disk
  srcs : List PkgSrc

def World.src (w : World) (p : Pkg) : PkgSrc :=
  match w.srcs.find? (·.name == p) with
  | some s => s
  | none => { name := p, imports := [], uses := [], impls := [] }

/-- classes after type-checking the packages in `order` and merging their exports -/
def checkOrder (w : World) (order : List Pkg) : List Cls :=
  let locals := order.map fun p => localCheck (w.src p)
  let merged := locals.foldl (fun acc l => mergeStep acc l.reg) ([], [])
  locals.flatMap (·.cls) ++ merged.1

/-- the whole front end: discovery and dependency order (`Graph.plan`), then the packages in
    type-check order.  `.ok []` = accepted. -/
def check (w : World) (iter : Pkg → List Pkg) (keys : List Pkg → List Pkg) : Except Err (List Cls) :=
  match plan w.disk iter keys with
  | .error e => .error e
  | .ok p => .ok (checkOrder w p.checkOrder)

end Goml.Vis
