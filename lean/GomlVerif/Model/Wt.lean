import GomlVerif.Model.Mono
import GomlVerif.Model.Closed
import GomlVerif.Gen.TyConsts
/-!
Type consistency of the IR dumps (C03): `errs Σ Γ e` lists every place where an annotation of `e`
disagrees with its children, with the binder of a variable, or with the signature environment `Σ`
(function schemes, struct / enum definitions, builtin signatures, trait method signatures);
`wt Σ Γ e` says there is none.  One checker serves Core (generic: references are *instances* of
schemes), Mono, Lift and ANF.
-/
namespace Goml.Wt
open Goml Goml.Mono

structure TraitDef where
  name : String
  methods : List (String × Ty)
  deriving Inhabited

structure Sig where
  /-- the functions of the program itself -/
  fns : List Fn
  /-- builtin and extern functions: name ↦ type scheme (type parameters are `TParam`s) -/
  builtins : List (String × Ty) := []
  enums : List EnumDef := []
  structs : List StructDef := []
  traits : List TraitDef := []
  deriving Inhabited

abbrev TyEnv := List (String × Ty)

def lookupVar (Γ : TyEnv) (x : String) : Option Ty :=
  match Γ with
  | [] => none
  | (k, v) :: rest => if k == x then some v else lookupVar rest x

def lookupTy (l : List (String × Ty)) (x : String) : Option Ty := lookupVar l x

mutual
/-- `actual` is an instance of the scheme `template` (`TParam`s of the template are bound; an array
of the wildcard length matches an array of any length) -/
def matchTy : Ty → Ty → Subst → Option Subst
  | .param n, a, σ =>
    match lookup σ n with
    | some prev => if tyBeq prev a then some σ else none
    | none => some (σ ++ [(n, a)])
  | .unit, a, σ => match a with | .unit => some σ | _ => none
  | .bool, a, σ => match a with | .bool => some σ | _ => none
  | .string, a, σ => match a with | .string => some σ | _ => none
  | .int b s, a, σ => match a with | .int b' s' => if b == b' && s == s' then some σ else none | _ => none
  | .float b, a, σ => match a with | .float b' => if b == b' then some σ else none | _ => none
  | .tuple l, a, σ => match a with | .tuple r => if l.length != r.length then none else matchTys l r σ | _ => none
  | .enum ln, a, σ => match a with | .enum rn => if ln == rn then some σ else none | _ => none
  | .struct ln, a, σ => match a with | .struct rn => if ln == rn then some σ else none | _ => none
  | .dyn ln, a, σ => match a with | .dyn rn => if ln == rn then some σ else none | _ => none
  | .app lt la, a, σ =>
    match a with
    | .app rt ra =>
      if la.length != ra.length then none
      else match matchTy lt rt σ with
        | some σ' => matchTys la ra σ'
        | none => none
    | _ => none
  | .array ll le, a, σ =>
    match a with
    | .array rl re => if ll == Gen.arrayWildcardLen || ll == rl then matchTy le re σ else none
    | _ => none
  | .vec le, a, σ => match a with | .vec re => matchTy le re σ | _ => none
  | .ref le, a, σ => match a with | .ref re => matchTy le re σ | _ => none
  | .func lp lr, a, σ =>
    match a with
    | .func rp rr =>
      if lp.length != rp.length then none
      else match matchTys lp rp σ with
        | some σ' => matchTy lr rr σ'
        | none => none
    | _ => none
  | .tvar _, _, _ => none
def matchTys : List Ty → List Ty → Subst → Option Subst
  | [], _, σ => some σ
  | t :: ts, as, σ =>
    match as with
    | [] => some σ
    | a :: as' =>
      match matchTy t a σ with
      | some σ' => matchTys ts as' σ'
      | none => none
end

def instOf (scheme actual : Ty) : Bool := (matchTy scheme actual []).isSome

def fnTy (f : Fn) : Ty := .func (f.params.map (·.2)) f.ret

/-- type arguments of a nominal type: `E` ↦ `[]`, `E[a, b]` ↦ `[a, b]` -/
def nominalArgs (tn : String) : Ty → Option (List Ty)
  | .enum n => if n == tn then some [] else none
  | .struct n => if n == tn then some [] else none
  | .app (.enum n) args => if n == tn then some args else none
  | .app (.struct n) args => if n == tn then some args else none
  | _ => none

/-- field types of constructor `c` at the (possibly applied) nominal type `ty` -/
def fieldTys (S : Sig) (c : Ctor) (ty : Ty) : Option (List Ty) :=
  match c with
  | .enum tn v idx =>
    match findEnum S.enums tn, nominalArgs tn ty with
    | some d, some targs =>
      if d.generics.length != targs.length then none
      else match d.variants[idx]? with
        | some (vn, fs) => if vn == v then some (substTys (zipSubst d.generics targs []) fs) else none
        | none => none
    | _, _ => none
  | .struct tn =>
    match findStruct S.structs tn, nominalArgs tn ty with
    | some d, some targs =>
      if d.generics.length != targs.length then none
      else some (substTys (zipSubst d.generics targs []) (d.fields.map (·.2)))
    | _, _ => none

def isNumeric : Ty → Bool
  | .int _ _ => true
  | .float _ => true
  | _ => false

def unopOk (op : UnOp) (ty a : Ty) : Bool :=
  match op with
  | .neg => isNumeric ty && tyBeq a ty
  | .not => tyBeq ty .bool && tyBeq a .bool

def binopOk (op : BinOp) (ty a b : Ty) : Bool :=
  match op with
  | .add => tyBeq a b && tyBeq a ty && (isNumeric ty || tyBeq ty .string)
  | .sub | .mul | .div => tyBeq a b && tyBeq a ty && isNumeric ty
  | .and | .or => tyBeq a .bool && tyBeq b .bool && tyBeq ty .bool
  | .less | .greater | .lessEq | .greaterEq => tyBeq a b && tyBeq ty .bool && (isNumeric a || tyBeq a .string)
  | .eq | .notEq => tyBeq a b && tyBeq ty .bool

/-- `Self` in a trait method signature (the typer writes it as a struct type of that name) -/
def isSelf : Ty → Bool
  | .struct n => n == "Self"
  | _ => false

mutual
/-- `typer/toplevel.rs::instantiate_self_ty`: `Self` is replaced wherever it occurs in a trait method signature,
    also inside tuples, arrays, `Vec`, `Ref`, type applications and function types
    (`fn pr(Self, int64) -> (Self, int64)`) -/
def replaceSelf (self : Ty) : Ty → Ty
  | .struct n => if n == "Self" then self else .struct n
  | .tuple ts => .tuple (replaceSelfs self ts)
  | .app t args => .app (replaceSelf self t) (replaceSelfs self args)
  | .array len e => .array len (replaceSelf self e)
  | .vec e => .vec (replaceSelf self e)
  | .ref e => .ref (replaceSelf self e)
  | .func ps r => .func (replaceSelfs self ps) (replaceSelf self r)
  | t => t
def replaceSelfs (self : Ty) : List Ty → List Ty
  | [] => []
  | t :: ts => replaceSelf self t :: replaceSelfs self ts
end

/-- signature of trait method `tr::m` with `Self := self` -/
def methodTy (S : Sig) (tr m : String) (self : Ty) : Option Ty :=
  match S.traits.find? (·.name == tr) with
  | none => none
  | some d =>
    match lookupTy d.methods m with
    | none => none
    | some t => some (replaceSelf self t)

def check (b : Bool) (msg : String) : List String := if b then [] else [msg]

/-- coarse class of a type, for error signatures -/
def tyClass : Ty → String
  | .unit | .bool | .string | .int _ _ | .float _ => "prim"
  | .tuple _ => "tuple"
  | .enum _ => "enum"
  | .struct n => if n.startsWith "closure_env_" then "closure-env" else "struct"
  | .dyn _ => "dyn"
  | .app _ _ => "app"
  | .array _ _ => "array"
  | .vec _ => "vec"
  | .ref _ => "ref"
  | .param _ => "param"
  | .func _ _ => "func"
  | .tvar _ => "tvar"

mutual
/-- `actual` agrees with the `formal` type of a callee annotation: equal, except that a formal array
of the wildcard length (the builtin signatures of `array_get`/`array_set`) admits any length -/
def compatTy : Ty → Ty → Bool
  | .array n e, a => match a with | .array m e' => (n == Gen.arrayWildcardLen || n == m) && compatTy e e' | _ => false
  | .tuple ts, a => match a with | .tuple us => compatTys ts us | _ => false
  | .app t ts, a => match a with | .app u us => compatTy t u && compatTys ts us | _ => false
  | .vec e, a => match a with | .vec e' => compatTy e e' | _ => false
  | .ref e, a => match a with | .ref e' => compatTy e e' | _ => false
  | .func ps r, a => match a with | .func qs r' => compatTys ps qs && compatTy r r' | _ => false
  | t, a => tyBeq t a
def compatTys : List Ty → List Ty → Bool
  | [], us => match us with | [] => true | _ => false
  | t :: ts, us => match us with | u :: us' => compatTy t u && compatTys ts us' | [] => false
end

mutual
/-- classes of the first place where two types differ (`-` = they do not) -/
def diffClass : Ty → Ty → String
  | .tuple ts, .tuple us => diffClasses ts us
  | .array n e, .array m e' => if n != m then "array-length" else diffClass e e'
  | .vec e, .vec e' => diffClass e e'
  | .ref e, .ref e' => diffClass e e'
  | .func ps r, .func qs r' => if tysBeq ps qs then diffClass r r' else diffClasses ps qs
  | .app t ts, .app u us => if tyBeq t u then diffClasses ts us else tyClass t ++ "/" ++ tyClass u
  | a, b => if tyBeq a b then "-" else tyClass a ++ "/" ++ tyClass b
def diffClasses : List Ty → List Ty → String
  | t :: ts, u :: us => if tyBeq t u then diffClasses ts us else diffClass t u
  | [], [] => "-"
  | _, _ => "arity"
end

/-- `a` and `b` must be the same type -/
def checkEq (a b : Ty) (kind : String) : List String :=
  if tyBeq a b then [] else [kind ++ "|" ++ diffClass a b]

/-- first pair of classes at which two type lists disagree -/
def firstMismatch : List Ty → List Ty → String
  | t :: ts, u :: us => if compatTy t u then firstMismatch ts us else diffClass t u
  | [], [] => "-"
  | _, _ => "arity"


def allTyEq (t : Ty) : List Ty → Bool
  | [] => true
  | u :: us => tyBeq t u && allTyEq t us

def bindAll (ps : List (String × Ty)) (Γ : TyEnv) : TyEnv :=
  match ps with
  | [] => Γ
  | p :: rest => bindAll rest (p :: Γ)

mutual
/-- all type inconsistencies of `e` under `Σ`, `Γ` -/
def errs (S : Sig) (Γ : TyEnv) : Expr → List String
  | .var x ty =>
    match lookupVar Γ x with
    | some t => check (tyBeq t ty) ("var:annotation-differs-from-binder|" ++ tyClass t ++ "/" ++ tyClass ty)
    | none =>
      match findCallee S.fns x with
      | some f => check (instOf (fnTy f) ty) ("fn-ref:not-an-instance-of-its-signature|" ++ diffClass (fnTy f) ty)
      | none =>
        match lookupTy S.builtins x with
        | some t => check (instOf t ty) ("builtin-ref:not-an-instance-of-its-signature|" ++ x)
        | none => ["var:unbound|" ++ x]
  | .prim _ => []
  | .tag _ _ => []
  | .constr c ty args =>
    errsList S Γ args ++
    (match fieldTys S c ty with
     | none => ["constr:no-such-constructor-at-this-type"]
     | some fts => check (tysBeq fts (getTys args)) ("constr:argument-types|" ++ diffClasses fts (getTys args)))
  | .tuple ty items => errsList S Γ items ++ checkEq ty (.tuple (getTys items)) "tuple:annotation"
  | .array ty items =>
    errsList S Γ items ++
    (match ty with
     | .array n e => check (n == items.length) "array:length" ++ check (allTyEq e (getTys items)) ("array:element-type|" ++ diffClasses (getTys items) (items.map fun _ => e))
     | _ => ["array:annotation"])
  | .closure ty ps body =>
    errs S (bindAll ps Γ) body ++ checkEq ty (.func (ps.map (·.2)) (getTy body)) "closure:annotation"
  | .letE x v b => errs S Γ v ++ errs S ((x, getTy v) :: Γ) b
  | .matchE ty s arms none => errs S Γ s ++ errsArms S Γ (getTy s) ty arms
  | .matchE ty s arms (some d) =>
    errs S Γ s ++ errsArms S Γ (getTy s) ty arms ++ errs S Γ d ++ checkEq (getTy d) ty "match:default-type"
  | .ite c t e =>
    errs S Γ c ++ errs S Γ t ++ errs S Γ e ++ checkEq (getTy c) .bool "if:condition-type" ++
    checkEq (getTy t) (getTy e) "if:branch-types"
  | .while c b => errs S Γ c ++ errs S Γ b ++ checkEq (getTy c) .bool "while:condition-type"
  | .go e => errs S Γ e
  | .cget c idx ty e =>
    errs S Γ e ++
    (match fieldTys S c (getTy e) with
     | none => ["field:no-such-constructor-at-this-type"]
     | some fts =>
       match fts[idx]? with
       | none => ["field:index"]
       | some ft => checkEq ft ty "field:type")
  | .un op ty e => errs S Γ e ++ check (unopOk op ty (getTy e)) "unary:operand-or-result-type"
  | .bin op ty l r => errs S Γ l ++ errs S Γ r ++ check (binopOk op ty (getTy l) (getTy r)) "binary:operand-or-result-type"
  | .call ty f args =>
    errs S Γ f ++ errsList S Γ args ++
    (match getTy f with
     | .func ps r =>
       check (compatTys ps (getTys args)) ("call:argument-types|" ++ firstMismatch ps (getTys args)) ++
       check (compatTy r ty) ("call:result-type|" ++ tyClass r ++ "/" ++ tyClass ty)
     | t => ["call:callee-not-a-function|" ++ tyClass t])
  | .toDyn tr forTy ty e =>
    errs S Γ e ++ checkEq (getTy e) forTy "todyn:source-type" ++ checkEq ty (.dyn tr) "todyn:annotation"
  | .dynCall tr m ty recv args =>
    errs S Γ recv ++ errsList S Γ args ++ checkEq (getTy recv) (.dyn tr) "dyncall:receiver-type" ++
    (match methodTy S tr m (.dyn tr) with
     | none => ["dyncall:unknown-method"]
     | some t => checkEq t (.func (getTy recv :: getTys args) ty) "dyncall:signature")
  | .traitCall tr m ty recv args =>
    errs S Γ recv ++ errsList S Γ args ++
    (match methodTy S tr m (getTy recv) with
     | none => ["traitcall:unknown-method"]
     | some t => checkEq t (.func (getTy recv :: getTys args) ty) "traitcall:signature")
  | .proj idx ty e =>
    errs S Γ e ++
    (match getTy e with
     | .tuple ts =>
       match ts[idx]? with
       | none => ["proj:index"]
       | some t => checkEq t ty "proj:type"
     | _ => ["proj:not-a-tuple"])
def errsList (S : Sig) (Γ : TyEnv) : List Expr → List String
  | [] => []
  | e :: es => errs S Γ e ++ errsList S Γ es
/-- arms of a decision-tree match on a scrutinee of type `st` with result type `rt` -/
def errsArms (S : Sig) (Γ : TyEnv) (st rt : Ty) : List Arm → List String
  | [] => []
  | .mk lhs body :: rest =>
    (match lhs with
     | .constr c ty args =>
       checkEq ty st "arm:constructor-type" ++
       (match fieldTys S c ty with
        | none => ["arm:no-such-constructor-at-this-type"]
        | some fts => check (tysBeq fts (getTys args)) ("arm:field-types|" ++ diffClasses fts (getTys args)))
     | .prim p => checkEq (primTy p) st "arm:literal-type"
     | .tag _ ty => checkEq ty st "arm:tag-type"
     | _ => ["arm:head"]) ++
    errs S Γ body ++ checkEq (getTy body) rt "arm:body-type" ++ errsArms S Γ st rt rest
end

def substParamTys (σ : Subst) : List (String × Ty) → List (String × Ty)
  | [] => []
  | (x, t) :: rest => (x, substTy σ t) :: substParamTys σ rest

mutual
/-- `substExpr`: the type substitution applied to every annotation of an expression (what `mono_expr`
does apart from renaming calls) -/
def substE (σ : Subst) : Expr → Expr
  | .var x ty => .var x (substTy σ ty)
  | .prim p => .prim p
  | .tag i ty => .tag i (substTy σ ty)
  | .constr c ty args => .constr c (substTy σ ty) (substEs σ args)
  | .tuple ty items => .tuple (substTy σ ty) (substEs σ items)
  | .array ty items => .array (substTy σ ty) (substEs σ items)
  | .closure ty ps body => .closure (substTy σ ty) (substParamTys σ ps) (substE σ body)
  | .letE x v b => .letE x (substE σ v) (substE σ b)
  | .matchE ty s arms none => .matchE (substTy σ ty) (substE σ s) (substAs σ arms) none
  | .matchE ty s arms (some d) => .matchE (substTy σ ty) (substE σ s) (substAs σ arms) (some (substE σ d))
  | .ite c t e => .ite (substE σ c) (substE σ t) (substE σ e)
  | .while c b => .while (substE σ c) (substE σ b)
  | .go e => .go (substE σ e)
  | .cget c idx ty e => .cget c idx (substTy σ ty) (substE σ e)
  | .un op ty e => .un op (substTy σ ty) (substE σ e)
  | .bin op ty l r => .bin op (substTy σ ty) (substE σ l) (substE σ r)
  | .call ty f args => .call (substTy σ ty) (substE σ f) (substEs σ args)
  | .toDyn tr forTy ty e => .toDyn tr (substTy σ forTy) (substTy σ ty) (substE σ e)
  | .dynCall tr m ty recv args => .dynCall tr m (substTy σ ty) (substE σ recv) (substEs σ args)
  | .traitCall tr m ty recv args => .traitCall tr m (substTy σ ty) (substE σ recv) (substEs σ args)
  | .proj idx ty e => .proj idx (substTy σ ty) (substE σ e)
def substEs (σ : Subst) : List Expr → List Expr
  | [] => []
  | e :: es => substE σ e :: substEs σ es
def substAs (σ : Subst) : List Arm → List Arm
  | [] => []
  | .mk l b :: rest => .mk (substE σ l) (substE σ b) :: substAs σ rest
end

def wt (S : Sig) (Γ : TyEnv) (e : Expr) : Bool := (errs S Γ e).isEmpty

def fnErrs (S : Sig) (f : Fn) : List String :=
  errs S (bindAll f.params []) f.body ++ checkEq (getTy f.body) f.ret "fn:body-type-differs-from-result-type"

def wtFn (S : Sig) (f : Fn) : Bool := (fnErrs S f).isEmpty

def wtProg (S : Sig) : Bool := S.fns.all (wtFn S)

end Goml.Wt
