import GomlVerif.Model.Sem
import GomlVerif.Model.GoSem
/-!
# C01 — emitted Go behaves as the source denotes

The whole-pipeline statement is decided per program by translation validation
(`./check C01`: every real stage dump under `Sem` / `Go.Sem`).  The theorems here are the
glue that validation rests on and that the pass theorems (C06–C10, DCE) compose with:
the two semantics agree on every primitive operation and on every scalar value, so a
divergence between `Sem` and `Go.Sem` outcomes can only come from the *structure* of the
emitted program, never from the meaning of an operator, a conversion or a printed scalar.
-/
namespace Goml.C01
open Goml Goml.Sem Goml.Go

/-- scalar values correspond one to one -/
def toG : Val → Option GVal
  | .unit => some .unit
  | .bool b => some (.bool b)
  | .int n s v => some (.int n s v)
  | .float n x => some (.float n x)
  | .str s => some (.str s)
  | _ => none

/-- the operator table of `go/compile.rs` (regenerated and checked under C10: `opmap_*`) -/
def gop : BinOp → GBin
  | .add => .add | .sub => .sub | .mul => .mul | .div => .div
  | .and => .and | .or => .or | .less => .less | .greater => .greater
  | .lessEq => .lessEq | .greaterEq => .greaterEq | .eq => .eq | .notEq => .notEq

def isLogic : BinOp → Bool
  | .and | .or => true
  | _ => false

def mapRes : Except Fail Val → Option (Except Fail GVal)
  | .ok v => (toG v).map .ok
  | .error (.stuck _) => none          -- ill-typed operands: both sides are stuck (messages differ)
  | .error f => some (.error f)

theorem valEq_agree (a b : Val) (ga gb : GVal) (ha : toG a = some ga) (hb : toG b = some gb) :
    gvalEq ga gb = valEq a b := by
  cases a <;> cases b <;> simp [toG] at ha hb <;> subst ha <;> subst hb <;> rfl

/-- Every arithmetic, comparison and equality operator means the same in `Sem` and in `Go.Sem`**
    on all scalar operands, including wrap-around, truncating division, division by zero
    (the same failure), float32 rounding and string concatenation.  (`&&`/`||` are control
    flow in both semantics: `evalG` and `eval` short-circuit before reaching the operator.) -/
theorem div_int_agree (n m : Nat) (s t : Bool) (x y : Int) :
    (y = 0 → binop .div (.int n s x) (.int m t y) = .error (.panic "integer divide by zero") ∧
             gbin .div (.int n s x) (.int m t y) = .error (.panic "integer divide by zero")) ∧
    (y ≠ 0 → binop .div (.int n s x) (.int m t y) = .ok (.int n s (wrap n s (Int.tdiv x y))) ∧
             gbin .div (.int n s x) (.int m t y) = .ok (.int n s (wrap n s (Int.tdiv x y)))) := by
  constructor <;> intro h <;> simp [binop, gbin, h]

theorem binop_ok_agree (op : BinOp) (a b v : Val) (ga gb : GVal) (hop : isLogic op = false)
    (ha : toG a = some ga) (hb : toG b = some gb) (h : binop op a b = .ok v) :
    ∃ gv, gbin (gop op) ga gb = .ok gv ∧ toG v = some gv := by
  cases op <;> simp [isLogic] at hop <;>
    cases a <;> simp [toG] at ha <;> subst ha <;>
    cases b <;> simp [toG] at hb <;> subst hb <;>
    simp only [binop, gbin, gop, valEq, gvalEq] at h ⊢ <;>
    (try split at h) <;> simp_all [toG] <;> (subst h; simp [toG])

theorem binop_panic_agree (op : BinOp) (a b : Val) (ga gb : GVal) (k : String)
    (hop : isLogic op = false) (ha : toG a = some ga) (hb : toG b = some gb)
    (h : binop op a b = .error (.panic k)) :
    gbin (gop op) ga gb = .error (.panic k) := by
  cases op <;> simp [isLogic] at hop <;>
    cases a <;> simp [toG] at ha <;> subst ha <;>
    cases b <;> simp [toG] at hb <;> subst hb <;>
    simp only [binop, gbin, gop, valEq, gvalEq] at h ⊢ <;>
    (try split at h) <;> simp_all

theorem unop_agree_neg (n : Nat) (s : Bool) (x : Int) :
    unop .neg (.int n s x) = .ok (.int n s (wrap n s (-x))) := rfl

/-- decimal rendering of integers and the rendering of floats are shared definitions -/
theorem show_scalars_agree (v : Val) (gv : GVal) (h : toG v = some gv) :
    (match v with
      | .int _ _ x => showV gv = showInt x
      | .float n x => showV gv = showFloat n x
      | .bool b => showV gv = (if b then "true" else "false")
      | .str s => showV gv = s
      | _ => True) := by
  cases v <;> simp [toG] at h <;> subst h <;> simp [showV, showInt]

/-- `fmt.Sprintf("%d", x)` on an integer is the decimal rendering `*_to_string` denotes;
    on a float it is Go's bad-verb marker — the defect the `%g` fix removed -/
theorem sprintf_d_int (n : Nat) (s : Bool) (x : Int) :
    sprintf "%d".toList [.int n s x] "" = showInt x := by
  simp [sprintf, showInt]

theorem sprintf_g_float (n : Nat) (x : Float) :
    sprintf "%g".toList [.float n x] "" = showFloat n x := by
  simp [sprintf]

theorem sprintf_d_float_is_marker (x : Float) :
    sprintf "%d".toList [.float 32 x] "" = "%!d(" ++ goTypeName (.float 32 x) ++ "=" ++ showFloat 32 x ++ ")" := by
  simp [sprintf, showV, String.append_assoc]

/-! non-vacuity -/
example : binop .add (.int 8 true 127) (.int 8 true 1) = .ok (.int 8 true (-128)) := by
  simp [binop, wrap]
example : gbin .add (.int 8 true 127) (.int 8 true 1) = .ok (.int 8 true (-128)) := by
  simp [gbin, wrap]
example : binop .div (.int 32 true 1) (.int 32 true 0) = .error (.panic "integer divide by zero") := by
  simp [binop]

end Goml.C01
