import GomlVerif.Lemmas.PipeChain
import GomlVerif.Lemmas.PipeExamples
import GomlVerif.Gen.PipelineOrder
/-!
# C01 — pipeline composition: the middle end `anf ∘ lift ∘ mono` preserves `Sem`

C01 ("emitted Go behaves exactly as the source program denotes … nothing is lost, duplicated,
reordered or invented on the way through match compilation, monomorphisation, closure conversion,
ANF, Go generation and dead-code elimination") is decided per program by stage-wise translation
validation (`tools/props/c01.py`).  This file composes the per-pass preservation THEOREMS into one
statement about the composite model `Pipeline.pipeline` (`Model/Pipeline.lean`), which is the
three pass models sequenced as `pipeline::compile` sequences the passes (`Gen/PipelineOrder.lean`
is regenerated from `pipeline.rs` on every run and `pass_order_is_modelled` re-checks it) and which
the check ties to the Rust by running it on the REAL Core dump of every corpus / generated
program and comparing with the REAL ANF dump.

Full statement (the goal):

    pipeline_preserves_full : ∀ (i : PipeIn) A, pipeline i = some A →
      ∀ fuel eager, Definite (Sem.run fuel i.prog "main" eager) →
        ∃ m₀, ∀ m ≥ m₀, Sem.run m A "main" eager = Sem.run fuel i.prog "main" eager

What is proved: exactly this, for every Core program in `InPipeFragment` (`pipeline_preserves`).
`InPipeFragment` is ONE decidable predicate, the conjunction of what the three link theorems need:

* `fragMono` — for `MonoSim.run_definite` (new: `Lemmas/PipeMonoSim.lean`, a lock-step simulation
  of `mono`'s output against its input under the full `Sem`, with a value relation for renamed
  instances, renamed type instances and closure bodies; C07's own `mono_preserves_partial` is
  closure-free, phase 1 only and takes the linking of the output as a hypothesis, so it could not
  be chained).  Excludes `ETraitCall` (Sem dispatches on the runtime value, `mono` on the static
  type: that they agree is type soundness of Core w.r.t. `Sem`, which no theorem provides),
  binders spelled like functions, user methods named `apply` on structs, `dyn` over a generic
  instance.
* `fragLift` — `DirectFlow`, the hypothesis of `Lift.lift_preserves_partial` (C08).
* `fragAnf` — `FileInAnfFragment`, the hypothesis of `C09.anf_run_preserves_partial` (C09).

The back half (added after `go/compile.rs` got its model, worker gocomp, and after `Go.Sem.zero`
became total and `callG` got Go's arity rule): `core_to_go_preserves` (Core → compiled Go before
DCE, fragment `InE2EFragment`) and **`core_to_emitted_go_preserves`** (Core → the emitted file,
`eliminate_dead_vars` included, fragment `InEmitFragment`) have NO hypothesis besides their
decidable fragment.  `end_to_end_partial` / `end_to_end_before_dce` keep the generic form with
`CompileSim` / `DceFileSim` as parameters; both are now discharged
(`compileSim_of_fragGo`, `dceFileSim_of_ok`).
-/
namespace Goml.Pipeline
open Goml Goml.Sem

/-! ## the order of the passes (regenerated from `pipeline.rs` on every run) -/

/-- every pass is given the file and the environment the previous one returned -/
def chained : List (String × String × String × Bool × String × String) → Bool
  | a :: b :: rest => b.2.1 == a.2.2.2.2.2 && b.2.2.1 == a.2.2.2.2.1 && chained (b :: rest)
  | _ => true

/-- `pipeline::compile` (and the linker of separately compiled packages) runs, after match
    compilation, exactly `mono::mono`, `lift::lambda_lift`, `anf::anf_file`, `go::compile::go_file`
    in this order, each on the output of the previous one, the last three sharing the pipeline-wide
    `Gensym`, and `go_file` ends with `dce::eliminate_dead_vars` — the sequencing `Pipeline.stages`
    models.  A dropped, added or re-ordered pass changes the generated table (or makes the
    extractor fail) and this theorem stops the build. -/
theorem pass_order_is_modelled :
    Goml.Gen.pipelineOrder.map (·.1) =
      ["mono::mono", "lift::lambda_lift", "anf::anf_file", "go::compile::go_file"] ∧
    Goml.Gen.pipelineOrderSeparate = Goml.Gen.pipelineOrder.map (·.1) ∧
    chained Goml.Gen.pipelineOrder = true ∧
    Goml.Gen.pipelineOrder.map (·.2.2.2.1) = [false, true, true, true] ∧
    Goml.Gen.goFileEndsWithDce = true := by decide

/-! ## the new link: `mono` under the full `Sem` -/

/-- **mono_accepted_pair_preserves** (the strengthening of C07's `mono_preserves_partial` that the
    chain needs; proof in `Lemmas/PipeMonoSim.lean`).  For any pair of programs accepted by the
    decidable check `MonoSim.monoOk` — in `pipeline_preserves`: the Core program and the output of
    the model of `mono.rs`, both phases, with the instance table `mono` built — the two programs run
    in lock step: with the SAME fuel and schedule they print the same, record the same extern
    events and end the same way (both normally, both with the same panic, both out of fuel, or
    both stuck).  All node kinds of Core except `ETraitCall` are covered: closures (related up to
    their bodies), `go`, `dyn` dispatch, calls through local variables, generic functions as
    values, references (the same store locations), generic type instances renamed by phase 2. -/
theorem mono_accepted_pair_preserves (c : MonoSim.Cx) (hok : MonoSim.monoOk c = true) (fuel : Nat) (eager : Bool) :
    (run fuel c.P' "main" eager).out = (run fuel c.P "main" eager).out ∧
    (run fuel c.P' "main" eager).externs = (run fuel c.P "main" eager).externs ∧
    ((run fuel c.P' "main" eager).status = (run fuel c.P "main" eager).status ∨
     (∃ s s', (run fuel c.P "main" eager).status = "stuck:" ++ s ∧
        (run fuel c.P' "main" eager).status = "stuck:" ++ s')) :=
  MonoSim.run_rel hok fuel eager

/-- the fragment of `pipeline_preserves` (decidable; `Model/Pipeline.lean`) -/
def InPipeFragment (i : PipeIn) : Prop := inPipeFragment i = true

instance (i : PipeIn) : Decidable (InPipeFragment i) := by
  unfold InPipeFragment; infer_instance

/-- inside the fragment the composite model produces a program, and each conjunct is the
    hypothesis of one link theorem -/
theorem fragment_conjuncts {i : PipeIn} (h : InPipeFragment i) :
    ∃ s, stages i = some s ∧ pipeline i = some s.anf ∧
      MonoSim.monoOk { P := i.prog, P' := s.mono, pairs := s.pairs } = true ∧
      Lift.DirectFlow s.env s.mono = true ∧
      C09.FileInAnfFragment s.lift s.gensym := by
  unfold InPipeFragment inPipeFragment at h
  split at h
  · cases h
  · rename_i s hs
    simp only [Bool.and_eq_true] at h
    refine ⟨s, hs, by simp [pipeline, hs], h.1.1, h.1.2, ?_⟩
    unfold C09.FileInAnfFragment
    rw [← fragAnf_iff]
    exact h.2

/-- **pipeline_preserves.**  For every Core program in `InPipeFragment`: every definite `Sem` run
    of `main` (it ends normally or fails with a panic; the outcome is the printed output, the way
    of ending with the panic message, and the extern events), with any fuel and under either `go`
    schedule, is reproduced — outcome for outcome — by the ANF program the composite middle end
    produces, for every sufficiently large fuel.  Chain: `MonoSim.run_definite` (Core → Mono),
    `Lift.lift_preserves_partial` (Mono → Lift), `C09.anf_run_preserves_partial` (Lift → ANF). -/
theorem pipeline_preserves (i : PipeIn) (A : Prog) (hA : pipeline i = some A) (hfrag : InPipeFragment i)
    (fuel : Nat) (eager : Bool) (hdef : Definite (run fuel i.prog "main" eager)) :
    ∃ m0, ∀ m, m0 ≤ m → run m A "main" eager = run fuel i.prog "main" eager := by
  obtain ⟨s, hs, hp, hm, hl, ha⟩ := fragment_conjuncts hfrag
  rw [hp] at hA
  cases hA
  obtain ⟨_, _, hlift, hanf, _⟩ := stages_spec hs
  have l1 : Reproduces i.prog s.mono := mono_link (c := { P := i.prog, P' := s.mono, pairs := s.pairs }) hm
  have l2 : Reproduces s.mono s.lift := by rw [hlift]; exact lift_link s.env s.mono hl
  have l3 : Reproduces s.lift s.anf := by rw [hanf]; exact anf_link s.lift s.gensym ha
  exact (l1.trans (l2.trans l3)) fuel eager hdef

/-- the intermediate programs are reproduced as well (each stage of the chain on its own) -/
theorem pipeline_stagewise (i : PipeIn) (s : Stages) (hs : stages i = some s) (hfrag : InPipeFragment i) :
    Reproduces i.prog s.mono ∧ Reproduces s.mono s.lift ∧ Reproduces s.lift s.anf := by
  obtain ⟨s', hs', _, hm, hl, ha⟩ := fragment_conjuncts hfrag
  rw [hs] at hs'
  cases hs'
  obtain ⟨_, _, hlift, hanf, _⟩ := stages_spec hs
  exact ⟨mono_link (c := { P := i.prog, P' := s.mono, pairs := s.pairs }) hm,
    by rw [hlift]; exact lift_link s.env s.mono hl, by rw [hanf]; exact anf_link s.lift s.gensym ha⟩

/-- the fragment of `pipeline_preserves_partial`: the conjuncts of the lift and ANF links only -/
def InLiftAnfFragment (i : PipeIn) : Prop := inLiftAnfFragment i = true

instance (i : PipeIn) : Decidable (InLiftAnfFragment i) := by
  unfold InLiftAnfFragment; infer_instance

/-- **pipeline_preserves_partial.**  When the Core → Mono link is outside `fragMono` — in practice:
    the program uses a trait-bounded generic function, so its Core contains `ETraitCall`, whose
    `Sem` meaning (dispatch on the runtime value) agrees with what `mono` emits (a direct call
    chosen by the static type) only for well-typed runs, and no theorem here gives type soundness
    of Core w.r.t. `Sem` (C07's `traitcall_commutes` takes `valKey v = tyKey τ` as a hypothesis) —
    the chain still holds FROM THE MONO PROGRAM ON: every definite run of `main` in the
    monomorphised program the model computes is reproduced by the ANF program.  The first link is
    then covered by the stage-wise validation of `./check C01` / `./check C07` only.

    Full statement, not proved: `pipeline_preserves` without `fragMono`, i.e. with the typing
    invariant `∀ ETraitCall Tr::m(recv,…) evaluated in a run, valKey (value of recv) = tyKey (type of recv)`
    discharged from well-typedness of the Core program. -/
theorem pipeline_preserves_partial (i : PipeIn) (s : Stages) (hs : stages i = some s) (hfrag : InLiftAnfFragment i)
    (fuel : Nat) (eager : Bool) (hdef : Definite (run fuel s.mono "main" eager)) :
    ∃ m0, ∀ m, m0 ≤ m → run m s.anf "main" eager = run fuel s.mono "main" eager := by
  unfold InLiftAnfFragment inLiftAnfFragment at hfrag
  rw [hs] at hfrag
  simp only [Bool.and_eq_true] at hfrag
  obtain ⟨_, _, hlift, hanf, _⟩ := stages_spec hs
  have l2 : Reproduces s.mono s.lift := by rw [hlift]; exact lift_link s.env s.mono hfrag.1
  have l3 : Reproduces s.lift s.anf := by
    rw [hanf]; exact anf_link s.lift s.gensym (by unfold C09.FileInAnfFragment; rw [← fragAnf_iff]; exact hfrag.2)
  exact (l2.trans l3) fuel eager hdef

/-- nothing invented: a definite run of the ANF program and a definite run of the Core program
    have the same outcome, whatever fuel each was given (`Sem` is deterministic and fuel-monotone;
    a Core run that never becomes definite — divergence, or ill-typed IR — is not constrained) -/
theorem pipeline_outcome_unique (i : PipeIn) (A : Prog) (hA : pipeline i = some A) (hfrag : InPipeFragment i)
    (eager : Bool) (f1 f2 : Nat) (h1 : Definite (run f1 i.prog "main" eager)) (h2 : Definite (run f2 A "main" eager)) :
    run f2 A "main" eager = run f1 i.prog "main" eager := by
  obtain ⟨m0, hm⟩ := pipeline_preserves i A hA hfrag f1 eager h1
  have e1 := hm (max m0 f2) (Nat.le_max_left _ _)
  rw [← run_stable h2 (Nat.le_max_right m0 f2), e1]

/-! ## the back half: Go generation and dead-code elimination — generic form

`end_to_end_partial` states the continuation to `Go.Sem` for ANY back-end model `compile` with the
two links as parameters (not axioms): `hcompile : CompileSim compile A` and
`hdce : DceFileSim (compile A)`.  Both are theorems now, for the models of `go/compile.rs` and
`go/dce.rs`:
 * `compileSim_of_fragGo` — from `GoCompileProps.compile_preserves_run` (worker gocomp), for the
   composite's own re-annotated ANF (`annotFile_toFn`: erasing the annotations gives the ANF program
   back);
 * `dceFileSim_of_ok` — from `Dce.dce_file_preserves`, the FILE-level lifting of `dce_preserves`
   (`Lemmas/GoFileSim.lean`: `Go.Sem` congruence for files whose function bodies forward-simulate;
   `Lemmas/GoFilePrune.lean`: lock-step insensitivity to functions outside the reachable set, with
   the invariant that no value contains such a function value; `Lemmas/DceFile{,2}.lean`).  The
   three blockers recorded earlier were removed at the source: `Go.Sem.zero` is a total definition
   that reads the file only through its struct declarations, `callG` with a wrong number of
   arguments is `stuck` (Go's static arity rule), and the reachable-function-value invariant is
   proved.
The hypothesis-free statements are `core_to_go_preserves` and `core_to_emitted_go_preserves` below.
-/
open Goml.Go in
/-- **end_to_end_partial.**  For every Core program in `InPipeFragment`, every definite `Sem` run of
    `main` is reproduced by `Go.Sem` of the emitted Go file — before and after dead-code
    elimination — GIVEN the two links that are not theorems yet: `hcompile` (`go/compile.rs`
    preserves the meaning of the ANF program the middle end produced) and `hdce` (file-level
    lifting of `dce_preserves`, see above).  Everything between Core and ANF is proved
    (`pipeline_preserves`). -/
theorem end_to_end_partial (i : PipeIn) (A : Prog) (hA : pipeline i = some A) (hfrag : InPipeFragment i)
    (compile : Prog → GFile) (hcompile : CompileSim compile A) (hdce : DceFileSim (compile A))
    (fuel : Nat) (eager : Bool) (hdef : Definite (run fuel i.prog "main" eager)) :
    (∃ m, runGo m (compile A) "main" eager = run fuel i.prog "main" eager) ∧
    (∃ m, runGo m (Dce.eliminateDeadVars (compile A)) "main" eager = run fuel i.prog "main" eager) :=
  back_half (fun f e h => pipeline_preserves i A hA hfrag f e h) compile hcompile hdce fuel eager hdef

/-- with `go/compile.rs` alone as hypothesis: the emitted file BEFORE dead-code elimination -/
theorem end_to_end_before_dce (i : PipeIn) (A : Prog) (hA : pipeline i = some A) (hfrag : InPipeFragment i)
    (compile : Prog → Goml.Go.GFile) (hcompile : CompileSim compile A)
    (fuel : Nat) (eager : Bool) (hdef : Definite (run fuel i.prog "main" eager)) :
    ∃ m, Goml.Go.runGo m (compile A) "main" eager = run fuel i.prog "main" eager := by
  obtain ⟨m0, hm0⟩ := pipeline_preserves i A hA hfrag fuel eager hdef
  have e0 := hm0 m0 (Nat.le_refl _)
  obtain ⟨m1, hm1⟩ := hcompile m0 eager (by rw [e0]; exact hdef)
  exact ⟨m1, by rw [hm1, e0]⟩

/-! ## Core → Go without the `hcompile` hypothesis (back end: worker gocomp's theorem) -/

/-- the fragment of `core_to_go_preserves`: `InPipeFragment` ∧ the back end's `fragGo` (`main` and
    everything it calls in `GoFrag.closedOK`, the hypothesis of `GoCompileProps.compile_preserves_run`,
    evaluated on the composite's own annotated ANF) — ONE decidable predicate (`Model/Pipeline.lean`) -/
def InE2EFragment (i : E2EIn) : Prop := inE2EFragment i = true

instance (i : E2EIn) : Decidable (InE2EFragment i) := by
  unfold InE2EFragment; infer_instance

/-- **core_to_go_preserves.**  `compileGoPre i` is the whole model pipeline up to (not including)
    dead-code elimination: `mono`, `lift`, `anf`, re-annotation, `go_file` without its last step.
    For every Core program in `InE2EFragment`, every definite `Sem` run of `main` (normal end or
    panic; stdout, status, extern events) is the `Go.Sem` outcome of the compiled file for some fuel,
    under either `go` schedule.  No hypothesis besides the decidable fragment: the `CompileSim`
    parameter of `end_to_end_before_dce` is discharged by `compile_preserves_run`. -/
theorem core_to_go_preserves (i : E2EIn) (G : Goml.Go.GFile) (hG : compileGoPre i = some G) (hfrag : InE2EFragment i)
    (fuel : Nat) (eager : Bool) (hdef : Definite (run fuel i.pipe.prog "main" eager)) :
    ∃ m, Goml.Go.runGo m G "main" eager = run fuel i.pipe.prog "main" eager := by
  unfold InE2EFragment inE2EFragment at hfrag
  simp only [Bool.and_eq_true] at hfrag
  obtain ⟨hpipe, hback⟩ := hfrag
  cases hb : backStages i with
  | none => rw [hb] at hback; cases hback
  | some b =>
    rw [hb] at hback
    simp only at hback
    have hspec := backStages_spec hb
    have hA : pipeline i.pipe = some b.mid.anf := by simp [pipeline, hspec.1]
    have hGb : G = b.pre := by
      simp only [compileGoPre, hb, Option.map_some, Option.some.injEq] at hG
      exact hG.symm
    subst hGb
    exact end_to_end_before_dce i.pipe b.mid.anf hA hpipe (fun _ => b.pre) (compileSim_of_fragGo hb hback)
      fuel eager hdef

/-! ## Core → emitted Go, no hypotheses (DCE: `Dce.dce_file_preserves`) -/

/-- the fragment of `core_to_emitted_go_preserves`: `InE2EFragment` ∧ the compiled file satisfies
    `Dce.fileDceOK` — ONE decidable predicate (`Model/Pipeline.lean`), evaluated on every real
    program by the tie -/
def InEmitFragment (i : E2EIn) : Prop := inEmitFragment i = true

instance (i : E2EIn) : Decidable (InEmitFragment i) := by
  unfold InEmitFragment; infer_instance

/-- **core_to_emitted_go_preserves.**  `compileGo i` is the WHOLE model pipeline: `mono`, `lift`,
    `anf`, re-annotation, `go_file` including `eliminate_dead_vars` — the file `go_pprint` prints.
    For every Core program in `InEmitFragment`, every definite `Sem` run of `main` (normal end or
    panic; stdout, status, extern events) is the `Go.Sem` outcome of the emitted file for some fuel,
    under either `go` schedule.  No hypotheses other than the decidable fragment: both parameters of
    `end_to_end_partial` are discharged (`hcompile` by `GoCompileProps.compile_preserves_run`,
    `hdce` by `Dce.dce_file_preserves`). -/
theorem core_to_emitted_go_preserves (i : E2EIn) (G : Goml.Go.GFile) (hG : compileGo i = some G)
    (hfrag : InEmitFragment i) (fuel : Nat) (eager : Bool) (hdef : Definite (run fuel i.pipe.prog "main" eager)) :
    ∃ m, Goml.Go.runGo m G "main" eager = run fuel i.pipe.prog "main" eager := by
  unfold InEmitFragment inEmitFragment at hfrag
  simp only [Bool.and_eq_true] at hfrag
  obtain ⟨he2e, hd⟩ := hfrag
  cases hb : backStages i with
  | none => rw [hb] at hd; cases hd
  | some b =>
    rw [hb] at hd
    simp only [fragDce] at hd
    have hspec := backStages_spec hb
    have hGe : G = Dce.eliminateDeadVars b.pre := by
      simp only [compileGo, hb, Option.map_some, Option.some.injEq] at hG
      rw [← hG, hspec.2.2.2.2.2]
    subst hGe
    obtain ⟨m1, e1⟩ := core_to_go_preserves i b.pre (by simp [compileGoPre, hb]) he2e fuel eager hdef
    obtain ⟨m2, e2⟩ := dceFileSim_of_ok b.pre hd m1 eager (by rw [e1]; exact hdef)
    exact ⟨m2, by rw [e2, e1]⟩

/-! ## non-vacuity: three real Core dumps (closure + generic + match; `Lemmas/PipeExamples.lean`) -/
section Examples
open Examples

/-- the three observable components of an outcome -/
private def obs (o : Outcome) : String × String × List String := (o.out, o.status, o.externs)

/-- `corpus/C01pipe/closure-generic-match.gom`: a closure capturing a local, a generic function
    at two instances, a generic enum (phase 2 of `mono`), a `match` -/
example : InPipeFragment ex1 := by decide +kernel
example : ((pipeline ex1).map fun A => A.fns.map (·.name)) =
    some ["unwrap_or", "main", "pick__T_int32", "pick__T_string", "inherent#closure_env_add_0#closure_env_add_0#apply"] := by
  decide +kernel
example : obs (run 100 ex1.prog) = ("15\nb\n", "ok", []) := by decide +kernel
example : (pipeline ex1).map (fun A => obs (run 200 A)) = some ("15\nb\n", "ok", []) := by decide +kernel

/-- `corpus/C01pipe/closure-ref-loop-panic.gom`: a closure sharing a `Ref` cell with a loop; the
    run prints, then divides by zero — the failure and what was printed before it are reproduced -/
example : InPipeFragment ex2 := by decide +kernel
example : obs (run 200 ex2.prog) = ("3\n", "panic:integer divide by zero", []) := by decide +kernel
example : (pipeline ex2).map (fun A => obs (run 400 A)) = some ("3\n", "panic:integer divide by zero", []) := by
  decide +kernel

/-- `corpus/C01pipe/generic-struct-closure-tuple.gom`: a generic struct swapped by a generic
    function, a closure that travels through a tuple pattern, a `match` on an enum with payload -/
example : InPipeFragment ex3 := by decide +kernel
example : obs (run 200 ex3.prog) = ("box43\n", "ok", []) := by decide +kernel
example : (pipeline ex3).map (fun A => obs (run 400 A)) = some ("box43\n", "ok", []) := by decide +kernel

/-- `corpus/C01pipe/e2e-closure-generic-struct-panic.gom` (real Core dump + real `GlobalGoEnv` dump):
    a closure capturing the result of a generic call, a struct, printing, then a division by zero —
    inside the END-TO-END fragment: `core_to_go_preserves` speaks about it -/
example : InE2EFragment e2e4 := by decide +kernel
example : obs (run 200 e2e4.pipe.prog) = ("b15\n", "panic:integer divide by zero", []) := by decide +kernel
example : ∃ G, compileGoPre e2e4 = some G ∧ ∃ m, Goml.Go.runGo m G "main" true = run 200 e2e4.pipe.prog := by
  cases h : compileGoPre e2e4 with
  | none => exact absurd h (by decide +kernel)
  | some G =>
    exact ⟨G, rfl, core_to_go_preserves e2e4 G h (by decide +kernel) 200 true
      (Or.inr ⟨"integer divide by zero", by decide +kernel⟩)⟩
/-- the same program is inside the fragment of `core_to_emitted_go_preserves` (the compiled file
    satisfies the DCE contract); the compiled `gomlmodel` runs the emitted file to `b15`, then the
    division-by-zero panic, like the Core program (the kernel does not: `Go.Sem` on a whole file with
    its runtime functions is too large a term for `decide`) -/
example : InEmitFragment e2e4 := by decide +kernel
example : ∃ G, compileGo e2e4 = some G ∧ ∃ m, Goml.Go.runGo m G "main" true = run 200 e2e4.pipe.prog := by
  cases h : compileGo e2e4 with
  | none => exact absurd h (by decide +kernel)
  | some G =>
    exact ⟨G, rfl, core_to_emitted_go_preserves e2e4 G h (by decide +kernel) 200 true
      (Or.inr ⟨"integer divide by zero", by decide +kernel⟩)⟩
/-- the earlier examples use enums / `Ref`, which the back end's fragment does not cover yet -/
example : ¬ InE2EFragment { pipe := ex1 } := by decide +kernel

/-- the theorem applied: the ANF program of example 1 prints what its Core program prints -/
example : ∃ A, pipeline ex1 = some A ∧ ∃ m0, ∀ m, m0 ≤ m → run m A = run 100 ex1.prog := by
  cases h : pipeline ex1 with
  | none => exact absurd h (by decide +kernel)
  | some A =>
    exact ⟨A, rfl, pipeline_preserves ex1 A h (by decide +kernel) 100 true (Or.inl (by decide +kernel))⟩

end Examples

end Goml.Pipeline
