import GomlVerif.Model.SrcSem
import GomlVerif.Model.Resolve
import GomlVerif.Lemmas.C01src
/-!
# C01 — the SOURCE-LEVEL reference (`Model/SrcSem.lean`)

`./check C01` compares, per program, the outcome of the surface program under `Src.run` with the
outcome of every later stage (real Core/Mono/Lift/ANF dumps under `Sem`, real Go AST under
`Go.Sem`).  What that comparison can catch is bounded by what `SrcSem` itself promises.  The
theorems here are those promises, for ALL programs, values and field orders:

* struct patterns and struct literals mean the same whatever order their fields are written in
  (binding / storing is by field NAME), while the initialisers of a literal run in written order;
* the environment discipline is the lexical one of property C05: environments are only ever
  passed DOWN (a `let` extends the rest of its block, an arm its body, a closure captures the
  environment of its creation), and reading a variable finds the binder the resolver model of
  C05 (`Model/Resolve.lean`) designates.

So an elaboration that pairs sub-patterns with fields by POSITION in written order (the seeded
defect this reference was built for) cannot agree with `SrcSem` on a program that writes a
pattern's fields in another order than the declaration and distinguishes the fields.
-/
namespace Goml.C01src
open Goml.Src

/-- **A struct pattern matches by field name.**  For every value and every permutation of the
    written field patterns: the permuted pattern matches iff the original does, and binds the same
    variables to the same values (the binding lists agree up to order). -/
theorem src_struct_pattern_by_name (T : Tab) (pkg : String) (path : List String)
    (fs fs' : List FieldPat) (h : fs.Perm fs') (v : Val) :
    OptPerm (matchPat T pkg (.struct path fs) v) (matchPat T pkg (.struct path fs') v) := by
  cases v <;> simp only [matchPat] <;> try exact OptPerm.refl _
  split
  · split
    · exact matchFields_perm T pkg _ _ h
    · exact OptPerm.refl _
  · exact OptPerm.refl _

/-- … hence it selects the same arm of a `match` / decides a refutable `let` the same way -/
theorem src_struct_pattern_same_arm (T : Tab) (pkg : String) (path : List String)
    (fs fs' : List FieldPat) (h : fs.Perm fs') (v : Val) :
    (matchPat T pkg (.struct path fs) v).isSome = (matchPat T pkg (.struct path fs') v).isSome := by
  have := src_struct_pattern_by_name T pkg path fs fs' h v
  cases h1 : matchPat T pkg (.struct path fs) v <;> cases h2 : matchPat T pkg (.struct path fs') v <;>
    simp_all [OptPerm]

/-- … and, when the pattern binds each variable once, every variable of the arm body / the rest
    of the block reads the same value: the extended environments are indistinguishable -/
theorem src_struct_pattern_same_env (T : Tab) (pkg : String) (path : List String)
    (fs fs' : List FieldPat) (h : fs.Perm fs') (v : Val) (bs bs' : Env)
    (h1 : matchPat T pkg (.struct path fs) v = some bs)
    (h2 : matchPat T pkg (.struct path fs') v = some bs')
    (linear : (bs.map (·.1)).Nodup) (ρ : Env) (x : String) :
    lookupEnv (bindAll ρ bs') x = lookupEnv (bindAll ρ bs) x := by
  have hp : bs.Perm bs' := by
    have := src_struct_pattern_by_name T pkg path fs fs' h v
    rw [h1, h2] at this
    exact this
  have hr : bs.reverse.Perm bs'.reverse := (List.reverse_perm bs).trans (hp.trans (List.reverse_perm bs').symm)
  have nd : (bs.reverse.map (·.1)).Nodup := by
    rw [List.map_reverse]
    exact (List.Perm.nodup_iff (List.reverse_perm _)).mpr linear
  simp only [lookupEnv, bindAll, List.find?_append, find_perm hr nd x]

/-- **A struct literal stores by field name.**  The stored representation does not depend on the
    order in which the (distinctly named) initialisers were written … -/
theorem src_struct_literal_by_name (decl : List String) (inits inits' : List (String × Val))
    (h : inits.Perm inits') (distinct : (inits.map (·.1)).Nodup) :
    buildStruct decl inits' = buildStruct decl inits := by
  unfold buildStruct
  congr 1
  funext f
  rw [find_perm h distinct f]

/-- … while the initialisers RUN in the order they are written: the first written one first, in
    the world it leaves behind the remaining ones, and a failure stops the rest -/
theorem src_struct_literal_written_order (fuel : Nat) (T : Tab) (ctx : Ctx) (ρ : Env) (w : World)
    (f : String) (e : Src.Expr) (rest : List FieldInit) :
    evalFields (fuel + 1) T ctx ρ w (.mk f e :: rest) =
      (match eval fuel T ctx ρ w e with
       | .fail x w => .fail x w
       | .ok v w =>
         match evalFields fuel T ctx ρ w rest with
         | .fail x w => .fail x w
         | .ok vs w => .ok ((f, v) :: vs) w) := by
  rw [evalFields]; rfl

/-- in the source meaning (`litDeclOrder = false`) nothing reorders the written initialisers -/
theorem src_struct_literal_no_reordering (decl : List String) (fs : List FieldInit) :
    initOrder false decl fs = fs := rfl

/-- **Lexical scope: environments are only passed down.**
    (1) `let p = e` binds the variables of `p` for the REST OF ITS BLOCK, evaluated in the
        environment extended by exactly those bindings; a refutable `let` that does not match
        fails with `missing` there;
    (2) an expression statement leaves the environment of the following statements untouched —
        whatever it bound inside (nested blocks, arms, closures) is gone;
    (3) the variables of a match arm are visible in its body only: the next arm is tried in the
        environment of the `match`;
    (4) a closure captures the environment of its creation (by value: `ρ` is a list of values);
    (5) it later runs in THAT environment extended by its parameters, whatever the caller's. -/
theorem src_lexical_scope (fuel : Nat) (T : Tab) (ctx : Ctx) (ρ : Env) (w : World) :
    (∀ p ann v e rest,
      evalBlock (fuel + 1) T ctx ρ w (.letE p ann v :: e :: rest) =
        (match eval fuel T ctx ρ w v with
         | .fail f w => .fail f w
         | .ok vv w =>
           match matchPat T ctx.pkg p vv with
           | some bs => evalBlock fuel T ctx (bindAll ρ bs) w (e :: rest)
           | none => .fail (.panic "missing") w)) ∧
    (∀ segs args e rest,
      evalBlock (fuel + 1) T ctx ρ w (.call (.path segs) args :: e :: rest) =
        (match eval fuel T ctx ρ w (.call (.path segs) args) with
         | .fail f w => .fail f w
         | .ok _ w => evalBlock fuel T ctx ρ w (e :: rest))) ∧
    (∀ v p body rest,
      evalArms (fuel + 1) T ctx ρ w v (.mk p body :: rest) =
        (match matchPat T ctx.pkg p v with
         | some bs => eval fuel T ctx (bindAll ρ bs) w body
         | none => evalArms fuel T ctx ρ w v rest)) ∧
    (∀ ps body,
      eval (fuel + 1) T ctx ρ w (.closure ps body) = .ok (.closure ctx (ps.map (·.1)) body ρ) w) ∧
    (∀ cctx ps body cρ args, ps.length = args.length →
      apply (fuel + 1) T w (.closure cctx ps body cρ) args = eval fuel T cctx (bindParams ps args cρ) w body) := by
  refine ⟨?_, ?_, ?_, ?_, ?_⟩
  · intro p ann v e rest; rw [evalBlock]
    · rfl
    · intro h; cases h
  · intro segs args e rest; rw [evalBlock]
    · rfl
    · intro h; cases h
    · intro p ann v h; cases h
  · intro v p body rest; rw [evalArms]; rfl
  · intro ps body; rw [eval]
  · intro cctx ps body cρ args hlen; rw [apply]; simp [hlen]

/-- **Reading a variable finds the innermost binder, as the resolver model of C05 does.**
    `SrcSem` pushes a binding at the FRONT of its environment and reads the first entry of that
    name; `Resolve` (the model of `name_resolution.rs`) pushes at the BACK and reads the last
    (`rfind`).  They are the same function up to the direction the list is written in. -/
theorem src_lookup_is_resolver_lookup (ρ : List (String × Nat)) (x : String) :
    Resolve.lookup ρ.reverse x = (ρ.find? (·.1 == x)).map (·.2) := by
  simp only [Resolve.lookup, List.reverse_reverse]
  cases ρ.find? (fun p => p.1 == x) <;> rfl

theorem src_lookup_innermost (ρ : Env) (x : String) (v : Val) :
    lookupEnv ((x, v) :: ρ) x = some v ∧
    (∀ y w, (y == x) = false → lookupEnv ((y, w) :: ρ) x = lookupEnv ρ x) := by
  constructor
  · simp [lookupEnv]
  · intro y w h; simp [lookupEnv, h]

/-- **A bare name with a local binder in scope means that binder, however it is spelled.**
    No table of the project (constructors, functions, builtins) is consulted: a parameter or
    pattern variable called `Square` is that variable even where an enum of the project has a
    variant `Square`. -/
theorem src_local_binder_wins (T : Tab) (ctx : Ctx) (ρ : Env) (x : String) (v : Val)
    (h : lookupEnv ρ x = some v) : evalPath T ctx ρ [x] = .ok v := by
  simp only [evalPath, h]

/-- **… in CALL position too, whichever way the lowering tagged the node.**  With a local binder
    `x` in scope, `x(args)` applies the value of `x` to the arguments: the node `constr [x] args`
    (what `lower.rs` produces when it takes `x` for a constructor of the file) and the node
    `call (path [x]) args` have the same meaning.  So a lowering that classifies the callee by
    its spelling alone cannot agree with `SrcSem` on a program where the two readings differ. -/
theorem src_local_callee_wins (fuel : Nat) (T : Tab) (ctx : Ctx) (ρ : Env) (w w' : World)
    (x : String) (fv : Val) (args : List Src.Expr) (vs : List Val)
    (h : lookupEnv ρ x = some fv)
    (hargs : evalList (fuel + 1) T ctx ρ w args = .ok vs w') (hne : vs.isEmpty = false) :
    eval (fuel + 2) T ctx ρ w (.constr [x] args) = apply (fuel + 1) T w' fv vs ∧
    eval (fuel + 2) T ctx ρ w (.call (.path [x]) args) = apply (fuel + 1) T w' fv vs := by
  constructor
  · simp only [eval, hargs, h, hne]; rfl
  · simp only [eval, evalPath, h, hargs]

/-! ### non-vacuity: the hypotheses are satisfiable and the statements distinguish programs -/

def demoTab : Tab :=
  { structs := [("Span", { name := "Span", fields := [("start", .int 32 true), ("end", .int 32 true)] }),
                ("Pair", { name := "Pair", fields := [("l", .bool), ("r", .bool)] })] }

def demoTabE : Tab :=
  { packages := ["Main"],
    enums := [("Main::Shape", "Main", { name := "Shape", variants := [("Circle", [.int 32 true]), ("Square", [.int 32 true])] })] }

/-- `Span { start: 0, end: 7 }` -/
def span07 : Val := .structV "Span" [.int 32 true 0, .int 32 true 7]

def fieldsWritten : List FieldPat := [.mk "end" (.var "e"), .mk "start" (.var "b")]
def fieldsDeclared : List FieldPat := [.mk "start" (.var "b"), .mk "end" (.var "e")]

def intOf (bs : Option Env) (x : String) : Int :=
  match bs with
  | some bs => match lookupEnv bs x with
    | some (.int _ _ n) => n
    | _ => -1
  | none => -2

example : fieldsWritten.Perm fieldsDeclared := List.Perm.swap _ _ _

/-- `let Span { end: e, start: b } = s` binds `e` to `s.end` (7) and `b` to `s.start` (0) … -/
example : intOf (matchPat demoTab "Main" (.struct ["Span"] fieldsWritten) span07) "e" = 7 := by decide
example : intOf (matchPat demoTab "Main" (.struct ["Span"] fieldsWritten) span07) "b" = 0 := by decide
/-- … exactly as the pattern written in declaration order does -/
example : intOf (matchPat demoTab "Main" (.struct ["Span"] fieldsDeclared) span07) "e" = 7 := by decide

/-- a literal sub-pattern tests the field it NAMES: against `Pair { l: true, r: false }` the pattern
    `Pair { r: true, l: _ }` does not match and `Pair { r: _, l: true }` does (a positional pairing
    in written order would answer the opposite) -/
example : (matchPat demoTab "Main" (.struct ["Pair"] [.mk "r" (.lit (.bool true)), .mk "l" .wild])
    (.structV "Pair" [.bool true, .bool false])).isSome = false := by decide
example : (matchPat demoTab "Main" (.struct ["Pair"] [.mk "r" .wild, .mk "l" (.lit (.bool true))])
    (.structV "Pair" [.bool true, .bool false])).isSome = true := by decide

/-- `Span { end: 7, start: 0 }` and `Span { start: 0, end: 7 }` store the same representation -/
example : (buildStruct ["start", "end"] [("end", Val.int 32 true 7), ("start", .int 32 true 0)]).map (·.length) = some 2 := by decide

/-- a local `Square` beats the variant `Square` of the project: `demoTabE` declares
    `enum Shape { Circle(int32), Square(int32) }`, and with `Square ↦ 5` in scope the bare name is 5,
    while without the binder it is the constructor -/
example : (match evalPath demoTabE { pkg := "Main" } [("Square", .int 32 true 5)] ["Square"] with
    | .ok (.int _ _ n) => n | _ => -1) = 5 := by decide
example : (match evalPath demoTabE { pkg := "Main" } [] ["Square"] with
    | .ok (.fn (.ctor _ idx _)) => Int.ofNat idx | _ => -1) = 1 := by decide

/-- shadowing: the innermost binder wins, the outer binding is untouched -/
example : intOf (some (bindAll [("x", .int 32 true 1)] [("x", .int 32 true 2)])) "x" = 2 := by decide

end Goml.C01src
