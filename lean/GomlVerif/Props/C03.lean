import GomlVerif.Lemmas.WtSubst
import GomlVerif.Lemmas.MonoCollapse
import GomlVerif.Lemmas.ValTySound
import GomlVerif.Lemmas.ValTyStore
import GomlVerif.Lemmas.ValTy2Sound
/-!
# C03 — acceptance is type-sound: every stage output is well-typed and closed

Property theorems only.  `Wt.errs` (Model/Wt.lean) is the type-consistency judgement that
`./check C03` evaluates on every real Core/Mono/Lift/ANF dump; `Closed.*` the closedness
predicates; `Mono.*` the model of mono.rs (tied to the Rust by `./check C07`).
-/
namespace Goml.Wt
open Goml Goml.Mono Goml.Closed

/-! ## P1 — the judgement is stable under type substitution -/

/-- `subst_preserves_wt`: if `e` is type-consistent under `Σ`, `Γ`, then so is `e` with a type
substitution applied to every annotation, under `Γ` with the same substitution applied — for every
expression form, every substitution, and every environment whose definitions are closed (field types
mention only the parameters of their definition; trait method signatures mention none).  This is what
specialisation relies on: an instance of a consistent generic body is consistent.  References to
functions and builtins stay *instances* of their schemes (`instOf_subst`), constructor and field types
commute with instantiation (`fieldTys_subst`), callee annotations stay compatible modulo the wildcard
array length. -/
theorem subst_preserves_wt (S : Sig) (hS : SigClosed S) (σ : Subst) (Γ : TyEnv) (e : Expr)
    (h : wt S Γ e = true) : wt S (mapΓ σ Γ) (substE σ e) = true := by
  simp only [wt, List.isEmpty_iff] at h ⊢
  exact errs_subst S hS σ e Γ h

/-- the type of a substituted expression is the substituted type -/
theorem getTy_subst (σ : Subst) (e : Expr) : getTy (substE σ e) = substTy σ (getTy e) := getTy_substE σ e

/-- a reference that is an instance of a scheme stays one under substitution of the use site's type -/
theorem scheme_instance_stable (σ : Subst) (scheme ty : Ty) (h : instOf scheme ty = true) :
    instOf scheme (substTy σ ty) = true := instOf_subst σ scheme ty h

/-! ## P2 — after monomorphisation no type parameter and no type application remains -/

/-- `subst_closed`: a substitution that binds every parameter of `t` to parameter-free types leaves
no `TParam` in `substTy σ t` -/
theorem subst_closed (σ : Subst) (t : Ty) (hd : ∀ x ∈ fvT t, (lookup σ x).isSome = true) (hc : ClosedSubst σ) :
    noParam (substTy σ t) = true := subst_closed_aux σ hc t hd

/-- `collapse_noTApp`: when phase 2 of mono (`collapse_type_apps`) returns without error — in particular
without exhausting its fuel, which is the Rust's unbounded recursion — the type it returns contains no
`TApp`, provided every application in the input has arguments and a head that is a generic enum or
struct of the environment (`appsKnown`).  Covers every type constructor the Rust descends into
(tuple, function, array, `Ref`, and — since the fix — `Vec`). -/
theorem collapse_noTApp (fuel : Nat) (t : Ty) (m : TM) (hk : appsKnown m.enumBase m.structBase t = true)
    (he : (collapse fuel t m).2.err = none) : noApp (collapse fuel t m).1 = true :=
  (collapse_noApp_aux fuel).1 t m hk he

/-- phase 2 never changes the tables of generic definitions and never clears an error -/
theorem collapse_preserves (fuel : Nat) (t : Ty) (m : TM) : Pres m (collapse fuel t m).2 :=
  (pres_all fuel).1 t m

/-! ## non-vacuity -/

def optDef : EnumDef := { name := "Opt", generics := ["T"], variants := [("Non", []), ("Som", [.param "T"])] }
def bagDef : StructDef := { name := "Bag", generics := ["T"], fields := [("items", .vec (.param "T")), ("n", .int 32 true)] }
def showTrait : TraitDef := { name := "Show", methods := [("show", .func [.struct "Self"] .string)] }

def exSig : Sig :=
  { fns := [{ name := "opt_or", generics := [], params := [("o/0", .app (.enum "Opt") [.param "T"]), ("d/1", .param "T")],
              ret := .param "T", body := .var "d/1" (.param "T") }],
    builtins := [("array_get", .func [.array Gen.arrayWildcardLen (.param "T"), .int 32 true] (.param "T")),
                 ("int32_to_string", .func [.int 32 true] .string)],
    enums := [optDef], structs := [bagDef], traits := [showTrait] }

theorem exSig_closed : SigClosed exSig := by
  refine ⟨?_, ?_, ?_⟩
  · intro d hd v hv t ht x hx
    simp only [exSig, List.mem_cons, List.not_mem_nil, or_false] at hd
    subst hd
    simp only [optDef, List.mem_cons, List.not_mem_nil, or_false] at hv
    rcases hv with rfl | rfl
    · simp at ht
    · simp only [List.mem_cons, List.not_mem_nil, or_false] at ht
      subst ht; simpa [fvT, optDef] using hx
  · intro d hd f hf x hx
    simp only [exSig, List.mem_cons, List.not_mem_nil, or_false] at hd
    subst hd
    simp only [bagDef, List.mem_cons, List.not_mem_nil, or_false] at hf
    rcases hf with rfl | rfl
    · simpa [fvT, bagDef] using hx
    · simp [fvT] at hx
  · intro d hd mt hm
    simp only [exSig, List.mem_cons, List.not_mem_nil, or_false] at hd
    subst hd
    simp only [showTrait, List.mem_cons, List.not_mem_nil, or_false] at hm
    subst hm; rfl

/-- a generic body: `match`-free excerpt `opt_or(Opt::Som(x), array_get(a, 0))` at type `T` -/
def exBody : Expr :=
  .call (.param "T") (.var "opt_or" (.func [.app (.enum "Opt") [.param "T"], .param "T"] (.param "T")))
    [.constr (.enum "Opt" "Som" 1) (.app (.enum "Opt") [.param "T"]) [.var "x/0" (.param "T")],
     .call (.param "T") (.var "array_get" (.func [.array Gen.arrayWildcardLen (.param "T"), .int 32 true] (.param "T")))
       [.var "a/1" (.array 3 (.param "T")), .prim (.int 32 true 0)]]

def exΓ : TyEnv := [("x/0", .param "T"), ("a/1", .array 3 (.param "T"))]

example : wt exSig exΓ exBody = true := by decide +kernel
/-- … and therefore its instance at `T := Vec[int32]` is consistent (by the theorem, and by evaluation) -/
example : wt exSig (mapΓ [("T", .vec (.int 32 true))] exΓ) (substE [("T", .vec (.int 32 true))] exBody) = true :=
  subst_preserves_wt exSig exSig_closed _ exΓ exBody (by decide +kernel)
example : wt exSig (mapΓ [("T", .vec (.int 32 true))] exΓ) (substE [("T", .vec (.int 32 true))] exBody) = true := by
  decide +kernel

-- what the judgement rejects: wrong argument type, wrong arity, unknown constructor/field, array length, branch types
example : errs exSig [] (.call .string (.var "int32_to_string" (.func [.int 32 true] .string)) [.prim (.str "s")])
    = ["call:argument-types|prim/prim"] := by decide +kernel
example : errs exSig [] (.call .string (.var "int32_to_string" (.func [.int 32 true] .string)) [])
    = ["call:argument-types|arity"] := by decide +kernel
example : errs exSig [("b/0", .struct "Bag")] (.cget (.struct "Bag") 5 .bool (.var "b/0" (.struct "Bag")))
    = ["field:no-such-constructor-at-this-type"] := by decide +kernel
example : errs exSig [("b/0", .app (.struct "Bag") [.bool])] (.cget (.struct "Bag") 5 .bool (.var "b/0" (.app (.struct "Bag") [.bool])))
    = ["field:index"] := by decide +kernel
example : errs exSig [] (.array (.array 3 (.int 32 true)) [.prim (.int 32 true 1), .prim (.int 32 true 2)])
    = ["array:length"] := by decide +kernel
example : errs exSig [] (.ite (.prim (.bool true)) (.prim (.int 32 true 1)) (.prim (.str "s")))
    = ["if:branch-types|prim/prim"] := by decide +kernel
example : errs exSig [] (.var "y/9" .bool) = ["var:unbound|y/9"] := by decide +kernel
-- the wildcard length of the builtin's annotation admits any array, a concrete length does not
example : errs exSig [("a/1", .array 3 .bool)]
    (.call .bool (.var "array_get" (.func [.array Gen.arrayWildcardLen .bool, .int 32 true] .bool)) [.var "a/1" (.array 3 .bool), .prim (.int 32 true 0)])
    = [] := by decide +kernel
example : errs exSig [("a/1", .array 3 .bool)]
    (.call .bool (.var "array_get" (.func [.array 5 .bool, .int 32 true] .bool)) [.var "a/1" (.array 3 .bool), .prim (.int 32 true 0)])
    = ["call:argument-types|array-length"] := by decide +kernel

-- phase 2: `Vec[Opt[int32]]` becomes `Vec[Opt__int32]` (no application left); an unknown head is outside the hypothesis
example : (collapse 10 (.vec (.app (.enum "Opt") [.int 32 true])) { enumBase := [optDef], structBase := [] }).1
    = .vec (.enum "Opt__int32") := by rfl
example : appsKnown [optDef] [] (.vec (.app (.enum "Opt") [.int 32 true])) = true := by decide +kernel
example : appsKnown [optDef] [] (.app (.enum "Nope") [.bool]) = false := by decide +kernel
example : noApp (collapse 40 (.tuple [.app (.enum "Opt") [.app (.enum "Opt") [.bool]], .ref (.app (.enum "Opt") [.unit])])
    { enumBase := [optDef], structBase := [] }).1 = true :=
  collapse_noTApp 40 _ _ (by decide +kernel) (by decide +kernel)
-- too little fuel is reported, not silently accepted
example : ((collapse 5 (.app (.enum "Opt") [.app (.enum "Opt") [.bool]]) { enumBase := [optDef], structBase := [] }).2.err).isSome = true := by
  decide +kernel

end Goml.Wt

/-! ## Type soundness of the reference semantics `Sem` w.r.t. `Wt` (round 11)

`ValTy.VT S P v τ` types the VALUES of `Sem` (`Model/ValTy.lean`); `ValTy.ET S P θ ρ Γ` types an environment
against a context, `θ` instantiating the type parameters of the enclosing generic function (Core is generic, `Sem`
runs the generic body on concrete values); `ValTy.okProg S P` is the decidable whole-program hypothesis: every
function satisfies `Wt.wtFn` (the judgement `./check C03` evaluates on every real dump) and lies in the fragment
`ValTy.okE`.  Proofs: `Lemmas/ValTy{Basic,Ops,Sound}.lean` (induction on the fuel over expressions, operand
lists, arms and `apply`). -/
namespace Goml.ValTy
open Goml Goml.Sem Goml.Wt Goml.Mono

/-- **Preservation, partial.**  In a program whose functions are all `Wt`-consistent and inside the fragment, an
expression of the fragment that is `Wt`-consistent under `Γ`, evaluated with ANY fuel in an environment of values
of the types of `Γ` (instantiated by `θ`) — if `Sem.eval` returns a value, the value inhabits the annotation of
the expression instantiated by `θ`.

Partial: the fragment `okE` = literals, local variables, `let`, `if`, `while`, unary / binary operators (with
short-circuit `&&` / `||`), tuples and projections, struct / enum constructors, struct field reads, enum field reads
under an arm that tested the variable for that variant, `match` as Core has it after match compilation, direct calls
of the printing / `*_to_string` builtins, closures, top-level functions as values (the annotation must be the
instance of the signature that `matchTy` finds), calls of any fragment expression of function type (closure, local,
top-level function) annotated with exactly `(argument types) -> result`, trait calls on receivers annotated with a
concrete type whose dispatch row has the annotated signature, and — when the dispatch table passes `implsOk` — trait
calls on ANY receiver, in particular `x: T` under a bound `T: Tr` (the only form real Core dumps contain): every row's
function has a first parameter of a keyable type (scalar of a real width, or a non-generic enum / struct of `S`) with the
row's key and the trait's method signature at that `Self`; no nominal type is named like a scalar key; `key_determines`
(`Lemmas/ValTyKey.lean`): the key of a well-typed value determines its type among the keyable types.  Arrays and vectors are values (`VT.array`, `VT.vec`): array literals, `array_get` / `array_set`, `vec_new` / `vec_push` /
`vec_get` / `vec_len`, judged on the shape of the argument and result types (`polyOk`).  Missing: `Ref` (needs a store
typing), trait objects, `go`, builtins used as values, impls for instances of generic types (`impl Tr for Opt[int32]`: `Sem`'s key is the head name only), trait calls on receivers of parametric type (need injectivity of the dispatch key),
ANF tags.  Progress (a fragment program is never `stuck`) is not proved.

What `Wt` alone was too weak for (each is a decidable conjunct of `okE`, evaluated on every real Core dump):
(1) `Wt` checks an enum field read against the constructor written in the node, `Sem` reads the field of whatever
variant the value has — the flow fact comes from the enclosing arm; (2) `Wt.nominalArgs` does not distinguish
`struct N` from `enum N` (`ctorTyOk`); (3) `Wt` compares a trait call with the TRAIT's method signature; nothing
relates the dispatch table to the implementing function (`dispatchOk`); (4) callee annotations are compared up
to the wildcard array length, the fragment asks for the exact instance. -/
theorem sem_preserves_types_partial (S : Sig) (P : Prog) (hS : SigClosed S) (hP : okProg S P = true) (fuel : Nat)
    {e : Expr} {ρ : Env} {w : World} {Γ : TyEnv} {K : Know} {θ : Subst} {v : Val} {w' : World}
    (hfrag : okE S P false Γ K e = true) (hwt : wt S Γ e = true) (hρ : ET S P θ ρ Γ) (hK : KOk K ρ)
    (hev : eval fuel P ρ w e = .ok v w') : VT S P v (substTy θ (getTy e)) := by
  simp only [wt, List.isEmpty_iff] at hwt
  exact (sound_all hS hP fuel).expr hfrag hwt hρ hK hev

/-- the same for a call of a top-level function: arguments of the parameter types (at any instantiation `θ` of
its type parameters) give a result of the declared result type -/
theorem sem_preserves_types_apply_partial (S : Sig) (P : Prog) (hS : SigClosed S) (hP : okProg S P = true) (fuel : Nat)
    {name : String} {g : Fn} {θ : Subst} {args : List Val} {w : World} {v : Val} {w' : World}
    (hg : P.findFn name = some g) (ha : VTs S P args (substTys θ (g.params.map (·.2))))
    (hev : apply fuel P w (.fn name) args = .ok v w') : VT S P v (substTy θ g.ret) :=
  (sound_all hS hP fuel).app hg ha hev

/-- **Static dispatch.**  In a well-typed program of the fragment, whenever the receiver `recv` of
`ETraitCall Tr::m` evaluates to a value `rv` in an activation whose type arguments `θ` make the receiver's
annotation a concrete type `τ = substTy θ (getTy recv)` (for a concretely annotated receiver: every `θ`; for a
receiver of type `T` under a bound `T: Tr`: the `θ` of the instance `mono` creates), the runtime key `Sem`
dispatches on is the key of `τ`, so the dispatch-table row `Sem` selects — and the function it then applies — is
the row of the STATIC key, the one `Model/Mono.lean` names (`traitImplFnName tr (substTy σ (getTy recv)) m`). -/
theorem traitcall_static_dispatch (S : Sig) (P : Prog) (hS : SigClosed S) (hP : okProg S P = true) (fuel : Nat)
    {recv : Expr} {args : List Expr} {tr m : String} {ty : Ty} {ρ : Env} {w w1 : World} {Γ : TyEnv} {K : Know}
    {θ : Subst} {rv : Val}
    (hfrag : okE S P false Γ K recv = true) (hwt : wt S Γ recv = true) (hρ : ET S P θ ρ Γ) (hK : KOk K ρ)
    (hc : concreteTy (substTy θ (getTy recv)) = true) (hev : eval fuel P ρ w recv = .ok rv w1) :
    valKey rv = tyKey (substTy θ (getTy recv)) ∧
    eval (fuel + 1) P ρ w (.traitCall tr m ty recv args) =
      (evalList fuel P ρ w1 args).andThen (fun vs w2 =>
        match P.impls.find? (fun i => i.1 == tr && i.2.1 == tyKey (substTy θ (getTy recv)) && i.2.2.1 == m) with
        | some i => apply fuel P w2 (.fn i.2.2.2) (rv :: vs)
        | none => .fail (.stuck ("no impl of " ++ tr ++ " for " ++ tyKey (substTy θ (getTy recv)))) w2) := by
  have hv := sem_preserves_types_partial S P hS hP fuel hfrag hwt hρ hK hev
  have hk := valKey_of_VT hc hv
  refine ⟨hk, ?_⟩
  rw [eval_traitCall, hev]
  simp only [Res.andThen_ok]
  rw [hk]
  cases evalList fuel P ρ w1 args with
  | fail f w2 => rfl
  | ok vs w2 =>
    simp only [Res.andThen_ok]
    cases P.impls.find? (fun i => i.1 == tr && i.2.1 == tyKey (substTy θ (getTy recv)) && i.2.2.1 == m) <;> rfl

/-- application of ANY function value (closure, local holding one, top-level function): arguments of the
parameter types give a result of the result type -/
theorem sem_preserves_types_applyv_partial (S : Sig) (P : Prog) (hS : SigClosed S) (hP : okProg S P = true) (fuel : Nat)
    {fv : Val} {as : List Ty} {r : Ty} {args : List Val} {w : World} {v : Val} {w' : World}
    (hf : VT S P fv (.func as r)) (ha : VTs S P args as) (hev : apply fuel P w fv args = .ok v w') : VT S P v r :=
  (sound_all hS hP fuel).appv hf ha hev

/-! ### non-vacuity: a generic function, a struct, a trait call on its result -/

def tsSig : Sig :=
  { fns := [], structs := [{ name := "S", generics := [], fields := [("n", .int 32 true)] }],
    enums := [{ name := "Opt", generics := ["T"], variants := [("None", []), ("Some", [.param "T"])] }],
    traits := [{ name := "A", methods := [("foo", .func [.struct "Self"] .string)] }],
    builtins := [("int32_to_string", .func [.int 32 true] .string), ("string_println", .func [.string] .unit)] }

/-- `fn ident[T](x: T) -> T { x }`, `impl A for S { fn foo(self) -> string { int32_to_string(self.n) } }`,
    `fn unwrap(o: Opt[int32]) -> int32 { match o { None => 0, Some(v) => v } }`,
    `fn viaA[T: A](x: T) -> string { A::foo(x) }` (an `ETraitCall` on a receiver of parametric type, as in every real dump),
    `fn main() { let s = ident(S { n: unwrap(Some(7)) }); string_println(A::foo(s)); string_println(viaA(s)) }` -/
def tsProg : Prog :=
  { impls := [("A", "S", "foo", "trait_impl#A#S#foo")]
    fns := [
      { name := "ident", generics := ["T"], params := [("x", .param "T")], ret := .param "T", body := .var "x" (.param "T") },
      { name := "trait_impl#A#S#foo", generics := [], params := [("self", .struct "S")], ret := .string,
        body := .call .string (.var "int32_to_string" (.func [.int 32 true] .string))
                  [.cget (.struct "S") 0 (.int 32 true) (.var "self" (.struct "S"))] },
      { name := "viaA", generics := ["T"], params := [("x", .param "T")], ret := .string,
        body := .traitCall "A" "foo" .string (.var "x" (.param "T")) [] },
      { name := "unwrap", generics := [], params := [("o", .app (.enum "Opt") [.int 32 true])], ret := .int 32 true,
        body := .matchE (.int 32 true) (.var "o" (.app (.enum "Opt") [.int 32 true]))
          [.mk (.constr (.enum "Opt" "None" 0) (.app (.enum "Opt") [.int 32 true]) []) (.prim (.int 32 true 0)),
           .mk (.constr (.enum "Opt" "Some" 1) (.app (.enum "Opt") [.int 32 true]) [.var "v" (.int 32 true)])
               (.cget (.enum "Opt" "Some" 1) 0 (.int 32 true) (.var "o" (.app (.enum "Opt") [.int 32 true])))] none },
      { name := "main", generics := [], params := [], ret := .unit,
        body := .letE "s" (.call (.struct "S") (.var "ident" (.func [.struct "S"] (.struct "S")))
                  [.constr (.struct "S") (.struct "S")
                    [.call (.int 32 true) (.var "unwrap" (.func [.app (.enum "Opt") [.int 32 true]] (.int 32 true)))
                      [.constr (.enum "Opt" "Some" 1) (.app (.enum "Opt") [.int 32 true]) [.prim (.int 32 true 7)]]]])
                (.letE "u" (.call .unit (.var "string_println" (.func [.string] .unit))
                  [.traitCall "A" "foo" .string (.var "s" (.struct "S")) []])
                 (.call .unit (.var "string_println" (.func [.string] .unit))
                  [.call .string (.var "viaA" (.func [.struct "S"] .string)) [.var "s" (.struct "S")]])) }] }

def tsS : Sig := { tsSig with fns := tsProg.fns }

example : okProg tsS tsProg = true := by decide +kernel
-- closures and function values: `let k = 3; let add = |x: int32| x + k; let f = ident; add(f(4))`
example : okE tsS tsProg false [] []
    (.letE "k" (.prim (.int 32 true 3))
      (.letE "add" (.closure (.func [.int 32 true] (.int 32 true)) [("x", .int 32 true)]
          (.bin .add (.int 32 true) (.var "x" (.int 32 true)) (.var "k" (.int 32 true))))
        (.letE "f" (.var "ident" (.func [.int 32 true] (.int 32 true)))
          (.call (.int 32 true) (.var "add" (.func [.int 32 true] (.int 32 true)))
            [.call (.int 32 true) (.var "f" (.func [.int 32 true] (.int 32 true))) [.prim (.int 32 true 4)]])))) = true := by
  decide +kernel
example : wtProg tsS = true := by decide +kernel
example : (run 100 tsProg).out = "7\n7\n" ∧ (run 100 tsProg).status = "ok" := by decide +kernel
example : implsOk tsS tsProg = true := by decide +kernel
-- the dispatch-table check refuses a row whose function has another receiver type than its key says
example : implsOk tsS { tsProg with impls := [("A", "int32", "foo", "trait_impl#A#S#foo")] } = false := by decide +kernel
-- what the fragment refuses: the field read outside the arm that established the variant
example : okE tsS tsProg false [("o", .app (.enum "Opt") [.int 32 true])] []
    (.cget (.enum "Opt" "Some" 1) 0 (.int 32 true) (.var "o" (.app (.enum "Opt") [.int 32 true]))) = false := by decide +kernel
-- ... which `Wt` accepts although `Sem` would read a field of `None`
example : wt tsS [("o", .app (.enum "Opt") [.int 32 true])]
    (.cget (.enum "Opt" "Some" 1) 0 (.int 32 true) (.var "o" (.app (.enum "Opt") [.int 32 true]))) = true := by decide +kernel
-- arrays and vectors: `let a = [1, 2]; let v = vec_push(vec_new(), array_get(a, 0)); vec_len(v)`
example : okE tsS tsProg false [] []
    (.letE "a" (.array (.array 2 (.int 32 true)) [.prim (.int 32 true 1), .prim (.int 32 true 2)])
      (.letE "v" (.call (.vec (.int 32 true)) (.var "vec_push" (.func [.vec (.int 32 true), .int 32 true] (.vec (.int 32 true))))
          [.call (.vec (.int 32 true)) (.var "vec_new" (.func [] (.vec (.int 32 true)))) [],
           .call (.int 32 true) (.var "array_get" (.func [.array Gen.arrayWildcardLen (.int 32 true), .int 32 true] (.int 32 true)))
             [.var "a" (.array 2 (.int 32 true)), .prim (.int 32 true 0)]])
        (.call (.int 32 true) (.var "vec_len" (.func [.vec (.int 32 true)] (.int 32 true))) [.var "v" (.vec (.int 32 true))]))) = true := by
  decide +kernel
-- weakness (2): `Wt` accepts a struct constructor annotated with the ENUM type of the same name (`nominalArgs` looks at the name only)
example : wt { tsS with enums := [] } [] (.constr (.struct "S") (.enum "S") [.prim (.int 32 true 1)]) = true ∧
    ctorTyOk (.struct "S") (.enum "S") = false := by decide +kernel
-- weakness (4): `Wt` compares a callee annotation with the arguments up to the wildcard array length; the fragment asks for equality
example : compatTys [.array Gen.arrayWildcardLen .bool] [.array 3 .bool] = true ∧
    tyBeq (.func [.array Gen.arrayWildcardLen .bool] .bool) (.func [.array 3 .bool] .bool) = false := by decide +kernel
-- weakness (3): `Wt` accepts the trait call whatever the dispatch table says; a dispatch row naming a function of another signature is refused
example : dispatchOk { tsProg with impls := [("A", "S", "foo", "unwrap")] } "A" "foo" (.struct "S") [] .string = false := by
  decide +kernel
-- the receiver of a bounded generic function at the instance `T := S`: the key is that of `S`
example : concreteTy (substTy [("T", .struct "S")] (.param "T")) = true ∧
    tyKey (substTy [("T", .struct "S")] (.param "T")) = "S" := by decide +kernel

end Goml.ValTy

/-! ## Type soundness of `Sem` with references (round 11, fifth pass)

`ValTyR.VT S P Ψ v τ` (`Model/ValTyRef.lean`) is `ValTy.VT` indexed by a store typing `Ψ : List Ty` (location ↦ type of its
content) with the rule `ref l : ref e` when `Ψ[l]? = some e`; `ValTyR.WT S P Ψ w` is the world invariant (one cell per entry of
`Ψ`, each holding a value of the recorded type); `Ext Ψ Ψ'` is append-only extension.  The fragment is `okE S P true` (the flag
admits `ref`, `ref_get`, `ref_set`).  Proofs: `Lemmas/ValTy2{Basic,Ops,Sound}.lean`. -/
namespace Goml.ValTyR
open Goml Goml.Sem Goml.Wt Goml.Mono Goml.ValTy

/-- **Preservation with a store, partial.**  As `ValTy.sem_preserves_types_partial`, for the fragment WITH the reference
builtins: from a well-typed world, a returned value inhabits its annotation under an append-only extension of the store
typing, and the new world satisfies the invariant for that extension (so every later `ref_get` reads a value of the
recorded type and no typed reference dangles).  Trait objects are typed values (`VT.dyn`: the packed value has a keyable type whose key the object carries): `toDyn` at a keyable
source type and `dynCall` of an object-safe method (`objSafe`: `Self` is the receiver and occurs nowhere else) under the
dispatch-table check `implsOk` are inside the fragment.  Partial: no `go`, builtins as values, impls for instances
of generic types, `toDyn` at a type parameter; progress is not stated. -/
theorem sem_preserves_types_store_partial (S : Sig) (P : Prog) (hS : SigClosed S) (hP : okProg S P true = true) (fuel : Nat)
    {e : Expr} {ρ : Env} {w : World} {Γ : TyEnv} {K : Know} {θ : Subst} {Ψ : List Ty} {v : Val} {w' : World}
    (hfrag : okE S P true Γ K e = true) (hwt : wt S Γ e = true) (hρ : ET S P Ψ θ ρ Γ) (hK : KOk K ρ) (hw : WT S P Ψ w)
    (hev : eval fuel P ρ w e = .ok v w') :
    ∃ Ψ', Ext Ψ Ψ' ∧ WT S P Ψ' w' ∧ VT S P Ψ' v (substTy θ (getTy e)) := by
  simp only [wt, List.isEmpty_iff] at hwt
  exact (sound_all hS hP fuel).expr hfrag hwt hρ hK hw hev

/-- a whole run: `main` applied in the initial world (empty store, empty store typing) returns a value of its declared
result type and leaves a well-typed store -/
theorem sem_preserves_types_main_partial (S : Sig) (P : Prog) (hS : SigClosed S) (hP : okProg S P true = true) (fuel : Nat)
    {g : Fn} (hg : P.findFn "main" = some g) (hpar : g.params = []) (eager : Bool) {v : Val} {w' : World}
    (hev : apply fuel P { eager := eager } (.fn "main") [] = .ok v w') :
    ∃ Ψ', WT S P Ψ' w' ∧ VT S P Ψ' v (substTy [] g.ret) := by
  have hw : WT S P [] ({ eager := eager } : World) := ⟨rfl, by intro l v h; simp at h⟩
  obtain ⟨Ψ', _, hw', hv⟩ := (sound_all hS hP fuel).app (θ := []) (Ψ := []) hg (by rw [hpar]; exact .nil) hw hev
  exact ⟨Ψ', hw', hv⟩

/-- static dispatch, store-typed version -/
theorem traitcall_static_dispatch_store (S : Sig) (P : Prog) (hS : SigClosed S) (hP : okProg S P true = true) (fuel : Nat)
    {recv : Expr} {ρ : Env} {w w1 : World} {Γ : TyEnv} {K : Know} {θ : Subst} {Ψ : List Ty} {rv : Val}
    (hfrag : okE S P true Γ K recv = true) (hwt : wt S Γ recv = true) (hρ : ET S P Ψ θ ρ Γ) (hK : KOk K ρ) (hw : WT S P Ψ w)
    (hc : concreteTy (substTy θ (getTy recv)) = true) (hev : eval fuel P ρ w recv = .ok rv w1) :
    valKey rv = tyKey (substTy θ (getTy recv)) := by
  obtain ⟨Ψ', _, _, hv⟩ := sem_preserves_types_store_partial S P hS hP fuel hfrag hwt hρ hK hw hev
  exact valKey_of_VT hc hv

-- `let r = ref(1); let u = ref_set(r, ref_get(r) + 1); ref_get(r)`
example : okE ValTy.tsS ValTy.tsProg true [] []
    (.letE "r" (.call (.ref (.int 32 true)) (.var "ref" (.func [.int 32 true] (.ref (.int 32 true)))) [.prim (.int 32 true 1)])
      (.letE "u" (.call .unit (.var "ref_set" (.func [.ref (.int 32 true), .int 32 true] .unit))
          [.var "r" (.ref (.int 32 true)),
           .bin .add (.int 32 true)
             (.call (.int 32 true) (.var "ref_get" (.func [.ref (.int 32 true)] (.int 32 true))) [.var "r" (.ref (.int 32 true))])
             (.prim (.int 32 true 1))])
        (.call (.int 32 true) (.var "ref_get" (.func [.ref (.int 32 true)] (.int 32 true))) [.var "r" (.ref (.int 32 true))]))) = true := by
  decide +kernel
-- the same expression is outside the reference-free fragment
example : okE ValTy.tsS ValTy.tsProg false [] []
    (.call (.ref (.int 32 true)) (.var "ref" (.func [.int 32 true] (.ref (.int 32 true)))) [.prim (.int 32 true 1)]) = false := by
  decide +kernel
example : okProg ValTy.tsS ValTy.tsProg true = true := by decide +kernel
-- trait objects: `let d: dyn A = S { n: 1 }; A::foo(d)` — `toDyn` at a keyable source type, `dynCall` on an object-safe method
example : okE ValTy.tsS ValTy.tsProg true [] []
    (.letE "d" (.toDyn "A" (.struct "S") (.dyn "A") (.constr (.struct "S") (.struct "S") [.prim (.int 32 true 1)]))
      (.dynCall "A" "foo" .string (.var "d" (.dyn "A")) [])) = true ∧ objSafe ValTy.tsS "A" "foo" = true := by
  decide +kernel

end Goml.ValTyR
