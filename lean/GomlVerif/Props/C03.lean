import GomlVerif.Lemmas.WtSubst
import GomlVerif.Lemmas.MonoCollapse
/-!
# C03 — acceptance is type-sound: every stage output is well-typed and closed

Property theorems only.  `Wt.errs` (Model/Wt.lean) is the type-consistency judgement that
`./check C03` evaluates on every real Core/Mono/Lift/ANF dump; `Closed.*` the closedness
predicates; `Mono.*` the model of mono.rs (tied to the Rust by `./check C07`).
-/
namespace Goml.Wt
open Goml Goml.Mono Goml.Closed

/-! ## P1 — the judgement is stable under type substitution -/

/-- `subst_preserves_wt`: if `e` is type-consistent under `Σ`, `Γ`, then so is `e` with a type
substitution applied to every annotation, under `Γ` with the same substitution applied — for every
expression form, every substitution, and every environment whose definitions are closed (field types
mention only the parameters of their definition; trait method signatures mention none).  This is what
specialisation relies on: an instance of a consistent generic body is consistent.  References to
functions and builtins stay *instances* of their schemes (`instOf_subst`), constructor and field types
commute with instantiation (`fieldTys_subst`), callee annotations stay compatible modulo the wildcard
array length. -/
theorem subst_preserves_wt (S : Sig) (hS : SigClosed S) (σ : Subst) (Γ : TyEnv) (e : Expr)
    (h : wt S Γ e = true) : wt S (mapΓ σ Γ) (substE σ e) = true := by
  simp only [wt, List.isEmpty_iff] at h ⊢
  exact errs_subst S hS σ e Γ h

/-- the type of a substituted expression is the substituted type -/
theorem getTy_subst (σ : Subst) (e : Expr) : getTy (substE σ e) = substTy σ (getTy e) := getTy_substE σ e

/-- a reference that is an instance of a scheme stays one under substitution of the use site's type -/
theorem scheme_instance_stable (σ : Subst) (scheme ty : Ty) (h : instOf scheme ty = true) :
    instOf scheme (substTy σ ty) = true := instOf_subst σ scheme ty h

/-! ## P2 — after monomorphisation no type parameter and no type application remains -/

/-- `subst_closed`: a substitution that binds every parameter of `t` to parameter-free types leaves
no `TParam` in `substTy σ t` -/
theorem subst_closed (σ : Subst) (t : Ty) (hd : ∀ x ∈ fvT t, (lookup σ x).isSome = true) (hc : ClosedSubst σ) :
    noParam (substTy σ t) = true := subst_closed_aux σ hc t hd

/-- `collapse_noTApp`: when phase 2 of mono (`collapse_type_apps`) returns without error — in particular
without exhausting its fuel, which is the Rust's unbounded recursion — the type it returns contains no
`TApp`, provided every application in the input has arguments and a head that is a generic enum or
struct of the environment (`appsKnown`).  Covers every type constructor the Rust descends into
(tuple, function, array, `Ref`, and — since the fix — `Vec`). -/
theorem collapse_noTApp (fuel : Nat) (t : Ty) (m : TM) (hk : appsKnown m.enumBase m.structBase t = true)
    (he : (collapse fuel t m).2.err = none) : noApp (collapse fuel t m).1 = true :=
  (collapse_noApp_aux fuel).1 t m hk he

/-- phase 2 never changes the tables of generic definitions and never clears an error -/
theorem collapse_preserves (fuel : Nat) (t : Ty) (m : TM) : Pres m (collapse fuel t m).2 :=
  (pres_all fuel).1 t m

/-! ## non-vacuity -/

def optDef : EnumDef := { name := "Opt", generics := ["T"], variants := [("Non", []), ("Som", [.param "T"])] }
def bagDef : StructDef := { name := "Bag", generics := ["T"], fields := [("items", .vec (.param "T")), ("n", .int 32 true)] }
def showTrait : TraitDef := { name := "Show", methods := [("show", .func [.struct "Self"] .string)] }

def exSig : Sig :=
  { fns := [{ name := "opt_or", generics := [], params := [("o/0", .app (.enum "Opt") [.param "T"]), ("d/1", .param "T")],
              ret := .param "T", body := .var "d/1" (.param "T") }],
    builtins := [("array_get", .func [.array Gen.arrayWildcardLen (.param "T"), .int 32 true] (.param "T")),
                 ("int32_to_string", .func [.int 32 true] .string)],
    enums := [optDef], structs := [bagDef], traits := [showTrait] }

theorem exSig_closed : SigClosed exSig := by
  refine ⟨?_, ?_, ?_⟩
  · intro d hd v hv t ht x hx
    simp only [exSig, List.mem_cons, List.not_mem_nil, or_false] at hd
    subst hd
    simp only [optDef, List.mem_cons, List.not_mem_nil, or_false] at hv
    rcases hv with rfl | rfl
    · simp at ht
    · simp only [List.mem_cons, List.not_mem_nil, or_false] at ht
      subst ht; simpa [fvT, optDef] using hx
  · intro d hd f hf x hx
    simp only [exSig, List.mem_cons, List.not_mem_nil, or_false] at hd
    subst hd
    simp only [bagDef, List.mem_cons, List.not_mem_nil, or_false] at hf
    rcases hf with rfl | rfl
    · simpa [fvT, bagDef] using hx
    · simp [fvT] at hx
  · intro d hd mt hm
    simp only [exSig, List.mem_cons, List.not_mem_nil, or_false] at hd
    subst hd
    simp only [showTrait, List.mem_cons, List.not_mem_nil, or_false] at hm
    subst hm; rfl

/-- a generic body: `match`-free excerpt `opt_or(Opt::Som(x), array_get(a, 0))` at type `T` -/
def exBody : Expr :=
  .call (.param "T") (.var "opt_or" (.func [.app (.enum "Opt") [.param "T"], .param "T"] (.param "T")))
    [.constr (.enum "Opt" "Som" 1) (.app (.enum "Opt") [.param "T"]) [.var "x/0" (.param "T")],
     .call (.param "T") (.var "array_get" (.func [.array Gen.arrayWildcardLen (.param "T"), .int 32 true] (.param "T")))
       [.var "a/1" (.array 3 (.param "T")), .prim (.int 32 true 0)]]

def exΓ : TyEnv := [("x/0", .param "T"), ("a/1", .array 3 (.param "T"))]

example : wt exSig exΓ exBody = true := by decide +kernel
/-- … and therefore its instance at `T := Vec[int32]` is consistent (by the theorem, and by evaluation) -/
example : wt exSig (mapΓ [("T", .vec (.int 32 true))] exΓ) (substE [("T", .vec (.int 32 true))] exBody) = true :=
  subst_preserves_wt exSig exSig_closed _ exΓ exBody (by decide +kernel)
example : wt exSig (mapΓ [("T", .vec (.int 32 true))] exΓ) (substE [("T", .vec (.int 32 true))] exBody) = true := by
  decide +kernel

-- what the judgement rejects: wrong argument type, wrong arity, unknown constructor/field, array length, branch types
example : errs exSig [] (.call .string (.var "int32_to_string" (.func [.int 32 true] .string)) [.prim (.str "s")])
    = ["call:argument-types|prim/prim"] := by decide +kernel
example : errs exSig [] (.call .string (.var "int32_to_string" (.func [.int 32 true] .string)) [])
    = ["call:argument-types|arity"] := by decide +kernel
example : errs exSig [("b/0", .struct "Bag")] (.cget (.struct "Bag") 5 .bool (.var "b/0" (.struct "Bag")))
    = ["field:no-such-constructor-at-this-type"] := by decide +kernel
example : errs exSig [("b/0", .app (.struct "Bag") [.bool])] (.cget (.struct "Bag") 5 .bool (.var "b/0" (.app (.struct "Bag") [.bool])))
    = ["field:index"] := by decide +kernel
example : errs exSig [] (.array (.array 3 (.int 32 true)) [.prim (.int 32 true 1), .prim (.int 32 true 2)])
    = ["array:length"] := by decide +kernel
example : errs exSig [] (.ite (.prim (.bool true)) (.prim (.int 32 true 1)) (.prim (.str "s")))
    = ["if:branch-types|prim/prim"] := by decide +kernel
example : errs exSig [] (.var "y/9" .bool) = ["var:unbound|y/9"] := by decide +kernel
-- the wildcard length of the builtin's annotation admits any array, a concrete length does not
example : errs exSig [("a/1", .array 3 .bool)]
    (.call .bool (.var "array_get" (.func [.array Gen.arrayWildcardLen .bool, .int 32 true] .bool)) [.var "a/1" (.array 3 .bool), .prim (.int 32 true 0)])
    = [] := by decide +kernel
example : errs exSig [("a/1", .array 3 .bool)]
    (.call .bool (.var "array_get" (.func [.array 5 .bool, .int 32 true] .bool)) [.var "a/1" (.array 3 .bool), .prim (.int 32 true 0)])
    = ["call:argument-types|array-length"] := by decide +kernel

-- phase 2: `Vec[Opt[int32]]` becomes `Vec[Opt__int32]` (no application left); an unknown head is outside the hypothesis
example : (collapse 10 (.vec (.app (.enum "Opt") [.int 32 true])) { enumBase := [optDef], structBase := [] }).1
    = .vec (.enum "Opt__int32") := by rfl
example : appsKnown [optDef] [] (.vec (.app (.enum "Opt") [.int 32 true])) = true := by decide +kernel
example : appsKnown [optDef] [] (.app (.enum "Nope") [.bool]) = false := by decide +kernel
example : noApp (collapse 40 (.tuple [.app (.enum "Opt") [.app (.enum "Opt") [.bool]], .ref (.app (.enum "Opt") [.unit])])
    { enumBase := [optDef], structBase := [] }).1 = true :=
  collapse_noTApp 40 _ _ (by decide +kernel) (by decide +kernel)
-- too little fuel is reported, not silently accepted
example : ((collapse 5 (.app (.enum "Opt") [.app (.enum "Opt") [.bool]]) { enumBase := [optDef], structBase := [] }).2.err).isSome = true := by
  decide +kernel

end Goml.Wt
