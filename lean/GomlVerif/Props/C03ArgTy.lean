import GomlVerif.Model.Wt
import GomlVerif.Lemmas.MonoTy
import GomlVerif.Props.C03Arity
/-!
# C03 — the stage judgement `Wt` decides the argument TYPE at every position of every call

`./check C03` evaluates `Wt.errs` on every real Core / Mono / Lift / ANF dump.  These theorems say what a dump
that passes the judgement cannot contain: a call one of whose arguments has another type than the parameter the
callee's annotation declares at that position (the only licence is the wildcard array length of
`array_get` / `array_set`, which the typer's unifier reads as "any length"); a `dyn` / trait method call or a
constructor application whose argument types differ from the trait method's signature / the field types.
So a typer that lets a wrong argument type through produces dumps the judgement rejects — the check of accepted
wrong-type variants of the `argtype:` catalogue (`tools/props/c03.py::argty_oracle`, harness/src/c03argty.rs)
relies on exactly this.
-/
namespace Goml.Wt
open Goml Goml.Mono

mutual
/-- no array type inside `t` has the wildcard length (the length `array_get` / `array_set` declare) -/
def noWildLen : Ty → Bool
  | .tuple ts => noWildLens ts
  | .app t ts => noWildLen t && noWildLens ts
  | .array n e => !(n == Gen.arrayWildcardLen) && noWildLen e
  | .vec e => noWildLen e
  | .ref e => noWildLen e
  | .func ps r => noWildLens ps && noWildLen r
  | _ => true
def noWildLens : List Ty → Bool
  | [] => true
  | t :: ts => noWildLen t && noWildLens ts
end

/-- without a wildcard array length on the declared side, `compatTy` is equality -/
theorem compatTy_eq_of_noWildLen : ∀ (t a : Ty), noWildLen t = true → compatTy t a = true → t = a := by
  intro t
  apply Ty.rec
    (motive_1 := fun t => ∀ a, noWildLen t = true → compatTy t a = true → t = a)
    (motive_2 := fun ts => ∀ us, noWildLens ts = true → compatTys ts us = true → ts = us)
  case unit => intro a _ h; simp only [compatTy] at h; exact (tyBeq_iff _ _).1 h
  case bool => intro a _ h; simp only [compatTy] at h; exact (tyBeq_iff _ _).1 h
  case string => intro a _ h; simp only [compatTy] at h; exact (tyBeq_iff _ _).1 h
  case int => intro n s a _ h; simp only [compatTy] at h; exact (tyBeq_iff _ _).1 h
  case float => intro n a _ h; simp only [compatTy] at h; exact (tyBeq_iff _ _).1 h
  case enum => intro n a _ h; simp only [compatTy] at h; exact (tyBeq_iff _ _).1 h
  case struct => intro n a _ h; simp only [compatTy] at h; exact (tyBeq_iff _ _).1 h
  case dyn => intro n a _ h; simp only [compatTy] at h; exact (tyBeq_iff _ _).1 h
  case param => intro n a _ h; simp only [compatTy] at h; exact (tyBeq_iff _ _).1 h
  case tvar => intro n a _ h; simp only [compatTy] at h; exact (tyBeq_iff _ _).1 h
  case tuple =>
    intro ts ih a hn h
    cases a with
    | tuple us =>
      simp only [compatTy] at h
      simp only [noWildLen] at hn
      rw [ih _ hn h]
    | _ => simp [compatTy] at h
  case app =>
    intro t ts ih1 ih2 a hn h
    cases a with
    | app u us =>
      simp only [compatTy, Bool.and_eq_true] at h
      simp only [noWildLen, Bool.and_eq_true] at hn
      rw [ih1 _ hn.1 h.1, ih2 _ hn.2 h.2]
    | _ => simp [compatTy] at h
  case array =>
    intro n e ih a hn h
    cases a with
    | array m e' =>
      simp only [compatTy, Bool.and_eq_true, Bool.or_eq_true, beq_iff_eq] at h
      simp only [noWildLen, Bool.and_eq_true, Bool.not_eq_true', beq_eq_false_iff_ne, ne_eq] at hn
      rw [ih _ hn.2 h.2, h.1.resolve_left hn.1]
    | _ => simp [compatTy] at h
  case vec =>
    intro e ih a hn h
    cases a with
    | vec e' =>
      simp only [compatTy] at h
      simp only [noWildLen] at hn
      rw [ih _ hn h]
    | _ => simp [compatTy] at h
  case ref =>
    intro e ih a hn h
    cases a with
    | ref e' =>
      simp only [compatTy] at h
      simp only [noWildLen] at hn
      rw [ih _ hn h]
    | _ => simp [compatTy] at h
  case func =>
    intro ps r ih1 ih2 a hn h
    cases a with
    | func qs r' =>
      simp only [compatTy, Bool.and_eq_true] at h
      simp only [noWildLen, Bool.and_eq_true] at hn
      rw [ih1 _ hn.1 h.1, ih2 _ hn.2 h.2]
    | _ => simp [compatTy] at h
  case nil =>
    intro us _ h
    cases us with
    | nil => rfl
    | cons _ _ => simp [compatTys] at h
  case cons =>
    intro t ts ih1 ih2 us hn h
    cases us with
    | nil => simp [compatTys] at h
    | cons u us =>
      simp only [compatTys, Bool.and_eq_true] at h
      simp only [noWildLens, Bool.and_eq_true] at hn
      rw [ih1 _ hn.1 h.1, ih2 _ hn.2 h.2]

/-- `compatTys` is `compatTy` at every position -/
theorem compatTys_at : ∀ (ps us : List Ty), compatTys ps us = true →
    ∀ (i : Nat) (p u : Ty), ps[i]? = some p → us[i]? = some u → compatTy p u = true
  | [], _, _, i, p, u, hp, _ => by simp at hp
  | _ :: _, [], h, _, _, _, _, _ => by simp [compatTys] at h
  | q :: ps, v :: us, h, i, p, u, hp, hu => by
    simp only [compatTys, Bool.and_eq_true] at h
    cases i with
    | zero =>
      simp only [List.getElem?_cons_zero, Option.some.injEq] at hp hu
      subst hp; subst hu; exact h.1
    | succ i =>
      simp only [List.getElem?_cons_succ] at hp hu
      exact compatTys_at ps us h.2 i p u hp hu

theorem getTys_at : ∀ (es : List Expr) (i : Nat) (e : Expr), es[i]? = some e → (getTys es)[i]? = some (getTy e)
  | [], i, e, h => by simp at h
  | x :: es, 0, e, h => by
    simp only [List.getElem?_cons_zero, Option.some.injEq] at h
    subst h; simp [getTys]
  | x :: es, i + 1, e, h => by
    simp only [List.getElem?_cons_succ] at h
    simp only [getTys, List.getElem?_cons_succ]
    exact getTys_at es i e h

/-- **call**: in a type-consistent call the callee's annotation is a function type, the argument types are
compatible with its parameter types position by position (and as many), and its result type with the call's. -/
theorem wt_call_arg_types (S : Sig) (Γ : TyEnv) (ty : Ty) (f : Expr) (args : List Expr)
    (h : wt S Γ (.call ty f args) = true) :
    ∃ ps r, getTy f = .func ps r ∧ compatTys ps (getTys args) = true ∧ compatTy r ty = true := by
  simp only [wt, List.isEmpty_iff] at h
  unfold errs at h
  have h3 := arity_append_nil_right h
  cases hf : getTy f with
  | func ps r =>
    rw [hf] at h3
    exact ⟨ps, r, rfl, arity_check_nil (arity_append_nil_left h3), arity_check_nil (arity_append_nil_right h3)⟩
  | _ => rw [hf] at h3; simp at h3

/-- **call, one argument position**: the `i`-th argument of a type-consistent call has EXACTLY the type the
callee's annotation declares for its `i`-th parameter — whatever the callee is (function, closure, local,
inherent method of a generic or of an instantiation-specific impl, builtin, apply function) — unless that
parameter type mentions the wildcard array length. -/
theorem wt_call_arg_type_at (S : Sig) (Γ : TyEnv) (ty : Ty) (f : Expr) (args : List Expr)
    (h : wt S Γ (.call ty f args) = true)
    (ps : List Ty) (r : Ty) (hf : getTy f = .func ps r)
    (i : Nat) (p : Ty) (a : Expr) (hp : ps[i]? = some p) (ha : args[i]? = some a) (hw : noWildLen p = true) :
    getTy a = p := by
  obtain ⟨ps', r', hf', hc, _⟩ := wt_call_arg_types S Γ ty f args h
  rw [hf] at hf'
  injection hf' with hps _
  subst hps
  exact (compatTy_eq_of_noWildLen p (getTy a) hw (compatTys_at ps (getTys args) hc i p (getTy a) hp (getTys_at args i a ha))).symm

/-- **call, result**: the call's own annotation is the callee annotation's result type (same licence). -/
theorem wt_call_result_type (S : Sig) (Γ : TyEnv) (ty : Ty) (f : Expr) (args : List Expr)
    (h : wt S Γ (.call ty f args) = true)
    (ps : List Ty) (r : Ty) (hf : getTy f = .func ps r) (hw : noWildLen r = true) : ty = r := by
  obtain ⟨ps', r', hf', _, hr⟩ := wt_call_arg_types S Γ ty f args h
  rw [hf] at hf'
  injection hf' with _ hr'
  subst hr'
  exact (compatTy_eq_of_noWildLen r ty hw hr).symm

/-- **dyn call** `Tr::m(d, args…)`: the trait method's signature at `dyn Tr` is exactly receiver type, argument
types → the call's type. -/
theorem wt_dyncall_arg_types (S : Sig) (Γ : TyEnv) (tr m : String) (ty : Ty) (recv : Expr) (args : List Expr)
    (h : wt S Γ (.dynCall tr m ty recv args) = true) :
    methodTy S tr m (.dyn tr) = some (.func (getTy recv :: getTys args) ty) := by
  simp only [wt, List.isEmpty_iff] at h
  unfold errs at h
  have h4 := arity_append_nil_right h
  cases hm : methodTy S tr m (.dyn tr) with
  | none => rw [hm] at h4; simp at h4
  | some t =>
    rw [hm] at h4
    rw [arity_checkEq_nil h4]

/-- **trait method call** on a bounded type parameter (Core only): the trait method's signature at the receiver's
type is exactly receiver type, argument types → the call's type. -/
theorem wt_traitcall_arg_types (S : Sig) (Γ : TyEnv) (tr m : String) (ty : Ty) (recv : Expr) (args : List Expr)
    (h : wt S Γ (.traitCall tr m ty recv args) = true) :
    methodTy S tr m (getTy recv) = some (.func (getTy recv :: getTys args) ty) := by
  simp only [wt, List.isEmpty_iff] at h
  unfold errs at h
  have h3 := arity_append_nil_right h
  cases hm : methodTy S tr m (getTy recv) with
  | none => rw [hm] at h3; simp at h3
  | some t =>
    rw [hm] at h3
    rw [arity_checkEq_nil h3]

/-- **constructor**: the argument types are exactly the field types of the variant / struct at that type. -/
theorem wt_constr_arg_types (S : Sig) (Γ : TyEnv) (c : Ctor) (ty : Ty) (args : List Expr)
    (h : wt S Γ (.constr c ty args) = true) :
    fieldTys S c ty = some (getTys args) := by
  simp only [wt, List.isEmpty_iff] at h
  unfold errs at h
  have h2 := arity_append_nil_right h
  cases hf : fieldTys S c ty with
  | none => rw [hf] at h2; simp at h2
  | some fts =>
    rw [hf] at h2
    rw [(tysBeq_iff _ _).1 (arity_check_nil h2)]

/-! ## non-vacuity: a type-qualified call of a method of an instantiation-specific impl, and its ill-typed twin -/

def cellI : Ty := .app (.struct "Cell") [.int 32 true]
/-- `impl Cell[int32] { fn put(self: Cell[int32], x: int32) -> Cell[int32] { self } }` -/
def putI : Fn := { name := "inherent#Cell#Cell[int32]#put", generics := [], params := [("self/2", cellI), ("x/3", .int 32 true)], ret := cellI,
                   body := .var "self/2" cellI }
def sigCell : Sig := { fns := [putI], structs := [{ name := "Cell", generics := ["T"], fields := [("v", .param "T")] }] }
def putITy : Ty := .func [cellI, .int 32 true] cellI

/-- `Cell::put(c, 41)`: consistent -/
example : wt sigCell [("c/4", cellI)]
    (.call cellI (.var "inherent#Cell#Cell[int32]#put" putITy) [.var "c/4" cellI, .prim (.int 32 true 41)]) = true := by decide +kernel
/-- `Cell::put(c, "oops")` as a typer that only INFERS the argument elaborates it (callee annotated with the
method's type, argument 1 a string): flagged -/
example : errs sigCell [("c/4", cellI)]
    (.call cellI (.var "inherent#Cell#Cell[int32]#put" putITy) [.var "c/4" cellI, .prim (.str "oops")])
    = ["call:argument-types|prim/prim"] := by decide +kernel
/-- the hypotheses of `wt_call_arg_type_at` on the consistent call: position 1 declares int32, no wildcard -/
example : noWildLen (.int 32 true) = true ∧ putITy = .func [cellI, .int 32 true] cellI := ⟨by decide +kernel, rfl⟩
/-- the licence is real: `array_get`'s parameter `[T; _]` accepts an array of any length -/
example : compatTy (.array Gen.arrayWildcardLen (.int 32 true)) (.array 3 (.int 32 true)) = true
    ∧ noWildLen (.array Gen.arrayWildcardLen (.int 32 true)) = false := by decide +kernel

end Goml.Wt
