import GomlVerif.Model.Wt
import GomlVerif.Lemmas.MonoTy
/-!
# C03 — the stage judgement `Wt` decides the argument COUNT of every call form

`./check C03` evaluates `Wt.errs` on every real Core / Mono / Lift / ANF dump.  These theorems say what a
dump that passes the judgement cannot contain: a call, a call of a named top-level function, a `dyn` / trait
method call or a constructor application whose number of written arguments differs from the number of
parameters of the callee annotation, of the declaration it names, of the trait method's signature
(receiver included) or of the constructor's field list.  So a typer that lets a wrong argument count
through (seeded change `C03-dot-method-call-arity-unchecked`) produces dumps the judgement rejects — the
check of accepted wrong-count variants in `tools/props/c03.py::arity_oracle` relies on exactly this.
-/
namespace Goml.Wt
open Goml Goml.Mono

theorem getTys_length : ∀ es : List Expr, (getTys es).length = es.length
  | [] => rfl
  | _ :: es => by simp [getTys, getTys_length es]

theorem compatTys_length : ∀ (ps us : List Ty), compatTys ps us = true → ps.length = us.length
  | [], [], _ => rfl
  | [], _ :: _, h => by simp [compatTys] at h
  | _ :: _, [], h => by simp [compatTys] at h
  | _ :: ps, _ :: us, h => by
    simp only [compatTys, Bool.and_eq_true] at h
    simp [compatTys_length ps us h.2]

theorem arity_append_nil_right {α} {a b : List α} (h : a ++ b = []) : b = [] := (List.append_eq_nil_iff.1 h).2
theorem arity_append_nil_left {α} {a b : List α} (h : a ++ b = []) : a = [] := (List.append_eq_nil_iff.1 h).1

theorem arity_check_nil {b : Bool} {m : String} (h : check b m = []) : b = true := by
  cases b <;> simp [check] at h ⊢

theorem arity_checkEq_nil {a b : Ty} {k : String} (h : checkEq a b k = []) : a = b := by
  unfold checkEq at h
  split at h
  · exact (tyBeq_iff a b).1 (by assumption)
  · simp at h

/-- **call**: a type-consistent call has exactly as many arguments as the annotation of its callee has
parameters — whatever the callee is (function, closure, local, inherent method, builtin, apply function). -/
theorem wt_call_arg_count (S : Sig) (Γ : TyEnv) (ty : Ty) (f : Expr) (args : List Expr)
    (h : wt S Γ (.call ty f args) = true) :
    ∃ ps r, getTy f = .func ps r ∧ ps.length = args.length := by
  simp only [wt, List.isEmpty_iff] at h
  unfold errs at h
  have h3 := arity_append_nil_right h
  cases hf : getTy f with
  | func ps r =>
    refine ⟨ps, r, rfl, ?_⟩
    rw [hf] at h3
    have hc := arity_check_nil (arity_append_nil_left h3)
    rw [compatTys_length ps (getTys args) hc, getTys_length]
  | _ => rw [hf] at h3; simp at h3

/-- an instance of a function scheme is a function type with the same number of parameters -/
theorem instOf_func_length (lp : List Ty) (lr t : Ty) (h : instOf (.func lp lr) t = true) :
    ∃ rp rr, t = .func rp rr ∧ lp.length = rp.length := by
  unfold instOf at h
  cases t with
  | func rp rr =>
    refine ⟨rp, rr, rfl, ?_⟩
    unfold matchTy at h
    by_cases hl : lp.length = rp.length
    · exact hl
    · simp [hl] at h
  | _ => simp [matchTy] at h

/-- **call of a named top-level function** (not shadowed by a local binder): a type-consistent call has
exactly as many arguments as the function DECLARES parameters.  (`inherent#T#T#m(recv, …)`, trait-impl
functions and instances are such names after lowering.) -/
theorem wt_call_declared_count (S : Sig) (Γ : TyEnv) (ty t : Ty) (x : String) (args : List Expr) (fn : Fn)
    (hΓ : lookupVar Γ x = none) (hf : findCallee S.fns x = some fn)
    (h : wt S Γ (.call ty (.var x t) args) = true) :
    fn.params.length = args.length := by
  obtain ⟨ps, r, hty, hlen⟩ := wt_call_arg_count S Γ ty (.var x t) args h
  simp only [wt, List.isEmpty_iff] at h
  unfold errs at h
  have hv := arity_append_nil_left (arity_append_nil_left h)
  unfold errs at hv
  rw [hΓ] at hv
  simp only [hf] at hv
  have hi := arity_check_nil hv
  obtain ⟨rp, rr, ht, hl⟩ := instOf_func_length _ _ _ hi
  simp only [getTy] at hty
  rw [ht] at hty
  injection hty with hps _
  rw [← hlen, ← hps, ← hl]
  simp

/-- **call of a builtin / extern function** (no local binder, no program function of that name): as many
arguments as the builtin's signature has parameters. -/
theorem wt_call_builtin_count (S : Sig) (Γ : TyEnv) (ty t : Ty) (x : String) (args : List Expr) (lp : List Ty) (lr : Ty)
    (hΓ : lookupVar Γ x = none) (hf : findCallee S.fns x = none) (hb : lookupTy S.builtins x = some (.func lp lr))
    (h : wt S Γ (.call ty (.var x t) args) = true) :
    lp.length = args.length := by
  obtain ⟨ps, r, hty, hlen⟩ := wt_call_arg_count S Γ ty (.var x t) args h
  simp only [wt, List.isEmpty_iff] at h
  unfold errs at h
  have hv := arity_append_nil_left (arity_append_nil_left h)
  unfold errs at hv
  rw [hΓ] at hv
  simp only [hf, hb] at hv
  have hi := arity_check_nil hv
  obtain ⟨rp, rr, ht, hl⟩ := instOf_func_length _ _ _ hi
  simp only [getTy] at hty
  rw [ht] at hty
  injection hty with hps _
  rw [← hlen, ← hps, ← hl]

/-- **dyn call** `Tr::m(d, args…)` on a trait object: the trait method's signature has receiver + `args`
parameters. -/
theorem wt_dyncall_count (S : Sig) (Γ : TyEnv) (tr m : String) (ty : Ty) (recv : Expr) (args : List Expr)
    (h : wt S Γ (.dynCall tr m ty recv args) = true) :
    ∃ ps r, methodTy S tr m (.dyn tr) = some (.func ps r) ∧ ps.length = args.length + 1 := by
  simp only [wt, List.isEmpty_iff] at h
  unfold errs at h
  have h4 := arity_append_nil_right h
  cases hm : methodTy S tr m (.dyn tr) with
  | none => rw [hm] at h4; simp at h4
  | some t =>
    rw [hm] at h4
    have := arity_checkEq_nil h4
    subst this
    exact ⟨_, _, rfl, by simp [getTys_length]⟩

/-- **trait method call** (`x.m(args…)` / `Tr::m(x, args…)` on a bounded type parameter, Core only): the
trait method's signature at the receiver's type has receiver + `args` parameters. -/
theorem wt_traitcall_count (S : Sig) (Γ : TyEnv) (tr m : String) (ty : Ty) (recv : Expr) (args : List Expr)
    (h : wt S Γ (.traitCall tr m ty recv args) = true) :
    ∃ ps r, methodTy S tr m (getTy recv) = some (.func ps r) ∧ ps.length = args.length + 1 := by
  simp only [wt, List.isEmpty_iff] at h
  unfold errs at h
  have h3 := arity_append_nil_right h
  cases hm : methodTy S tr m (getTy recv) with
  | none => rw [hm] at h3; simp at h3
  | some t =>
    rw [hm] at h3
    have := arity_checkEq_nil h3
    subst this
    exact ⟨_, _, rfl, by simp [getTys_length]⟩

/-- **constructor**: as many arguments as the variant / struct has fields at that type. -/
theorem wt_constr_count (S : Sig) (Γ : TyEnv) (c : Ctor) (ty : Ty) (args : List Expr)
    (h : wt S Γ (.constr c ty args) = true) :
    ∃ fts, fieldTys S c ty = some fts ∧ fts.length = args.length := by
  simp only [wt, List.isEmpty_iff] at h
  unfold errs at h
  have h2 := arity_append_nil_right h
  cases hf : fieldTys S c ty with
  | none => rw [hf] at h2; simp at h2
  | some fts =>
    rw [hf] at h2
    have := (tysBeq_iff _ _).1 (arity_check_nil h2)
    exact ⟨fts, rfl, by rw [this, getTys_length]⟩

/-! ## non-vacuity: the shapes the seeded change lets through, and their well-typed twins -/

def pTy : Ty := .struct "P"
/-- `fn inherent#P#P#m1(self: P, a0: int32) -> int32 { a0 }` -/
def m1 : Fn := { name := "inherent#P#P#m1", generics := [], params := [("self/0", pTy), ("a0/1", .int 32 true)], ret := .int 32 true,
                 body := .var "a0/1" (.int 32 true) }
def sigP : Sig := { fns := [m1], structs := [{ name := "P", generics := [], fields := [("x", .int 32 true)] }] }
def m1Ty : Ty := .func [pTy, .int 32 true] (.int 32 true)

/-- `p.m1(1)`: consistent -/
example : wt sigP [("p/7", pTy)]
    (.call (.int 32 true) (.var "inherent#P#P#m1" m1Ty) [.var "p/7" pTy, .prim (.int 32 true 1)]) = true := by decide +kernel
/-- `p.m1()` as the changed typer elaborates it (callee annotated with the method's type, one argument): flagged -/
example : errs sigP [("p/7", pTy)]
    (.call (.int 32 true) (.var "inherent#P#P#m1" m1Ty) [.var "p/7" pTy]) = ["call:argument-types|arity"] := by decide +kernel
/-- `p.m1(1, 7)`: flagged -/
example : errs sigP [("p/7", pTy)]
    (.call (.int 32 true) (.var "inherent#P#P#m1" m1Ty) [.var "p/7" pTy, .prim (.int 32 true 1), .prim (.int 32 true 7)])
    = ["call:argument-types|arity"] := by decide +kernel
/-- even with a callee annotation that was made to fit the written arguments the declaration decides -/
example : wt sigP [("p/7", pTy)]
    (.call (.int 32 true) (.var "inherent#P#P#m1" (.func [pTy] (.int 32 true))) [.var "p/7" pTy]) = false := by decide +kernel

end Goml.Wt
