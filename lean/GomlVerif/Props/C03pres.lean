import GomlVerif.Lemmas.C03presAnfCases
import GomlVerif.Lemmas.C03presAnfClosed
/-!
# C03 proper — the passes PRESERVE well-typedness and closedness

`Props/C03.lean` judges every real stage dump with `Wt.errs` / `Closed.*` per run.  Here the same
judgements are proved to be *preserved* by the pass models (which are tied to the Rust by
`./check C09` (anf), `C08` (lift), `C07` (mono), `C06` (match compiler)).  Property theorems only;
lemmas in `Lemmas/C03pres*.lean`.  Side conditions of a pass (fresh temporaries, distinct binders)
are decidable predicates that `gomlmodel c03pres` evaluates on every real program
(`evidence/C03.json`, `pass_preservation`).
-/
namespace Goml.C03pres
open Goml Goml.Wt Goml.Anf Goml.Closed

/-! ## ANF (`anf.rs`, model `Model/Anf.lean`) -/

/-- `anf_preserves_wt`: if a Lift expression is type-consistent under `Σ`, `Γ` then so is its
A-normal form, under the same `Σ`, `Γ`, and it has the same type: every temporary `t<n>` is bound
(by a `let` of the chain) before its use, to the expression it names, and is annotated with that
expression's type; every operand check of a node reads the same operand types as before; `&&`/`||`
with a complex right operand become an `if` with `bool` branches.  Hypothesis (decidable,
evaluated on every real Lift function): `inAnfFragment e n` — widening the scope of a `let`-bound
name of one operand over its sibling operands captures nothing, and no temporary handed out for
`e` (counter `n` onwards) occurs in `e`.  Both are needed (`example`s below). -/
theorem anf_preserves_wt (S : Sig) (Γ : TyEnv) (e : Expr) (n : Nat)
    (hf : inAnfFragment e n = true) (h : wt S Γ e = true) :
    wt S Γ (anf e n ret).1 = true ∧ Mono.getTy (anf e n ret).1 = Mono.getTy e := by
  simp only [wt, List.isEmpty_iff] at h ⊢
  exact wt_top S (wt_all S e) n _ [] Γ Γ (hyp_of_inFragment hf) (fun _ _ => rfl) h

/-- the same for an arbitrary continuation: the `let` chain is consistent and the continuation
receives an expression that is consistent in the extended context and has the type of `e` -/
theorem anf_preserves_wt_cont (S : Sig) (Γ : TyEnv) (e : Expr) (n : Nat) (k : Kont Expr)
    (hf : inAnfFragment e n = true) (h : wt S Γ e = true) :
    (anf e n k).1 = wrap (dec e n).L (k (dec e n).c (dec e n).n).1 ∧
    errsB S Γ (dec e n).L = [] ∧ wt S (extΓ (dec e n).L Γ) (dec e n).c = true ∧
    Mono.getTy (dec e n).c = Mono.getTy e := by
  simp only [wt, List.isEmpty_iff] at h ⊢
  refine ⟨by rw [anf_eq_dec]; rfl, ?_⟩
  have hy := hyp_of_inFragment hf
  rw [anf_ret] at hy
  exact wt_all S e n _ [] Γ Γ hy (fun _ _ => rfl) h

/-- a function: the body is consistent under the parameters and still has the declared result type -/
theorem anf_preserves_wtFn (S : Sig) (f : Fn) (n : Nat) (hf : inAnfFragment f.body n = true)
    (h : wtFn S f = true) : wtFn S { f with body := (anf f.body n ret).1 } = true := by
  simp only [wtFn, fnErrs, List.isEmpty_iff, List.append_eq_nil_iff, checkEq_nil] at h ⊢
  have := anf_preserves_wt S (bindAll f.params []) f.body n hf (by simp [wt, h.1])
  simp only [wt, List.isEmpty_iff] at this
  exact ⟨this.1, by rw [this.2, h.2]⟩

/-- `anf_file`: every function of the file, with the gensym counter threaded as the Rust does.
`S` is the signature environment of the Lift stage; ANF changes no name, parameter list or result
type, so it is also the signature environment of the ANF stage. -/
theorem anf_file_preserves_wt (S : Sig) : ∀ (fns : List Fn) (n : Nat),
    (anfFragFlags fns n).all (fun b => b) = true → (∀ f ∈ fns, wtFn S f = true) →
    ∀ f' ∈ (anfFns fns n).1, wtFn S f' = true
  | [], _, _, _, f', hf' => by simp [anfFns] at hf'
  | g :: rest, n, hfl, hw, f', hf' => by
    simp only [anfFragFlags, List.all_cons, Bool.and_eq_true] at hfl
    simp only [anfFns, List.mem_cons] at hf'
    rcases hf' with rfl | hf'
    · exact anf_preserves_wtFn S g n hfl.1 (hw g (by simp))
    · exact anf_file_preserves_wt S rest _ hfl.2 (fun f hf => hw f (by simp [hf])) f' hf'

/-- `anf_preserves_closed`: ANF writes no type that was not in the input: every annotation of
`anf e` satisfies `p` when every annotation of `e` does (`p` = no type parameter / no type
application / no inference variable / all three).  No side condition. -/
theorem anf_preserves_closed (p : Ty → Bool) (hp : PBase p) (e : Expr) (n : Nat)
    (h : allTys p e = true) : allTys p (anf e n ret).1 = true :=
  cl_top p (dec_allTys p hp e) n h

theorem closedTy_base : PBase closedTy :=
  ⟨rfl, fun q => by cases q <;> rfl⟩

/-- the closedness half of the stage predicate `closedFn` for a whole file -/
theorem anf_file_preserves_closed : ∀ (fns : List Fn) (n : Nat),
    (∀ f ∈ fns, fnAllTys closedTy f = true) → ∀ f' ∈ (anfFns fns n).1, fnAllTys closedTy f' = true
  | [], _, _, f', hf' => by simp [anfFns] at hf'
  | g :: rest, n, hw, f', hf' => by
    simp only [anfFns, List.mem_cons] at hf'
    rcases hf' with rfl | hf'
    · have := hw g (by simp)
      simp only [fnAllTys, Bool.and_eq_true] at this ⊢
      exact ⟨this.1, anf_preserves_closed closedTy closedTy_base g.body n this.2⟩
    · exact anf_file_preserves_closed rest _ (fun f hf => hw f (by simp [hf])) f' hf'

/-! ### non-vacuity: the two functions of corpus program `pipeline/039_sum_100` at the Lift stage -/

def i32 : Ty := .int 32 true

/-- `fn my_int_equal(x: int32, y: int32) -> bool { !(x < y) && !(y < x) }` -/
def fnEq : Fn :=
  { name := "my_int_equal", generics := [], params := [("x/0", i32), ("y/1", i32)], ret := .bool,
    body := .bin .and .bool
      (.un .not .bool (.bin .less .bool (.var "x/0" i32) (.var "y/1" i32)))
      (.un .not .bool (.bin .less .bool (.var "y/1" i32) (.var "x/0" i32))) }

/-- `fn sum(n: int32) -> int32 { if my_int_equal(n, 1) { 1 } else { n + sum(n - 1) } }` -/
def fnSum : Fn :=
  { name := "sum", generics := [], params := [("n/2", i32)], ret := i32,
    body := .ite (.call .bool (.var "my_int_equal" (.func [i32, i32] .bool)) [.var "n/2" i32, .prim (.int 32 true 1)])
      (.prim (.int 32 true 1))
      (.bin .add i32 (.var "n/2" i32)
        (.call i32 (.var "sum" (.func [i32] i32)) [.bin .sub i32 (.var "n/2" i32) (.prim (.int 32 true 1))])) }

def sig039 : Sig := { fns := [fnEq, fnSum] }

example : (anfFragFlags sig039.fns 0).all (fun b => b) = true := by decide
example : wtFn sig039 fnEq = true ∧ wtFn sig039 fnSum = true := by decide +kernel
-- the `&&` is lowered to an `if` (three temporaries), `sum` needs three more
example : (anfFns sig039.fns 0).2 = 6 := by decide +kernel
/-- by the theorem … -/
example : ∀ f' ∈ (anfFns sig039.fns 0).1, wtFn sig039 f' = true :=
  anf_file_preserves_wt sig039 _ 0 (by decide) (by decide +kernel)
/-- … and by evaluation -/
example : ((anfFns sig039.fns 0).1.all (wtFn sig039)) = true := by decide +kernel
example : ∀ f' ∈ (anfFns sig039.fns 0).1, fnAllTys closedTy f' = true :=
  anf_file_preserves_closed _ 0 (by decide +kernel)

/-- the fragment hypothesis is needed: `x + (let x = true in 1)` is consistent, its A-normal form
`let x = true in let t0 = 1 in x + t0` is not (the widened `let` captures the left operand) -/
def eCap : Expr := .bin .add i32 (.var "x" i32) (.letE "x" (.prim (.bool true)) (.prim (.int 32 true 1)))
example : inAnfFragment eCap 0 = false := by decide
example : wt {fns := []} [("x", i32)] eCap = true := by decide +kernel
example : errs {fns := []} [("x", i32)] (anf eCap 0 ret).1 = ["var:annotation-differs-from-binder|prim/prim"] := by
  decide +kernel
/-- … and so is freshness of the temporaries: `g(h(1), t0)` with a source variable called `t0`
becomes `let t0 = h(1) in g(t0, t0)` -/
def eTmp : Expr :=
  .call i32 (.var "g" (.func [i32, .bool] i32))
    [.call i32 (.var "h" (.func [i32] i32)) [.prim (.int 32 true 1)], .var "t0" .bool]
def ΓTmp : TyEnv := [("g", .func [i32, .bool] i32), ("h", .func [i32] i32), ("t0", .bool)]
example : inAnfFragment eTmp 0 = false := by decide
example : wt {fns := []} ΓTmp eTmp = true := by decide +kernel
example : errs {fns := []} ΓTmp (anf eTmp 0 ret).1 = ["var:annotation-differs-from-binder|prim/prim"] := by
  decide +kernel

end Goml.C03pres
