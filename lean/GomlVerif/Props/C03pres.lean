import GomlVerif.Lemmas.C03presAnfCases
import GomlVerif.Lemmas.C03presAnfClosed
import GomlVerif.Lemmas.C03presAnfScope
import GomlVerif.Lemmas.C03presAnfSig
import GomlVerif.Lemmas.C03presMono
import GomlVerif.Model.C03presSig
import GomlVerif.Lemmas.C03presMatch
import GomlVerif.Lemmas.C03presScopeLink
import GomlVerif.Lemmas.C03presLift
/-!
# C03 proper — the passes PRESERVE well-typedness and closedness

`Props/C03.lean` judges every real stage dump with `Wt.errs` / `Closed.*` per run.  Here the same
judgements are proved to be *preserved* by the pass models (which are tied to the Rust by
`./check C09` (anf), `C08` (lift), `C07` (mono), `C06` (match compiler)).  Property theorems only;
lemmas in `Lemmas/C03pres*.lean`.  Side conditions of a pass (fresh temporaries, distinct binders)
are decidable predicates that `gomlmodel c03pres` evaluates on every real program
(`evidence/C03.json`, `pass_preservation`).
-/
namespace Goml.C03pres
open Goml Goml.Wt Goml.Anf Goml.Closed Goml.Scoped

/-! ## ANF (`anf.rs`, model `Model/Anf.lean`) -/

/-- `anf_preserves_wt`: if a Lift expression is type-consistent under `Σ`, `Γ` then so is its
A-normal form, under the same `Σ`, `Γ`, and it has the same type: every temporary `t<n>` is bound
(by a `let` of the chain) before its use, to the expression it names, and is annotated with that
expression's type; every operand check of a node reads the same operand types as before; `&&`/`||`
with a complex right operand become an `if` with `bool` branches.  Hypothesis (decidable,
evaluated on every real Lift function): `inAnfFragment e n` — widening the scope of a `let`-bound
name of one operand over its sibling operands captures nothing, and no temporary handed out for
`e` (counter `n` onwards) occurs in `e`.  Both are needed (`example`s below). -/
theorem anf_preserves_wt (S : Sig) (Γ : TyEnv) (e : Expr) (n : Nat)
    (hf : inAnfFragment e n = true) (h : wt S Γ e = true) :
    wt S Γ (anf e n ret).1 = true ∧ Mono.getTy (anf e n ret).1 = Mono.getTy e := by
  simp only [wt, List.isEmpty_iff] at h ⊢
  exact wt_top S (wt_all S e) n _ [] Γ Γ (hyp_of_inFragment hf) (fun _ _ => rfl) h

/-- the same for an arbitrary continuation: the `let` chain is consistent and the continuation
receives an expression that is consistent in the extended context and has the type of `e` -/
theorem anf_preserves_wt_cont (S : Sig) (Γ : TyEnv) (e : Expr) (n : Nat) (k : Kont Expr)
    (hf : inAnfFragment e n = true) (h : wt S Γ e = true) :
    (anf e n k).1 = wrap (dec e n).L (k (dec e n).c (dec e n).n).1 ∧
    errsB S Γ (dec e n).L = [] ∧ wt S (extΓ (dec e n).L Γ) (dec e n).c = true ∧
    Mono.getTy (dec e n).c = Mono.getTy e := by
  simp only [wt, List.isEmpty_iff] at h ⊢
  refine ⟨by rw [anf_eq_dec]; rfl, ?_⟩
  have hy := hyp_of_inFragment hf
  rw [anf_ret] at hy
  exact wt_all S e n _ [] Γ Γ hy (fun _ _ => rfl) h

/-- a function: the body is consistent under the parameters and still has the declared result type -/
theorem anf_preserves_wtFn (S : Sig) (f : Fn) (n : Nat) (hf : inAnfFragment f.body n = true)
    (h : wtFn S f = true) : wtFn S { f with body := (anf f.body n ret).1 } = true := by
  simp only [wtFn, fnErrs, List.isEmpty_iff, List.append_eq_nil_iff, checkEq_nil] at h ⊢
  have := anf_preserves_wt S (bindAll f.params []) f.body n hf (by simp [wt, h.1])
  simp only [wt, List.isEmpty_iff] at this
  exact ⟨this.1, by rw [this.2, h.2]⟩

/-- `anf_file`: every function of the file, with the gensym counter threaded as the Rust does.
`S` is the signature environment of the Lift stage; ANF changes no name, parameter list or result
type, so it is also the signature environment of the ANF stage. -/
theorem anf_file_preserves_wt (S : Sig) : ∀ (fns : List Fn) (n : Nat),
    (anfFragFlags fns n).all (fun b => b) = true → (∀ f ∈ fns, wtFn S f = true) →
    ∀ f' ∈ (anfFns fns n).1, wtFn S f' = true
  | [], _, _, _, f', hf' => by simp [anfFns] at hf'
  | g :: rest, n, hfl, hw, f', hf' => by
    simp only [anfFragFlags, List.all_cons, Bool.and_eq_true] at hfl
    simp only [anfFns, List.mem_cons] at hf'
    rcases hf' with rfl | hf'
    · exact anf_preserves_wtFn S g n hfl.1 (hw g (by simp))
    · exact anf_file_preserves_wt S rest _ hfl.2 (fun f hf => hw f (by simp [hf])) f' hf'

/-- the signature of the ANF stage (the function table replaced by the output of `anf_file`) judges every
expression exactly as the signature of the Lift stage does: `Wt.errs` reads the function table only through
names, generics, parameter lists and result types (`findCallee`, `fnTy`), which `anf_file` keeps -/
theorem anf_sig_judges_alike (S : Sig) (n : Nat) (Γ : TyEnv) (e : Expr) :
    errs { S with fns := (anfFns S.fns n).1 } Γ e = errs S Γ e :=
  errs_hdr S _ (anfFns_hdr S.fns n) e Γ

/-- **the ANF stage output is well-typed**: if the Lift stage is (`wtProg`, every function judged under the
stage's own signature) and every function is inside the decidable hypothesis, the ANF stage is, under ITS own
signature -/
theorem anf_stage_preserves_wtProg (S : Sig) (n : Nat)
    (hf : (anfFragFlags S.fns n).all (fun b => b) = true) (h : wtProg S = true) :
    wtProg { S with fns := (anfFns S.fns n).1 } = true := by
  simp only [wtProg, List.all_eq_true] at h ⊢
  intro f' hf'
  have := anf_file_preserves_wt S S.fns n hf h f' hf'
  simp only [wtFn, fnErrs, anf_sig_judges_alike] at this ⊢
  exact this

/-- `anf_preserves_closed`: ANF writes no type that was not in the input: every annotation of
`anf e` satisfies `p` when every annotation of `e` does (`p` = no type parameter / no type
application / no inference variable / all three).  No side condition. -/
theorem anf_preserves_closed (p : Ty → Bool) (hp : PBase p) (e : Expr) (n : Nat)
    (h : allTys p e = true) : allTys p (anf e n ret).1 = true :=
  cl_top p (dec_allTys p hp e) n h

theorem closedTy_base : PBase closedTy :=
  ⟨rfl, fun q => by cases q <;> rfl⟩

/-- ANF builds no `ETraitCall` node -/
theorem anf_preserves_noTraitCall (e : Expr) (n : Nat) (h : noTraitCall e = true) :
    noTraitCall (anf e n ret).1 = true := nt_top (dec_ntc e) n h

/-- the stage predicate `closedFns` (every annotation of every function — parameters, result, body —
is free of type parameters, type applications and inference variables, and no trait call is left)
is preserved by `anf_file`, whatever the gensym counter -/
theorem anf_file_preserves_closed : ∀ (fns : List Fn) (n : Nat),
    closedFns fns = true → closedFns (anfFns fns n).1 = true
  | [], _, _ => by simp [anfFns, closedFns]
  | g :: rest, n, hw => by
    simp only [closedFns, List.all_cons, Bool.and_eq_true] at hw
    have ih := anf_file_preserves_closed rest (anf g.body n ret).2 (by simpa [closedFns] using hw.2)
    simp only [closedFns] at ih
    simp only [anfFns, closedFns, List.all_cons, Bool.and_eq_true]
    refine ⟨?_, ih⟩
    have hg := hw.1
    simp only [closedFn, fnAllTys, Bool.and_eq_true] at hg ⊢
    exact ⟨⟨hg.1.1, anf_preserves_closed closedTy closedTy_base g.body n hg.1.2⟩,
      anf_preserves_noTraitCall g.body n hg.2⟩

/-- `anf_preserves_scoped`: scope closedness alone, independently of types (it also covers the
functions that `Wt` rejects at the Lift stage because of the known finding
`closure-struct-vs-function-type`): if every variable occurrence of `e` is under a binder of its name
or in `B`, the same holds of `anf e` — every temporary is bound by the chain before its use, no
source variable leaves the `let` that binds it, none is captured by a widened `let`. -/
theorem anf_preserves_scoped (B : List String) (e : Expr) (n : Nat)
    (hf : inAnfFragment e n = true) (h : unbound B e = []) : unbound B (anf e n ret).1 = [] :=
  sc_top (sc_all e) n _ [] B B (hyp_of_inFragment hf) (fun _ _ => Iff.rfl) h

theorem anf_file_preserves_scoped (G : List String) : ∀ (fns : List Fn) (n : Nat),
    (anfFragFlags fns n).all (fun b => b) = true → scopedFns G fns = true → scopedFns G (anfFns fns n).1 = true
  | [], _, _, _ => by simp [anfFns, scopedFns]
  | g :: rest, n, hfl, hw => by
    simp only [anfFragFlags, List.all_cons, Bool.and_eq_true] at hfl
    simp only [scopedFns, List.all_cons, Bool.and_eq_true] at hw
    have ih := anf_file_preserves_scoped G rest (anf g.body n ret).2 hfl.2 (by simpa [scopedFns] using hw.2)
    simp only [scopedFns] at ih
    simp only [anfFns, scopedFns, List.all_cons, Bool.and_eq_true]
    refine ⟨?_, ih⟩
    have hg := hw.1
    simp only [scopedFn, List.isEmpty_iff] at hg ⊢
    exact anf_preserves_scoped _ g.body n hfl.1 hg

/-! ### non-vacuity: the two functions of corpus program `pipeline/039_sum_100` at the Lift stage -/

def i32 : Ty := .int 32 true

/-- `fn my_int_equal(x: int32, y: int32) -> bool { !(x < y) && !(y < x) }` -/
def fnEq : Fn :=
  { name := "my_int_equal", generics := [], params := [("x/0", i32), ("y/1", i32)], ret := .bool,
    body := .bin .and .bool
      (.un .not .bool (.bin .less .bool (.var "x/0" i32) (.var "y/1" i32)))
      (.un .not .bool (.bin .less .bool (.var "y/1" i32) (.var "x/0" i32))) }

/-- `fn sum(n: int32) -> int32 { if my_int_equal(n, 1) { 1 } else { n + sum(n - 1) } }` -/
def fnSum : Fn :=
  { name := "sum", generics := [], params := [("n/2", i32)], ret := i32,
    body := .ite (.call .bool (.var "my_int_equal" (.func [i32, i32] .bool)) [.var "n/2" i32, .prim (.int 32 true 1)])
      (.prim (.int 32 true 1))
      (.bin .add i32 (.var "n/2" i32)
        (.call i32 (.var "sum" (.func [i32] i32)) [.bin .sub i32 (.var "n/2" i32) (.prim (.int 32 true 1))])) }

def sig039 : Sig := { fns := [fnEq, fnSum] }

example : (anfFragFlags sig039.fns 0).all (fun b => b) = true := by decide
example : wtFn sig039 fnEq = true ∧ wtFn sig039 fnSum = true := by decide +kernel
-- the `&&` is lowered to an `if` (three temporaries), `sum` needs three more
example : (anfFns sig039.fns 0).2 = 6 := by decide +kernel
/-- by the theorem … -/
example : ∀ f' ∈ (anfFns sig039.fns 0).1, wtFn sig039 f' = true :=
  anf_file_preserves_wt sig039 _ 0 (by decide) (by decide +kernel)
example : wtProg { sig039 with fns := (anfFns sig039.fns 0).1 } = true :=
  anf_stage_preserves_wtProg sig039 0 (by decide) (by decide +kernel)
/-- … and by evaluation -/
example : ((anfFns sig039.fns 0).1.all (wtFn sig039)) = true := by decide +kernel
example : closedFns (anfFns sig039.fns 0).1 = true :=
  anf_file_preserves_closed _ 0 (by decide +kernel)

example : scopedFns ["my_int_equal", "sum"] (anfFns sig039.fns 0).1 = true :=
  anf_file_preserves_scoped _ _ 0 (by decide) (by decide +kernel)

/-- the fragment hypothesis is needed: `x + (let x = true in 1)` is consistent, its A-normal form
`let x = true in let t0 = 1 in x + t0` is not (the widened `let` captures the left operand) -/
def eCap : Expr := .bin .add i32 (.var "x" i32) (.letE "x" (.prim (.bool true)) (.prim (.int 32 true 1)))
example : inAnfFragment eCap 0 = false := by decide
example : wt {fns := []} [("x", i32)] eCap = true := by decide +kernel
example : errs {fns := []} [("x", i32)] (anf eCap 0 ret).1 = ["var:annotation-differs-from-binder|prim/prim"] := by
  decide +kernel
/-- … and so is freshness of the temporaries: `g(h(1), t0)` with a source variable called `t0`
becomes `let t0 = h(1) in g(t0, t0)` -/
def eTmp : Expr :=
  .call i32 (.var "g" (.func [i32, .bool] i32))
    [.call i32 (.var "h" (.func [i32] i32)) [.prim (.int 32 true 1)], .var "t0" .bool]
def ΓTmp : TyEnv := [("g", .func [i32, .bool] i32), ("h", .func [i32] i32), ("t0", .bool)]
example : inAnfFragment eTmp 0 = false := by decide
example : wt {fns := []} ΓTmp eTmp = true := by decide +kernel
example : errs {fns := []} ΓTmp (anf eTmp 0 ret).1 = ["var:annotation-differs-from-binder|prim/prim"] := by
  decide +kernel

/-! ## Lift (`lift.rs`, model `Model/Lift.lean`, tied by `./check C08`) -/

section LiftP
open Goml.Lift

/-- `lift_preserves_closed`: every function `lambda_lift` emits — the lifted originals and the generated
apply functions — is scope-closed under its own parameters, the globals `G` of the input and the names of
the generated apply functions, and those apply functions are among the emitted functions.  In particular
the apply function of a closure is closed: each captured variable is re-bound from its environment field
(`let x = env.<i>`, `fvB_rebind_iff`) before use, so its free variables are the environment parameter and
the closure's own parameters.  Hypothesis `presHypFns G fns` (decidable, evaluated on every real Mono dump):
every input function is closed under its parameters and `G`, and `presHypArity`: a closure node has no more
parameters than its function type has parameter types (`loweredParams` zips the two lists — a surplus
parameter would not be bound by the apply function; `example badArity`), arm heads are plain patterns. -/
theorem lift_preserves_closed (env : Lift.Env) (fns : List Fn) (G : String → Bool)
    (h : presHypFns G fns = true) :
    (∀ g ∈ (liftFile env fns).1,
      presHypClosedFn (liftGlobals G (liftFile env fns).2.newFns) g = true) ∧
    (∀ a ∈ (liftFile env fns).2.newFns, a ∈ (liftFile env fns).1) :=
  Goml.Lift.lift_preserves_closed env fns G h

/-- the same for the stage predicate `Scoped.scopedFns` (chains with `anf_file_preserves_scoped`) -/
theorem lift_preserves_scoped (env : Lift.Env) (fns : List Fn) (G : List String)
    (ha : fns.all (fun f => presHypArity f.body) = true) (h : scopedFns G fns = true) :
    scopedFns (G ++ (liftFile env fns).2.newFns.map (·.name)) (liftFile env fns).1 = true :=
  Goml.Lift.lift_preserves_scoped env fns G ha h

/-- Lift → ANF: a scoped Mono file stays scoped through both passes -/
theorem lift_anf_preserves_scoped (env : Lift.Env) (fns : List Fn) (G : List String) (n : Nat)
    (ha : fns.all (fun f => presHypArity f.body) = true) (h : scopedFns G fns = true)
    (hf : (anfFragFlags (liftFile env fns).1 n).all (fun b => b) = true) :
    scopedFns (G ++ (liftFile env fns).2.newFns.map (·.name)) (anfFns (liftFile env fns).1 n).1 = true :=
  anf_file_preserves_scoped _ _ n hf (lift_preserves_scoped env fns G ha h)

/-- `lift_preserves_closedTy` (type closedness): if every type of the lifting environment and every annotation
of every input function is free of type parameters, type applications and inference variables, so is every
annotation of every emitted function (the generated `closure_env_*` struct types are plain struct types) -/
theorem lift_preserves_closedTy (env : Lift.Env) (fns : List Fn)
    (henv : presHypEnvTys closedTy env = true) (hf : presHypFnsTys closedTy fns = true) :
    ∀ g ∈ (liftFile env fns).1, fnAllTys closedTy g = true :=
  Goml.Lift.lift_preserves_closedTy env fns henv hf

/-- `lift_preserves_wt_partial` — typing, the closure-free part only.  Lift is NOT type-consistent for
closures in the current reading of `Wt` (known finding `closure-struct-vs-function-type`: a closure becomes a
value of its `closure_env_*` struct type while the positions it flows through keep `TFunc`), so the judgement
is relaxed exactly there: nothing is claimed for closure values and the calls through them.  On an
expression without closure nodes, before any closure type is registered (`st.closureTypes = []`), with the
recomputed annotations already in place (`presHypStable`, decidable), `transform_expr` returns the expression
itself, so `Wt.errs` is unchanged whatever `Σ`, `Γ`. -/
theorem lift_preserves_wt_partial (S : Sig) (Γ : TyEnv) (st : Lift.State) (sc : Lift.Scope) (e : Expr)
    (hct : st.closureTypes = []) (hnc : noClosure e = true) (hs : presHypStable st sc e = true) :
    transformExpr st sc e = (e, monoTy e, st) ∧
    errs S Γ (transformExpr st sc e).1 = errs S Γ e ∧
    wt S Γ (transformExpr st sc e).1 = wt S Γ e :=
  Goml.Lift.lift_preserves_wt_partial S Γ st sc e hct hnc hs

/-- a closure-free function lifted before any closure of the file is returned unchanged -/
theorem liftFn_preserves_wt_partial (S : Sig) (st : Lift.State) (f : Fn)
    (hnc : noClosure f.body = true) (hs : presHypStableFn st f = true) :
    (liftFn st f).1 = f ∧ wtFn S (liftFn st f).1 = wtFn S f ∧
      (liftFn st f).2.newFns = st.newFns ∧ (liftFn st f).2.closureTypes = [] :=
  Goml.Lift.liftFn_preserves_wt_partial S st f hnc hs

end LiftP

/-! ## Mono (`mono.rs`, model `Model/Mono.lean`, tied by `./check C07`) -/

section Mono
open Goml.Mono

theorem tparamsOf_eq_fvT : ∀ (t : Ty), tparamsOf t = fvT t := by
  apply Ty.rec (motive_1 := fun t => tparamsOf t = fvT t) (motive_2 := fun ts => tparamsOfs ts = fvTs ts)
  all_goals intros
  all_goals simp_all [tparamsOf, tparamsOfs, fvT, fvTs]

/-- the executable check implies the hypothesis `SigClosed` of the substitution theorems -/
theorem sigClosedB_sound (S : Sig) (h : sigClosedB S = true) : SigClosed S := by
  simp only [sigClosedB, Bool.and_eq_true, List.all_eq_true, List.contains_eq_mem, decide_eq_true_eq] at h
  refine ⟨?_, ?_, ?_⟩
  · intro d hd v hv t ht x hx
    exact h.1.1 d hd v hv t ht x (by rw [tparamsOf_eq_fvT]; exact hx)
  · intro d hd f hf x hx
    exact h.1.2 d hd f hf x (by rw [tparamsOf_eq_fvT]; exact hx)
  · intro d hd mt hm
    exact h.2 d hd mt hm

/-- `mono_preserves_wt_partial`: phase 1 of monomorphisation (`mono_expr`) preserves type
consistency of a body — the instance body is the substitution instance of the generic body
(`subst_preserves_wt`) up to the names of callees (`monoExpr_sameUpToCallee`), and a name is judged
against the function table `fns'` of the monomorphised program: `Mono.presHypCallees` (decidable,
evaluated on every real program) asks that each renamed callee `f__inst` / `trait_impl#…` is declared in
`fns'` with a type its annotation is an instance of, and that an unrenamed global means a function of
the same type before and after.  **Partial**: the side condition on names is checked on the output
instead of being derived from the work-list closure; a binder shadowing a generic function's name is not
excluded; phase 2 (`collapse`: `Opt[int32]` ↦ `Opt__int32`) is covered only for bodies without type
applications (`mono_preserves_wt_noApp_partial`) — see `Lemmas/C03presMono.lean`. -/
theorem mono_preserves_wt_partial (S : Sig) (hS : sigClosedB S = true) (fns' F : List Fn) (σ : Subst) (Γ : TyEnv)
    (e : Expr) (c : Ctx) (h : wt S Γ e = true)
    (hc : presHypCallees S fns' (mapΓ σ Γ) (substE σ e) (monoExpr F σ e c).1 = true) :
    wt (presSig S fns') (mapΓ σ Γ) (monoExpr F σ e c).1 = true :=
  Goml.Wt.mono_preserves_wt_partial S (sigClosedB_sound S hS) fns' F σ Γ e c h hc

/-- the whole output of phase 1: if the work list empties, every generic function is `wtFn` under `S`
and the emitted functions pass `Mono.presHypOut` against the emitted function table (together:
`Mono.presHypProg`, decidable), then every emitted instance is `wtFn` under the definitions of `S`
with the emitted function table -/
theorem mono_phase1_preserves_wtProg_partial (S : Sig) (hS : sigClosedB S = true) (fns : List Fn) (fuel : Nat) (c' : Ctx)
    (hp : phase1 fuel fns = some c') (hwt : ∀ f ∈ origFns fns, wtFn S f = true)
    (hc : presHypOut S (origFns fns) c'.out (presItems (origFns fns) fuel (seed (origFns fns))) = true) :
    wtProg (presSig S c'.out) = true :=
  phase1_wtProg_partial S (sigClosedB_sound S hS) fns fuel c' hp hwt hc

/-- phases 1 and 2 for an instance body whose annotations contain no type application (phase 2 is the
identity there) -/
theorem mono_preserves_wt_noApp_partial (S : Sig) (hS : sigClosedB S = true) (fns' F : List Fn) (σ : Subst) (Γ : TyEnv)
    (e : Expr) (c : Ctx) (tyFuel : Nat) (m : TM) (h : wt S Γ e = true)
    (hc : presHypCallees S fns' (mapΓ σ Γ) (substE σ e) (monoExpr F σ e c).1 = true)
    (hn : allTys noApp (monoExpr F σ e c).1 = true) (hk : presHypCtors (monoExpr F σ e c).1 = true) :
    wt (presSig S fns') (mapΓ σ Γ) (rewriteExpr tyFuel (monoExpr F σ e c).1 m).1 = true :=
  Goml.Wt.mono_preserves_wt_noApp_partial S (sigClosedB_sound S hS) fns' F σ Γ e c tyFuel m h hc hn hk

-- non-vacuity (program `PresEx.prog`: `id[T]`, `apply[T]`, `get_or[T]` with a generic call, a generic function
-- value, a constructor pattern, a builtin and a trait call; see Lemmas/C03presMono.lean)
example : sigClosedB PresEx.sig = true := by decide +kernel
example : presHypProg PresEx.sig 20 PresEx.prog = true := by decide +kernel

end Mono

/-! ## the match compiler (`compile_match.rs`, model `Model/Match.lean`, tied by `./check C06`) -/

section MatchC
open Goml.Match

/-- `matchc_preserves_closed`: the expression the match compiler emits for a pattern matrix is
scope-closed under `Γ` — every pattern variable used in an arm body is bound (by a `let name = column`
wrapped around the leaf) on every path of the decision tree that reaches that arm, and every generated
column variable `x<n>` is bound by a `let x<n> = field/projection of its parent` before the sub-tree that
tests or copies it.  `Γ` = names bound around the match (among them the runtime function `missing`),
`T` = the types of the column variables.  Hypotheses, all decidable and evaluated on every real match
site: every column variable is in `Γ`, typed by `T`, its pattern well-formed at that type (a constructor
pattern has no more arguments than the declaration has fields: the Rust zips and would drop the surplus
pattern variables); each arm body mentions only `Γ`, its own pattern variables and the names already
moved into `binds` (`presHypRows`); no column variable is spelled like a generated name (`presHypNames`). -/
theorem matchc_preserves_closed (S : Match.Sig) (hgen : S.gen = realGen)
    (fuel : Nat) (ty : Ty) (n : Nat) (rows : List (Row Expr)) (t : DT Expr) (n' : Nat) (Γ : List String)
    (T : List (String × Ty))
    (hc : compileRows S fuel ty n rows = some (.ok (t, n')))
    (hmissing : Γ.contains "missing" = true)
    (hnames : presHypNames T = true)
    (hrows : presHypRows S fvE Γ T rows = true) : closedE Γ t.toExpr = true :=
  Goml.Match.matchc_preserves_closed S hgen fuel ty n rows t n' Γ T hc hmissing hnames hrows

/-- entry point `match e { arms }` (scrutinee a variable, or bound to `mtmp` first) -/
theorem compileMatch_closed (S : Match.Sig) (hgen : S.gen = realGen) (fuel : Nat) (ty : Ty) (mtmp : String)
    (n : Nat) (sc : Scrut) (arms : List (ArmIn Expr)) (e : Expr) (n' : Nat) (Γ : List String) (sty : Ty)
    (hc : compileMatch S fuel ty mtmp n sc arms = some (.ok (e, n')))
    (hyp : presHypMatch S Γ sty mtmp sc arms = true) : closedE Γ e = true :=
  Goml.Match.compileMatch_closed S hgen fuel ty mtmp n sc arms e n' Γ sty hc hyp

/-- entry point `let pat = e; rest` -/
theorem compileLet_closed (S : Match.Sig) (hgen : S.gen = realGen) (fuel : Nat) (ty : Ty) (mtmp : String)
    (n : Nat) (e : Expr) (pat : Pat) (rest : Expr) (restTy : Ty) (out : Expr) (n' : Nat) (Γ : List String)
    (hc : compileLet S fuel ty mtmp n e pat rest restTy = some (.ok (out, n')))
    (hyp : presHypLet S Γ mtmp e pat rest restTy = true) : closedE Γ out = true :=
  Goml.Match.compileLet_closed S hgen fuel ty mtmp n e pat rest restTy out n' Γ hc hyp

/-- the statement of scope closedness used for ANF (`Scoped.unbound … = []`, also the driver's oracle on
every real dump) and the one used for the match compiler (`Match.closedE`) are the same notion -/
theorem scoped_iff_closedE (B : List String) (e : Expr) : unbound B e = [] ↔ closedE B e = true :=
  unbound_nil_iff_closedE B e

end MatchC

end Goml.C03pres
