import GomlVerif.Model.ParserFuel
import GomlVerif.Lemmas.GrammarStep
import GomlVerif.Lemmas.GrammarTermCheck
import GomlVerif.Gen.MatchDispatch
/-!
# C04 — the logic that is supposed to keep the parser from hanging

"Never panics / never overflows the stack" are facts about the Rust runtime and are *searched*
(`harness/src/c04.rs`). What is proved here is the termination argument of the parser: the fuel
counter turns every stuck position into `eof` answers, every loop whose body makes progress in
the sense below runs a bounded number of times, `if … else if … else { advance_with_error }`
chains make progress whatever their branches do, and hence the top-level loop of `file()`
consumes every token. Graph/artifact termination is C16/C15 (`Props/C15.lean`: `validate_iff`,
`corrupt_core_rejected`, …) and is not repeated here.
-/
namespace Goml.ParserFuel

/-- cursor inside the input, fuel never above the constant -/
def Wf (s : St) : Prop := s.cursor ≤ s.toks.length ∧ s.fuel ≤ FUEL

/-- lexicographic measure: tokens left, then fuel left -/
def measure (s : St) : Nat := (s.toks.length - s.cursor) * (FUEL + 1) + s.fuel

/-- what every parser function built from the primitives satisfies: it never moves the cursor
back, never touches the token list, and gains fuel only by advancing -/
def StepOK (f : St → St) : Prop :=
  ∀ s, Wf s → Wf (f s) ∧ (f s).toks = s.toks ∧ s.cursor ≤ (f s).cursor ∧
    ((f s).cursor = s.cursor → s.cursor < s.toks.length → (f s).fuel ≤ s.fuel)

/-- a loop body makes progress: on a non-final position it advances, or it at least spends fuel
(which is only possible while fuel is left — with the fuel gone a body must advance) -/
def Progress (body : St → St) : Prop :=
  ∀ s, Wf s → s.cursor < s.toks.length →
    Wf (body s) ∧ (body s).toks = s.toks ∧
      (s.cursor < (body s).cursor ∨ ((body s).cursor = s.cursor ∧ (body s).fuel < s.fuel))

/-! ## primitives -/

theorem look_toks (s : St) (n : Nat) : (look s n).2.toks = s.toks := by
  unfold look; split
  · split <;> rfl
  · rfl

theorem look_cursor (s : St) (n : Nat) : (look s n).2.cursor = s.cursor := by
  unfold look; split
  · split <;> rfl
  · rfl

theorem look_fuel (s : St) (n : Nat) : (look s n).2.fuel = s.fuel - 1 := by
  unfold look; split
  · rename_i h; split <;> simp [h]
  · rfl

theorem look_zero (s : St) (n : Nat) (h : s.fuel = 0) : (look s n).1 = EOF := by
  simp [look, h]

theorem look_pos (s : St) (n : Nat) (h : s.fuel ≠ 0) : (look s n).1 = kindAt s n := by
  simp [look, h]

theorem look_wf (s : St) (n : Nat) (h : Wf s) : Wf (look s n).2 := by
  refine ⟨?_, ?_⟩
  · rw [look_cursor, look_toks]; exact h.1
  · rw [look_fuel]; have := h.2; omega

theorem look_stepOK (n : Nat) : StepOK (fun s => (look s n).2) := by
  intro s h
  refine ⟨look_wf s n h, look_toks s n, by rw [look_cursor]; exact Nat.le_refl _, ?_⟩
  intro _ _; rw [look_fuel]; omega

theorem advance_toks (s : St) : (advance s).toks = s.toks := rfl
theorem advance_fuel (s : St) : (advance s).fuel = FUEL := rfl

theorem advance_cursor_lt (s : St) (h : s.cursor < s.toks.length) : (advance s).cursor = s.cursor + 1 := by
  simp [advance, h]

theorem advance_cursor_ge (s : St) : s.cursor ≤ (advance s).cursor := by
  simp only [advance]; split <;> omega

theorem advance_wf (s : St) (h : Wf s) : Wf (advance s) := by
  refine ⟨?_, Nat.le_refl _⟩
  simp only [advance]; split
  · omega
  · exact h.1

/-- `advance` refuels, but on a non-final position it also moves -/
theorem advance_stepOK : StepOK advance := by
  intro s h
  refine ⟨advance_wf s h, rfl, advance_cursor_ge s, ?_⟩
  intro hc hl
  rw [advance_cursor_lt s hl] at hc; omega

theorem StepOK.comp {f g : St → St} (hf : StepOK f) (hg : StepOK g) : StepOK (fun s => g (f s)) := by
  intro s h
  obtain ⟨w1, t1, c1, f1⟩ := hf s h
  obtain ⟨w2, t2, c2, f2⟩ := hg (f s) w1
  refine ⟨w2, by rw [t2, t1], Nat.le_trans c1 c2, ?_⟩
  intro hc hl
  show (g (f s)).fuel ≤ s.fuel
  have hc : (g (f s)).cursor = s.cursor := hc
  have e1 : (f s).cursor = s.cursor := by omega
  have := f1 e1 hl
  have := f2 (by omega) (by rw [t1, e1]; exact hl)
  omega

theorem StepOK.id : StepOK (fun s => s) := by
  intro s h; exact ⟨h, rfl, Nat.le_refl _, fun _ _ => Nat.le_refl _⟩

theorem errorsBump_stepOK : StepOK (fun s => { s with errors := s.errors + 1 }) := by
  intro s h; exact ⟨h, rfl, Nat.le_refl _, fun _ _ => Nat.le_refl _⟩

theorem advanceWithError_stepOK : StepOK advanceWithError :=
  StepOK.comp errorsBump_stepOK advance_stepOK

theorem peek_stepOK : StepOK (fun s => (peek s).2) := look_stepOK 0
theorem nth_stepOK (n : Nat) : StepOK (fun s => (nth s n).2) := look_stepOK n

theorem at_snd (s : St) (k : Kind) : (atK s k).2 = (peek s).2 := rfl
theorem at_fst (s : St) (k : Kind) : (atK s k).1 = ((peek s).1 == k) := rfl

theorem at_stepOK (k : Kind) : StepOK (fun s => (atK s k).2) := peek_stepOK

theorem peek_ok (s : St) (h : Wf s) :
    Wf (peek s).2 ∧ (peek s).2.toks = s.toks ∧ (peek s).2.cursor = s.cursor ∧ (peek s).2.fuel = s.fuel - 1 :=
  ⟨look_wf s 0 h, look_toks s 0, look_cursor s 0, look_fuel s 0⟩

theorem at_ok (s : St) (k : Kind) (h : Wf s) :
    Wf (atK s k).2 ∧ (atK s k).2.toks = s.toks ∧ (atK s k).2.cursor = s.cursor ∧ (atK s k).2.fuel = s.fuel - 1 :=
  peek_ok s h

theorem eat_stepOK (k : Kind) : StepOK (fun s => (eat s k).2) := by
  intro s h
  simp only [eat]
  cases hb : (atK s k).1 with
  | true => simpa [hb] using (StepOK.comp (at_stepOK k) advance_stepOK) s h
  | false => simpa [hb] using (at_stepOK k) s h

theorem expect_stepOK (k : Kind) : StepOK (fun s => expect s k) := by
  intro s h
  simp only [expect]
  cases hb : (eat s k).1 with
  | true => simpa [hb] using (eat_stepOK k) s h
  | false =>
    simp only [hb, Bool.false_eq_true, if_false]
    by_cases hc : ((peek (eat s k).2).1 == EOF || !shouldConsume (peek (eat s k).2).1) = true
    · simp only [hc, if_true]
      exact (StepOK.comp (StepOK.comp (eat_stepOK k) peek_stepOK) errorsBump_stepOK) s h
    · simp only [hc, Bool.false_eq_true, if_false]
      exact (StepOK.comp (StepOK.comp (eat_stepOK k) peek_stepOK) advanceWithError_stepOK) s h

/-! ## the fuel turns a stuck position into `eof` -/

/-- any sequence of `peek`/`nth n` calls (no `advance` in between) -/
def looks : List Nat → St → St
  | [], s => s
  | n :: ns, s => looks ns (look s n).2

theorem looks_fuel (ns : List Nat) (s : St) : (looks ns s).fuel = s.fuel - ns.length := by
  induction ns generalizing s with
  | nil => simp [looks]
  | cons n ns ih => simp only [looks, ih, look_fuel, List.length_cons]; omega

/-- **peek_stuck_eof**: after `fuel` peeks without an `advance` every further `peek`/`nth`
answers `eof`, whatever the input -/
theorem peek_stuck_eof (s : St) (ns : List Nat) (h : s.fuel ≤ ns.length) (n : Nat) :
    (look (looks ns s) n).1 = EOF := by
  apply look_zero
  rw [looks_fuel]; omega

/-- … and the stuck position is reported exactly once until the next `advance` -/
theorem stuck_reported_once (s : St) (ns : List Nat) :
    (looks ns s).stuckDiags ≤ s.stuckDiags + 1 ∧
      (s.stuckReported = true → (looks ns s).stuckDiags = s.stuckDiags) := by
  induction ns generalizing s with
  | nil => simp [looks]
  | cons n ns ih =>
    simp only [looks]
    by_cases hf : s.fuel = 0
    · by_cases hr : s.stuckReported = true
      · have e : (look s n).2 = s := by simp [look, hf, hr]
        rw [e]; exact ih s
      · have hr' : s.stuckReported = false := by simpa using hr
        have e : (look s n).2 = { s with stuckReported := true, stuckDiags := s.stuckDiags + 1 } := by
          simp [look, hf, hr']
        rw [e]
        have := (ih { s with stuckReported := true, stuckDiags := s.stuckDiags + 1 }).2 rfl
        simp only at this
        exact ⟨by omega, by intro h; simp [hr'] at h⟩
    · have e : (look s n).2 = { s with fuel := s.fuel - 1 } := by simp [look, hf]
      rw [e]
      exact ih { s with fuel := s.fuel - 1 }

/-- non-vacuity: on `fn fn` with fuel 2 left, the third peek reports and says `eof` although a
token is there -/
example :
    let s : St := { init ["fn", "fn"] with fuel := 2 }
    (look (looks [0, 0] s) 0).1 = EOF ∧ (look s 0).1 = "fn" ∧
      (look (looks [0, 0] s) 0).2.stuckDiags = 1 ∧ (looks [0, 0, 0, 0, 0] s).stuckDiags = 1 := by
  decide

/-! ## `expect` never eats a synchronisation token -/

/-- **expect_keeps_recovery_token**: if the current token is one of the recovery tokens
(`Gen.recoveryTokens`, regenerated from `should_consume_on_expect_failure`) and is not the
expected one, `expect` leaves the cursor where it is (the enclosing loop sees the token) -/
theorem expect_keeps_recovery_token (s : St) (k : Kind) (h2 : 2 ≤ s.fuel)
    (hne : (kindAt s 0 == k) = false) (hrec : Gen.recoveryTokens.contains (kindAt s 0) = true) :
    (expect s k).cursor = s.cursor := by
  have hf : s.fuel ≠ 0 := by omega
  have e1 : (peek s).1 = kindAt s 0 := look_pos s 0 hf
  have hat : (atK s k).1 = false := by rw [at_fst, e1]; exact hne
  have heat : eat s k = (false, (peek s).2) := by simp [eat, hat, at_snd]
  have hf2 : (look s 0).2.fuel ≠ 0 := by rw [look_fuel]; omega
  have e2 : (peek (peek s).2).1 = kindAt s 0 := by
    show (look (look s 0).2 0).1 = kindAt s 0
    rw [look_pos _ 0 hf2]
    simp [kindAt, look_toks, look_cursor]
  simp only [expect, heat, Bool.false_eq_true, if_false, e2, shouldConsume, hrec, Bool.not_true,
    Bool.not_false, Bool.or_true, if_true]
  show (look (look s 0).2 0).2.cursor = s.cursor
  rw [look_cursor, look_cursor]

example : (expect (init ["}", "fn"]) ")").cursor = 0 ∧ (expect (init ["x", "fn"]) ")").cursor = 1 ∧
    (expect (init [")", "fn"]) ")").cursor = 1 := by decide

/-! ## loops -/

theorem measure_lt_of_progress {body : St → St} (hp : Progress body) (s : St) (h : Wf s)
    (hl : s.cursor < s.toks.length) : measure (body s) < measure s := by
  obtain ⟨w, t, pr⟩ := hp s h hl
  simp only [measure, t]
  have hw := w.2
  rcases pr with hc | ⟨hc, hf⟩
  · have hb : (body s).cursor ≤ s.toks.length := by have := w.1; rw [t] at this; exact this
    have : (s.toks.length - (body s).cursor) + 1 ≤ s.toks.length - s.cursor := by omega
    have := Nat.mul_le_mul_right (FUEL + 1) this
    rw [Nat.add_mul] at this
    omega
  · rw [hc]; omega

theorem measure_le_of_step {f : St → St} (hs : StepOK f) (s : St) (h : Wf s)
    (hl : s.cursor < s.toks.length) : measure (f s) ≤ measure s := by
  obtain ⟨w, t, c, fu⟩ := hs s h
  simp only [measure, t]
  by_cases hc : (f s).cursor = s.cursor
  · rw [hc]; have := fu hc hl; omega
  · have hb : (f s).cursor ≤ s.toks.length := by have := w.1; rw [t] at this; exact this
    have : (s.toks.length - (f s).cursor) + 1 ≤ s.toks.length - s.cursor := by omega
    have := Nat.mul_le_mul_right (FUEL + 1) this
    rw [Nat.add_mul] at this
    have := w.2
    omega

/-- **loop_terminates**: a loop `while !p.at(k) && !p.eof() { body }` (or `while !p.eof()`) whose
body makes progress leaves within `measure s` iterations — at most `(fuel+1)·(n+1)` on `n`
tokens — at the end of input or in front of the stop token, with a well-formed state -/
theorem loop_terminates (stop : Option Kind) (body : St → St) (hp : Progress body) :
    ∀ (m : Nat) (s : St), Wf s → measure s ≤ m →
      ∃ r c, runLoop stop body m s = some (r, c) ∧ c ≤ m ∧ Wf r ∧ r.toks = s.toks := by
  intro m
  induction m with
  | zero =>
    intro s h hm
    -- measure 0: no tokens left
    have hcur : s.toks.length - s.cursor = 0 := by
      simp only [measure] at hm
      have : (s.toks.length - s.cursor) * (FUEL + 1) = 0 := by omega
      rcases Nat.mul_eq_zero.1 this with h0 | h0
      · exact h0
      · omega
    have heof : isEof s = true := by simp [isEof]; omega
    cases stop with
    | none => exact ⟨s, 0, by simp [runLoop, heof], Nat.le_refl _, h, rfl⟩
    | some k =>
      have w1 := at_ok s k h
      have heof1 : isEof (atK s k).2 = true := by
        simp only [isEof, decide_eq_true_eq]
        rw [w1.2.1, w1.2.2.1]; omega
      refine ⟨(atK s k).2, 0, ?_, Nat.le_refl _, w1.1, w1.2.1⟩
      simp [runLoop, heof1]
  | succ m ih =>
    intro s h hm
    cases stop with
    | none =>
      by_cases heof : isEof s = true
      · exact ⟨s, 0, by simp [runLoop, heof], Nat.zero_le _, h, rfl⟩
      · have hl : s.cursor < s.toks.length := by simpa [isEof] using heof
        obtain ⟨w, t, _⟩ := hp s h hl
        have hlt := measure_lt_of_progress hp s h hl
        obtain ⟨r, c, hr, hc, wr, tr⟩ := ih (body s) w (by omega)
        refine ⟨r, c + 1, ?_, by omega, wr, by rw [tr, t]⟩
        simp [runLoop, heof, hr]
    | some k =>
      have w1 := at_ok s k h
      by_cases hexit : ((atK s k).1 || isEof (atK s k).2) = true
      · exact ⟨(atK s k).2, 0, by simp [runLoop, hexit], Nat.zero_le _, w1.1, w1.2.1⟩
      · have hne : isEof (atK s k).2 = false := by
          cases h1 : isEof (atK s k).2 <;> simp_all
        have hl1 : (atK s k).2.cursor < (atK s k).2.toks.length := by simpa [isEof] using hne
        have hl : s.cursor < s.toks.length := by
          rw [w1.2.1, w1.2.2.1] at hl1; exact hl1
        have hle := measure_le_of_step (at_stepOK k) s h hl
        obtain ⟨w, t, _⟩ := hp (atK s k).2 w1.1 hl1
        have hlt := measure_lt_of_progress hp (atK s k).2 w1.1 hl1
        obtain ⟨r, c, hr, hc, wr, tr⟩ := ih (body (atK s k).2) w (by omega)
        refine ⟨r, c + 1, ?_, by omega, wr, by rw [tr, t, w1.2.1]⟩
        simp [runLoop, hexit, hr]

/-- the bound in the form of the property text -/
theorem measure_init (toks : List Kind) : measure (init toks) + 1 = (FUEL + 1) * (toks.length + 1) := by
  simp only [measure, init, Nat.sub_zero]
  rw [Nat.mul_comm (FUEL + 1), Nat.add_mul]
  omega

theorem init_wf (toks : List Kind) : Wf (init toks) := ⟨Nat.zero_le _, Nat.le_refl _⟩

/-- a loop that leaves at all leaves at the real end of input or in front of its stop token -/
theorem runLoop_exit (stop : Option Kind) (body : St → St) (m : Nat) (s r : St) (c : Nat)
    (h : runLoop stop body m s = some (r, c)) :
    isEof r = true ∨ ∃ k s', stop = some k ∧ r = (atK s' k).2 ∧ (atK s' k).1 = true := by
  induction m generalizing s c with
  | zero =>
    cases stop with
    | none =>
      simp only [runLoop] at h
      split at h
      · rename_i he; simp only [Option.some.injEq, Prod.mk.injEq] at h; rw [← h.1]; exact Or.inl he
      · cases h
    | some k =>
      simp only [runLoop] at h
      split at h
      · rename_i he
        simp only [Option.some.injEq, Prod.mk.injEq] at h
        rw [← h.1]
        cases h1 : (atK s k).1 with
        | true => exact Or.inr ⟨k, s, rfl, rfl, h1⟩
        | false => simp [h1] at he; exact Or.inl he
      · cases h
  | succ m ih =>
    cases stop with
    | none =>
      simp only [runLoop] at h
      split at h
      · rename_i he; simp only [Option.some.injEq, Prod.mk.injEq] at h; rw [← h.1]; exact Or.inl he
      · cases hr : runLoop none body m (body s) with
        | none => simp [hr] at h
        | some rc =>
          obtain ⟨r', c'⟩ := rc
          simp only [hr, Option.map_some, Option.some.injEq, Prod.mk.injEq] at h
          obtain ⟨h1, _⟩ := h
          subst h1
          exact ih (body s) c' hr
    | some k =>
      simp only [runLoop] at h
      split at h
      · rename_i he
        simp only [Option.some.injEq, Prod.mk.injEq] at h
        rw [← h.1]
        cases h1 : (atK s k).1 with
        | true => exact Or.inr ⟨k, s, rfl, rfl, h1⟩
        | false => simp [h1] at he; exact Or.inl he
      · cases hr : runLoop (some k) body m (body (atK s k).2) with
        | none => simp [hr] at h
        | some rc =>
          obtain ⟨r', c'⟩ := rc
          simp only [hr, Option.map_some, Option.some.injEq, Prod.mk.injEq] at h
          obtain ⟨h1, _⟩ := h
          subst h1
          exact ih (body (atK s k).2) c' hr

/-! ## dispatch chains and the top-level loop -/

/-- **dispatch_progress**: an `if p.at(..) … else if … else { advance_with_error }` chain makes
progress whatever its branches are, as long as they are parser functions (`StepOK`) and no
guard accepts `eof`: with fuel left the first guard spends some; without fuel every guard sees
`eof`, fails, and the final `else` advances -/
theorem dispatch_progress (bs : List ((Kind → Bool) × (St → St)))
    (hbs : ∀ b ∈ bs, StepOK b.2 ∧ b.1 EOF = false) : Progress (dispatch bs) := by
  induction bs with
  | nil =>
    intro s h hl
    have w := advanceWithError_stepOK s h
    refine ⟨w.1, w.2.1, Or.inl ?_⟩
    show s.cursor < (advance { s with errors := s.errors + 1 }).cursor
    rw [advance_cursor_lt _ (by exact hl)]; exact Nat.lt_succ_self _
  | cons b rest ih =>
    obtain ⟨g, f⟩ := b
    have hrest : ∀ b ∈ rest, StepOK b.2 ∧ b.1 EOF = false := fun b hb => hbs b (List.mem_cons_of_mem _ hb)
    have hb := hbs (g, f) (List.mem_cons_self)
    have hg0 : g EOF = false := hb.2
    have hfok : StepOK f := hb.1
    intro s h hl
    have w1 := peek_ok s h
    have c1 : (peek s).2.cursor = s.cursor := look_cursor s 0
    have t1 : (peek s).2.toks = s.toks := look_toks s 0
    have f1 : (peek s).2.fuel = s.fuel - 1 := look_fuel s 0
    have hl1 : (peek s).2.cursor < (peek s).2.toks.length := by rw [c1, t1]; exact hl
    simp only [dispatch]
    by_cases hf : s.fuel = 0
    · -- stuck: the guard sees eof and fails
      have e : (peek s).1 = EOF := look_zero s 0 hf
      simp only [e, hg0, Bool.false_eq_true, if_false]
      obtain ⟨w, t, pr⟩ := ih hrest (peek s).2 w1.1 hl1
      refine ⟨w, by rw [t, t1], ?_⟩
      rcases pr with hc | ⟨_, hlt⟩
      · exact Or.inl (by omega)
      · omega
    · by_cases hg : g (peek s).1 = true
      · simp only [hg, if_true]
        obtain ⟨w, t, c, fu⟩ := hfok (peek s).2 w1.1
        refine ⟨w, by rw [t, t1], ?_⟩
        by_cases hc : (f (peek s).2).cursor = (peek s).2.cursor
        · have := fu hc hl1
          exact Or.inr ⟨by omega, by omega⟩
        · exact Or.inl (by omega)
      · simp only [hg, Bool.false_eq_true, if_false]
        obtain ⟨w, t, pr⟩ := ih hrest (peek s).2 w1.1 hl1
        refine ⟨w, by rw [t, t1], ?_⟩
        rcases pr with hc | ⟨hc, hlt⟩
        · exact Or.inl (by omega)
        · exact Or.inr ⟨by omega, by omega⟩

/-- **file_consumes_all**: the top-level loop of `file()` — `while !p.eof() { if p.at(#) …
else if p.at_any(EXPR_FIRST) … else { advance_with_error } }` — terminates after at most
`(fuel+1)·(n+1)` iterations and has then consumed every token, for *any* item parsers -/
theorem file_consumes_all (bs : List ((Kind → Bool) × (St → St)))
    (hbs : ∀ b ∈ bs, StepOK b.2 ∧ b.1 EOF = false) (toks : List Kind) :
    ∃ r c, runLoop none (dispatch bs) (measure (init toks)) (init toks) = some (r, c) ∧
      c < (FUEL + 1) * (toks.length + 1) ∧ r.cursor = toks.length := by
  obtain ⟨r, c, hr, hc, wr, tr⟩ :=
    loop_terminates none (dispatch bs) (dispatch_progress bs hbs) (measure (init toks)) (init toks)
      (init_wf toks) (Nat.le_refl _)
  refine ⟨r, c, hr, by have := measure_init toks; omega, ?_⟩
  rcases runLoop_exit none (dispatch bs) _ _ r c hr with he | ⟨k, _, hk, _⟩
  · have h1 : r.toks.length ≤ r.cursor := by simpa [isEof] using he
    have h2 := wr.1
    have h3 : r.toks = toks := by rw [tr]; rfl
    rw [h3] at h1 h2; omega
  · cases hk

/-- the guards of `file()` never accept `eof`: the keyword guards are `at(T![kw])` with `kw ≠ eof`,
and `EXPR_FIRST` (regenerated from expr.rs) does not contain it -/
theorem exprFirst_rejects_eof : Gen.exprFirst.contains EOF = false := by decide

/-- non-vacuity: a three-branch dispatch on `fn x }`: one branch consumes `fn x`, nothing handles
`}`, the default eats it; the loop ends at cursor 3 after 2 iterations -/
example :
    let item : St → St := fun s => advance (advance s)
    let bs : List ((Kind → Bool) × (St → St)) :=
      [((· == "struct"), advance), ((· == "fn"), item), (fun k => Gen.exprFirst.contains k, fun s => s)]
    (runLoop none (dispatch bs) 10 (init ["fn", "x", "}"])).map (fun (r, c) => (r.cursor, c, r.errors))
      = some (3, 2, 1) := by decide

/-- what goes wrong without the advancing default: a body that only looks never leaves a
non-final position once the fuel is gone (this is the shape `Progress` rules out) -/
example :
    let body : St → St := fun s => (peek s).2
    ∀ n, runLoop (some "}") body n { init ["x"] with fuel := 0 } = none := by
  intro body n
  induction n with
  | zero => decide
  | succ n ih =>
    have e : body (atK { init ["x"] with fuel := 0 } "}").2 = { init ["x"] with fuel := 0, stuckReported := true, stuckDiags := 1 } := by decide
    have e2 : ∀ m, runLoop (some "}") body m { init ["x"] with fuel := 0, stuckReported := true, stuckDiags := 1 } = none := by
      intro m
      induction m with
      | zero => decide
      | succ m ihm =>
        have e3 : body (atK { init ["x"] with fuel := 0, stuckReported := true, stuckDiags := 1 } "}").2
            = { init ["x"] with fuel := 0, stuckReported := true, stuckDiags := 1 } := by decide
        simp only [runLoop]
        have hx : ((atK { init ["x"] with fuel := 0, stuckReported := true, stuckDiags := 1 } "}").1 ||
            isEof (atK { init ["x"] with fuel := 0, stuckReported := true, stuckDiags := 1 } "}").2) = false := by decide
        simp only [hx, Bool.false_eq_true, if_false, e3, ihm, Option.map_none]
    simp only [runLoop]
    have hx : ((atK { init ["x"] with fuel := 0 } "}").1 || isEof (atK { init ["x"] with fuel := 0 } "}").2) = false := by decide
    simp only [hx, Bool.false_eq_true, if_false, e, e2 n, Option.map_none]

/-! ## diagnostics point at a token -/

/-- **error_range_is_token_range**: the range `build_tree` attaches to an `Event::Error` is the
range of one of the tokens (the one at the cursor, else the last one), so with a tiling token
sequence (C12 `lex_tiles`) it lies inside the text -/
theorem error_range_is_token_range (ranges : List (Nat × Nat)) (cursor : Nat) (r : Nat × Nat)
    (h : errorRange ranges cursor = some r) : r ∈ ranges := by
  unfold errorRange at h
  split at h
  · rename_i r' hr; simp only [Option.some.injEq] at h; subst h; exact List.mem_of_getElem? hr
  · exact List.mem_of_getLast? h

theorem error_range_none_iff_no_tokens (ranges : List (Nat × Nat)) (cursor : Nat) :
    errorRange ranges cursor = none ↔ ranges = [] := by
  unfold errorRange
  constructor
  · intro h
    split at h
    · cases h
    · exact List.getLast?_eq_none_iff.1 h
  · intro h; subst h; simp

/-! ## out of fuel: looks never move the real end of input, and every cursor step is an `Advance`

Used by `Props/C12.lean` (`file_advances_cover_tokens`, `fuel_aware_eof_drops_tokens`). -/

theorem looks_toks (ns : List Nat) (s : St) : (looks ns s).toks = s.toks := by
  induction ns generalizing s with
  | nil => rfl
  | cons n ns ih => simp only [looks, ih, look_toks]

theorem looks_cursor (ns : List Nat) (s : St) : (looks ns s).cursor = s.cursor := by
  induction ns generalizing s with
  | nil => rfl
  | cons n ns ih => simp only [looks, ih, look_cursor]

/-- a scan that only looks (`impl_has_trait`: `nth(0)`, `nth(1)`, … with no `advance`) is a parser
function in the sense of `StepOK`, however long it is -/
theorem looks_stepOK (ns : List Nat) : StepOK (looks ns) := by
  induction ns with
  | nil => exact StepOK.id
  | cons n ns ih =>
    have h : StepOK (fun s => looks ns ((fun s => (look s n).2) s)) := StepOK.comp (look_stepOK n) ih
    exact h

/-- **eof_unmoved_by_looks**: `Parser::eof()` (= `Input::eof`) gives the same answer after any number
of `peek`/`nth` calls — in particular after a lookahead that has used up the fuel -/
theorem eof_unmoved_by_looks (ns : List Nat) (s : St) : isEof (looks ns s) = isEof s := by
  simp only [isEof, looks_toks, looks_cursor]

/-- out of fuel the fuel-aware reading says "end of input" wherever the cursor is … -/
theorem eofViaPeek_out_of_fuel (s : St) (h : s.fuel = 0) : (eofViaPeek s).1 = true := by
  simp only [eofViaPeek, at_fst, peek, look_zero s 0 h, beq_self_eq_true]

/-- … while with fuel left the two readings agree (the lexer never produces an `eof` token) -/
theorem eofViaPeek_with_fuel (s : St) (h : s.fuel ≠ 0) (hk : EOF ∉ s.toks) :
    (eofViaPeek s).1 = isEof s := by
  simp only [eofViaPeek, at_fst, peek, look_pos s 0 h, kindAt, isEof, Nat.add_zero]
  by_cases hc : s.cursor < s.toks.length
  · have e : s.toks.getD s.cursor EOF = s.toks[s.cursor] := by
      simp [List.getD, List.getElem?_eq_getElem hc]
    have hm : s.toks[s.cursor] ∈ s.toks := List.getElem_mem hc
    have hne : s.toks[s.cursor] ≠ EOF := fun h' => hk (h' ▸ hm)
    rw [e]
    have : decide (s.toks.length ≤ s.cursor) = false := by simp; omega
    rw [this]
    exact beq_false_of_ne hne
  · have hl : s.toks.length ≤ s.cursor := by omega
    have e : s.toks.getD s.cursor EOF = EOF := by
      simp [List.getD, List.getElem?_eq_none hl]
    rw [e]; simp [hl]

/-- the cursor never runs ahead of the `Advance` events: every token the cursor has passed has an
`Advance` event, which is what `build_tree` needs to put it into the tree -/
def CursorCovered (s : St) : Prop := s.cursor ≤ s.advances

/-- a parser function under which `CursorCovered` is invariant -/
def KeepsCovered (f : St → St) : Prop := ∀ s, CursorCovered s → CursorCovered (f s)

theorem init_covered (toks : List Kind) : CursorCovered (init toks) := Nat.le_refl 0

theorem look_keepsCovered (n : Nat) : KeepsCovered (fun s => (look s n).2) := by
  intro s h
  have c := look_cursor s n
  have a : (look s n).2.advances = s.advances := by
    unfold look; split
    · split <;> rfl
    · rfl
  show (look s n).2.cursor ≤ (look s n).2.advances
  unfold CursorCovered at h
  omega

theorem looks_keepsCovered (ns : List Nat) : KeepsCovered (looks ns) := by
  induction ns with
  | nil => intro s h; exact h
  | cons n ns ih => intro s h; exact ih _ (look_keepsCovered n s h)

theorem advance_keepsCovered : KeepsCovered advance := by
  intro s h
  unfold CursorCovered at *
  simp only [advance]
  split <;> omega

theorem advanceWithError_keepsCovered : KeepsCovered advanceWithError := by
  intro s h
  exact advance_keepsCovered { s with errors := s.errors + 1 } h

theorem KeepsCovered.comp {f g : St → St} (hf : KeepsCovered f) (hg : KeepsCovered g) :
    KeepsCovered (fun s => g (f s)) := fun s h => hg _ (hf s h)

theorem eat_keepsCovered (k : Kind) : KeepsCovered (fun s => (eat s k).2) := by
  intro s h
  have hp : CursorCovered (atK s k).2 := look_keepsCovered 0 s h
  simp only [eat]
  cases hb : (atK s k).1 with
  | true => simpa [hb] using advance_keepsCovered _ hp
  | false => simpa [hb] using hp

theorem expect_keepsCovered (k : Kind) : KeepsCovered (fun s => expect s k) := by
  intro s h
  have h1 : CursorCovered (eat s k).2 := eat_keepsCovered k s h
  have h2 : CursorCovered (peek (eat s k).2).2 := look_keepsCovered 0 _ h1
  simp only [expect]
  cases hb : (eat s k).1 with
  | true => simpa [hb] using h1
  | false =>
    simp only [hb, Bool.false_eq_true, if_false]
    by_cases hc : ((peek (eat s k).2).1 == EOF || !shouldConsume (peek (eat s k).2).1) = true
    · simp only [hc, if_true]
      exact h2
    · simp only [hc, Bool.false_eq_true, if_false]
      exact advanceWithError_keepsCovered _ h2

theorem dispatch_keepsCovered (bs : List ((Kind → Bool) × (St → St)))
    (hbs : ∀ b ∈ bs, KeepsCovered b.2) : KeepsCovered (dispatch bs) := by
  induction bs with
  | nil => exact advanceWithError_keepsCovered
  | cons b rest ih =>
    obtain ⟨g, f⟩ := b
    intro s h
    have hp : CursorCovered (peek s).2 := look_keepsCovered 0 s h
    simp only [dispatch]
    by_cases hg : g (peek s).1 = true
    · simp only [hg, if_true]
      exact hbs (g, f) List.mem_cons_self _ hp
    · simp only [hg, Bool.false_eq_true, if_false]
      exact ih (fun b hb => hbs b (List.mem_cons_of_mem _ hb)) _ hp

theorem runLoop_keepsCovered (stop : Option Kind) (body : St → St) (hb : KeepsCovered body) :
    ∀ (m : Nat) (s r : St) (c : Nat), CursorCovered s → runLoop stop body m s = some (r, c) →
      CursorCovered r := by
  intro m
  induction m with
  | zero =>
    intro s r c hs h
    cases stop with
    | none =>
      simp only [runLoop] at h
      split at h
      · simp only [Option.some.injEq, Prod.mk.injEq] at h; rw [← h.1]; exact hs
      · cases h
    | some k =>
      simp only [runLoop] at h
      split at h
      · simp only [Option.some.injEq, Prod.mk.injEq] at h; rw [← h.1]; exact look_keepsCovered 0 s hs
      · cases h
  | succ m ih =>
    intro s r c hs h
    cases stop with
    | none =>
      simp only [runLoop] at h
      split at h
      · simp only [Option.some.injEq, Prod.mk.injEq] at h; rw [← h.1]; exact hs
      · cases hr : runLoop none body m (body s) with
        | none => rw [hr] at h; cases h
        | some rc =>
          obtain ⟨r', c'⟩ := rc
          rw [hr] at h
          simp only [Option.map_some, Option.some.injEq, Prod.mk.injEq] at h
          rw [← h.1]
          exact ih (body s) r' c' (hb s hs) hr
    | some k =>
      simp only [runLoop] at h
      split at h
      · simp only [Option.some.injEq, Prod.mk.injEq] at h; rw [← h.1]; exact look_keepsCovered 0 s hs
      · cases hr : runLoop (some k) body m (body (atK s k).2) with
        | none => rw [hr] at h; cases h
        | some rc =>
          obtain ⟨r', c'⟩ := rc
          rw [hr] at h
          simp only [Option.map_some, Option.some.injEq, Prod.mk.injEq] at h
          rw [← h.1]
          exact ih (body (atK s k).2) r' c' (hb _ (look_keepsCovered 0 s hs)) hr

end Goml.ParserFuel

/-! ## round 11: the grammar functions themselves (`Model/Grammar.lean`)

`Goml.Grammar.run n f s` executes the model of the Rust grammar function `f` (all of `file.rs`, `expr.rs`,
`pattern.rs`, `path.rs`, `stmt.rs`; the model's event list is compared event for event with `Parser.events` on
every run). The theorems below hold for EVERY grammar function, every token list, every fuel level and every
call budget `n`; they replace the `StepOK` closure argument, which assumed that item parsers are compositions
of primitives, by a statement about the item parsers as they are written. -/
namespace Goml.Grammar
open Goml.Gen.Gram

/-- **Every grammar function is a `StepOK` step**: it never touches the token list, never moves the
cursor back, and never moves it past the end of the input. -/
theorem grammar_stepOK (n : Nat) (f : Fn) (s : PS) :
    (run n f s).toks = s.toks ∧ s.pos ≤ (run n f s).pos ∧
      (s.pos ≤ s.toks.length → (run n f s).pos ≤ s.toks.length) :=
  ⟨(run_inv n f s).toks, (run_inv n f s).mono, (run_inv n f s).bound⟩

/-- **No token is skipped silently**: whatever a grammar function does, its output contains at least one
`Advance` event for every position the cursor moved (so a token the cursor passed is in the tree). -/
theorem grammar_advances_cover_cursor (n : Nat) (f : Fn) (s : PS) :
    advsL s.out + ((run n f s).pos - s.pos) ≤ advsL (run n f s).out :=
  (run_inv n f s).adv

/-- **Exactly one `Advance` per token, as long as the end of the input is not reached**: for every grammar function,
token list, fuel level and budget, if the cursor is still inside the input afterwards, the number of `Advance` events
produced equals the number of tokens the cursor moved over. The qualification is necessary and mirrors the Rust:
`advance()` at the real end (`Input::skip` is a no-op there) still pushes an `Advance`, which `build_tree` ignores
(`if let Some(token) = tokens.get(cursor)`); see the example below. -/
theorem grammar_advances_exact (n : Nat) (f : Fn) (s : PS) (h : (run n f s).isEof = false) :
    advsL (run n f s).out = advsL s.out + ((run n f s).pos - s.pos) :=
  (run_inv n f s).exact h

/-- `if 1 { }` (4 tokens): the missing `else` is reported by `advance_with_error` at the real end — 5 `Advance`s -/
example : advsL (parseItems [40, 77, 2, 3]).out = 5 ∧ (parseItems [40, 77, 2, 3]).pos = 4 := by decide +kernel

theorem body_fileItems : ∃ D, body .fileItems = .ifEof .skip (.seq D (.call .fileItems)) := ⟨_, rfl⟩
theorem body_file : ∃ A B, body .file = .node K_FILE (.seq A (.seq B (.call .fileItems))) := ⟨_, _, rfl⟩

/-- the item loop of `file()` can only be left at the real end of the input: if the call budget did not run
out, `file_items` returns with the cursor at the end -/
theorem fileItems_ends_at_eof : ∀ (n : Nat) (s : PS), (run n .fileItems s).oof = false → (run n .fileItems s).isEof = true := by
  intro n
  induction n with
  | zero => intro s h; simp [run] at h
  | succ n ih =>
    intro s h
    obtain ⟨D, hD⟩ := body_fileItems
    rw [run, hD] at h ⊢
    generalize ({ s with trace := s.trace ||| (1 <<< Fn.fileItems.id) } : PS) = s' at h ⊢
    simp only [execS] at h ⊢
    cases he : s'.isEof with
    | true => simp only [he, ↓reduceIte]
    | false =>
      simp only [he, Bool.false_eq_true, ↓reduceIte] at h ⊢
      cases ho : (execS (run n) D s').oof with
      | true => simp only [ho, ↓reduceIte] at h; cases h
      | false =>
        simp only [ho, Bool.false_eq_true, ↓reduceIte] at h ⊢
        exact ih _ h

/-- **`grammar_progress`: what every step does to the potential** `mu s = (len − pos)·257 + fuel` (0 at the end of the
input). A look outside a dead state (`fuel = 0` or at the end) lowers it; a dead look answers `eof` and stays dead; an
`advance` inside the input lowers it; no grammar function, for any token list, fuel level or budget, raises it. The literal
"every loop iteration consumes a token" is false at the fuel boundary (`while p.at(#) { attribute(p) }` entered with one
unit of fuel consumes nothing and leaves at the next test); "advances, spends fuel, or stops" is what holds, and
`all_checked` (decided per function on the abstract interpreter `abs`) is the statement that every loop and every call
cycle of the grammar is built that way. -/
theorem grammar_progress :
    (∀ (s : PS) (n : Nat), ¬ Dead s → mu (look s n).2 < mu s) ∧
    (∀ (s : PS) (n : Nat), Dead s → (look s n).1 = T_Eof ∧ Dead (look s n).2) ∧
    (∀ (s : PS), s.isEof = false → mu (doAdvance s) < mu s ∧ ∀ m, mu (doAdvErr s m) < mu s) ∧
    (∀ (n : Nat) (f : Fn) (s : PS), mu (run n f s) ≤ mu s) ∧
    allFns.all (checkFn theCfg) = true :=
  ⟨look_live, look_dead, fun s h => ⟨mu_bump_lt s h, fun _ => mu_bump_lt s h⟩, run_mu_le, all_checked⟩

/-- **`grammar_terminates`: the fuel-bounded model never runs out of its budget**, for every token list:
`budget len = 40·257·(len+1) + 41` bounds the depth of calls and loop iterations of `file` (linear in the number of
tokens, constant `40·257 = 10 280` per token), so no fuel beyond it is ever needed. More generally any reachable grammar
function started with `n ≥ ranks · mu s + rank f + 1` returns without running out (`run_terminates`). This replaces the
"searched, not proved" argument for `match_arm_list` (whose progress relies on `expect_expr_with_message` advancing at
fuel 0 — the summary of `matchArm` in `summTbl`), item lists, parameter lists, generics, struct/enum bodies, block
statements, argument lists and pattern lists. -/
theorem grammar_terminates (toks : List Nat) : (parseItems toks).oof = false := parseItems_no_oof toks

theorem grammar_terminates_from (n : Nat) (f : Fn) (s : PS) (hf : allFns.contains f = true) (ho : s.oof = false)
    (hn : ranks * mu s + rkTbl.getD f.id 0 + 1 ≤ n) : (run n f s).oof = false :=
  (run_terminates theCfg theCfg_checked n f s hf ho hn).1

/-- **`file()` consumes every token** (for every token list): the cursor ends at the end of the input and the
output holds at least one `Advance` per token. -/
theorem file_consumes_all_tokens (toks : List Nat) :
    (parseItems toks).pos = toks.length ∧ toks.length ≤ advsL (parseItems toks).out := by
  have h := grammar_terminates toks
  have hinv := run_inv (budget toks.length) .file (initPS toks)
  have hpos : (parseItems toks).isEof = true := by
    unfold parseItems at h ⊢
    generalize budget toks.length = n at h ⊢
    cases n with
    | zero => simp [run] at h
    | succ n =>
      obtain ⟨A, B, hA⟩ := body_file
      rw [run, hA] at h ⊢
      generalize ({ initPS toks with trace := (initPS toks).trace ||| (1 <<< Fn.file.id) } : PS) = s' at h ⊢
      simp only [execS] at h ⊢
      cases ho : (execS (run n) B (execS (run n) A { s' with out := [] })).oof with
      | true => simp only [ho, ↓reduceIte] at h; cases h
      | false =>
        simp only [ho, Bool.false_eq_true, ↓reduceIte] at h ⊢
        exact fileItems_ends_at_eof n _ h
  have ht := hinv.toks
  have hb := hinv.bound (by simp [initPS])
  have ha := hinv.adv
  simp only [initPS] at ht hb ha
  change (parseItems toks).toks = toks at ht
  change (parseItems toks).pos ≤ toks.length at hb
  simp only [PS.isEof, decide_eq_true_eq, ht] at hpos
  refine ⟨by omega, ?_⟩
  change advsL [] + ((parseItems toks).pos - 0) ≤ advsL (parseItems toks).out at ha
  simp only [advsL] at ha
  omega

end Goml.Grammar
/-! ## the match compiler's partial dispatch is only reached at types it has a case for

`compile_match.rs::compile_rows` dispatches on the type of the first column whose pattern is neither a
variable nor a wildcard; nine of the 24 variants of `tast::Ty` end in `panic!` / `unreachable!`
(`Gen/MatchDispatch.lean`, regenerated from `compile_rows`, with the shape of `move_variable_patterns` and
`branch_variable` asserted). Whether a *literal* pattern can carry such a type is decided in
`typer/check.rs`: each `check_pat_*` for a literal equates the scrutinee's type with a fixed set of types, on
every path and before anything is solved (the extractor asserts "on every path": the constraint is pushed
at brace depth 0 of the function). The theorems below are about these two regenerated tables; the typer's
solver (`TypeEqual` really forces equality: C03 `Lemmas/UnifyShape`, `Props/C03`) and the constructor /
tuple patterns (whose types come from the environment) are outside them and are *searched* by the stream
`pat-scrut` (`harness/src/patcat.rs`). -/
namespace Goml.MatchDispatch
open Goml.Gen.MatchDispatch

/-- does `compile_rows` compile a case for a branch variable of this type variant? -/
def hasCase (t : String) : Bool := (matchCase.lookup t).isSome

/-- does `compile_rows` panic for a branch variable of this type variant? -/
def panics (t : String) : Bool := (matchNoCase.lookup t).isSome

/-- **match_dispatch_partitions_ty**: every variant of `tast::Ty` is in exactly one of the two tables (so
"has no case" is the same as "panics"), and the tables name nothing else -/
theorem match_dispatch_partitions_ty :
    (∀ t ∈ tyVariants, hasCase t = !panics t) ∧
    (∀ p ∈ matchCase, p.1 ∈ tyVariants) ∧ (∀ p ∈ matchNoCase, p.1 ∈ tyVariants) := by decide

/-- **literal_pattern_type_has_match_case**: every type the typer can equate the scrutinee of a literal
pattern (unit, bool, string, unsuffixed or suffixed integer) with is a type `compile_rows` compiles a
case for — so a literal pattern column never reaches one of its `panic!` arms, provided the equation is
solved or reported (C03) -/
theorem literal_pattern_type_has_match_case :
    ∀ f ∈ literalPatternTys, ∀ t ∈ f.2, hasCase t = true := by decide

/-- **literal_pattern_types_are_ty_variants**: the typer's table names variants of `tast::Ty` only, and
every literal-pattern checker has at least one admissible type (the theorem above is not vacuous) -/
theorem literal_pattern_types_are_ty_variants :
    (∀ f ∈ literalPatternTys, f.2 ≠ [] ∧ ∀ t ∈ f.2, t ∈ tyVariants) ∧ literalPatternTys.length = 5 := by decide

/-- **float_pattern_would_panic**: the float types have no case and are disjoint from the integer types:
the typer's `is_integer_ty` (not `is_numeric_ty`) is what keeps an integer literal pattern away from the
`Matching on floating point types is not supported` arm -/
theorem float_pattern_would_panic :
    (∀ t ∈ floatTys, panics t = true) ∧ (∀ t ∈ floatTys, t ∉ integerTys) ∧ floatTys ≠ [] ∧
    (∀ t ∈ integerTys, hasCase t = true) := by decide

/-- **unsuffixed_int_pattern_default_has_case**: the fallback type of an unsuffixed integer pattern
(`integer_literal_target(ty).unwrap_or(int32)`; the extractor asserts the literal `TInt32` and that it is an
`is_integer_ty` type) has a case -/
theorem unsuffixed_int_pattern_default_has_case : "TInt32" ∈ integerTys ∧ hasCase "TInt32" = true := by decide

-- non-vacuity of the tables: the dispatch has both kinds of arm, and a literal checker with several types
example : hasCase "TString" = true ∧ panics "TFloat64" = true ∧ panics "TVec" = true := by decide
example : (literalPatternTys.lookup "check_pat_int").map List.length = some 8 := by decide

end Goml.MatchDispatch
