import GomlVerif.Model.Resolve
import GomlVerif.Lemmas.LowerOkFile
/-!
# C05 — names resolve lexically: innermost binding wins and bindings never leak

Property theorems only.  `resolve*` is the implementation model (tied to
`name_resolution.rs` by the correspondence run of `./check C05`), `spec*` the
declarative reading (environment only passed down), `scoped*` the names-only
well-scopedness judgement.  Package-level names (`Globals`: constructors, definitions) are
the outermost scope: `resolveName` looks the local environment up first.  `conOk*` says that
AST lowering (`ast/src/lower.rs`, which classifies bare names by spelling before resolution
runs) called no locally bound name a constructor; `./check C05` evaluates it on the real AST
of every case, and `resolve_refines_spec` holds under it.
-/
namespace Goml.Resolve

/-! ## helper lemmas (local to this file; none weakens a property statement) -/

theorem resolvePat_eq (p : Pat) (s : St) :
    resolvePat p s =
      { env := s.env ++ (patBinds p s.next).1, next := (patBinds p s.next).2.2,
        out := s.out ++ (patBinds p s.next).2.1 } := by
  apply Pat.rec
    (motive_1 := fun p => ∀ s, resolvePat p s =
      { env := s.env ++ (patBinds p s.next).1, next := (patBinds p s.next).2.2,
        out := s.out ++ (patBinds p s.next).2.1 })
    (motive_2 := fun ps => ∀ s, resolvePats ps s =
      { env := s.env ++ (patsBinds ps s.next).1, next := (patsBinds ps s.next).2.2,
        out := s.out ++ (patsBinds ps s.next).2.1 })
  · intro x tag s; simp [resolvePat, patBinds]
  · intro ps ih s; simpa [resolvePat, patBinds] using ih s
  · intro s; simp [resolvePats, patsBinds]
  · intro p ps ihp ihps s
    simp only [resolvePats, patsBinds]
    rw [ihp s, ihps]
    simp [List.append_assoc]

theorem resolveParams_eq (ps : List (String × Nat)) (s : St) :
    resolveParams ps s =
      { env := s.env ++ (paramBinds ps s.next).1, next := (paramBinds ps s.next).2.2,
        out := s.out ++ (paramBinds ps s.next).2.1 } := by
  induction ps generalizing s with
  | nil => simp [resolveParams, paramBinds]
  | cons p ps ih =>
    obtain ⟨x, tag⟩ := p
    simp only [resolveParams, paramBinds]
    rw [ih]
    simp [List.append_assoc]

theorem patBinds_names (p : Pat) (n : Nat) : (patBinds p n).1.map (·.1) = patNames p := by
  apply Pat.rec
    (motive_1 := fun p => ∀ n, (patBinds p n).1.map (·.1) = patNames p)
    (motive_2 := fun ps => ∀ n, (patsBinds ps n).1.map (·.1) = patsNames ps)
  · intro x tag n; simp [patBinds, patNames]
  · intro ps ih n; simpa [patBinds, patNames] using ih n
  · intro n; simp [patsBinds, patsNames]
  · intro p ps ihp ihps n; simp [patsBinds, patsNames, ihp, ihps]

theorem paramBinds_names (ps : List (String × Nat)) (n : Nat) :
    (paramBinds ps n).1.map (·.1) = ps.map (·.1) := by
  induction ps generalizing n with
  | nil => simp [paramBinds]
  | cons p ps ih => obtain ⟨x, t⟩ := p; simp [paramBinds, ih]

/-- the local environment has no entry for `x` exactly when no enclosing binder has that name -/
theorem lookup_none_iff (env : Env) (x : String) :
    lookup env x = none ↔ x ∉ env.map (·.1) := by
  unfold lookup
  cases h : List.find? (fun p => p.1 == x) env.reverse with
  | none =>
    simp only [true_iff]
    intro hm
    rw [List.find?_eq_none] at h
    rcases List.mem_map.1 hm with ⟨p, hp, rfl⟩
    exact h p (by simpa using hp) (by simp)
  | some p =>
    simp only [reduceCtorEq, false_iff, Decidable.not_not]
    have := List.find?_some h
    have hm := List.mem_of_find?_eq_some h
    exact List.mem_map.2 ⟨p, by simpa using hm, by simpa using this⟩

theorem lookup_isSome_iff (env : Env) (x : String) :
    (lookup env x).isSome = (env.map (·.1)).contains x := by
  have h := lookup_none_iff env x
  cases hl : lookup env x with
  | none =>
    have := h.1 hl
    simp only [Option.isSome_none]
    symm
    simpa [List.contains_iff_mem] using this
  | some i =>
    have : ¬ (x ∉ env.map (·.1)) := fun hc => by
      have := h.2 hc; rw [hl] at this; cases this
    simp only [Option.isSome_some]
    symm
    simpa [List.contains_iff_mem] using this

/-- a bare name with no local binder in scope that names a constructor resolves to it -/
theorem resolveName_ctor_of (G : Globals) (env : Env) (x : String)
    (h1 : (env.map (·.1)).contains x = false) (h2 : G.ctors.contains x = true) :
    resolveName G env x = .ctor := by
  have h := lookup_isSome_iff env x
  rw [h1] at h
  cases hl : lookup env x with
  | none =>
    have h2' : x ∈ G.ctors := by simpa using h2
    simp [resolveName, hl, h2']
  | some i => rw [hl] at h; cases h

/-! ## P1 — the implementation refines the specification and never leaks a binding -/

/-- For every expression and every incoming state: provided AST lowering called no locally
    bound name a constructor (`conOkExpr`, evaluated on the real AST by the check), the
    resolver's output is the specification's output — every bare name refers to the innermost
    enclosing local binder of that name, and to a constructor or definition only when there is
    none — and the environment it leaves behind is exactly the one it was given ("bindings
    never leak"). -/
theorem resolve_refines_spec (G : Globals) (e : Expr) (s : St)
    (h : conOkExpr G (s.env.map (·.1)) e = true) :
    resolveExpr G e s =
      { env := s.env, next := (specExpr G s.env s.next e).next,
        out := s.out ++ (specExpr G s.env s.next e).evs } := by
  revert s
  apply Expr.rec
    (motive_1 := fun e => ∀ s, conOkExpr G (s.env.map (·.1)) e = true → resolveExpr G e s =
      { env := s.env, next := (specExpr G s.env s.next e).next,
        out := s.out ++ (specExpr G s.env s.next e).evs })
    (motive_2 := fun it => ∀ s rest,
      (∀ s', conOkItems G (s'.env.map (·.1)) rest = true → resolveItems G rest s' =
        { env := (resolveItems G rest s').env, next := (specItems G s'.env s'.next rest).next,
          out := s'.out ++ (specItems G s'.env s'.next rest).evs }) →
      conOkItems G (s.env.map (·.1)) (it :: rest) = true →
      resolveItems G (it :: rest) s =
        { env := (resolveItems G (it :: rest) s).env,
          next := (specItems G s.env s.next (it :: rest)).next,
          out := s.out ++ (specItems G s.env s.next (it :: rest)).evs })
    (motive_3 := fun a => ∀ s rest,
      (∀ s', conOkArms G (s'.env.map (·.1)) rest = true → resolveArms G rest s' =
        { env := s'.env, next := (specArms G s'.env s'.next rest).next,
          out := s'.out ++ (specArms G s'.env s'.next rest).evs }) →
      conOkArms G (s.env.map (·.1)) (a :: rest) = true →
      resolveArms G (a :: rest) s =
        { env := s.env, next := (specArms G s.env s.next (a :: rest)).next,
          out := s.out ++ (specArms G s.env s.next (a :: rest)).evs })
    (motive_4 := fun es => ∀ s, conOkList G (s.env.map (·.1)) es = true → resolveList G es s =
      { env := s.env, next := (specList G s.env s.next es).next,
        out := s.out ++ (specList G s.env s.next es).evs })
    (motive_5 := fun items => ∀ s, conOkItems G (s.env.map (·.1)) items = true →
      resolveItems G items s =
      { env := (resolveItems G items s).env, next := (specItems G s.env s.next items).next,
        out := s.out ++ (specItems G s.env s.next items).evs })
    (motive_6 := fun arms => ∀ s, conOkArms G (s.env.map (·.1)) arms = true →
      resolveArms G arms s =
      { env := s.env, next := (specArms G s.env s.next arms).next,
        out := s.out ++ (specArms G s.env s.next arms).evs })
  -- Expr.var
  · intro x tag s _; simp [resolveExpr, specExpr]
  -- Expr.con
  · intro x tag args ih s h
    simp only [conOkExpr, Bool.and_eq_true, Bool.not_eq_true'] at h
    obtain ⟨⟨h1, h2⟩, h3⟩ := h
    simp only [resolveExpr, specExpr]
    rw [ih { s with out := s.out ++ [Ev.use tag .ctor] } h3, resolveName_ctor_of G s.env x h1 h2]
    simp
  -- Expr.node
  · intro es ih s h
    simp only [conOkExpr] at h
    simpa [resolveExpr, specExpr] using ih s h
  -- Expr.block
  · intro items ih s h
    simp only [conOkExpr] at h
    simp only [resolveExpr, specExpr]
    rw [ih s h]
  -- Expr.matchE
  · intro scrut arms ihs iha s h
    simp only [conOkExpr, Bool.and_eq_true] at h
    simp only [resolveExpr, specExpr]
    rw [ihs s h.1, iha]
    · simp [List.append_assoc]
    · exact h.2
  -- Expr.closure
  · intro ps body ih s h
    simp only [conOkExpr] at h
    simp only [resolveExpr, specExpr]
    rw [resolveParams_eq, ih]
    · simp [List.append_assoc]
    · simpa [paramBinds_names] using h
  -- Item.letI
  · intro p v ihv s rest hrest h
    simp only [conOkItems, Bool.and_eq_true] at h
    simp only [resolveItems, specItems]
    rw [ihv s h.1, resolvePat_eq, hrest]
    · simp [List.append_assoc]
    · simpa [patBinds_names] using h.2
  -- Item.exprI
  · intro e ihe s rest hrest h
    simp only [conOkItems, Bool.and_eq_true] at h
    simp only [resolveItems, specItems]
    rw [ihe s h.1, hrest]
    · simp [List.append_assoc]
    · exact h.2
  -- Arm.mk
  · intro p body ihb s rest hrest h
    simp only [conOkArms, Bool.and_eq_true] at h
    simp only [resolveArms, specArms]
    rw [resolvePat_eq, ihb, hrest]
    · simp [List.append_assoc]
    · exact h.2
    · simpa [patBinds_names] using h.1
  -- List Expr
  · intro s _; simp [resolveList, specList]
  · intro e es ihe ihes s h
    simp only [conOkList, Bool.and_eq_true] at h
    simp only [resolveList, specList]
    rw [ihe s h.1, ihes]
    · simp [List.append_assoc]
    · exact h.2
  -- List Item
  · intro s _; simp [resolveItems, specItems]
  · intro it rest ihit ihrest s h
    exact ihit s rest ihrest h
  -- List Arm
  · intro s _; simp [resolveArms, specArms]
  · intro a rest iha ihrest s h
    exact iha s rest ihrest h

/-- whole functions: parameters are bound first (one fresh id each), then the body is resolved. -/
theorem resolveFn_refines_spec (G : Globals) (params : List (String × Nat)) (body : Expr)
    (h : conOkExpr G (params.map (·.1)) body = true) :
    (resolveFn G params body).out = (specFn G params body).evs ∧
    (resolveFn G params body).next = (specFn G params body).next := by
  unfold resolveFn specFn
  rw [resolveParams_eq, resolve_refines_spec]
  · simp
  · simpa [paramBinds_names] using h

/-! ## P2 — innermost binding wins, also against constructors and definitions -/

theorem lookup_innermost (env : Env) (x : String) (i : Nat) :
    lookup (env ++ [(x, i)]) x = some i := by
  simp [lookup, List.reverse_append]

/-- **The innermost local binder wins**, whatever the package declares: after a binder of `x`
    a bare `x` refers to that binder — not to an outer or earlier binder of the same name, not to
    a constructor `x`, not to a function `x`. -/
theorem innermost_wins (G : Globals) (env : Env) (x : String) (i : Nat) :
    resolveName G (env ++ [(x, i)]) x = .loc i := by
  simp [resolveName, lookup_innermost]

theorem lookup_other (env : Env) (x y : String) (i : Nat) (h : y ≠ x) :
    lookup (env ++ [(y, i)]) x = lookup env x := by
  simp [lookup, List.reverse_append, h]

/-- a binder of another name changes nothing -/
theorem other_name_transparent (G : Globals) (env : Env) (x y : String) (i : Nat) (h : y ≠ x) :
    resolveName G (env ++ [(y, i)]) x = resolveName G env x := by
  simp [resolveName, lookup_other env x y i h]

theorem lookup_append (env ext : Env) (x : String) :
    lookup (env ++ ext) x = match lookup ext x with
      | some i => some i
      | none => lookup env x := by
  simp only [lookup, List.reverse_append, List.find?_append]
  cases h : List.find? (fun p => p.1 == x) ext.reverse <;> simp

/-- a bare name refers to a local binder exactly when one is in scope … -/
theorem local_iff (G : Globals) (env : Env) (x : String) :
    (∃ i, resolveName G env x = .loc i) ↔ x ∈ env.map (·.1) := by
  have h := lookup_none_iff env x
  unfold resolveName
  cases hl : lookup env x with
  | some i =>
    have : ¬ (x ∉ env.map (·.1)) := fun hc => by have := h.2 hc; rw [hl] at this; cases this
    simp only [Ref.loc.injEq, exists_eq', true_iff]
    exact Decidable.not_not.1 this
  | none =>
    have hn := h.1 hl
    simp only [hn, iff_false, not_exists]
    intro i
    split <;> (try split) <;> simp

/-- … to a constructor exactly when no local binder is in scope and the package has one … -/
theorem ctor_iff (G : Globals) (env : Env) (x : String) :
    resolveName G env x = .ctor ↔ x ∉ env.map (·.1) ∧ x ∈ G.ctors := by
  have h := lookup_none_iff env x
  unfold resolveName
  cases hl : lookup env x with
  | some i =>
    have hm : x ∈ env.map (·.1) := Decidable.not_not.1 fun hc => by
      have := h.2 hc; rw [hl] at this; cases this
    simp only [reduceCtorEq, false_iff]
    exact fun hh => hh.1 hm
  | none =>
    have hn := h.1 hl
    by_cases hc : x ∈ G.ctors
    · simp [hc, hn]
    · by_cases hd : x ∈ G.defs <;> simp [hc, hd, hn]

/-- … and is unresolved exactly when neither a binder nor a package-level name exists -/
theorem unresolved_iff (G : Globals) (env : Env) (x : String) :
    resolveName G env x = .unbound ↔ x ∉ env.map (·.1) ∧ x ∉ G.ctors ∧ x ∉ G.defs := by
  have h := lookup_none_iff env x
  unfold resolveName
  cases hl : lookup env x with
  | some i =>
    have hm : x ∈ env.map (·.1) := Decidable.not_not.1 fun hc => by
      have := h.2 hc; rw [hl] at this; cases this
    simp only [reduceCtorEq, false_iff]
    exact fun hh => hh.1 hm
  | none =>
    have hn := h.1 hl
    by_cases hc : x ∈ G.ctors
    · simp [hc]
    · by_cases hd : x ∈ G.defs <;> simp [hc, hd, hn]

/-- two binders of one name in one parameter list / pattern: the later one is the binder of
    every use that follows (each has an id of its own, see `binder_ids_fresh`) -/
theorem duplicate_later_wins (G : Globals) (env : Env) (x : String) (i j : Nat) :
    resolveName G (env ++ [(x, i), (x, j)]) x = .loc j := by
  have : env ++ [(x, i), (x, j)] = (env ++ [(x, i)]) ++ [(x, j)] := by simp
  rw [this, innermost_wins]

/-! ## P3 — accepted for scoping reasons iff well-scoped by the lexical rules -/

theorem patBinds_binds_only (p : Pat) (n : Nat) : allResolved (patBinds p n).2.1 = true := by
  apply Pat.rec
    (motive_1 := fun p => ∀ n, allResolved (patBinds p n).2.1 = true)
    (motive_2 := fun ps => ∀ n, allResolved (patsBinds ps n).2.1 = true)
  · intro x tag n; simp [patBinds, allResolved]
  · intro ps ih n; simpa [patBinds] using ih n
  · intro n; simp [patsBinds, allResolved]
  · intro p ps ihp ihps n
    have h1 := ihp n
    have h2 := ihps (patBinds p n).2.2
    simp only [allResolved, List.all_eq_true] at h1 h2 ⊢
    simp only [patsBinds, List.mem_append]
    rintro e (he | he)
    · exact h1 e he
    · exact h2 e he

theorem paramBinds_binds_only (ps : List (String × Nat)) (n : Nat) :
    allResolved (paramBinds ps n).2.1 = true := by
  induction ps generalizing n with
  | nil => simp [paramBinds, allResolved]
  | cons p ps ih =>
    obtain ⟨x, t⟩ := p
    have := ih (n + 1)
    simp only [allResolved, List.all_eq_true] at this ⊢
    simp only [paramBinds, List.mem_cons]
    rintro e (rfl | he)
    · rfl
    · exact this e he

theorem allResolved_append (a b : List Ev) :
    allResolved (a ++ b) = (allResolved a && allResolved b) := by
  simp [allResolved, List.all_append]

/-- the names in scope: package-level names outermost, then the local binders -/
def scopeNames (G : Globals) (env : Env) : List String := G.ctors ++ G.defs ++ env.map (·.1)

theorem use_resolved_iff (G : Globals) (env : Env) (x : String) (tag : Nat) :
    allResolved [Ev.use tag (resolveName G env x)] = (scopeNames G env).contains x := by
  have hu := unresolved_iff G env x
  by_cases hc : (scopeNames G env).contains x = true
  · rw [hc]
    have : ¬ (resolveName G env x = .unbound) := fun hh => by
      have := hu.1 hh
      simp only [scopeNames, List.contains_iff_mem, List.mem_append] at hc
      rcases hc with (hc | hc) | hc
      · exact this.2.1 hc
      · exact this.2.2 hc
      · exact this.1 hc
    cases hr : resolveName G env x <;> simp_all [allResolved]
  · have hc' : (scopeNames G env).contains x = false := by simpa using hc
    rw [hc']
    have : resolveName G env x = .unbound := hu.2 (by
      simp only [scopeNames, List.contains_iff_mem, List.mem_append, not_or] at hc
      exact ⟨hc.2, hc.1.1, hc.1.2⟩)
    simp [this, allResolved]

theorem scopeNames_append_pat (G : Globals) (env : Env) (p : Pat) (n : Nat) :
    scopeNames G (env ++ (patBinds p n).1) = scopeNames G env ++ patNames p := by
  simp [scopeNames, patBinds_names, List.append_assoc]

theorem scopeNames_append_params (G : Globals) (env : Env) (ps : List (String × Nat)) (n : Nat) :
    scopeNames G (env ++ (paramBinds ps n).1) = scopeNames G env ++ ps.map (·.1) := by
  simp [scopeNames, paramBinds_names, List.append_assoc]

/-- **Acceptance = lexical well-scopedness.** With the package-level names as the outermost
    scope and the names of `env` inside them, every use in `e` is resolved by the specification
    iff `e` is well-scoped; with `resolve_refines_spec` the same holds for the implementation
    model. -/
theorem spec_resolved_iff_scoped (G : Globals) (e : Expr) (env : Env) (n : Nat) :
    allResolved (specExpr G env n e).evs = scopedExpr (scopeNames G env) e := by
  revert env n
  apply Expr.rec
    (motive_1 := fun e => ∀ env n,
      allResolved (specExpr G env n e).evs = scopedExpr (scopeNames G env) e)
    (motive_2 := fun it => ∀ env n rest,
      (∀ env n, allResolved (specItems G env n rest).evs = scopedItems (scopeNames G env) rest) →
      allResolved (specItems G env n (it :: rest)).evs
        = scopedItems (scopeNames G env) (it :: rest))
    (motive_3 := fun a => ∀ env n rest,
      (∀ env n, allResolved (specArms G env n rest).evs = scopedArms (scopeNames G env) rest) →
      allResolved (specArms G env n (a :: rest)).evs = scopedArms (scopeNames G env) (a :: rest))
    (motive_4 := fun es => ∀ env n,
      allResolved (specList G env n es).evs = scopedList (scopeNames G env) es)
    (motive_5 := fun items => ∀ env n,
      allResolved (specItems G env n items).evs = scopedItems (scopeNames G env) items)
    (motive_6 := fun arms => ∀ env n,
      allResolved (specArms G env n arms).evs = scopedArms (scopeNames G env) arms)
  · intro x tag env n
    simp only [specExpr, scopedExpr, use_resolved_iff]
  · intro x tag args ih env n
    simp only [specExpr, scopedExpr]
    rw [← List.singleton_append, allResolved_append, use_resolved_iff, ih]
  · intro es ih env n; simpa [specExpr, scopedExpr] using ih env n
  · intro items ih env n; simpa [specExpr, scopedExpr] using ih env n
  · intro scrut arms ihs iha env n
    simp only [specExpr, scopedExpr, allResolved_append, ihs, iha]
  · intro ps body ih env n
    simp only [specExpr, scopedExpr, allResolved_append, paramBinds_binds_only, Bool.true_and, ih,
      scopeNames_append_params]
  · intro p v ihv env n rest hrest
    simp only [specItems, scopedItems, allResolved_append, ihv, patBinds_binds_only, hrest,
      Bool.and_true, scopeNames_append_pat]
  · intro e ihe env n rest hrest
    simp only [specItems, scopedItems, allResolved_append, ihe, hrest]
  · intro p body ihb env n rest hrest
    simp only [specArms, scopedArms, allResolved_append, patBinds_binds_only, Bool.true_and, ihb,
      hrest, scopeNames_append_pat]
  · intro env n; simp [specList, scopedList, allResolved]
  · intro e es ihe ihes env n
    simp only [specList, scopedList, allResolved_append, ihe, ihes]
  · intro env n; simp [specItems, scopedItems, allResolved]
  · intro it rest ihit ihrest env n; exact ihit env n rest ihrest
  · intro env n; simp [specArms, scopedArms, allResolved]
  · intro a rest iha ihrest env n; exact iha env n rest ihrest

/-- the same statement for the implementation model, from an empty output buffer -/
theorem resolve_accepts_iff_scoped (G : Globals) (e : Expr) (env : Env) (n : Nat)
    (h : conOkExpr G (env.map (·.1)) e = true) :
    allResolved (resolveExpr G e { env := env, next := n, out := [] }).out
      = scopedExpr (scopeNames G env) e := by
  rw [resolve_refines_spec G e _ h]; simpa using spec_resolved_iff_scoped G e env n

/-! ## P4 — shadowing never changes what outer or earlier uses refer to -/

/-- earlier output is never rewritten: what was resolved before `e` stays resolved the same way -/
theorem earlier_uses_unchanged (G : Globals) (e : Expr) (s : St)
    (h : conOkExpr G (s.env.map (·.1)) e = true) :
    ∃ ext, (resolveExpr G e s).out = s.out ++ ext := by
  rw [resolve_refines_spec G e s h]; exact ⟨_, rfl⟩

/-- a later sibling is resolved in the *same* environment as its predecessor, whatever the
    predecessor bound inside itself (only the id counter advances) -/
theorem later_sibling_env (G : Globals) (e : Expr) (es : List Expr) (s : St)
    (h : conOkExpr G (s.env.map (·.1)) e = true) :
    resolveList G (e :: es) s = resolveList G es
      { env := s.env, next := (specExpr G s.env s.next e).next,
        out := s.out ++ (specExpr G s.env s.next e).evs } := by
  simp only [resolveList]; rw [resolve_refines_spec G e s h]

/-! ## P5 — every binder occurrence has an identity of its own -/

/-- `evs` hands out exactly the ids `n, n+1, …, m-1`, in order -/
def Fresh (n : Nat) (evs : List Ev) (m : Nat) : Prop :=
  n ≤ m ∧ bindIds evs = List.range' n (m - n)

theorem Fresh.nil (n : Nat) : Fresh n [] n := by simp [Fresh, bindIds]

theorem bindIds_append (a b : List Ev) : bindIds (a ++ b) = bindIds a ++ bindIds b := by
  simp [bindIds, List.filterMap_append]

theorem Fresh.append {n m k : Nat} {a b : List Ev} (h1 : Fresh n a m) (h2 : Fresh m b k) :
    Fresh n (a ++ b) k := by
  obtain ⟨l1, e1⟩ := h1
  obtain ⟨l2, e2⟩ := h2
  refine ⟨Nat.le_trans l1 l2, ?_⟩
  rw [bindIds_append, e1, e2]
  have : k - n = (m - n) + (k - m) := by omega
  rw [this, ← List.range'_append_1]
  congr 2; omega

theorem Fresh.use (n tag : Nat) (r : Ref) : Fresh n [Ev.use tag r] n := by
  simp [Fresh, bindIds]

theorem patBinds_fresh (p : Pat) (n : Nat) : Fresh n (patBinds p n).2.1 (patBinds p n).2.2 := by
  revert n
  apply Pat.rec
    (motive_1 := fun p => ∀ n, Fresh n (patBinds p n).2.1 (patBinds p n).2.2)
    (motive_2 := fun ps => ∀ n, Fresh n (patsBinds ps n).2.1 (patsBinds ps n).2.2)
  · intro x tag n; simp [patBinds, Fresh, bindIds]
  · intro ps ih n; simpa [patBinds] using ih n
  · intro n; simpa [patsBinds] using Fresh.nil n
  · intro p ps ihp ihps n
    simp only [patsBinds]
    exact (ihp n).append (ihps _)

theorem paramBinds_fresh (ps : List (String × Nat)) (n : Nat) :
    Fresh n (paramBinds ps n).2.1 (paramBinds ps n).2.2 := by
  induction ps generalizing n with
  | nil => simpa [paramBinds] using Fresh.nil n
  | cons p ps ih =>
    obtain ⟨x, t⟩ := p
    simp only [paramBinds]
    have h0 : Fresh n [Ev.bind n t] (n + 1) := by simp [Fresh, bindIds]
    exact h0.append (ih (n + 1))

/-- **Every binder occurrence gets an id of its own**: the ids handed out while resolving `e`
    are exactly `n, n+1, …` in traversal order — so two binders never share an id, in
    particular not two parameters, closure parameters or pattern variables of the same name. -/
theorem spec_binder_ids_fresh (G : Globals) (e : Expr) (env : Env) (n : Nat) :
    Fresh n (specExpr G env n e).evs (specExpr G env n e).next := by
  revert env n
  apply Expr.rec
    (motive_1 := fun e => ∀ env n, Fresh n (specExpr G env n e).evs (specExpr G env n e).next)
    (motive_2 := fun it => ∀ env n rest,
      (∀ env n, Fresh n (specItems G env n rest).evs (specItems G env n rest).next) →
      Fresh n (specItems G env n (it :: rest)).evs (specItems G env n (it :: rest)).next)
    (motive_3 := fun a => ∀ env n rest,
      (∀ env n, Fresh n (specArms G env n rest).evs (specArms G env n rest).next) →
      Fresh n (specArms G env n (a :: rest)).evs (specArms G env n (a :: rest)).next)
    (motive_4 := fun es => ∀ env n, Fresh n (specList G env n es).evs (specList G env n es).next)
    (motive_5 := fun items => ∀ env n,
      Fresh n (specItems G env n items).evs (specItems G env n items).next)
    (motive_6 := fun arms => ∀ env n,
      Fresh n (specArms G env n arms).evs (specArms G env n arms).next)
  · intro x tag env n; simpa [specExpr] using Fresh.use n tag _
  · intro x tag args ih env n
    simp only [specExpr]
    rw [← List.singleton_append]
    exact (Fresh.use n tag _).append (ih env n)
  · intro es ih env n; simpa [specExpr] using ih env n
  · intro items ih env n; simpa [specExpr] using ih env n
  · intro scrut arms ihs iha env n
    simp only [specExpr]
    exact (ihs env n).append (iha env _)
  · intro ps body ih env n
    simp only [specExpr]
    exact (paramBinds_fresh ps n).append (ih _ _)
  · intro p v ihv env n rest hrest
    simp only [specItems]
    exact ((ihv env n).append (patBinds_fresh p _)).append (hrest _ _)
  · intro e ihe env n rest hrest
    simp only [specItems]
    exact (ihe env n).append (hrest _ _)
  · intro p body ihb env n rest hrest
    simp only [specArms]
    exact ((patBinds_fresh p n).append (ihb _ _)).append (hrest _ _)
  · intro env n; simpa [specList] using Fresh.nil n
  · intro e es ihe ihes env n
    simp only [specList]
    exact (ihe env n).append (ihes env _)
  · intro env n; simpa [specItems] using Fresh.nil n
  · intro it rest ihit ihrest env n; exact ihit env n rest ihrest
  · intro env n; simpa [specArms] using Fresh.nil n
  · intro a rest iha ihrest env n; exact iha env n rest ihrest

/-- whole functions, implementation model: the binder ids of a function are `0, 1, …` without
    repetition — each parameter, also a duplicated one, is a binder of its own -/
theorem binder_ids_fresh (G : Globals) (params : List (String × Nat)) (body : Expr)
    (h : conOkExpr G (params.map (·.1)) body = true) :
    (bindIds (resolveFn G params body).out).Nodup := by
  rw [(resolveFn_refines_spec G params body h).1]
  have hf : Fresh 0 (specFn G params body).evs (specFn G params body).next := by
    unfold specFn
    exact (paramBinds_fresh params 0).append (spec_binder_ids_fresh G body _ _)
  rw [hf.2]
  exact List.nodup_range'

/-! ## non-vacuity: a concrete nest that shadows in a block, an arm and a closure -/

/-- `fn f(a) { let a = a; { let a = a; a }; match a { a => a }; (|a| a); a }` -/
def demo : Expr :=
  .block [ .letI (.var "a" 10) (.var "a" 11),
           .exprI (.block [.letI (.var "a" 20) (.var "a" 21), .exprI (.var "a" 22)]),
           .exprI (.matchE (.var "a" 30) [.mk (.var "a" 31) (.var "a" 32)]),
           .exprI (.closure [("a", 40)] (.var "a" 41)),
           .exprI (.var "a" 50) ]

def noGlobals : Globals := { ctors := [], defs := [] }

example : (resolveFn noGlobals [("a", 1)] demo).out =
    [ .bind 0 1, .use 11 (.loc 0), .bind 1 10, .use 21 (.loc 1), .bind 2 20, .use 22 (.loc 2),
      .use 30 (.loc 1), .bind 3 31, .use 32 (.loc 3), .bind 4 40, .use 41 (.loc 4),
      .use 50 (.loc 1) ] := by decide

example : conOkExpr noGlobals ["a"] demo = true := by decide
example : scopedExpr ["a"] demo = true := by decide
example : scopedExpr [] (.block [.exprI (.block [.letI (.var "x" 0) (.node [])]), .exprI (.var "x" 1)])
    = false := by decide

/-- `enum Color { red, Blue(int32) }  fn paint() …`:
    `fn f(red, paint) { red; paint; Blue(red); (|Blue| Blue(red)); green; paint }` with
    `green` unbound — locals win over the constructor `red`/`Blue` and the function `paint` -/
def colors : Globals := { ctors := ["red", "Blue"], defs := ["paint", "f"] }

def clash : Expr :=
  .block [ .exprI (.var "red" 10), .exprI (.var "paint" 11),
           .exprI (.con "Blue" 12 [.var "red" 13]),
           .exprI (.closure [("Blue", 20)] (.node [.var "Blue" 21, .var "red" 22])),
           .exprI (.var "green" 30), .exprI (.var "f" 31) ]

example : conOkExpr colors ["red", "paint"] clash = true := by decide
example : (resolveFn colors [("red", 1), ("paint", 2)] clash).out =
    [ .bind 0 1, .bind 1 2, .use 10 (.loc 0), .use 11 (.loc 1), .use 12 .ctor, .use 13 (.loc 0),
      .bind 2 20, .use 21 (.loc 2), .use 22 (.loc 0), .use 30 .unbound, .use 31 .defn ] := by decide
/-- without the binders the same names are the constructor and the function -/
example : (resolveFn colors [] (.node [.var "red" 1, .var "paint" 2])).out =
    [ .use 1 .ctor, .use 2 .defn ] := by decide
/-- what the unrepaired lowering produced for `fn f(red) { red }`: a `con` under a binder of its
    name — `conOk` is false, and the implementation model and the specification differ -/
example : conOkExpr colors ["red"] (.con "red" 5 []) = false := by decide
example : (resolveFn colors [("red", 1)] (.con "red" 5 [])).out ≠
    (specFn colors [("red", 1)] (.con "red" 5 [])).evs := by decide
/-- `fn f(a, a) { a }`, `|a, a| a`, `let (a, a) = …; a`: two ids, the later binder wins -/
example : (resolveFn noGlobals [("a", 1), ("a", 2)]
      (.block [ .exprI (.var "a" 3), .exprI (.closure [("a", 4), ("a", 5)] (.var "a" 6)),
                .letI (.other [.var "a" 7, .var "a" 8]) (.node []), .exprI (.var "a" 9) ])).out =
    [ .bind 0 1, .bind 1 2, .use 3 (.loc 1), .bind 2 4, .bind 3 5, .use 6 (.loc 3),
      .bind 4 7, .bind 5 8, .use 9 (.loc 5) ] := by decide

end Goml.Resolve

/-! ## Lowering composed with resolution (round 11): no `conOk` hypothesis left

`conOk*` was the hypothesis under which the resolver model refines the specification, evaluated per case on the real
AST.  `Model/Lower.lean` (tied to `crates/ast/src/lower.rs` on the real rowan tree of every text) produces only ASTs
that satisfy it (`Lemmas/LowerOkFile.lean`, `ok_lowerFile`), so for every function and method of every lowered file
the resolver model and the specification agree outright. -/
namespace Goml.Lower
open Goml.Src

/-- **`lowered_file_resolves_as_spec`.** For EVERY tree `file`: take any function `f` of the file the lowering model
builds from it — a top-level function or a method of an `impl` block — and resolve its body (as the scope tree
`scopeOf f.body`, parameters `ps` spelled as `f`'s parameters, any tags) against the file's own constructor set and
any set `D` of definitions: the resolver MODEL (one mutable environment, save / restore) emits exactly the events of
the SPECIFICATION (environment passed down only) and hands out the same ids.  No `conOk` hypothesis: it is discharged by
`lower_ctor_iff` for whole files. -/
theorem lowered_file_resolves_as_spec (file : Cst) (D : List String) (f : FnDef)
    (hf : Item.fn f ∈ (lowerFile file).built.items ∨
          ∃ d, Item.impl d ∈ (lowerFile file).built.items ∧ f ∈ d.methods)
    (ps : List (String × Nat)) (hps : ps.map (·.1) = f.params.map (·.1)) :
    (Resolve.resolveFn ⟨collectConstructorNames file, D⟩ ps (scopeOf f.body)).out =
      (Resolve.specFn ⟨collectConstructorNames file, D⟩ ps (scopeOf f.body)).evs ∧
    (Resolve.resolveFn ⟨collectConstructorNames file, D⟩ ps (scopeOf f.body)).next =
      (Resolve.specFn ⟨collectConstructorNames file, D⟩ ps (scopeOf f.body)).next := by
  have h := (ok_lowerFile file (fuelFor file)).2.2
  have hk : FnOk (collectConstructorNames file) f := by
    rcases hf with hf | ⟨d, hd, hm⟩
    · exact h _ hf
    · exact h _ hd f hm
  exact Resolve.resolveFn_refines_spec _ ps _ (by rw [hps]; exact conOk_expr D _ _ hk)

end Goml.Lower
