import GomlVerif.Model.Resolve
/-!
# C05 — names resolve lexically: innermost binding wins and bindings never leak

Property theorems only.  `resolve*` is the implementation model (tied to
`name_resolution.rs` by the correspondence run of `./check C05`), `spec*` the
declarative reading (environment only passed down), `scoped*` the names-only
well-scopedness judgement.
-/
namespace Goml.Resolve

/-! ## helper lemmas (local to this file; none weakens a property statement) -/

theorem resolvePat_eq (p : Pat) (s : St) :
    resolvePat p s =
      { env := s.env ++ (patBinds p s.next).1, next := (patBinds p s.next).2.2,
        out := s.out ++ (patBinds p s.next).2.1 } := by
  apply Pat.rec
    (motive_1 := fun p => ∀ s, resolvePat p s =
      { env := s.env ++ (patBinds p s.next).1, next := (patBinds p s.next).2.2,
        out := s.out ++ (patBinds p s.next).2.1 })
    (motive_2 := fun ps => ∀ s, resolvePats ps s =
      { env := s.env ++ (patsBinds ps s.next).1, next := (patsBinds ps s.next).2.2,
        out := s.out ++ (patsBinds ps s.next).2.1 })
  · intro x tag s; simp [resolvePat, patBinds]
  · intro ps ih s; simpa [resolvePat, patBinds] using ih s
  · intro s; simp [resolvePats, patsBinds]
  · intro p ps ihp ihps s
    simp only [resolvePats, patsBinds]
    rw [ihp s, ihps]
    simp [List.append_assoc]

theorem resolveParams_eq (ps : List (String × Nat)) (s : St) :
    resolveParams ps s =
      { env := s.env ++ (paramBinds ps s.next).1, next := (paramBinds ps s.next).2.2,
        out := s.out ++ (paramBinds ps s.next).2.1 } := by
  induction ps generalizing s with
  | nil => simp [resolveParams, paramBinds]
  | cons p ps ih =>
    obtain ⟨x, tag⟩ := p
    simp only [resolveParams, paramBinds]
    rw [ih]
    simp [List.append_assoc]

/-! ## P1 — the implementation refines the specification and never leaks a binding -/

/-- For every expression and every incoming state: the resolver's output is the
    specification's output, and the environment it leaves behind is exactly the one
    it was given ("bindings never leak"). -/
theorem resolve_refines_spec (e : Expr) (s : St) :
    resolveExpr e s =
      { env := s.env, next := (specExpr s.env s.next e).next,
        out := s.out ++ (specExpr s.env s.next e).evs } := by
  apply Expr.rec
    (motive_1 := fun e => ∀ s, resolveExpr e s =
      { env := s.env, next := (specExpr s.env s.next e).next,
        out := s.out ++ (specExpr s.env s.next e).evs })
    (motive_2 := fun it => ∀ s rest,
      (∀ s', resolveItems rest s' =
        { env := (resolveItems rest s').env, next := (specItems s'.env s'.next rest).next,
          out := s'.out ++ (specItems s'.env s'.next rest).evs }) →
      resolveItems (it :: rest) s =
        { env := (resolveItems (it :: rest) s).env,
          next := (specItems s.env s.next (it :: rest)).next,
          out := s.out ++ (specItems s.env s.next (it :: rest)).evs })
    (motive_3 := fun a => ∀ s rest,
      (∀ s', resolveArms rest s' =
        { env := s'.env, next := (specArms s'.env s'.next rest).next,
          out := s'.out ++ (specArms s'.env s'.next rest).evs }) →
      resolveArms (a :: rest) s =
        { env := s.env, next := (specArms s.env s.next (a :: rest)).next,
          out := s.out ++ (specArms s.env s.next (a :: rest)).evs })
    (motive_4 := fun es => ∀ s, resolveList es s =
      { env := s.env, next := (specList s.env s.next es).next,
        out := s.out ++ (specList s.env s.next es).evs })
    (motive_5 := fun items => ∀ s, resolveItems items s =
      { env := (resolveItems items s).env, next := (specItems s.env s.next items).next,
        out := s.out ++ (specItems s.env s.next items).evs })
    (motive_6 := fun arms => ∀ s, resolveArms arms s =
      { env := s.env, next := (specArms s.env s.next arms).next,
        out := s.out ++ (specArms s.env s.next arms).evs })
  -- Expr.var
  · intro x tag s; simp [resolveExpr, specExpr]
  -- Expr.node
  · intro es ih s; simpa [resolveExpr, specExpr] using ih s
  -- Expr.block
  · intro items ih s
    simp only [resolveExpr, specExpr]
    rw [ih s]
  -- Expr.matchE
  · intro scrut arms ihs iha s
    simp only [resolveExpr, specExpr]
    rw [ihs s, iha]
    simp [List.append_assoc]
  -- Expr.closure
  · intro ps body ih s
    simp only [resolveExpr, specExpr]
    rw [resolveParams_eq, ih]
    simp [List.append_assoc]
  -- Item.letI
  · intro p v ihv s rest hrest
    simp only [resolveItems, specItems]
    rw [ihv s, resolvePat_eq, hrest]
    simp [List.append_assoc]
  -- Item.exprI
  · intro e ihe s rest hrest
    simp only [resolveItems, specItems]
    rw [ihe s, hrest]
    simp [List.append_assoc]
  -- Arm.mk
  · intro p body ihb s rest hrest
    simp only [resolveArms, specArms]
    rw [resolvePat_eq, ihb, hrest]
    simp [List.append_assoc]
  -- List Expr
  · intro s; simp [resolveList, specList]
  · intro e es ihe ihes s
    simp only [resolveList, specList]
    rw [ihe s, ihes]
    simp [List.append_assoc]
  -- List Item
  · intro s; simp [resolveItems, specItems]
  · intro it rest ihit ihrest s
    exact ihit s rest ihrest
  -- List Arm
  · intro s; simp [resolveArms, specArms]
  · intro a rest iha ihrest s
    exact iha s rest ihrest

/-- whole functions: parameters are bound first, then the body is resolved. -/
theorem resolveFn_refines_spec (params : List (String × Nat)) (body : Expr) :
    (resolveFn params body).out = (specFn params body).evs ∧
    (resolveFn params body).next = (specFn params body).next := by
  unfold resolveFn specFn
  rw [resolve_refines_spec, resolveParams_eq]
  simp

/-! ## P2 — innermost binding wins; shadowing is by name only -/

theorem innermost_wins (env : Env) (x : String) (i : Nat) :
    lookup (env ++ [(x, i)]) x = some i := by
  simp [lookup, List.reverse_append]

theorem other_name_transparent (env : Env) (x y : String) (i : Nat) (h : y ≠ x) :
    lookup (env ++ [(y, i)]) x = lookup env x := by
  simp [lookup, List.reverse_append, h]

theorem lookup_append (env ext : Env) (x : String) :
    lookup (env ++ ext) x = match lookup ext x with
      | some i => some i
      | none => lookup env x := by
  simp only [lookup, List.reverse_append, List.find?_append]
  cases h : List.find? (fun p => p.1 == x) ext.reverse <;> simp

/-- a use is unresolved exactly when no enclosing binder has that name -/
theorem unresolved_iff (env : Env) (x : String) :
    lookup env x = none ↔ x ∉ env.map (·.1) := by
  unfold lookup
  cases h : List.find? (fun p => p.1 == x) env.reverse with
  | none =>
    simp only [true_iff]
    intro hm
    rw [List.find?_eq_none] at h
    rcases List.mem_map.1 hm with ⟨p, hp, rfl⟩
    exact h p (by simpa using hp) (by simp)
  | some p =>
    simp only [reduceCtorEq, false_iff, Decidable.not_not]
    have := List.find?_some h
    have hm := List.mem_of_find?_eq_some h
    exact List.mem_map.2 ⟨p, by simpa using hm, by simpa using this⟩

/-! ## P3 — accepted for scoping reasons iff well-scoped by the lexical rules -/

theorem patBinds_names (p : Pat) (n : Nat) : (patBinds p n).1.map (·.1) = patNames p := by
  apply Pat.rec
    (motive_1 := fun p => ∀ n, (patBinds p n).1.map (·.1) = patNames p)
    (motive_2 := fun ps => ∀ n, (patsBinds ps n).1.map (·.1) = patsNames ps)
  · intro x tag n; simp [patBinds, patNames]
  · intro ps ih n; simpa [patBinds, patNames] using ih n
  · intro n; simp [patsBinds, patsNames]
  · intro p ps ihp ihps n; simp [patsBinds, patsNames, ihp, ihps]

theorem patBinds_binds_only (p : Pat) (n : Nat) : allResolved (patBinds p n).2.1 = true := by
  apply Pat.rec
    (motive_1 := fun p => ∀ n, allResolved (patBinds p n).2.1 = true)
    (motive_2 := fun ps => ∀ n, allResolved (patsBinds ps n).2.1 = true)
  · intro x tag n; simp [patBinds, allResolved]
  · intro ps ih n; simpa [patBinds] using ih n
  · intro n; simp [patsBinds, allResolved]
  · intro p ps ihp ihps n
    have h1 := ihp n
    have h2 := ihps (patBinds p n).2.2
    simp only [allResolved, List.all_eq_true] at h1 h2 ⊢
    simp only [patsBinds, List.mem_append]
    rintro e (he | he)
    · exact h1 e he
    · exact h2 e he

theorem paramBinds_names (ps : List (String × Nat)) (n : Nat) :
    (paramBinds ps n).1.map (·.1) = ps.map (·.1) := by
  induction ps generalizing n with
  | nil => simp [paramBinds]
  | cons p ps ih => obtain ⟨x, t⟩ := p; simp [paramBinds, ih]

theorem paramBinds_binds_only (ps : List (String × Nat)) (n : Nat) :
    allResolved (paramBinds ps n).2.1 = true := by
  induction ps generalizing n with
  | nil => simp [paramBinds, allResolved]
  | cons p ps ih =>
    obtain ⟨x, t⟩ := p
    have := ih (n + 1)
    simp only [allResolved, List.all_eq_true] at this ⊢
    simp only [paramBinds, List.mem_cons]
    rintro e (rfl | he)
    · rfl
    · exact this e he

theorem allResolved_append (a b : List Ev) :
    allResolved (a ++ b) = (allResolved a && allResolved b) := by
  simp [allResolved, List.all_append]

theorem lookup_isSome_iff (env : Env) (x : String) :
    (lookup env x).isSome = (env.map (·.1)).contains x := by
  have h := unresolved_iff env x
  cases hl : lookup env x with
  | none =>
    have := h.1 hl
    simp only [Option.isSome_none]
    symm
    simpa [List.contains_iff_mem] using this
  | some i =>
    have : ¬ (x ∉ env.map (·.1)) := fun hc => by
      have := h.2 hc; rw [hl] at this; cases this
    simp only [Option.isSome_some]
    symm
    simpa [List.contains_iff_mem] using this

/-- **Acceptance = lexical well-scopedness.** Under an environment whose names are `Γ`,
    every use in `e` is resolved by the specification iff `e` is well-scoped in `Γ`;
    with `resolve_refines_spec` the same holds for the implementation model. -/
theorem spec_resolved_iff_scoped (e : Expr) (env : Env) (n : Nat) :
    allResolved (specExpr env n e).evs = scopedExpr (env.map (·.1)) e := by
  apply Expr.rec
    (motive_1 := fun e => ∀ env n,
      allResolved (specExpr env n e).evs = scopedExpr (env.map (·.1)) e)
    (motive_2 := fun it => ∀ env n rest,
      (∀ env n, allResolved (specItems env n rest).evs = scopedItems (env.map (·.1)) rest) →
      allResolved (specItems env n (it :: rest)).evs = scopedItems (env.map (·.1)) (it :: rest))
    (motive_3 := fun a => ∀ env n rest,
      (∀ env n, allResolved (specArms env n rest).evs = scopedArms (env.map (·.1)) rest) →
      allResolved (specArms env n (a :: rest)).evs = scopedArms (env.map (·.1)) (a :: rest))
    (motive_4 := fun es => ∀ env n,
      allResolved (specList env n es).evs = scopedList (env.map (·.1)) es)
    (motive_5 := fun items => ∀ env n,
      allResolved (specItems env n items).evs = scopedItems (env.map (·.1)) items)
    (motive_6 := fun arms => ∀ env n,
      allResolved (specArms env n arms).evs = scopedArms (env.map (·.1)) arms)
  · intro x tag env n
    simp only [specExpr, scopedExpr, allResolved, List.all_cons, List.all_nil, Bool.and_true]
    rw [← lookup_isSome_iff]
    cases lookup env x <;> rfl
  · intro es ih env n; simpa [specExpr, scopedExpr] using ih env n
  · intro items ih env n; simpa [specExpr, scopedExpr] using ih env n
  · intro scrut arms ihs iha env n
    simp only [specExpr, scopedExpr, allResolved_append, ihs, iha]
  · intro ps body ih env n
    simp only [specExpr, scopedExpr, allResolved_append, paramBinds_binds_only, Bool.true_and, ih,
      List.map_append, paramBinds_names]
  · intro p v ihv env n rest hrest
    simp only [specItems, scopedItems, allResolved_append, ihv, patBinds_binds_only, hrest,
      Bool.and_true, List.map_append, patBinds_names]
  · intro e ihe env n rest hrest
    simp only [specItems, scopedItems, allResolved_append, ihe, hrest]
  · intro p body ihb env n rest hrest
    simp only [specArms, scopedArms, allResolved_append, patBinds_binds_only, Bool.true_and, ihb,
      hrest, List.map_append, patBinds_names]
  · intro env n; simp [specList, scopedList, allResolved]
  · intro e es ihe ihes env n
    simp only [specList, scopedList, allResolved_append, ihe, ihes]
  · intro env n; simp [specItems, scopedItems, allResolved]
  · intro it rest ihit ihrest env n; exact ihit env n rest ihrest
  · intro env n; simp [specArms, scopedArms, allResolved]
  · intro a rest iha ihrest env n; exact iha env n rest ihrest

/-- the same statement for the implementation model, from an empty output buffer -/
theorem resolve_accepts_iff_scoped (e : Expr) (env : Env) (n : Nat) :
    allResolved (resolveExpr e { env := env, next := n, out := [] }).out
      = scopedExpr (env.map (·.1)) e := by
  rw [resolve_refines_spec]; simpa using spec_resolved_iff_scoped e env n

/-! ## P4 — shadowing never changes what outer or earlier uses refer to -/

/-- earlier output is never rewritten: what was resolved before `e` stays resolved the same way -/
theorem earlier_uses_unchanged (e : Expr) (s : St) :
    ∃ ext, (resolveExpr e s).out = s.out ++ ext := by
  rw [resolve_refines_spec]; exact ⟨_, rfl⟩

/-- a later sibling is resolved in the *same* environment as its predecessor, whatever the
    predecessor bound inside itself (only the id counter advances) -/
theorem later_sibling_env (e : Expr) (es : List Expr) (s : St) :
    resolveList (e :: es) s = resolveList es
      { env := s.env, next := (specExpr s.env s.next e).next,
        out := s.out ++ (specExpr s.env s.next e).evs } := by
  simp only [resolveList]; rw [resolve_refines_spec]

/-! ## non-vacuity: a concrete nest that shadows in a block, an arm and a closure -/

/-- `fn f(a) { let a = a; { let a = a; a }; match a { a => a }; (|a| a); a }` -/
def demo : Expr :=
  .block [ .letI (.var "a" 10) (.var "a" 11),
           .exprI (.block [.letI (.var "a" 20) (.var "a" 21), .exprI (.var "a" 22)]),
           .exprI (.matchE (.var "a" 30) [.mk (.var "a" 31) (.var "a" 32)]),
           .exprI (.closure [("a", 40)] (.var "a" 41)),
           .exprI (.var "a" 50) ]

example : (resolveFn [("a", 1)] demo).out =
    [ .bind 0 1, .use 11 (some 0), .bind 1 10, .use 21 (some 1), .bind 2 20, .use 22 (some 2),
      .use 30 (some 1), .bind 3 31, .use 32 (some 3), .bind 4 40, .use 41 (some 4),
      .use 50 (some 1) ] := by decide

example : scopedExpr ["a"] demo = true := by decide
example : scopedExpr [] (.block [.exprI (.block [.letI (.var "x" 0) (.node [])]), .exprI (.var "x" 1)])
    = false := by decide

end Goml.Resolve
