import GomlVerif.Lemmas.C06Main
/-!
# C06 — pattern matching picks the first matching arm and binds the right sub-values

Model: `Model/Match.lean` (`compileRows` = `compile_match.rs::compile_rows`, tied to the Rust on every
run by `gomlmodel c06`).  Meaning of the source patterns: `firstMatch` / `matchPat`.  Meaning of the
decision tree: `DT.eval`, embedded into `Sem.eval` by `toExpr_sem`.

The theorems quantify over ALL pattern matrices the compiler accepts (wildcards, variables, unit /
bool / integer / string literals, tuples, structs, enum constructors incl. generic enums, nested to
any depth), all arm bodies (`β` is a type parameter) and all scrutinee values of the right shape.
No pattern form is excluded; what is assumed is stated as hypotheses:

* `hinj`   the gensym never returns the same name twice (`x{n}`);
* `hfresh` names the gensym can still return are not variables the matrix tests
           (C19's "no source entity is spelled like a temporary");
* `hconf`  every tested variable holds a value of the shape its patterns assume (a value of the
           scrutinee's type; `conf` is decidable and evaluated on every generated value by the driver);
* `hleaves` no pattern variable is spelled like a column variable (`leavesOK`, decidable on the
           output, evaluated on every real tree by the driver).
-/
namespace Goml.Match
open Goml Goml.Sem

variable {β : Type}

/-- **Main theorem.**  Whenever `compile_rows` produces a tree (no panic, no diagnostic), running
    the tree on ANY environment of the right shape reaches exactly the body of the first row all of
    whose patterns match, in the environment extended by generated temporaries and by exactly that
    row's bindings; if no row matches it reaches the `missing` failure. -/
theorem compileRows_correct (S : Sig) (hinj : ∀ i j, S.gen i = S.gen j → i = j)
    (fuel : Nat) (ty : Ty) (n : Nat) (rows : List (Row β)) (t : DT β) (n' : Nat)
    (hc : compileRows S fuel ty n rows = some (.ok (t, n')))
    (hleaves : leavesOK t = true) (ρ : Env)
    (hfresh : ∀ r ∈ rows, RowFresh S.gen n r) (hconf : ∀ r ∈ rows, RowConf S ρ r) :
    match firstMatch ρ rows with
    | none => t.eval ρ = .missing
    | some (b, σ) => ∃ σ' τ, t.eval ρ = .body b (σ' ++ τ ++ ρ) ∧ (∀ x, x ∈ σ' ↔ x ∈ σ) ∧
        (∀ p ∈ τ, ∃ j, n ≤ j ∧ j < n' ∧ p.1 = S.gen j) :=
  (compileRows_good S hinj fuel ty n rows t n' hc).2 hleaves ρ (fun r hr => ⟨hfresh r hr, hconf r hr⟩)

/-- the gensym counter only grows -/
theorem compileRows_counter (S : Sig) (hinj : ∀ i j, S.gen i = S.gen j → i = j)
    (fuel : Nat) (ty : Ty) (n : Nat) (rows : List (Row β)) (t : DT β) (n' : Nat)
    (hc : compileRows S fuel ty n rows = some (.ok (t, n'))) : n ≤ n' :=
  (compileRows_good S hinj fuel ty n rows t n' hc).1

/-- what `firstMatch` returns: the first row (in source order) that matches -/
theorem firstMatch_spec (ρ : Env) : ∀ (rows : List (Row β)) (b : β) (σ : List (String × Val)),
    firstMatch ρ rows = some (b, σ) →
    ∃ i r, rows[i]? = some r ∧ r.body = b ∧ rowMatch ρ r = some σ ∧
      ∀ (j : Nat) (r' : Row β), j < i → rows[j]? = some r' → rowMatch ρ r' = none := by
  intro rows
  induction rows with
  | nil => intro b σ h; simp [firstMatch] at h
  | cons r rs ih =>
    intro b σ h
    simp only [firstMatch] at h
    split at h
    · rename_i σ0 h0
      cases h
      exact ⟨0, r, rfl, rfl, h0, fun j r' hj _ => absurd hj (Nat.not_lt_zero _)⟩
    · rename_i h0
      obtain ⟨i, r1, h1, h2, h3, h4⟩ := ih b σ h
      refine ⟨i + 1, r1, by simpa using h1, h2, h3, ?_⟩
      intro j r' hj hr'
      cases j with
      | zero => simp only [List.getElem?_cons_zero, Option.some.injEq] at hr'; rw [← hr']; exact h0
      | succ j => exact h4 j r' (by omega) (by simpa using hr')

/-- **No other arm runs**: the one body the tree reaches belongs to a row that matches, and no
    earlier row matches.  (`DT.eval` is a function: exactly one leaf is reached.) -/
theorem no_other_arm_runs (S : Sig) (hinj : ∀ i j, S.gen i = S.gen j → i = j)
    (fuel : Nat) (ty : Ty) (n : Nat) (rows : List (Row β)) (t : DT β) (n' : Nat)
    (hc : compileRows S fuel ty n rows = some (.ok (t, n')))
    (hleaves : leavesOK t = true) (ρ : Env)
    (hfresh : ∀ r ∈ rows, RowFresh S.gen n r) (hconf : ∀ r ∈ rows, RowConf S ρ r)
    (b : β) (ρ₂ : Env) (he : t.eval ρ = .body b ρ₂) :
    ∃ i r, rows[i]? = some r ∧ r.body = b ∧ (rowMatch ρ r).isSome = true ∧
      ∀ (j : Nat) (r' : Row β), j < i → rows[j]? = some r' → rowMatch ρ r' = none := by
  have h := compileRows_correct S hinj fuel ty n rows t n' hc hleaves ρ hfresh hconf
  cases hf : firstMatch ρ rows with
  | none => rw [hf] at h; simp only at h; rw [h] at he; cases he
  | some x =>
    obtain ⟨b', σ⟩ := x
    rw [hf] at h
    obtain ⟨σ', τ, e, _, _⟩ := h
    rw [e] at he
    cases he
    obtain ⟨i, r, h1, h2, h3, h4⟩ := firstMatch_spec ρ rows _ σ hf
    exact ⟨i, r, h1, h2, by simp [h3], h4⟩

/-- **No match ⇒ fails at that point**: if no row matches, the tree reaches `missing`
    (the call to the runtime's `missing`, which panics), never a body. -/
theorem no_match_fails (S : Sig) (hinj : ∀ i j, S.gen i = S.gen j → i = j)
    (fuel : Nat) (ty : Ty) (n : Nat) (rows : List (Row β)) (t : DT β) (n' : Nat)
    (hc : compileRows S fuel ty n rows = some (.ok (t, n')))
    (hleaves : leavesOK t = true) (ρ : Env)
    (hfresh : ∀ r ∈ rows, RowFresh S.gen n r) (hconf : ∀ r ∈ rows, RowConf S ρ r)
    (hnone : ∀ r ∈ rows, rowMatch ρ r = none) : t.eval ρ = .missing := by
  have h := compileRows_correct S hinj fuel ty n rows t n' hc hleaves ρ hfresh hconf
  have hf : firstMatch ρ rows = none := by
    clear h hc hfresh hconf
    induction rows with
    | nil => rfl
    | cons r rs ih =>
      simp only [firstMatch, hnone r (by simp)]
      exact ih (fun q hq => hnone q (by simp [hq]))
  rw [hf] at h
  exact h

theorem lookupEnv_append_of_mem (l r : Env) (a : String) (h : ∃ v, (a, v) ∈ l) :
    ∃ v', (a, v') ∈ l ∧ lookupEnv (l ++ r) a = some v' := by
  induction l with
  | nil => obtain ⟨v, hv⟩ := h; cases hv
  | cons p l ih =>
    obtain ⟨x, u⟩ := p
    by_cases hx : x = a
    · subst hx
      exact ⟨u, by simp, by simp [lookupEnv_cons]⟩
    · obtain ⟨v, hv⟩ := h
      rcases List.mem_cons.mp hv with hv | hv
      · cases hv; exact absurd rfl hx
      · obtain ⟨v', h1, h2⟩ := ih ⟨v, hv⟩
        exact ⟨v', by simp [h1], by rw [List.cons_append, lookupEnv_cons]; simp [hx, h2]⟩

theorem lookupEnv_append_notin (l r : Env) (y : String) (h : ∀ p ∈ l, p.1 ≠ y) :
    lookupEnv (l ++ r) y = lookupEnv r y := by
  induction l with
  | nil => rfl
  | cons p l ih =>
    obtain ⟨x, u⟩ := p
    have hx : x ≠ y := h (x, u) (by simp)
    rw [List.cons_append, lookupEnv_cons]
    simp only [hx, if_false]
    exact ih (fun q hq => h q (by simp [hq]))

theorem nodup_keys_unique {σ : List (String × Val)} (hnd : (σ.map (·.1)).Nodup) {a : String} {v v' : Val}
    (h1 : (a, v) ∈ σ) (h2 : (a, v') ∈ σ) : v = v' := by
  induction σ with
  | nil => cases h1
  | cons p σ ih =>
    simp only [List.map_cons, List.nodup_cons] at hnd
    rcases List.mem_cons.mp h1 with h1 | h1 <;> rcases List.mem_cons.mp h2 with h2 | h2
    · rw [← h1] at h2; cases h2; rfl
    · rw [← h1] at hnd
      exact absurd (List.mem_map_of_mem (f := (·.1)) h2) hnd.1
    · rw [← h2] at hnd
      exact absurd (List.mem_map_of_mem (f := (·.1)) h1) hnd.1
    · exact ih hnd.2 h1 h2

/-- **Bindings are right**: in the environment the selected body runs in, every pattern variable of
    the selected row is bound to the corresponding component of the scrutinee (`σ` is computed by
    `matchPat` from the source pattern and the value), and every other name that is not a generated
    temporary means what it meant before the match. -/
theorem bindings_correct (S : Sig) (hinj : ∀ i j, S.gen i = S.gen j → i = j)
    (fuel : Nat) (ty : Ty) (n : Nat) (rows : List (Row β)) (t : DT β) (n' : Nat)
    (hc : compileRows S fuel ty n rows = some (.ok (t, n')))
    (hleaves : leavesOK t = true) (ρ : Env)
    (hfresh : ∀ r ∈ rows, RowFresh S.gen n r) (hconf : ∀ r ∈ rows, RowConf S ρ r)
    (b : β) (σ : List (String × Val)) (hfm : firstMatch ρ rows = some (b, σ))
    (hnd : (σ.map (·.1)).Nodup) :
    ∃ ρ₂, t.eval ρ = .body b ρ₂ ∧ (∀ a v, (a, v) ∈ σ → lookupEnv ρ₂ a = some v) ∧
      (∀ y, y ∉ σ.map (·.1) → (∀ j, n ≤ j → j < n' → y ≠ S.gen j) → lookupEnv ρ₂ y = lookupEnv ρ y) := by
  have h := compileRows_correct S hinj fuel ty n rows t n' hc hleaves ρ hfresh hconf
  rw [hfm] at h
  obtain ⟨σ', τ, e, hσ, hτ⟩ := h
  refine ⟨_, e, ?_, ?_⟩
  · intro a v hav
    obtain ⟨v', h1, h2⟩ := lookupEnv_append_of_mem σ' (τ ++ ρ) a ⟨v, (hσ _).mpr hav⟩
    rw [List.append_assoc, h2, nodup_keys_unique hnd hav ((hσ _).mp h1)]
  · intro y hy hgen
    rw [List.append_assoc, lookupEnv_append_notin, lookupEnv_append_notin]
    · intro p hp heq
      obtain ⟨j, h1, h2, h3⟩ := hτ p hp
      exact hgen j h1 h2 (heq.symm.trans h3)
    · intro p hp heq
      apply hy
      have := (hσ p).mp hp
      rw [← heq]
      exact List.mem_map_of_mem (f := (·.1)) this

end Goml.Match
