import GomlVerif.Lemmas.C06Main
import GomlVerif.Lemmas.C06Aux
import GomlVerif.Lemmas.C06Total
import GomlVerif.Lemmas.C06Sem
import GomlVerif.Lemmas.C06NoBind
import Std.Data.String.ToNat
/-!
# C06 — pattern matching picks the first matching arm and binds the right sub-values

Model: `Model/Match.lean` (`compileRows` = `compile_match.rs::compile_rows`, tied to the Rust on every
run by `gomlmodel c06`).  Meaning of the source patterns: `firstMatch` / `matchPat`.  Meaning of the
decision tree: `DT.eval`, embedded into `Sem.eval` by `toExpr_sem`.

The theorems quantify over ALL pattern matrices the compiler accepts (wildcards, variables, unit /
bool / integer / string literals, tuples, structs, enum constructors incl. generic enums, nested to
any depth), all arm bodies (`β` is a type parameter) and all scrutinee values of the right shape.
No pattern form is excluded; what is assumed is stated as hypotheses:

* `hinj`   the gensym never returns the same name twice (`x{n}`);
* `hfresh` names the gensym can still return are not variables the matrix tests
           (C19's "no source entity is spelled like a temporary");
* `hconf`  every tested variable holds a value of the shape its patterns assume (a value of the
           scrutinee's type; `conf` is decidable and evaluated on every generated value by the driver);
* `hleaves` no pattern variable is spelled like a column variable (`leavesOK`, decidable on the
           output, evaluated on every real tree by the driver).
-/
namespace Goml.Match
open Goml Goml.Sem

variable {β : Type}

/-- **Main theorem.**  Whenever `compile_rows` produces a tree (no panic, no diagnostic), running
    the tree on ANY environment of the right shape reaches exactly the body of the first row all of
    whose patterns match, in the environment extended by generated temporaries and by exactly that
    row's bindings; if no row matches it reaches the `missing` failure. -/
theorem compileRows_correct (S : Sig) (hinj : ∀ i j, S.gen i = S.gen j → i = j)
    (fuel : Nat) (ty : Ty) (n : Nat) (rows : List (Row β)) (t : DT β) (n' : Nat)
    (hc : compileRows S fuel ty n rows = some (.ok (t, n')))
    (hleaves : leavesOK t = true) (ρ : Env)
    (hfresh : ∀ r ∈ rows, RowFresh S.gen n r) (hconf : ∀ r ∈ rows, RowConf S ρ r) :
    match firstMatch ρ rows with
    | none => t.eval ρ = .missing
    | some (b, σ) => ∃ σ' τ, t.eval ρ = .body b (σ' ++ τ ++ ρ) ∧ (∀ x, x ∈ σ' ↔ x ∈ σ) ∧
        (∀ p ∈ τ, ∃ j, n ≤ j ∧ j < n' ∧ p.1 = S.gen j) :=
  (compileRows_good S hinj fuel ty n rows t n' hc).2 hleaves ρ (fun r hr => ⟨hfresh r hr, hconf r hr⟩)

/-- the gensym counter only grows -/
theorem compileRows_counter (S : Sig) (hinj : ∀ i j, S.gen i = S.gen j → i = j)
    (fuel : Nat) (ty : Ty) (n : Nat) (rows : List (Row β)) (t : DT β) (n' : Nat)
    (hc : compileRows S fuel ty n rows = some (.ok (t, n'))) : n ≤ n' :=
  (compileRows_good S hinj fuel ty n rows t n' hc).1

/-- what `firstMatch` returns: the first row (in source order) that matches -/
theorem firstMatch_spec (ρ : Env) : ∀ (rows : List (Row β)) (b : β) (σ : List (String × Val)),
    firstMatch ρ rows = some (b, σ) →
    ∃ i r, rows[i]? = some r ∧ r.body = b ∧ rowMatch ρ r = some σ ∧
      ∀ (j : Nat) (r' : Row β), j < i → rows[j]? = some r' → rowMatch ρ r' = none := by
  intro rows
  induction rows with
  | nil => intro b σ h; simp [firstMatch] at h
  | cons r rs ih =>
    intro b σ h
    simp only [firstMatch] at h
    split at h
    · rename_i σ0 h0
      cases h
      exact ⟨0, r, rfl, rfl, h0, fun j r' hj _ => absurd hj (Nat.not_lt_zero _)⟩
    · rename_i h0
      obtain ⟨i, r1, h1, h2, h3, h4⟩ := ih b σ h
      refine ⟨i + 1, r1, by simpa using h1, h2, h3, ?_⟩
      intro j r' hj hr'
      cases j with
      | zero => simp only [List.getElem?_cons_zero, Option.some.injEq] at hr'; rw [← hr']; exact h0
      | succ j => exact h4 j r' (by omega) (by simpa using hr')

/-- **No other arm runs**: the one body the tree reaches belongs to a row that matches, and no
    earlier row matches.  (`DT.eval` is a function: exactly one leaf is reached.) -/
theorem no_other_arm_runs (S : Sig) (hinj : ∀ i j, S.gen i = S.gen j → i = j)
    (fuel : Nat) (ty : Ty) (n : Nat) (rows : List (Row β)) (t : DT β) (n' : Nat)
    (hc : compileRows S fuel ty n rows = some (.ok (t, n')))
    (hleaves : leavesOK t = true) (ρ : Env)
    (hfresh : ∀ r ∈ rows, RowFresh S.gen n r) (hconf : ∀ r ∈ rows, RowConf S ρ r)
    (b : β) (ρ₂ : Env) (he : t.eval ρ = .body b ρ₂) :
    ∃ i r, rows[i]? = some r ∧ r.body = b ∧ (rowMatch ρ r).isSome = true ∧
      ∀ (j : Nat) (r' : Row β), j < i → rows[j]? = some r' → rowMatch ρ r' = none := by
  have h := compileRows_correct S hinj fuel ty n rows t n' hc hleaves ρ hfresh hconf
  cases hf : firstMatch ρ rows with
  | none => rw [hf] at h; simp only at h; rw [h] at he; cases he
  | some x =>
    obtain ⟨b', σ⟩ := x
    rw [hf] at h
    obtain ⟨σ', τ, e, _, _⟩ := h
    rw [e] at he
    cases he
    obtain ⟨i, r, h1, h2, h3, h4⟩ := firstMatch_spec ρ rows _ σ hf
    exact ⟨i, r, h1, h2, by simp [h3], h4⟩

/-- **No match ⇒ fails at that point**: if no row matches, the tree reaches `missing`
    (the call to the runtime's `missing`, which panics), never a body. -/
theorem no_match_fails (S : Sig) (hinj : ∀ i j, S.gen i = S.gen j → i = j)
    (fuel : Nat) (ty : Ty) (n : Nat) (rows : List (Row β)) (t : DT β) (n' : Nat)
    (hc : compileRows S fuel ty n rows = some (.ok (t, n')))
    (hleaves : leavesOK t = true) (ρ : Env)
    (hfresh : ∀ r ∈ rows, RowFresh S.gen n r) (hconf : ∀ r ∈ rows, RowConf S ρ r)
    (hnone : ∀ r ∈ rows, rowMatch ρ r = none) : t.eval ρ = .missing := by
  have h := compileRows_correct S hinj fuel ty n rows t n' hc hleaves ρ hfresh hconf
  have hf : firstMatch ρ rows = none := by
    clear h hc hfresh hconf
    induction rows with
    | nil => rfl
    | cons r rs ih =>
      simp only [firstMatch, hnone r (by simp)]
      exact ih (fun q hq => hnone q (by simp [hq]))
  rw [hf] at h
  exact h

/-- **Bindings are right**: in the environment the selected body runs in, every pattern variable of
    the selected row is bound to the corresponding component of the scrutinee (`σ` is computed by
    `matchPat` from the source pattern and the value), and every other name that is not a generated
    temporary means what it meant before the match. -/
theorem bindings_correct (S : Sig) (hinj : ∀ i j, S.gen i = S.gen j → i = j)
    (fuel : Nat) (ty : Ty) (n : Nat) (rows : List (Row β)) (t : DT β) (n' : Nat)
    (hc : compileRows S fuel ty n rows = some (.ok (t, n')))
    (hleaves : leavesOK t = true) (ρ : Env)
    (hfresh : ∀ r ∈ rows, RowFresh S.gen n r) (hconf : ∀ r ∈ rows, RowConf S ρ r)
    (b : β) (σ : List (String × Val)) (hfm : firstMatch ρ rows = some (b, σ))
    (hnd : (σ.map (·.1)).Nodup) :
    ∃ ρ₂, t.eval ρ = .body b ρ₂ ∧ (∀ a v, (a, v) ∈ σ → lookupEnv ρ₂ a = some v) ∧
      (∀ y, y ∉ σ.map (·.1) → (∀ j, n ≤ j → j < n' → y ≠ S.gen j) → lookupEnv ρ₂ y = lookupEnv ρ y) := by
  have h := compileRows_correct S hinj fuel ty n rows t n' hc hleaves ρ hfresh hconf
  rw [hfm] at h
  obtain ⟨σ', τ, e, hσ, hτ⟩ := h
  refine ⟨_, e, ?_, ?_⟩
  · intro a v hav
    obtain ⟨v', h1, h2⟩ := lookupEnv_append_of_mem σ' (τ ++ ρ) a ⟨v, (hσ _).mpr hav⟩
    rw [List.append_assoc, h2, nodup_keys_unique hnd hav ((hσ _).mp h1)]
  · intro y hy hgen
    rw [List.append_assoc, lookupEnv_append_notin, lookupEnv_append_notin]
    · intro p hp heq
      obtain ⟨j, h1, h2, h3⟩ := hτ p hp
      exact hgen j h1 h2 (heq.symm.trans h3)
    · intro p hp heq
      apply hy
      have := (hσ p).mp hp
      rw [← heq]
      exact List.mem_map_of_mem (f := (·.1)) this

/-! ## termination -/

/-- **`compile_rows` terminates**: with fuel above the pattern-size measure the model never runs
    out of fuel — every sub-matrix handed to a recursive call is strictly smaller (`plan_measure`:
    the branch variable is taken from row 0, whose tested pattern loses its head constructor or
    the row is dropped). -/
theorem compileRows_total (S : Sig) : ∀ (fuel : Nat) (ty : Ty) (n : Nat) (rows : List (Row β)),
    measure rows < fuel → compileRows S fuel ty n rows ≠ none := by
  intro fuel
  induction fuel with
  | zero => intro ty n rows h; omega
  | succ fuel ih =>
    intro ty n rows h
    have hm := measure_map_moveVars rows
    simp only [compileRows]
    split
    · simp
    · rename_i r0 rest heq
      rw [heq] at hm
      split
      · simp
      · split
        · simp
        · rename_i bvt hbvt
          obtain ⟨bv, bty⟩ := bvt
          obtain ⟨hb1, _⟩ := branchVar_spec hbvt
          split
          · simp
          · rename_i pl hpl
            have hlt := plan_measure S hpl hb1
            have := compileSeq_ne_none (rec := compileRows S fuel pl.subTy) pl.subs pl.n1
              (fun sub hsub m => ih pl.subTy m sub (by have := hlt sub hsub; omega))
            split
            · rename_i e; exact absurd e this
            · simp
            · simp

/-! ## integer literals without a catch-all are rejected -/

/-- **A literal-int match without catch-all is rejected**: when the branch variable is an integer
    and every row tests it against a literal (no row is a catch-all for it), `compile_rows` reports
    the non-exhaustive diagnostic instead of producing a tree. -/
theorem int_nonexhaustive_rejected (S : Sig) (fuel : Nat) (ty : Ty) (n : Nat) (rows : List (Row β))
    (r0 : Row β) (rest : List (Row β)) (hmv : rows.map moveVars = r0 :: rest)
    (hne : r0.cols.isEmpty = false) (bv : String) (b : Nat) (s : Bool)
    (hbv : branchVar (r0 :: rest) = some (bv, .int b s))
    (hall : ∀ r ∈ r0 :: rest, ∃ p t cs, removeCol bv r.cols = some (.prim p t, cs) ∧ isIntP b s p = true) :
    compileRows S (fuel + 1) ty n rows = some (.error (.nonExhaustiveInt (.int b s))) := by
  obtain ⟨keys, hk⟩ := litKeys_ok_of_all (r0 :: rest) hall
  have hd := specDflt_all_drop (r0 :: rest) hall
  simp only [compileRows, hmv, hne, Bool.false_eq_true, if_false, hbv, plan, kindOf, hk, hd]

/-! ## the scrutinee is evaluated once -/

/-- **Scrutinee once**: a `match` on a non-variable scrutinee compiles to `let mtmp = e in tree`;
    `e` is evaluated exactly once, its value is bound to the temporary, and the tree only looks
    variables up (`toExpr_sem`: the tree's evaluation is `DT.eval`, which never evaluates `e`). -/
theorem scrutinee_once (S : Sig) (fuel : Nat) (ty : Ty) (mtmp : String) (n : Nat) (e : Expr)
    (arms : List (ArmIn Expr)) (out : Expr) (n' : Nat)
    (h : compileMatch S fuel ty mtmp n (.other e) arms = some (.ok (out, n'))) :
    ∃ t, compileRows S fuel ty n (makeRows mtmp arms) = some (.ok (t, n')) ∧ out = .letE mtmp e t.toExpr ∧
      ∀ f P ρ w, Sem.eval (f + 1) P ρ w out =
        bindR (Sem.eval f P ρ w e) (fun v w' => Sem.eval f P ((mtmp, v) :: ρ) w' t.toExpr) := by
  simp only [compileMatch] at h
  split at h
  · cases h
  · cases h
  · rename_i r hr
    cases h
    exact ⟨r.1, hr, rfl, fun f P ρ w => eval_letE f P ρ w mtmp e r.1.toExpr⟩

/-- a `match` on a variable introduces no temporary at all -/
theorem scrutinee_var (S : Sig) (fuel : Nat) (ty : Ty) (mtmp : String) (n : Nat) (x : String)
    (arms : List (ArmIn Expr)) (out : Expr) (n' : Nat)
    (h : compileMatch S fuel ty mtmp n (.var x) arms = some (.ok (out, n'))) :
    ∃ t, compileRows S fuel ty n (makeRows x arms) = some (.ok (t, n')) ∧ out = t.toExpr := by
  simp only [compileMatch] at h
  split at h
  · cases h
  · cases h
  · rename_i r hr
    cases h
    exact ⟨r.1, hr, rfl⟩

/-! ## the same statement against `Sem.eval` -/

/-- **Main theorem against `Sem`**: the Core expression built for the matrix, run by `Sem.eval`, is
    the body of the first matching row run by `Sem.eval` in the environment extended with that
    row's bindings (with the fuel that is left: `DT.cost` is the length of the path through the
    tree); when no row matches it is the `missing` panic.  `hP`/`hρ`/`hm`: nothing the program
    defines or binds is called `missing` (the runtime function the compiler calls). -/
theorem compileRows_correct_sem (S : Sig) (hinj : ∀ i j, S.gen i = S.gen j → i = j)
    (fuel : Nat) (ty : Ty) (n : Nat) (rows : List (Row Expr)) (t : DT Expr) (n' : Nat)
    (hc : compileRows S fuel ty n rows = some (.ok (t, n')))
    (hleaves : leavesOK t = true) (ρ : Env)
    (hfresh : ∀ r ∈ rows, RowFresh S.gen n r) (hconf : ∀ r ∈ rows, RowConf S ρ r)
    (P : Prog) (hP : P.findFn "missing" = none) (hm : t.noBind "missing" = true)
    (hρ : lookupEnv ρ "missing" = none) (w : World) (f : Nat) (hf : 2 ≤ f) :
    match firstMatch ρ rows with
    | none => Sem.eval (f + t.cost ρ) P ρ w t.toExpr = .fail (.panic "missing") w
    | some (b, σ) => ∃ σ' τ,
        Sem.eval (f + t.cost ρ) P ρ w t.toExpr = Sem.eval f P (σ' ++ τ ++ ρ) w b ∧
        (∀ x, x ∈ σ' ↔ x ∈ σ) ∧ (∀ p ∈ τ, ∃ j, n ≤ j ∧ j < n' ∧ p.1 = S.gen j) := by
  have h := compileRows_correct S hinj fuel ty n rows t n' hc hleaves ρ hfresh hconf
  have hs := toExpr_sem P hP w t ρ f hf hm hρ
  cases hfm : firstMatch ρ rows with
  | none =>
    rw [hfm] at h
    simp only at h ⊢
    rw [hs, h]; rfl
  | some x =>
    obtain ⟨b, σ⟩ := x
    rw [hfm] at h
    obtain ⟨σ', τ, e, h1, h2⟩ := h
    exact ⟨σ', τ, by rw [hs, e]; rfl, h1, h2⟩

/-! ## the real gensym -/

/-- `x{n}` never repeats (discharges `hinj` for the compiler's gensym) -/
theorem realGen_injective : ∀ i j, realGen i = realGen j → i = j := by
  intro i j h
  simp only [realGen] at h
  have h2 : toString i = toString j := by
    have := congrArg String.toList h
    simp only [String.toList_append, List.append_cancel_left_eq] at this
    exact String.toList_inj.mp this
  exact Nat.repr_injective h2

/-- a name that does not start with `x` is never generated (discharges `hfresh` for source locals,
    which are spelled `hint/index`, and for `mtmp{n}`) -/
theorem realGen_ne (j : Nat) (y : String) (c : Char) (s : List Char) (hy : y.toList = c :: s)
    (hc : c ≠ 'x') : realGen j ≠ y := by
  intro h
  have hs : (realGen j).toList = 'x' :: (toString j).toList := by simp [realGen, String.toList_append]
  rw [h, hy] at hs
  simp only [List.cons.injEq] at hs
  exact hc hs.1

/-! ## the output-side hypotheses follow from the input -/

/-- **`leavesOK` is a property of the input**: if a predicate `CV` holds of every variable the
    matrix tests and of every generated name, and of no pattern variable (source locals are
    `hint/index`, temporaries `x{n}` / `mtmp{n}`), no leaf of the tree rebinds a column variable. -/
theorem compileRows_leavesOK (S : Sig) (CV : String → Prop) (hgen : ∀ j, CV (S.gen j))
    (fuel : Nat) (ty : Ty) (n : Nat) (rows : List (Row β)) (t : DT β) (n' : Nat)
    (hc : compileRows S fuel ty n rows = some (.ok (t, n'))) (hsep : ∀ r ∈ rows, RowSep CV r) :
    leavesOK t = true :=
  compileRows_leaves S CV hgen fuel ty n rows t n' hc hsep

/-- the main theorem with hypotheses on the input only -/
theorem compileRows_correct_input (S : Sig) (hinj : ∀ i j, S.gen i = S.gen j → i = j)
    (CV : String → Prop) (hgen : ∀ j, CV (S.gen j))
    (fuel : Nat) (ty : Ty) (n : Nat) (rows : List (Row β)) (t : DT β) (n' : Nat)
    (hc : compileRows S fuel ty n rows = some (.ok (t, n'))) (ρ : Env)
    (hsep : ∀ r ∈ rows, RowSep CV r)
    (hfresh : ∀ r ∈ rows, RowFresh S.gen n r) (hconf : ∀ r ∈ rows, RowConf S ρ r) :
    match firstMatch ρ rows with
    | none => t.eval ρ = .missing
    | some (b, σ) => ∃ σ' τ, t.eval ρ = .body b (σ' ++ τ ++ ρ) ∧ (∀ x, x ∈ σ' ↔ x ∈ σ) ∧
        (∀ p ∈ τ, ∃ j, n ≤ j ∧ j < n' ∧ p.1 = S.gen j) :=
  compileRows_correct S hinj fuel ty n rows t n' hc
    (compileRows_leavesOK S CV hgen fuel ty n rows t n' hc hsep) ρ hfresh hconf

/-- the tree binds only generated names: it never shadows the runtime function `missing` -/
theorem compileRows_noBind_missing (S : Sig) (hy : ∀ j, S.gen j ≠ "missing")
    (fuel : Nat) (ty : Ty) (n : Nat) (rows : List (Row Expr)) (t : DT Expr) (n' : Nat)
    (hc : compileRows S fuel ty n rows = some (.ok (t, n'))) : t.noBind "missing" = true :=
  compileRows_noBind S "missing" hy fuel ty n rows t n' hc

theorem realGen_ne_missing (j : Nat) : realGen j ≠ "missing" :=
  realGen_ne j "missing" 'm' _ rfl (by decide)

/-! ## the statement for the compiler's own names -/

/-- source locals are spelled `hint/index` (hir), so they contain a `/` -/
def srcName (y : String) : Prop := '/' ∈ y.toList

/-- a name containing `/` is never generated: `x{n}` is `x` followed by decimal digits -/
theorem realGen_ne_src (j : Nat) (y : String) (hy : srcName y) : realGen j ≠ y := by
  intro h
  have hs : (realGen j).toList = 'x' :: (Nat.repr j).toList := by
    simp [realGen, String.toList_append, toString]
  rw [h] at hs
  unfold srcName at hy
  rw [hs] at hy
  rcases List.mem_cons.mp hy with h1 | h1
  · exact absurd h1 (by decide)
  · have := (String.isNat_iff.mp (Nat.isNat_repr j)).2.1 '/' h1
    rcases this with h2 | h2
    · exact absurd h2 (by decide)
    · exact absurd h2 (by decide)

/-- **C06 for a `match x { arms }` as the compiler sees it**: gensym `x{n}`, pattern variables
    spelled `hint/index`, scrutinee variable `x` a source local or `mtmp{n}`.  Every hypothesis is
    about the source program; the conclusion is first-match with the right bindings. -/
theorem match_correct_real (enums : List EnumDef) (structs : List StructDef) (x : String)
    (hx : srcName x ∨ ∃ c s, x.toList = c :: s ∧ c ≠ 'x') (arms : List (ArmIn β))
    (hnames : ∀ a ∈ arms, ∀ y ∈ a.pat.names, srcName y ∧ y ≠ x)
    (fuel : Nat) (ty : Ty) (n : Nat) (t : DT β) (n' : Nat)
    (hc : compileRows ⟨enums, structs, realGen⟩ fuel ty n (makeRows x arms) = some (.ok (t, n')))
    (ρ : Env) (hconf : ∀ a ∈ arms, conf ⟨enums, structs, realGen⟩ a.pat (lookupVar ρ x) = true) :
    match firstMatch ρ (makeRows x arms) with
    | none => t.eval ρ = .missing
    | some (b, σ) => ∃ σ' τ, t.eval ρ = .body b (σ' ++ τ ++ ρ) ∧ (∀ p, p ∈ σ' ↔ p ∈ σ) ∧
        (∀ p ∈ τ, ∃ j, n ≤ j ∧ j < n' ∧ p.1 = realGen j) := by
  have hxg : ∀ j, realGen j ≠ x := by
    intro j
    rcases hx with h | ⟨c, s, h1, h2⟩
    · exact realGen_ne_src j x h
    · exact realGen_ne j x c s h1 h2
  have hrows : ∀ r ∈ makeRows x arms, ∃ a ∈ arms, r = ⟨[(x, a.pat)], [], a.body, a.bodyTy⟩ := by
    intro r hr
    simp only [makeRows, List.mem_map] at hr
    obtain ⟨a, ha, rfl⟩ := hr
    exact ⟨a, ha, rfl⟩
  apply compileRows_correct_input ⟨enums, structs, realGen⟩ realGen_injective
    (fun y => y = x ∨ ∃ j, y = realGen j) (fun j => Or.inr ⟨j, rfl⟩) fuel ty n _ t n' hc ρ
  · intro r hr
    obtain ⟨a, ha, rfl⟩ := hrows r hr
    refine ⟨?_, fun b hb => by cases hb⟩
    intro c hc'
    simp only [List.mem_singleton] at hc'
    subst hc'
    refine ⟨Or.inl rfl, ?_⟩
    intro y hy hcv
    obtain ⟨h1, h2⟩ := hnames a ha y hy
    rcases hcv with h | ⟨j, h⟩
    · exact h2 h
    · exact realGen_ne_src j y h1 h.symm
  · intro r hr
    obtain ⟨a, ha, rfl⟩ := hrows r hr
    refine ⟨?_, fun b hb => by cases hb⟩
    intro c hc' j _
    simp only [List.mem_singleton] at hc'
    subst hc'
    exact hxg j
  · intro r hr
    obtain ⟨a, ha, rfl⟩ := hrows r hr
    intro c hc'
    simp only [List.mem_singleton] at hc'
    subst hc'
    exact hconf a ha

/-! ## non-vacuity: matrices of corpus programs 007 and 051 -/

section Examples

def tyE : Ty := .enum "Expr"
def sig007 : Sig :=
  { enums := [{ name := "Expr", generics := [],
                variants := [("Zero", []), ("Succ", [tyE]), ("Add", [tyE, tyE]), ("Mul", [tyE, tyE])] }],
    structs := [], gen := realGen }
def zeroP : Pat := .constr (.enum "Expr" "Zero" 0) [] tyE
def succP (p : Pat) : Pat := .constr (.enum "Expr" "Succ" 1) [p] tyE
def addP (p q : Pat) : Pat := .constr (.enum "Expr" "Add" 2) [p, q] tyE
def mulP (p q : Pat) : Pat := .constr (.enum "Expr" "Mul" 3) [p, q] tyE
def pv (x : String) : Pat := .var x tyE
/-- the seven arms of `007_expr_pattern_matching`; the body of arm `i` is `i` -/
def rows007 : List (Row Nat) :=
  [addP zeroP zeroP, mulP zeroP (pv "x/1"), addP (succP (pv "x/2")) (pv "y/3"), mulP (pv "x/4") zeroP,
   mulP (addP (pv "x/5") (pv "y/6")) (pv "z/7"), addP (pv "x/8") zeroP, pv "x/9"].zipIdx.map
    (fun (p, i) => ⟨[("a/0", p)], [], i, .unit⟩)
def zeroV : Val := .enumV "Expr" 0 []
/-- `let a = Mul(Add(Zero,Zero),Zero)` -/
def ρ007 : Env := [("a/0", .enumV "Expr" 3 [.enumV "Expr" 2 [zeroV, zeroV], zeroV])]

/-- all hypotheses of `compileRows_correct` hold for the matrix of 007 and the value the program
    matches on, and the theorem then says the tree reaches arm 3 (`Mul(x,Zero)`, the program prints 3) -/
example : ∃ t n', compileRows sig007 (measure rows007 + 1) .unit 0 rows007 = some (.ok (t, n')) ∧
    ∃ ρ₂, t.eval ρ007 = .body 3 ρ₂ ∧ lookupEnv ρ₂ "x/4" = some (.enumV "Expr" 2 [zeroV, zeroV]) := by
  obtain ⟨t, n', hc, hl⟩ := okTree_elim
    (show okTree (compileRows sig007 (measure rows007 + 1) .unit 0 rows007) = true by decide +kernel)
  refine ⟨t, n', hc, ?_⟩
  have hfresh : ∀ r ∈ rows007, RowFresh sig007.gen 0 r :=
    fresh_of_freshB (x := "a/0") (by decide +kernel) (fun j => realGen_ne j "a/0" 'a' _ rfl (by decide))
  have hconf : ∀ r ∈ rows007, RowConf sig007 ρ007 r := by unfold RowConf; decide +kernel
  have hfm : ∃ σ, firstMatch ρ007 rows007 = some (3, σ) ∧ σ = [("x/4", .enumV "Expr" 2 [zeroV, zeroV])] :=
    ⟨_, rfl, rfl⟩
  obtain ⟨σ, hfm, hσ⟩ := hfm
  obtain ⟨ρ₂, h1, h2, _⟩ := bindings_correct sig007 realGen_injective _ _ _ _ t n' hc hl ρ007 hfresh hconf 3 σ hfm
    (by rw [hσ]; decide)
  exact ⟨ρ₂, h1, h2 _ _ (by rw [hσ]; simp)⟩

def arms007 : List (ArmIn Nat) :=
  [addP zeroP zeroP, mulP zeroP (pv "x/1"), addP (succP (pv "x/2")) (pv "y/3"), mulP (pv "x/4") zeroP,
   mulP (addP (pv "x/5") (pv "y/6")) (pv "z/7"), addP (pv "x/8") zeroP, pv "x/9"].zipIdx.map
    (fun (p, i) => ⟨p, i, .unit⟩)

def namesOK (x : String) (arms : List (ArmIn Nat)) : Bool :=
  arms.all (fun a => a.pat.names.all (fun y => decide ('/' ∈ y.toList) && decide (y ≠ x)))

/-- `match_correct_real` applies to 007 as the compiler sees it (names `a/0`, `x/1`, …): its
    hypotheses are satisfiable, and it yields arm 3 for `Mul(Add(Zero,Zero),Zero)` -/
example : ∃ t n', compileRows ⟨sig007.enums, [], realGen⟩ 30 .unit 0 (makeRows "a/0" arms007) = some (.ok (t, n')) ∧
    ∃ ρ₂, t.eval ρ007 = .body 3 ρ₂ := by
  obtain ⟨t, n', hc, _⟩ := okTree_elim
    (show okTree (compileRows ⟨sig007.enums, [], realGen⟩ 30 .unit 0 (makeRows "a/0" arms007)) = true by decide +kernel)
  refine ⟨t, n', hc, ?_⟩
  have hn : namesOK "a/0" arms007 = true := by decide +kernel
  have h := match_correct_real sig007.enums [] "a/0" (Or.inl (by unfold srcName; decide)) arms007
    (by
      intro a ha y hy
      simp only [namesOK, List.all_eq_true, Bool.and_eq_true, decide_eq_true_eq] at hn
      exact hn a ha y hy)
    30 .unit 0 t n' hc ρ007 (by decide +kernel)
  have hfm : ∃ σ, firstMatch ρ007 (makeRows "a/0" arms007) = some (3, σ) := ⟨_, rfl⟩
  obtain ⟨σ, hfm⟩ := hfm
  rw [hfm] at h
  obtain ⟨σ', τ, e, _, _⟩ := h
  exact ⟨_, e⟩

/-- `051_int_pattern_matching::is_special8`: `5i8 => …, 7i8 => …, _ => …` -/
def rows051 : List (Row Nat) :=
  [⟨[("value/0", .prim (.int 8 true 5) (.int 8 true))], [], 0, .bool⟩,
   ⟨[("value/0", .prim (.int 8 true 7) (.int 8 true))], [], 1, .bool⟩,
   ⟨[("value/0", .wild (.int 8 true))], [], 2, .bool⟩]
def sig051 : Sig :=
  { enums := [], structs := [{ name := "PairData", generics := [], fields := [("head", .int 32 true), ("tail", .int 64 true)] }],
    gen := realGen }

example : okTree (compileRows sig051 (measure rows051 + 1) .bool 0 rows051) = true := by decide +kernel

def row051a : Row Nat := ⟨[("value/0", .prim (.int 8 true 5) (.int 8 true))], [], 0, .bool⟩
def row051b : Row Nat := ⟨[("value/0", .prim (.int 8 true 7) (.int 8 true))], [], 1, .bool⟩

/-- the same match without its `_` arm is rejected (`int_nonexhaustive_rejected` is not vacuous) -/
example : compileRows sig051 5 .bool 0 [row051a, row051b] = some (.error (.nonExhaustiveInt (.int 8 true))) := by
  apply int_nonexhaustive_rejected sig051 4 .bool 0 [row051a, row051b] row051a [row051b] rfl rfl "value/0" 8 true rfl
  intro r hr
  simp only [List.mem_cons, List.not_mem_nil, or_false] at hr
  rcases hr with rfl | rfl
  · exact ⟨_, _, _, rfl, rfl⟩
  · exact ⟨_, _, _, rfl, rfl⟩

/-- `051::match_struct`: `PairData{head:100,tail:200} => …, PairData{head:_,tail:300} => …, _ => …` -/
def pairTy : Ty := .struct "PairData"
def rows051s : List (Row Nat) :=
  [⟨[("pair/0", .constr (.struct "PairData") [.prim (.int 32 true 100) (.int 32 true), .prim (.int 64 true 200) (.int 64 true)] pairTy)], [], 0, .bool⟩,
   ⟨[("pair/0", .constr (.struct "PairData") [.wild (.int 32 true), .prim (.int 64 true 300) (.int 64 true)] pairTy)], [], 1, .bool⟩,
   ⟨[("pair/0", .wild pairTy)], [], 2, .bool⟩]
def ρ051 : Env := [("pair/0", .structV "PairData" [.int 32 true 10, .int 64 true 300])]

/-- `match_struct(PairData{head:10,tail:300})` selects the second arm -/
example : ∃ t n', compileRows sig051 (measure rows051s + 1) .bool 0 rows051s = some (.ok (t, n')) ∧
    ∃ ρ₂, t.eval ρ051 = .body 1 ρ₂ := by
  obtain ⟨t, n', hc, hl⟩ := okTree_elim
    (show okTree (compileRows sig051 (measure rows051s + 1) .bool 0 rows051s) = true by decide +kernel)
  refine ⟨t, n', hc, ?_⟩
  have hfresh : ∀ r ∈ rows051s, RowFresh sig051.gen 0 r :=
    fresh_of_freshB (x := "pair/0") (by decide +kernel) (fun j => realGen_ne j "pair/0" 'p' _ rfl (by decide))
  have hconf : ∀ r ∈ rows051s, RowConf sig051 ρ051 r := by unfold RowConf; decide +kernel
  obtain ⟨ρ₂, h1, _⟩ := bindings_correct sig051 realGen_injective _ _ _ _ t n' hc hl ρ051 hfresh hconf 1 []
    rfl (by decide)
  exact ⟨ρ₂, h1⟩

/-- `compileRows_total` on 007: the fuel the driver passes is enough -/
example : compileRows sig007 (measure rows007 + 1) .unit 0 rows007 ≠ none :=
  compileRows_total sig007 _ _ _ _ (Nat.lt_succ_self _)

end Examples

end Goml.Match
