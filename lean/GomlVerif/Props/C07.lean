import GomlVerif.Lemmas.MonoSem
import GomlVerif.Lemmas.MonoKey
/-!
# C07 — generic code behaves identically at every instantiation and is fully specialised

Property theorems only.  `Goml.Mono.*` (Model/Mono.lean) is the model of `mono.rs`, tied to the Rust
by the correspondence run of `./check C07` (model on the real Core dump = real Mono dump).
Helper lemmas live in `Lemmas/Mono*.lean`.
-/
namespace Goml.Mono
open Goml Goml.Closed Goml.Sem

/-! ## P1 — `unify(template, actual)` computes a substitution that instantiates the template -/

/-- If `unify` succeeds, the substitution it returns (and every extension of it) maps the template
to the actual type, and it only adds bindings.  Covers every constructor `mono::unify` handles
(primitives, tuples, enums, structs, `dyn`, applications, arrays, `Vec`, `Ref`, functions, parameters). -/
theorem unify_sound (t a : Ty) (σ σ' : Subst) (h : unify t a σ = some σ') :
    Extends σ σ' ∧ ∀ σ'', Extends σ' σ'' → substTy σ'' t = a :=
  unify_sound_aux t a σ σ' h

/-- the form used at a call site: starting from the empty substitution -/
theorem unify_sound_call (t a : Ty) (σ : Subst) (h : unify t a [] = some σ) : substTy σ t = a :=
  (unify_sound t a [] σ h).2 σ (Extends.refl σ)

/-- `unify` binds every type parameter of the template -/
theorem unify_binds (t a : Ty) (σ σ' : Subst) (h : unify t a σ = some σ') :
    ∀ x ∈ fvT t, (lookup σ' x).isSome = true :=
  unify_dom_aux t a σ σ' h

/-- the structural equality used for "conflicting bindings" is equality -/
theorem tyBeq_eq (a b : Ty) : tyBeq a b = true ↔ a = b := tyBeq_iff a b

-- non-vacuity and the failure cases
example : unify (.func [.vec (.param "T"), .dyn "Show"] (.param "T")) (.func [.vec (.int 32 true), .dyn "Show"] (.int 32 true)) []
    = some [("T", .int 32 true)] := by rfl
example : unify (.tuple [.param "T", .param "T"]) (.tuple [.int 32 true, .bool]) [] = none := by rfl   -- conflicting bindings
example : unify (.array 2 (.param "T")) (.array 3 .bool) [] = none := by rfl                           -- array length mismatch
example : unify (.enum "A") (.enum "B") [] = none := by rfl                                            -- constructor mismatch
example : unify (.dyn "Show") (.dyn "Debug") [] = none := by rfl                                       -- trait object mismatch
example : unify (.tvar 0) (.tvar 0) [] = none := by rfl                                                -- inference variables are not unified
example : unify (.tuple [.param "A"]) (.tuple [.bool, .bool]) [] = none := by rfl                      -- tuple length mismatch

/-! ## P2 — substitution by a closed, covering substitution leaves no type parameter -/

/-- `fvT t ⊆ dom σ` and every value of `σ` parameter-free ⇒ `substTy σ t` contains no `TParam` -/
theorem subst_closed (σ : Subst) (t : Ty) (hd : ∀ x ∈ fvT t, (lookup σ x).isSome = true) (hc : ClosedSubst σ) :
    noParam (substTy σ t) = true :=
  subst_closed_aux σ hc t hd

example : noParam (substTy [("T", .int 32 true), ("U", .vec .bool)] (.func [.param "T"] (.app (.enum "Opt") [.param "U"]))) = true := by
  decide
-- not covered: the parameter survives
example : noParam (substTy [("T", .int 32 true)] (.vec (.param "U"))) = false := by decide

/-! ## P3 — every instance is generated exactly once; work list and instance table stay in step -/

/-- Invariant of the work list at every iteration (`Inv`): the instance keys `(function, SubstKey)`
are pairwise distinct, `queued` is exactly the set of instance keys, and the names of the functions
already emitted followed by the names waiting in the work list are exactly the instance names, in
order — so instances, and emitted ∪ pending functions, are in bijection. -/
theorem worklist_bijection (F : List Fn) :
    LoopInv F (seed F) ∧ ∀ c c', LoopInv F c → step F c = some c' → LoopInv F c' :=
  ⟨seed_inv F, fun _ _ h hs => step_inv h hs⟩

/-- When `mono` returns: nothing is pending, the instance keys are pairwise distinct, and the emitted
functions are — one for one and in order — the instances: at most one output function per
`(original function, SubstKey)`, and every instance that was ever requested has been emitted. -/
theorem instances_unique (fns : List Fn) (fuel : Nat) (c : Ctx) (h : phase1 fuel fns = some c) :
    c.work = [] ∧ (c.instances.map instKey).Nodup ∧ c.queued = c.instances.map instKey ∧
    c.out.map (·.name) = c.instances.map (·.spec) := by
  obtain ⟨hl, hw⟩ := loop_inv fuel _ c (seed_inv (origFns fns)) h
  refine ⟨hw, hl.inv.nodup, hl.inv.queued, ?_⟩
  have := hl.inv.specs
  rw [hw] at this
  simpa using this.symm

/-- the emitted expression and the requested instances do not depend on the state of the instance
table: `mono_expr` is the pure `monoE` plus a fold of `ensure_instance` over its requests -/
theorem monoExpr_is_pure (F : List Fn) (σ : Subst) (e : Expr) (c : Ctx) (h : InstNamed c) :
    monoExpr F σ e c = ((monoE F σ e).1, applyEffs c (monoE F σ e).2) :=
  monoExpr_pure F σ e c h

/-- the name of an instance is a function of its key (so "same key ⇒ same name" needs no table) -/
theorem instance_name_of_key (n : String) (s s' : Subst) (h : key s = key s') : specName n s = specName n s' :=
  specName_key h

/-! ### one instance, however its bindings were found

Two requests are the same instance when their `SubstKey`s are equal.  A request builds its substitution by
unifying the parts of the callee's signature with the use site, so the ORDER of the entries depends on the
route (a call unifies parameters then result; a function value could do it the other way round; nested
requests see the parameters in the order of the enclosing signature).  The key must not depend on it. -/

/-- the model's `key` is `SubstKey::new` of the source as it is now (`sourceKey` is driven by the regenerated
`Gen.substKeyOrder`: this stops being `rfl` when mono.rs no longer sorts the entries) -/
theorem key_is_source_key : key = sourceKey := rfl

/-- the model's two request routes (`resolveCall`, `specializeValue`) unify the parts of the signature in the
order the source does (regenerated `Gen.callUnifyOrder` / `Gen.valueUnifyOrder`) -/
theorem request_orders_are_source_orders :
    Gen.callUnifyOrder = [.params, .ret] ∧ Gen.valueUnifyOrder = [.params, .ret] := by decide

/-- `SubstKey::new` of the source is insensitive to the order in which the bindings were inserted: two
permutations of one set of bindings (distinct parameter names) have the same key -/
theorem key_order_irrelevant (σ σ' : Subst) (hp : σ.Perm σ') (hn : (σ.map (·.1)).Nodup) :
    sourceKey σ = sourceKey σ' := by
  rw [← key_is_source_key]; exact key_perm hp hn

/-- …hence every instance is requested ONCE whatever the routes: after `ensure_instance(n, σ)`, a request for
the same bindings found in another order returns the same name and changes nothing — no second entry in the
instance table, nothing queued, no work item (with `instances_unique`: one emitted function) -/
theorem same_instance_requested_once (c : Ctx) (n : String) (σ σ' : Subst) (hp : σ.Perm σ')
    (hn : (σ.map (·.1)).Nodup) : ensureInstance (ensureInstance c n σ).2 n σ' = ensureInstance c n σ :=
  ensureInstance_again c n σ σ' (key_perm hp hn)

-- non-vacuity: `fn swap[A, B](a: A, b: B) -> (B, A)` at (int32, string); parameters first, or the result first
example : (unifyList [.param "A", .param "B"] [.int 32 true, .string] []).bind
    (unify (.tuple [.param "B", .param "A"]) (.tuple [.string, .int 32 true])) = some [("A", .int 32 true), ("B", .string)] := by rfl
example : (unify (.tuple [.param "B", .param "A"]) (.tuple [.string, .int 32 true]) []).bind
    (unifyList [.param "A", .param "B"] [.int 32 true, .string]) = some [("B", .string), ("A", .int 32 true)] := by rfl
example : key [("A", .int 32 true), ("B", .string)] = key [("B", .string), ("A", .int 32 true)] :=
  key_perm (List.Perm.swap _ _ _) (by decide)
example : (ensureInstance (ensureInstance {} "swap" [("A", .int 32 true), ("B", .string)]).2 "swap" [("B", .string), ("A", .int 32 true)]).2.instances.length = 1 := by
  rw [same_instance_requested_once _ _ _ _ (List.Perm.swap _ _ _) (by decide)]; rfl

/-! ## P4 — no residue of type parameters -/

/-- What `mono_expr` emits for an expression all of whose annotations become parameter-free under
`σ` contains no type parameter (also in the function types it synthesises for resolved trait calls). -/
theorem monoExpr_no_param (F : List Fn) (σ : Subst) (e : Expr) (c : Ctx)
    (h : allTys (fun t => noParam (substTy σ t)) e = true) : allTys noParam (monoExpr F σ e c).1 = true :=
  monoExpr_closed F σ e c h

/-- `no_residue`, partial.  Every function `mono` emits is the specialisation `specialise F f σ _` of a
function of the program at a substitution whose values contain no type parameter (the guard
`call_subst.values().any(has_tparam)`), and whenever `σ` binds every parameter occurring in `f`
(`Covers σ f`) the emitted function contains no `TParam` at all.
Missing for the full statement: that `Covers` holds for every reachable instance.  It does when every
annotation of `f` only mentions parameters of `f`'s signature and the call that requested the instance
passes as many arguments as `f` has parameters (`call_covers` below), and it does NOT for a type
parameter that occurs only in the body — the Rust then emits the parameter (known finding). -/
theorem no_residue_partial (fns : List Fn) (fuel : Nat) (c : Ctx) (h : phase1 fuel fns = some c) :
    ∀ g ∈ c.out, ∃ f σ c0, f ∈ origFns fns ∧ ClosedSubst σ ∧ g = specialise (origFns fns) f σ c0 ∧
      (Covers σ f → fnAllTys noParam g = true) := by
  have := (loop_workOk fuel _ c (seed_workOk (origFns fns)) h).2
  intro g hg
  obtain ⟨f, σ, c0, hf, hc, rfl⟩ := this g hg
  exact ⟨f, σ, c0, hf, hc, rfl, fun hv => specialise_closed _ f σ c0 hc hv⟩

/-- the substitution derived at a call that passes at least as many arguments as the callee has
parameters binds every parameter of the callee's signature -/
theorem call_covers (params args : List Ty) (ret nty : Ty) (s1 cs : Subst)
    (h1 : unifyList params args [] = some s1) (h2 : unify ret nty s1 = some cs) (hl : params.length ≤ args.length) :
    ∀ x ∈ fvTs params ++ fvT ret, (lookup cs x).isSome = true := by
  intro x hx
  simp only [List.mem_append] at hx
  have hlist : ∀ x ∈ fvTs params, (lookup s1 x).isSome = true := by
    have := unify_dom_aux (.tuple params) (.tuple args) [] s1
    intro x hx
    by_cases he : params.length = args.length
    · exact this (by simp [unify, he, h1]) x (by simpa [fvT] using hx)
    · exact unifyList_dom params args [] s1 h1 hl x hx
  rcases hx with hx | hx
  · exact isSome_of_extends (unify_sound ret nty s1 cs h2).1 (hlist x hx)
  · exact unify_binds ret nty s1 cs h2 x hx
where
  unifyList_dom : ∀ (ts as : List Ty) (σ σ' : Subst), unifyList ts as σ = some σ' → ts.length ≤ as.length →
      ∀ x ∈ fvTs ts, (lookup σ' x).isSome = true := by
    intro ts
    induction ts with
    | nil => intro as σ σ' _ _ x hx; simp [fvTs] at hx
    | cons t ts ih =>
      intro as σ σ' h hl x hx
      cases as with
      | nil => simp at hl
      | cons a as =>
        simp only [unifyList] at h
        cases h1 : unify t a σ with
        | none => simp [h1] at h
        | some σ1 =>
          simp only [h1] at h
          simp only [fvTs, List.mem_append] at hx
          simp at hl
          rcases hx with hx | hx
          · exact isSome_of_extends (unify_dom_aux.unify_sound_list_ext ts as σ1 σ' h) (unify_dom_aux t a σ σ1 h1 x hx)
          · exact ih as σ1 σ' h hl x hx


/-! ## P6 — behaviour: the specialised program computes what the generic one does -/

/-- `mono_preserves`, partial.  `P` is the Core program (`P.fns = F`), `P'` a program that contains, for
every instance `(f, σ)` of a universe `U`, the function `spec_name_for(f, σ)` with body `monoE F σ f.body`
(`Linked` — what `instances_unique`/`monoExpr_is_pure` say of the output of `mono`, plus distinct names).
Then for every expression of the fragment `FragE` — data, `let`, `if`, `match`, `while`, operators, direct
calls of builtins, of monomorphic functions and of generic functions (renamed to their instance) — and every
amount of fuel, evaluating the specialised expression in `P'` gives exactly the result (value, output,
store, failure, fuel exhaustion) of evaluating the generic expression in `P`: the instance
`specNameFor f σ` behaves as the generic body with `σ` applied, types being irrelevant to `Sem`.
Missing for the full statement: closures, `go`, `dyn`, calls through a local variable, generic functions
used as values (the two sides then compute values that differ in function names / closure bodies, so the
statement needs a value relation), trait-bounded calls (`traitcall_commutes` below), phase 2. -/
theorem mono_preserves_partial (F : List Fn) (isLocal : String → Bool) (U : String → Subst → Prop) (Ext : String → Prop)
    {P P' : Prog} (L : Linked F isLocal U Ext P P') (fuel : Nat) (σ : Subst) (e : Expr) (ρ : Env) (w : World)
    (hfr : FragE F isLocal U Ext σ e) (hρ : EnvLocal isLocal ρ) :
    eval fuel P' ρ w (monoE F σ e).1 = eval fuel P ρ w e :=
  (sim_all F isLocal U Ext L fuel).1 σ e ρ w hfr hρ

/-- calling the instance `specNameFor f σ` in the specialised program = calling `f` in the generic one -/
theorem instance_behaves_as_generic (F : List Fn) (isLocal : String → Bool) (U : String → Subst → Prop) (Ext : String → Prop)
    {P P' : Prog} (L : Linked F isLocal U Ext P P') (fuel : Nat) (f : Fn) (σ : Subst) (w : World) (vs : List Val)
    (hf : f ∈ F) (hff : findFn F f.name = some f) (hu : U f.name σ) :
    Sem.apply fuel P' w (.fn (specName f.name σ)) vs = Sem.apply fuel P w (.fn f.name) vs :=
  (sim_all F isLocal U Ext L fuel).2.2.2 f σ w vs hf hff hu

/-- whole programs: same outcome (stdout, way of ending, extern events) for every amount of fuel -/
theorem mono_preserves_run_partial (F : List Fn) (isLocal : String → Bool) (U : String → Subst → Prop) (Ext : String → Prop)
    {P P' : Prog} (L : Linked F isLocal U Ext P P') (fuel : Nat) (main : Fn)
    (hm : findFn F "main" = some main) (hg : fnIsGeneric main = false) :
    Sem.run fuel P' = Sem.run fuel P := by
  obtain ⟨hmem, hname⟩ := findFn_mem hm
  have := instance_behaves_as_generic F isLocal U Ext L fuel main [] { eager := true } []
    hmem (by rw [hname]; exact hm) (L.seeds main hmem hg)
  rw [specName_nil, hname] at this
  simp only [Sem.run, this]

/-- `traitcall_commutes`.  Core: `ETraitCall Tr::m(recv, args)` is dispatched by `Sem` on the runtime value
of the receiver.  Mono: the call is resolved statically to `trait_impl#Tr#τ#m`, `τ` the substituted
receiver type.  If the receiver's value has the key of `τ` (the runtime type is the static type) and the
impl table is coherent for `(Tr, τ, m)`, both apply the same function to the same arguments in the same
world (the direct call spends one more unit of fuel on evaluating the callee name). -/
theorem traitcall_commutes (P P' : Prog) (n : Nat) (ρ : Env) (w w1 w2 : World) (tr m : String) (ty nty fty τ : Ty)
    (recv recv' : Expr) (args args' : List Expr) (v : Val) (vs : List Val)
    (hr : eval n P ρ w recv = .ok v w1) (ha : evalList n P ρ w1 args = .ok vs w2)
    (hr' : eval n P' ρ w recv' = .ok v w1) (ha' : evalList n P' ρ w1 args' = .ok vs w2)
    (hk : valKey v = Sem.tyKey τ)
    (hcoh : P.impls.find? (fun i => i.1 == tr && i.2.1 == Sem.tyKey τ && i.2.2.1 == m) =
      some (tr, Sem.tyKey τ, m, traitImplFnName tr τ m))
    (hloc : lookupEnv ρ (traitImplFnName tr τ m) = none) :
    eval (n + 1) P ρ w (.traitCall tr m ty recv args) = Sem.apply n P w2 (.fn (traitImplFnName tr τ m)) (v :: vs) ∧
    eval (n + 2) P' ρ w (.call nty (.var (traitImplFnName tr τ m) fty) (recv' :: args')) =
      Sem.apply (n + 1) P' w2 (.fn (traitImplFnName tr τ m)) (v :: vs) := by
  constructor
  · rw [eval_traitCall P n ρ w w1 w2 tr m ty recv args v vs hr ha, hk, hcoh]
  · simp only [eval, hloc, evalList, hr', ha']

/-- the callee `mono_expr` writes for an `ETraitCall` is `trait_impl#Tr#τ#m` with `τ` the type of the
transformed receiver (so `traitcall_commutes` applies with that `τ`) -/
theorem traitcall_resolution (F : List Fn) (σ : Subst) (tr m : String) (ty : Ty) (recv : Expr) (args : List Expr) :
    ∃ fty, (monoE F σ (.traitCall tr m ty recv args)).1 =
      .call (substTy σ ty) (.var (traitImplFnName tr (getTy (monoE F σ recv).1) m) fty)
        ((monoE F σ recv).1 :: (monoEs F σ args).1) :=
  ⟨_, monoE_traitCall F σ tr m ty recv args⟩

/-! ## P5 — termination -/

/-- `mono_terminates`, partial: if the instances reachable from the seeds lie in a universe `U` that is
closed under the requests of its members and has finitely many keys (`S`), the work list empties
within `S.length` iterations.  Missing for the full statement ("for every accepted program"): such a
universe does not exist for polymorphic recursion (`polyrec_requests_grow`), and the Rust loops for ever there. -/
theorem mono_terminates_partial (fns : List Fn) (U : String → Subst → Prop) (S : List (String × List (String × Ty)))
    (hseed : ∀ f ∈ origFns fns, fnIsGeneric f = false → U f.name [])
    (hclosed : ∀ f ∈ origFns fns, ∀ σ, U f.name σ → ∀ r ∈ requests (origFns fns) f σ, U r.1 r.2)
    (hfin : ∀ n σ, U n σ → (n, key σ) ∈ S) :
    (phase1 S.length fns).isSome = true := by
  unfold phase1
  exact loop_terminates (origFns fns) U S hclosed hfin S.length _ (seed_inv _) (seed_inU _ U S hseed hfin) (by omega)

/-- a decidable sufficient condition for termination: an explicit list `L` of instances that contains
the seeds and is closed under requests (both checked by evaluation) -/
theorem mono_terminates_of_closed_list (fns : List Fn) (L : List (String × Subst))
    (hs : seedCheck (origFns fns) L = true) (hc : closedCheck (origFns fns) L = true) :
    (phase1 L.length fns).isSome = true := by
  have := mono_terminates_partial fns (fun n σ => (n, σ) ∈ L) (L.map fun p => (p.1, key p.2))
    (seedCheck_sound hs) (closedCheck_sound hc)
    (fun n σ h => List.mem_map.2 ⟨(n, σ), h, rfl⟩)
  simpa using this

/-! ## non-vacuity: excerpts of corpus programs 040 (`choose`), 066 (`impl[U, V] Point[U, V]`), 072 (trait-bounded `show_both`) -/

def i32 : Ty := .int 32 true
def pointOf (a b : Ty) : Ty := .app (.struct "Point") [a, b]
def lit (n : Int) : Expr := .prim (.int 32 true n)

/-- excerpt of corpus program 040: `fn choose[T](flag: bool, when_true: T, when_false: T) -> T` -/
def chooseFn : Fn :=
  { name := "choose", generics := [], params := [("flag/0", .bool), ("a/1", .param "T"), ("b/2", .param "T")], ret := .param "T",
    body := .ite (.var "flag/0" .bool) (.var "a/1" (.param "T")) (.var "b/2" (.param "T")) }
/-- excerpt of corpus program 072: `impl Display for int32`, `fn show_both[T: Debug + Display](x: T)` -/
def showI32 : Fn :=
  { name := "trait_impl#Display#int32#show", generics := [], params := [("self/0", i32)], ret := .string,
    body := .call .string (.var "int32_to_string" (.func [i32] .string)) [.var "self/0" i32] }
def showBoth : Fn :=
  { name := "show_both", generics := [], params := [("x/0", .param "T")], ret := .string,
    body := .traitCall "Display" "show" .string (.var "x/0" (.param "T")) [] }
/-- excerpt of corpus program 066: `impl[U, V] Point[U, V] { fn swap(self) -> Point[V, U] }` -/
def swapFn : Fn :=
  { name := "inherent#Point#Point[U,V]#swap", generics := ["U", "V"], params := [("self/0", pointOf (.param "U") (.param "V"))],
    ret := pointOf (.param "V") (.param "U"),
    body := .constr (.struct "Point") (pointOf (.param "V") (.param "U"))
      [.cget (.struct "Point") 1 (.param "V") (.var "self/0" (pointOf (.param "U") (.param "V"))),
       .cget (.struct "Point") 0 (.param "U") (.var "self/0" (pointOf (.param "U") (.param "V")))] }
def exMain : Fn :=
  { name := "main", generics := [], params := [], ret := .unit,
    body :=
      .letE "a/0" (.call i32 (.var "choose" (.func [.bool, i32, i32] i32)) [.prim (.bool true), lit 1, lit 2]) <|
      .letE "b/1" (.call .string (.var "choose" (.func [.bool, .string, .string] .string)) [.prim (.bool false), .prim (.str "x"), .prim (.str "y")]) <|
      .letE "c/2" (.call .string (.var "show_both" (.func [i32] .string))
          [.call i32 (.var "choose" (.func [.bool, i32, i32] i32)) [.prim (.bool false), lit 3, .var "a/0" i32]]) <|
      .letE "p/3" (.constr (.struct "Point") (pointOf i32 .string) [.var "a/0" i32, .var "b/1" .string]) <|
      .letE "q/4" (.call (pointOf .string i32) (.var "inherent#Point#Point[int32,string]#swap" (.func [pointOf i32 .string] (pointOf .string i32)))
          [.var "p/3" (pointOf i32 .string)]) <|
      .prim .unit }
def exProg : List Fn := [chooseFn, showI32, showBoth, swapFn, exMain]

def outNames (o : Option Ctx) : Option (List String) := o.map fun c => c.out.map (·.name)

example : outNames (phase1 20 exProg) =
    some ["trait_impl#Display#int32#show", "main", "choose__T_int32", "choose__T_string", "show_both__T_int32",
          "inherent#Point#Point[U,V]#swap__U_int32__V_string"] := by decide +kernel

example : ((phase1 20 exProg).map fun c => c.out.all (fnAllTys noParam)) = some true := by decide +kernel

def pointDef : StructDef := { name := "Point", generics := ["U", "V"], fields := [("x", .param "U"), ("y", .param "V")] }

example : ((mono 20 100 [] [pointDef] exProg).map fun o => (closedFns o.fns, o.monoStructs.map (·.name), o.err.isNone)) =
    some (true, ["Point__int32__string", "Point__string__int32"], true) := by decide +kernel

def exL : List (String × Subst) :=
  [("trait_impl#Display#int32#show", []), ("main", []), ("choose", [("T", i32)]), ("choose", [("T", .string)]),
   ("show_both", [("T", i32)]), ("inherent#Point#Point[U,V]#swap", [("U", i32), ("V", .string)])]

theorem exProg_orig : origFns exProg = exProg := by
  simp [origFns, exProg, insertFn, chooseFn, showI32, showBoth, swapFn, exMain]

example : closedCheck exProg exL = true ∧ seedCheck exProg exL = true := by decide +kernel

/-- the hypotheses of `mono_terminates_of_closed_list` hold for the excerpt (six instances) -/
example : (phase1 6 exProg).isSome = true :=
  mono_terminates_of_closed_list exProg exL (by rw [exProg_orig]; decide +kernel) (by rw [exProg_orig]; decide +kernel)

/-- `instances_unique` on the excerpt: the four generic instances, each once, under its own name -/
example : ∃ c, phase1 20 exProg = some c ∧ c.work = [] ∧ (c.instances.map instKey).Nodup ∧
    c.out.map (·.name) = c.instances.map (·.spec) := by
  cases h : phase1 20 exProg with
  | none => exact absurd h (by decide +kernel)
  | some c => obtain ⟨a, b, _, d⟩ := instances_unique exProg 20 c h; exact ⟨c, rfl, a, b, d⟩

/-! ## non-vacuity of `mono_preserves_partial`: the hypotheses hold for the `choose` excerpt and the model's own output -/

def mainC : Fn :=
  { name := "main", generics := [], params := [], ret := .unit,
    body :=
      .letE "a/0" (.call i32 (.var "choose" (.func [.bool, i32, i32] i32)) [.prim (.bool true), lit 1, lit 2]) <|
      .letE "b/1" (.call .string (.var "choose" (.func [.bool, .string, .string] .string)) [.prim (.bool false), .prim (.str "x"), .prim (.str "y")]) <|
      .call .unit (.var "string_println" (.func [.string] .unit)) [.var "b/1" .string] }
def progC : List Fn := [chooseFn, mainC]
def isLoc (s : String) : Bool := s.toList.contains '/'
def UC (n : String) (σ : Subst) : Prop := (n, σ) ∈ [("main", []), ("choose", [("T", i32)]), ("choose", [("T", Ty.string)])]
def ExtC (n : String) : Prop := n = "string_println"
def PC : Prog := { fns := progC }
def PC' : Prog := { fns := ((phase1 10 progC).map (·.out)).getD [] }

example : (PC'.fns.map (·.name)) = ["main", "choose__T_int32", "choose__T_string"] := by decide +kernel

theorem linkedC : Linked progC isLoc UC ExtC PC PC' := by
  refine ⟨rfl, ?_, ?_, ?_, ?_, ?_, ?_⟩
  · intro f σ hf hu
    simp only [progC, List.mem_cons, List.not_mem_nil, or_false] at hf
    simp only [UC, List.mem_cons, Prod.mk.injEq, List.not_mem_nil, or_false] at hu
    rcases hf with rfl | rfl
    · rcases hu with ⟨h, _⟩ | ⟨_, rfl⟩ | ⟨_, rfl⟩
      · exact absurd h (by decide)
      · rfl
      · rfl
    · rcases hu with ⟨_, rfl⟩ | ⟨h, _⟩ | ⟨h, _⟩
      · rfl
      · exact absurd h (by decide)
      · exact absurd h (by decide)
  · intro f σ hf hu
    simp only [progC, List.mem_cons, List.not_mem_nil, or_false] at hf
    simp only [UC, List.mem_cons, Prod.mk.injEq, List.not_mem_nil, or_false] at hu
    have hvar : ∀ (x : String) (t : Ty), isLoc x = true → specializeValueP progC x t = none := by
      intro x t hx
      have : findFn progC x = none := by
        simp only [findFn, progC, List.find?_cons, List.find?_nil, chooseFn, mainC]
        have h1 : ("choose" == x) = false := by
          rw [beq_eq_false_iff_ne]; rintro rfl; exact absurd hx (by decide)
        have h2 : ("main" == x) = false := by
          rw [beq_eq_false_iff_ne]; rintro rfl; exact absurd hx (by decide)
        simp [h1, h2]
      simp [specializeValueP, this]
    rcases hf with rfl | rfl
    · rcases hu with ⟨h, _⟩ | ⟨_, rfl⟩ | ⟨_, rfl⟩
      · exact absurd h (by decide)
      all_goals
        simp only [chooseFn, FragE]
        exact ⟨hvar _ _ (by decide), hvar _ _ (by decide), hvar _ _ (by decide)⟩
    · rcases hu with ⟨_, rfl⟩ | ⟨h, _⟩ | ⟨h, _⟩
      · simp only [mainC, lit, FragE, FragL, and_true, true_and]
        refine ⟨by decide, ⟨by decide, ?_⟩, by decide, ⟨by decide, ?_⟩, by decide, hvar _ _ (by decide), ?_⟩
        · exact Or.inr (Or.inr ⟨chooseFn, [("T", i32)], [("T", i32)], [("T", i32)], rfl, rfl, rfl, rfl, rfl,
            by simp [UC, chooseFn], rfl⟩)
        · exact Or.inr (Or.inr ⟨chooseFn, [("T", .string)], [("T", .string)], [("T", .string)], rfl, rfl, rfl, rfl, rfl,
            by simp [UC, chooseFn], rfl⟩)
        · exact Or.inl ⟨rfl, rfl⟩
      · exact absurd h (by decide)
      · exact absurd h (by decide)
  · intro f hf hg
    simp only [progC, List.mem_cons, List.not_mem_nil, or_false] at hf
    rcases hf with rfl | rfl
    · exact absurd hg (by decide)
    · simp [UC, mainC]
  · intro f hf p hp
    simp only [progC, List.mem_cons, List.not_mem_nil, or_false] at hf
    rcases hf with rfl | rfl
    · simp only [chooseFn, List.mem_cons, List.not_mem_nil, or_false] at hp
      rcases hp with rfl | rfl | rfl <;> decide
    · simp [mainC] at hp
  · intro n hn
    simp only [ExtC] at hn
    subst hn
    exact ⟨rfl, rfl⟩
  · intro f hf σ hu
    simp only [progC, List.mem_cons, List.not_mem_nil, or_false] at hf
    simp only [UC, List.mem_cons, Prod.mk.injEq, List.not_mem_nil, or_false] at hu
    rcases hf with rfl | rfl
    · rcases hu with ⟨h, _⟩ | ⟨_, rfl⟩ | ⟨_, rfl⟩
      · exact absurd h (by decide)
      · decide +kernel
      · decide +kernel
    · rcases hu with ⟨_, rfl⟩ | ⟨h, _⟩ | ⟨h, _⟩
      · decide +kernel
      · exact absurd h (by decide)
      · exact absurd h (by decide)

/-- the specialised excerpt prints what the generic one prints, for every amount of fuel -/
example (fuel : Nat) : Sem.run fuel PC' = Sem.run fuel PC :=
  mono_preserves_run_partial progC isLoc UC ExtC linkedC fuel mainC rfl rfl

example : (Sem.run 100 PC').out = "y\n" := by decide +kernel

/-! ## overlapping inherent impls: the exact impl keeps its calls -/

/-- With the lookup order of mono.rs (`Gen.calleeLookupOrder`, regenerated on every run): a callee whose name
is defined as Core spells it is that definition — the generic impl of the same base type and method is
consulted only for names that are not defined.  So `a.describe()` on `a : Cell[int32]`, which the typer
resolved to `impl Cell[int32]` and Core names `inherent#Cell#Cell[int32]#describe`, is never redirected
to an instance of `impl[T] Cell[T]`.  (If the order in mono.rs changes, the extractor refuses or this
theorem no longer checks.) -/
theorem exact_impl_wins (F : List Fn) (n : String) (f : Fn) (h : findFn F n = some f) : findCallee F n = some f :=
  findCallee_of_findFn h

def cellOf (t : Ty) : Ty := .app (.struct "Cell") [t]
/-- `impl[T] Cell[T] { fn describe(self) -> string { "cell" } }` -/
def describeGeneric : Fn :=
  { name := "inherent#Cell#Cell[T]#describe", generics := ["T"], params := [("self/0", cellOf (.param "T"))], ret := .string,
    body := .prim (.str "cell") }
/-- `impl Cell[int32] { fn describe(self) -> string { "int cell" } }` -/
def describeInt : Fn :=
  { name := "inherent#Cell#Cell[int32]#describe", generics := [], params := [("self/1", cellOf i32)], ret := .string,
    body := .prim (.str "int cell") }
def overlapMain : Fn :=
  { name := "main", generics := [], params := [], ret := .unit,
    body :=
      .letE "a/2" (.call .string (.var "inherent#Cell#Cell[int32]#describe" (.func [cellOf i32] .string))
          [.constr (.struct "Cell") (cellOf i32) [lit 7]]) <|
      .letE "b/3" (.call .string (.var "inherent#Cell#Cell[string]#describe" (.func [cellOf .string] .string))
          [.constr (.struct "Cell") (cellOf .string) [.prim (.str "s")]]) <|
      .prim .unit }
def overlapProg : List Fn := [describeGeneric, describeInt, overlapMain]

/-- the exact impl is emitted under its own name and called as such; only `Cell[string]` gets a generic instance -/
example : outNames (phase1 20 overlapProg) =
    some ["inherent#Cell#Cell[int32]#describe", "main", "inherent#Cell#Cell[T]#describe__T_string"] := by decide +kernel
example : (findCallee overlapProg "inherent#Cell#Cell[int32]#describe").map (·.name) = some "inherent#Cell#Cell[int32]#describe" := by
  decide +kernel
example : (findCallee overlapProg "inherent#Cell#Cell[string]#describe").map (·.name) = some "inherent#Cell#Cell[T]#describe" := by
  decide +kernel

/-! ## polymorphic recursion: no finite universe exists, and the loop does not end -/

def optOf (t : Ty) : Ty := .app (.enum "Opt") [t]

/-- `fn grow[T](x: T, n: int32) -> int32 { if n == 0 { 0 } else { grow(Opt::Som(x), n - 1) } }` -/
def growFn : Fn :=
  { name := "grow", generics := [], params := [("x/0", .param "T"), ("n/1", i32)], ret := i32,
    body := .ite (.bin .eq .bool (.var "n/1" i32) (.prim (.int 32 true 0))) (.prim (.int 32 true 0))
      (.call i32 (.var "grow" (.func [optOf (.param "T"), i32] i32))
        [.constr (.enum "Opt" "Som" 1) (optOf (.param "T")) [.var "x/0" (.param "T")],
         .bin .sub i32 (.var "n/1" i32) (.prim (.int 32 true 1))]) }

def growMain : Fn :=
  { name := "main", generics := [], params := [], ret := .unit,
    body := .call i32 (.var "grow" (.func [i32, i32] i32)) [.prim (.int 32 true 1), .prim (.int 32 true 3)] }

def growProg : List Fn := [growFn, growMain]

example : (phase1 30 growProg).isNone = true := by decide +kernel

theorem grow_requests (t : Ty) (ht : hasTParam t = false) :
    requests growProg growFn [("T", t)] = [("grow", [("T", optOf t)])] := by
  simp [requests, growFn, growMain, growProg, monoE, monoEs, monoVarP, specializeValueP, findFn, resolveCallP, findCallee, Gen.calleeLookupOrder, lookupBy,
    fnIsGeneric, hasTParam, hasTParams, substTy, substTys, lookup, getTys, getTy, unify, unifyList, optOf, i32, reqsOf, ht,
    updateCtorPanics, constrName, tyBeq]

theorem main_requests : requests growProg growMain [] = [("grow", [("T", i32)])] := by
  simp [requests, growFn, growMain, growProg, monoE, monoEs, monoVarP, specializeValueP, findFn, resolveCallP, findCallee, Gen.calleeLookupOrder, lookupBy,
    fnIsGeneric, hasTParam, hasTParams, substTy, substTys, lookup, getTys, getTy, primTy, unify, unifyList, optOf, i32, reqsOf,
    updateCtorPanics, constrName, tyBeq]

def tau : Nat → Ty
  | 0 => i32
  | k + 1 => optOf (tau k)

theorem tau_closed (k : Nat) : hasTParam (tau k) = false := by
  induction k with
  | zero => simp [tau, i32, hasTParam]
  | succ k ih => simp [tau, optOf, hasTParam, hasTParams, ih]

theorem tau_inj : ∀ j k, tau j = tau k → j = k := by
  intro j
  induction j with
  | zero => intro k h; cases k with
    | zero => rfl
    | succ k => simp [tau, i32, optOf] at h
  | succ j ih => intro k h; cases k with
    | zero => simp [tau, i32, optOf] at h
    | succ k => simp [tau, optOf] at h; rw [ih k h]

theorem polyrec_no_finite_universe (U : String → Subst → Prop) (S : List (String × List (String × Ty)))
    (hseed : ∀ f ∈ origFns growProg, fnIsGeneric f = false → U f.name [])
    (hclosed : ∀ f ∈ origFns growProg, ∀ σ, U f.name σ → ∀ r ∈ requests (origFns growProg) f σ, U r.1 r.2)
    (hfin : ∀ n σ, U n σ → (n, key σ) ∈ S) : False := by
  have hF : origFns growProg = growProg := by simp [origFns, growProg, insertFn, growFn, growMain]
  rw [hF] at hseed hclosed
  have hm : U "main" [] := hseed growMain (by simp [growProg]) (by simp [fnIsGeneric, growMain, hasTParam])
  have h0 : U "grow" [("T", tau 0)] := by
    have := hclosed growMain (by simp [growProg]) [] hm ("grow", [("T", i32)]) (by rw [main_requests]; simp)
    exact this
  have hk : ∀ k, U "grow" [("T", tau k)] := by
    intro k
    induction k with
    | zero => exact h0
    | succ k ih =>
      exact hclosed growFn (by simp [growProg]) _ ih ("grow", [("T", tau (k + 1))])
        (by rw [grow_requests _ (tau_closed k)]; simp [tau])
  have hS : ∀ k, ("grow", [("T", tau k)]) ∈ S := by
    intro k
    have := hfin _ _ (hk k)
    simpa [key, insertByKey] using this
  have hn : ((List.range (S.length + 1)).map fun k => ("grow", [("T", tau k)])).Nodup := by
    unfold List.Nodup
    rw [List.pairwise_map]
    refine List.Pairwise.imp ?_ (List.nodup_range (n := S.length + 1))
    intro a b hab h
    simp at h
    exact hab (tau_inj a b h)
  have := nodup_length_le _ S hn (by intro a ha; simp only [List.mem_map] at ha; obtain ⟨k, _, rfl⟩ := ha; exact hS k)
  simp at this
  omega


end Goml.Mono
