import GomlVerif.Model.Lift
import GomlVerif.Model.LiftSim
/-! C08 — closures keep their lexical meaning after lambda lifting (theorems) -/
namespace Goml.Lift

theorem rebind_nil (n e : String) (t : Ty) (b : Expr) (i : Nat) : rebind n e t b i [] = b := rfl

end Goml.Lift
