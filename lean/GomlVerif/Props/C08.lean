import GomlVerif.Lemmas.LiftCaptures
import GomlVerif.Lemmas.LiftNoClosure
import GomlVerif.Lemmas.LiftSimMain
import GomlVerif.Lemmas.LiftExamples
import GomlVerif.Gen.LiftCaptureWalk
/-!
C08 — closures keep their lexical meaning after lambda lifting.

Model: `Model/Lift.lean` (`lift.rs`), tied to the Rust by exact equality of the model's output
with the real `LiftFile` and environment on every checked program (L1).
Semantics: `Model/Sem.lean` (`Sem.eval`, fuel on every recursive call).

* `captures_exact`, `captures_mem`, `captures_nodup`, `captures_types` — `collect_captured`
  computes exactly the free variables of the body, minus the parameters, that are in scope: as a
  set, without repetition, in first-occurrence order, with the type recorded in the scope;
* `lift_no_closures` — the output of the pass contains no closure node;
* `lift_preserves_partial` — for every program whose lifting passes the decidable structural
  check `DirectFlow`, a source run that ends normally or panics is reproduced by the lifted
  program (same stdout, status, extern events) for every sufficiently large fuel.  Proved against
  the full `Sem` (all node kinds, builtins, `Ref` store, `go`, dyn dispatch) in fuel-monotone
  form, by a simulation in which a closure value `closure ps body ρ` is related to the pair
  (environment struct value, apply function of its type);
* `ref_sharing` — in that relation a `Ref` is related only to the same store location, and the
  environment struct of a closure holds, for every captured variable bound to a `Ref` cell, that
  very location (captures copy values; a reference is a value).

What is missing for the full statement (any flow of a function value, at the level of the emitted
Go): `DirectFlow` is a hypothesis checked per program, not a theorem about a syntactic class of
programs, and the statement is about `Sem`, where calling an environment struct value is defined
for every flow.  The emitted Go is typed: a closure passed as an argument, chosen by a branch,
stored in an array or a `Ref`, returned by a closure, or returned before the caller of its maker
is lifted yields Go that `Go.Check` rejects (C02's known findings `assign-mismatch … want func got
closure_env_struct`, witnesses `corpus/C02/closure-as-argument.gom`,
`corpus/C02/closure-as-branch-result.gom`), and two closures stored in the same struct field are
outside `DirectFlow` (the field keeps the type of the last one; see the `example` below).

    -- full statement, not proved:
    -- theorem lift_preserves (env : Env) (p : Prog) (accepted : Typed p) :
    --   GoSem.run (emit (anf (liftProg env p))) = Sem.run p
-/
namespace Goml.Lift
open Goml Goml.Sem

/-! ### captured variables -/

/-- `collect_captured` = (free variables of the body minus the parameters) ∩ scope, in
    first-occurrence order, each once -/
theorem captures_exact (sc : Scope) (params : List String) (body : Expr) :
    (collectCaptured sc params [] body).map (·.1) =
      dedup (((fv body).filter (fun x => !params.contains x)).filter sc.has) := by
  rw [collect_eq, foldl_captureStep_names]
  rfl

/-- no variable missed, none invented -/
theorem captures_mem (sc : Scope) (params : List String) (body : Expr) (x : String) :
    x ∈ (collectCaptured sc params [] body).map (·.1) ↔ x ∈ fv body ∧ x ∉ params ∧ sc.has x = true := by
  rw [captures_exact, dedup, mem_foldl_dedupStep]
  simp only [List.not_mem_nil, false_or, List.mem_filter, Bool.not_eq_true', List.contains_eq_mem,
    decide_eq_false_iff_not]
  constructor
  · rintro ⟨⟨a, b⟩, c⟩; exact ⟨a, b, c⟩
  · rintro ⟨a, b, c⟩; exact ⟨⟨a, b⟩, c⟩

theorem captures_nodup (sc : Scope) (params : List String) (body : Expr) :
    ((collectCaptured sc params [] body).map (·.1)).Nodup := by
  rw [captures_exact, dedup]
  exact nodup_foldl_dedupStep _ _ List.nodup_nil

/-- every environment field has the type recorded in the scope entry of the captured variable -/
theorem captures_types (sc : Scope) (params : List String) (body : Expr) (p : String × Ty)
    (h : p ∈ collectCaptured sc params [] body) : ∃ entry, sc.get p.1 = some entry ∧ p.2 = entry.ty := by
  rw [collect_eq] at h
  rcases foldl_captureStep_types sc _ [] p h with h | h
  · cases h
  · exact h

/-- The sub-expressions `Model/Lift.lean`'s `collectCaptured` walks, per Lift node kind and in
    order (transcribed from its equations above: `captures_exact` is proved about exactly this
    traversal). -/
def modelCaptureWalk : List (String × List String) := [
  ("EVar", []), ("EPrim", []), ("EConstr", ["args"]), ("ETuple", ["items"]), ("EArray", ["items"]),
  ("ELet", ["value", "body"]), ("EMatch", ["expr", "arms", "default"]),
  ("EIf", ["cond", "then_branch", "else_branch"]), ("EWhile", ["cond", "body"]), ("EGo", ["expr"]),
  ("EConstrGet", ["expr"]), ("EUnary", ["expr"]), ("EBinary", ["lhs", "rhs"]), ("ECall", ["func", "args"]),
  ("EToDyn", ["expr"]), ("EDynCall", ["receiver", "args"]), ("EProj", ["tuple"])]

/-- The case list of the Rust `collect_captured`, regenerated from `lift.rs` on every run
    (`Gen/LiftCaptureWalk.lean`; the extractor itself fails when a variant with sub-expressions sits
    in a leaf arm or an arm skips such a field), is the traversal of the model. -/
theorem capture_walk_table : Consts.captureWalk = modelCaptureWalk := by decide

/-! ### no closure node is left -/

theorem lift_no_closures (env : Env) (fns : List Fn) :
    ∀ f ∈ (liftFile env fns).1, noClosure f.body = true :=
  liftFile_noClosure env fns

/-! ### behaviour -/

/-- For every program whose lifting is accepted by `DirectFlow`: a run of the Mono program that
    ends normally or with a panic (i.e. neither out of fuel nor stuck) is reproduced by the lifted
    program — same output, same status, same extern events — for every sufficiently large fuel.
    Closure values correspond to (environment struct, apply function) pairs (`VRel.closure`). -/
theorem lift_preserves_partial (env : Env) (p : Prog) (h : DirectFlow env p = true) (fuel : Nat) (eager : Bool)
    (hgood : (run fuel p "main" eager).status = "ok" ∨ ∃ k, (run fuel p "main" eager).status = "panic:" ++ k) :
    ∃ fuel', ∀ m, fuel' ≤ m → run m (liftProg env p) "main" eager = run fuel p "main" eager :=
  run_sim h fuel eager hgood

/-- the same for any pair accepted by the check — in particular the REAL output of `lift.rs`,
    on which the check is run as a validator (L2) -/
theorem accepted_pair_preserves (P P' : Prog) (h : progOk P P' = true) (fuel : Nat) (eager : Bool)
    (hgood : (run fuel P "main" eager).status = "ok" ∨ ∃ k, (run fuel P "main" eager).status = "panic:" ++ k) :
    ∃ fuel', ∀ m, fuel' ≤ m → run m P' "main" eager = run fuel P "main" eager :=
  run_sim h fuel eager hgood

/-! ### references are shared, not copied -/

theorem capRel_refs {P P' : Prog} {Γ : SEnv} {ρ : Sem.Env} : ∀ (ys : List String) (vs' : List Val),
    CapRel P P' Γ ρ ys vs' →
    ys.length = vs'.length ∧
      ∀ (i : Nat) (y : String) (l : Nat), ys[i]? = some y → lookupEnv ρ y = some (Val.ref l) → vs'[i]? = some (Val.ref l) := by
  intro ys
  induction ys with
  | nil => intro vs' h; cases h; exact ⟨rfl, fun i y l hi => by simp at hi⟩
  | cons y0 ys ih =>
    intro vs' h
    cases h with
    | cons hv _ hrest =>
      obtain ⟨hl, hr⟩ := ih _ hrest
      refine ⟨by simp [hl], ?_⟩
      intro i y l hi hy
      cases i with
      | zero =>
        simp only [List.getElem?_cons_zero, Option.some.injEq] at hi
        subst hi
        have : valOf ρ y0 = .ref l := by simp [valOf, hy]
        rw [this] at hv
        cases hv
        rfl
      | succ i => simpa using hr i y l (by simpa using hi) hy

/-- A `Ref` is related only to the same location; and the environment struct that represents a
    closure after lifting stores, for every captured variable that holds a `Ref` cell in the
    closure's environment, that very location: closure and creator keep sharing the cell. -/
theorem ref_sharing {P P' : Prog} :
    (∀ l v', VRel P P' (.ref l) v' → v' = .ref l) ∧
    (∀ ps body ρ n vs', VRel P P' (.closure ps body ρ) (.structV n vs') →
      ∃ ys : List String, ys.length = vs'.length ∧
        ∀ (i : Nat) (y : String) (l : Nat), ys[i]? = some y → lookupEnv ρ y = some (Val.ref l) → vs'[i]? = some (Val.ref l)) := by
  refine ⟨?_, ?_⟩
  · intro l v' h; cases h; rfl
  · intro ps body ρ n vs' h
    cases h with
    | closure _ _ _ _ _ _ _ _ hcap => exact ⟨_, capRel_refs _ _ hcap⟩

/-- the lifted closure creation copies variables: no cell is allocated, no value rebuilt -/
theorem closure_env_args_are_variables (st : State) (sc : Scope) (params : List (String × Ty)) (ty : Ty)
    (hint : Option String) (body : Expr) :
    ∃ caps : List (String × Ty),
      (finishClosure st sc params ty hint body).1 =
        .constr (.struct (structNameFor hint st.nextId)) (.struct (structNameFor hint st.nextId))
          (caps.map (fun p => .var p.1 p.2)) :=
  ⟨_, rfl⟩

theorem unrebind_rebind (n envp : String) (t : Ty) (body : Expr) : ∀ (caps : List (String × Ty)) (i : Nat),
    unrebind n envp i (caps.map (·.1)) (rebind n envp t body i caps) = some body
  | [], _ => rfl
  | (x, ty) :: rest, i => by
    simp only [List.map_cons, rebind, unrebind, beq_self_eq_true, Bool.and_self, if_true]
    exact unrebind_rebind n envp t body rest (i + 1)

/-- `transform_closure`, structurally: the environment struct is built from exactly the captured
    variables, in order; the apply function pushed for it is named `inherent#S#S#apply`, takes the
    environment first and then the closure's parameters, and its body is the lifted closure body
    under one rebinding `let x = env.<i>` per captured variable with the index of the field it was
    stored in — which is what the `DirectFlow` check looks for at every closure. -/
theorem closure_apply_rebinds (st : State) (sc : Scope) (params : List (String × Ty)) (ty : Ty)
    (hint : Option String) (body : Expr) :
    let caps := collectCaptured sc ((loweredParams params (funcParts ty).1).map (·.1)) [] body
    let sn := structNameFor hint st.nextId
    let envp := Consts.envParamPrefix ++ toString st.gensym
    ∃ fn, (finishClosure st sc params ty hint body).2.2.newFns = st.newFns ++ [fn] ∧
      fn.name = applyFnName sn ∧
      fn.params.map (·.1) = envp :: (loweredParams params (funcParts ty).1).map (·.1) ∧
      unrebind sn envp 0 (caps.map (·.1)) fn.body = some body ∧
      varNames? (caps.map (fun p => Expr.var p.1 p.2)) = some (caps.map (·.1)) ∧
      (finishClosure st sc params ty hint body).1 =
        .constr (.struct sn) (.struct sn) (caps.map (fun p => .var p.1 p.2)) := by
  refine ⟨_, rfl, rfl, rfl, unrebind_rebind _ _ _ _ _ 0, ?_, rfl⟩
  generalize collectCaptured sc _ [] body = caps
  induction caps with
  | nil => rfl
  | cons c cs ih => simp [varNames?, varName?, ih]

/-! ### non-vacuity: corpus programs (real Mono dumps, `Lemmas/LiftExamples.lean`) -/
section NonVacuity
open Examples

/-- corpus 037 (four nested closures, each capturing the variables of every enclosing scope) is in
    `DirectFlow`, its source run ends normally, and the lifted program prints the same -/
example : DirectFlow env037 p037 = true := by decide +kernel
example : (run 100 p037).status = "ok" := by decide +kernel
example : (run 200 (liftProg env037 p037)).out = (run 100 p037).out := by decide +kernel
/-- five functions after lifting: `main` and four apply functions -/
example : (liftFile env037 p037.fns).1.length = 5 := by decide +kernel

/-- corpus 038 (two closures returned in a tuple that share a `Ref` cell with each other) -/
example : DirectFlow env038 p038 = true := by decide +kernel
example : (run 100 p038).status = "ok" := by decide +kernel
example : (run 300 (liftProg env038 p038)).out = (run 100 p038).out := by decide +kernel

/-- corpus 033 (captures of lets, pattern variables, an enum and a struct value) -/
example : DirectFlow env033 p033 = true := by decide +kernel

/-- `captures_exact` on a concrete body: `|x| x * y * z + y` in a scope with `y`, `z`, `w` -/
example :
    (collectCaptured ⟨[[("y", ⟨.unit, none⟩), ("z", ⟨.unit, none⟩), ("w", ⟨.unit, none⟩)]]⟩ ["x"] []
      (.bin .add .unit (.bin .mul .unit (.bin .mul .unit (.var "x" .unit) (.var "z" .unit)) (.var "y" .unit))
        (.var "z" .unit))).map (·.1) = ["z", "y"] := by decide +kernel

/-- Outside `DirectFlow`: two different closures stored in the same struct field.  `lift.rs`
    overwrites the declared field type with the environment of the *last* closure stored
    (lift.rs:465-474), so a call through the field of the first struct is rewritten into the
    apply function of the second closure.  (The emitted Go is ill-typed — C02's finding — so this
    never reaches a Go run.) -/
def pShared : Prog := { fns := [
  { name := "main", generics := [], params := [], ret := .unit,
    body :=
      .letE "a/0" (.prim (.int 32 true 1))
      (.letE "f/2" (.closure (.func [.int 32 true] (.int 32 true)) [("x/1", .int 32 true)]
          (.bin .add (.int 32 true) (.var "x/1" (.int 32 true)) (.var "a/0" (.int 32 true))))
      (.letE "g/4" (.closure (.func [.int 32 true] (.int 32 true)) [("y/3", .int 32 true)]
          (.bin .mul (.int 32 true) (.var "y/3" (.int 32 true)) (.prim (.int 32 true 2))))
      (.letE "b/5" (.constr (.struct "Sh") (.struct "Sh") [.var "f/2" (.func [.int 32 true] (.int 32 true))])
      (.letE "c/6" (.constr (.struct "Sh") (.struct "Sh") [.var "g/4" (.func [.int 32 true] (.int 32 true))])
      (.letE "h/7" (.cget (.struct "Sh") 0 (.func [.int 32 true] (.int 32 true)) (.var "b/5" (.struct "Sh")))
      (.call .unit (.var "string_println" (.func [.string] .unit))
        [.call .string (.var "int32_to_string" (.func [.int 32 true] .string))
          [.call (.int 32 true) (.var "h/7" (.func [.int 32 true] (.int 32 true))) [.prim (.int 32 true 5)]]])))))) }] }
def envShared : Env :=
  { funcs := [("main", .func [] .unit)],
    structs := [{ name := "Sh", generics := [], fields := [("f", .func [.int 32 true] (.int 32 true))] }] }

example : DirectFlow envShared pShared = false := by decide +kernel
example : (run 100 pShared).out = "6\n" := by decide +kernel
example : (run 200 (liftProg envShared pShared)).out = "10\n" := by decide +kernel

end NonVacuity

end Goml.Lift
