import GomlVerif.Lemmas.AnfFwdCases
import GomlVerif.Lemmas.AnfBwdCases
import GomlVerif.Lemmas.AnfShape
import GomlVerif.Lemmas.ProgAnf
/-!
# C09 — evaluation order and effects: left to right, exactly once, short-circuit

Model: `Model/Anf.lean` (`anf`, `anfImm`, `anfList`, `anfArms`, `anfDflt`, `anfProg`), the CPS
A-normalisation of `crates/compiler/src/anf.rs` with the gensym counter threaded; tied to the Rust
on every run by exact comparison with the real ANF of every corpus / generated function.
Semantics: `Model/Sem.lean` (`eval fuel P ρ w e`), whose result carries the whole observable
world (stdout, Ref store, spawned activations, extern events) and the failure point.

Full statement (the goal; what is proved below is the `_partial` form):

    anf_preserves : ∀ P e n ρ w r,
      (∃ fuel, eval fuel P ρ w e = r ∧ r is not fuel exhaustion) ↔
      (∃ fuel, eval fuel P ρ w (anf e n ret).1 = r ∧ r is not fuel exhaustion)
    and the same for `run (anfProg P n)` against `run P`.

What is proved: exactly this — for one expression with the called functions unchanged
(`anf_preserves_partial`) and for the whole file (`anf_file_preserves_partial`, every function
body replaced by its A-normal form, `anfProg`) — for every expression `e` with
`InAnfFragment e n` (every function body of the file: `FileInAnfFragment`), except that
 * a source run that goes wrong (`Fail.stuck`, i.e. ill-typed IR) is only required to be
   matched by *some* outcome (ANF names all operands before the operation, so an ill-typed
   operand is noticed later than in the source);
 * `InAnfFragment` requires (a) that no `let`-bound name of an operand is mentioned by another operand of
   the same node (true when binders are unique, as goml's renamer and gensym guarantee) and
   (b) that no temporary `t<m>` handed out for `e` occurs in `e` (C19's
   `local_vs_temp_disjoint`).  The driver evaluates the predicate on every real Lift function:
   all of them are inside on every run so far.
-/
namespace Goml.C09
open Goml Goml.Sem Goml.Anf

/-- the fragment (decidable): `Model/AnfFrag.lean` -/
def InAnfFragment (e : Expr) (n : Nat) : Prop := inAnfFragment e n = true

instance (e : Expr) (n : Nat) : Decidable (InAnfFragment e n) := by
  unfold InAnfFragment; infer_instance

theorem hyp_of_fragment {e : Expr} {n : Nat} (h : InAnfFragment e n) : Hyp [] e n (anf e n ret).2 := by
  unfold InAnfFragment inAnfFragment at h
  simp only [Bool.and_eq_true] at h
  refine ⟨h.1, fun _ _ => by simp, ?_, by rw [anf_ret]; exact Nat.le_refl _⟩
  intro m h1 h2 hm
  have := h.2
  unfold tmpFresh at this
  rw [List.all_eq_true] at this
  have hmem : m ∈ List.range' n ((anf e n ret).2 - n) := by
    rw [List.mem_range']; exact ⟨m - n, by omega, by omega⟩
  have := this m hmem
  simp only [Bool.not_eq_true', List.contains_eq_mem, decide_eq_false_iff_not] at this
  exact this hm

/-! ## fuel -/

/-- a result other than fuel exhaustion is stable under more fuel -/
theorem eval_fuel_monotone (P : Prog) {n m : Nat} (hnm : n ≤ m) {ρ : Env} {w : World} {e : Expr} {r : Res Val}
    (h : eval n P ρ w e = r) (hr : NF r) : eval m P ρ w e = r := eval_mono hnm h hr

/-! ## the output is in A-normal form -/

/-- every operand in the output is immediate (`ImmExpr`), for every Lift expression -/
theorem anf_is_anf (e : Expr) (n : Nat) (h : isLift e = true) : isA (anf e n ret).1 = true := by
  rw [anf_ret, isA_wrap]
  have := dec_shape e n h
  simp [this.1, isA_of_isC this.2]

/-! ## `anf e k`: a chain of bindings around the continuation -/

/-- For EVERY expression and EVERY continuation: evaluating `anf e n k` is evaluating the chain of
    bindings `(dec e n).L` (the operands of `e`, named in evaluation order) and then what `k`
    builds from the final expression `(dec e n).c`, in the environment extended by the chain. -/
theorem anf_cont (P : Prog) (e : Expr) (n : Nat) (k : Kont Expr) (ρ : Env) (w : World) (r : Res Val) :
    Ev P (anf e n k).1 ρ w r ↔
      RB (EvB P (dec e n).L ρ w) (fun ρ1 w1 => Ev P (k (dec e n).c (dec e n).n).1 ρ1 w1) r := by
  rw [anf_eq_dec]; exact ev_wrap

/-! ## preservation -/

/-- Source to ANF, relational form: the chain of bindings fails where `e` fails, or ends in an
    environment where the final expression evaluates to what `e` evaluates to. -/
theorem anf_chain_fwd (P : Prog) {e : Expr} {n : Nat} (h : InAnfFragment e n) {ρ : Env} {w : World} {r : Res Val}
    (he : Ev P e ρ w r) (hs : ¬Stuck r) :
    RB (EvB P (dec e n).L ρ w) (fun ρ1 w1 => Ev P (dec e n).c ρ1 w1) r :=
  fw P e n _ [] ρ ρ w r (hyp_of_fragment h) (Agree.refl _ _) he hs

/-- ANF to source -/
theorem anf_chain_bwd (P : Prog) {e : Expr} {n : Nat} (h : InAnfFragment e n) {ρ : Env} {w : World} {r : Res Val}
    (he : RB (EvB P (dec e n).L ρ w) (fun ρ1 w1 => Ev P (dec e n).c ρ1 w1) r) :
    Ev P e ρ w r ∨ Wrong P e ρ w :=
  bw P e n _ [] ρ ρ w r (hyp_of_fragment h) (Agree.refl _ _) he

/-- **anf_preserves** (partial: see the header).  In the fuel-monotone form: whatever `e` evaluates
    to with some fuel — value, stdout, store, spawned activations, or the failure and the world
    at the failure point — `anf e` evaluates to with some fuel, and conversely. -/
theorem anf_preserves_partial (P : Prog) (e : Expr) (n : Nat) (ρ : Env) (w : World) (h : InAnfFragment e n) :
    (∀ fuel r, eval fuel P ρ w e = r → NF r → ¬Stuck r → ∃ m, eval m P ρ w (anf e n ret).1 = r) ∧
    (∀ fuel r, eval fuel P ρ w (anf e n ret).1 = r → NF r →
      (∃ m, eval m P ρ w e = r) ∨ (∃ m s w', eval m P ρ w e = .fail (.stuck s) w')) := by
  constructor
  · intro fuel r he hn hs
    have := fw_top P (fw P e) n _ [] ρ ρ w r (hyp_of_fragment h) (Agree.refl _ _) ⟨fuel, he, hn⟩ hs
    obtain ⟨m, hm, _⟩ := this
    exact ⟨m, hm⟩
  · intro fuel r he hn
    rcases bw_top P (bw P e) n _ [] ρ ρ w r (hyp_of_fragment h) (Agree.refl _ _) ⟨fuel, he, hn⟩ with h1 | ⟨s, w', h1⟩
    · obtain ⟨m, hm, _⟩ := h1; exact Or.inl ⟨m, hm⟩
    · obtain ⟨m, hm, _⟩ := h1; exact Or.inr ⟨m, s, w', hm⟩

/-- if the source expression does not go wrong, `e` and `anf e` have the same outcomes -/
theorem anf_preserves_outcome (P : Prog) (e : Expr) (n : Nat) (ρ : Env) (w : World) (h : InAnfFragment e n)
    (hw : ¬Wrong P e ρ w) (r : Res Val) : Ev P e ρ w r ↔ Ev P (anf e n ret).1 ρ w r := by
  constructor
  · intro he
    refine fw_top P (fw P e) n _ [] ρ ρ w r (hyp_of_fragment h) (Agree.refl _ _) he ?_
    intro hs; exact hw (wrong_of_stuck he hs)
  · intro he
    rcases bw_top P (bw P e) n _ [] ρ ρ w r (hyp_of_fragment h) (Agree.refl _ _) he with h1 | h1
    · exact h1
    · exact absurd h1 hw

/-! ## the whole file -/

/-- every function body of the file is in the fragment, at the counter `anf_file` reaches it with
    (decidable; the driver evaluates it on every real Lift file) -/
def FileInAnfFragment (P : Prog) (n : Nat) : Prop := allInFragment P n = true

instance (P : Prog) (n : Nat) : Decidable (FileInAnfFragment P n) := by
  unfold FileInAnfFragment; infer_instance

/-- **anf_file_preserves** (partial: see the header).  `anfProg P n` is the file `anf_file` produces
    from `P` starting at gensym counter `n`.  Applying any function value to any arguments in any
    world — in particular `main` to no arguments in the initial world, which is `Sem.run` — has
    the same outcome (result value, stdout, store, spawned activations, extern events, failure
    and failure point) before and after, for some amount of fuel. -/
theorem anf_file_preserves_partial (P : Prog) (n : Nat) (h : FileInAnfFragment P n) (w : World) (f : Val)
    (args : List Val) :
    (∀ fuel r, apply fuel P w f args = r → NF r → ¬Stuck r → ∃ m, apply m (anfProg P n) w f args = r) ∧
    (∀ fuel r, apply fuel (anfProg P n) w f args = r → NF r →
      (∃ m, apply m P w f args = r) ∨ (∃ m s w', apply m P w f args = .fail (.stuck s) w')) := by
  constructor
  · intro fuel r ha hn hs
    obtain ⟨m, hm, _⟩ := (prog_fw (progFw_anf h) fuel).2.2.2 w f args r ha hn hs
    exact ⟨m, hm⟩
  · intro fuel r ha hn
    rcases (prog_bw (progBw_anf h) fuel).2.2.2 w f args r ha hn with h1 | ⟨s, w', h1⟩
    · obtain ⟨m, hm, _⟩ := h1; exact Or.inl ⟨m, hm⟩
    · obtain ⟨m, hm, _⟩ := h1; exact Or.inr ⟨m, s, w', hm⟩

/-- the same for `Sem.run` (what the check's stage-wise oracle computes): a run of the Lift file
    that ends normally or fails with a panic is reproduced, outcome for outcome, by the ANF file,
    under either `go` schedule -/
theorem anf_run_preserves_partial (P : Prog) (n : Nat) (h : FileInAnfFragment P n) (entry : String) (eager : Bool)
    (fuel : Nat) (hn : NF (apply fuel P { eager := eager } (.fn entry) []))
    (hs : ¬Stuck (apply fuel P { eager := eager } (.fn entry) [])) :
    ∃ m, run m (anfProg P n) entry eager = run fuel P entry eager := by
  obtain ⟨m, hm⟩ := (anf_file_preserves_partial P n h { eager := eager } (.fn entry) []).1 fuel _ rfl hn hs
  exact ⟨m, by unfold run; rw [hm]⟩

/-! ## corollaries: order, exactly once, selected branch, short-circuit, loop condition

`EvL` threads the world through the operands from left to right, evaluating each exactly once
(`evL_cons`); the world is the trace (stdout, store, spawned activations). -/

/-- the arguments of a call — and before them the callee — are evaluated left to right, each
    exactly once, and then the call happens in the world they leave behind -/
theorem args_left_to_right_once (P : Prog) (ty : Ty) (f : Expr) (args : List Expr) (n : Nat) (ρ : Env) (w : World)
    (h : InAnfFragment (.call ty f args) n) (hw : ¬Wrong P (.call ty f args) ρ w) (r : Res Val) :
    Ev P (anf (.call ty f args) n ret).1 ρ w r ↔
      RB (Ev P f ρ w) (fun fv w1 => RB (EvL P args ρ w1) (fun vs w2 => App P w2 fv vs)) r := by
  rw [← anf_preserves_outcome P _ n ρ w h hw r, ev_call]

/-- the same for the fields of a tuple (arrays and constructors alike: `ev_array`, `ev_constr`) -/
theorem items_left_to_right_once (P : Prog) (ty : Ty) (items : List Expr) (n : Nat) (ρ : Env) (w : World)
    (h : InAnfFragment (.tuple ty items) n) (hw : ¬Wrong P (.tuple ty items) ρ w) (r : Res Val) :
    Ev P (anf (.tuple ty items) n ret).1 ρ w r ↔
      RB (EvL P items ρ w) (fun vs w' r => r = .ok (.tuple vs) w') r := by
  rw [← anf_preserves_outcome P _ n ρ w h hw r, ev_tuple]

/-- only the selected branch of an `if` runs: after the condition, the outcome is the outcome of
    that branch alone, from the world the condition left -/
theorem only_selected_branch (P : Prog) (c t e : Expr) (n : Nat) (ρ : Env) (w w1 : World) (b : Bool)
    (h : InAnfFragment (.ite c t e) n) (hw : ¬Wrong P (.ite c t e) ρ w)
    (hc : Ev P c ρ w (.ok (.bool b) w1)) (r : Res Val) :
    Ev P (anf (.ite c t e) n ret).1 ρ w r ↔ Ev P (if b then t else e) ρ w1 r := by
  rw [← anf_preserves_outcome P _ n ρ w h hw r, ev_ite]
  constructor
  · rintro (⟨f, w', h1, _⟩ | ⟨v, w', h1, h2⟩)
    · cases Ev.det h1 hc
    · cases Ev.det h1 hc
      cases b <;> exact h2
  · intro h2
    refine Or.inr ⟨_, w1, hc, ?_⟩
    cases b <;> exact h2

/-- `match`: the scrutinee once, then the first arm whose head matches, and nothing else -/
theorem only_selected_arm (P : Prog) (ty : Ty) (s : Expr) (arms : List Arm) (d : Option Expr) (n : Nat)
    (ρ : Env) (w : World) (h : InAnfFragment (.matchE ty s arms d) n)
    (hw : ¬Wrong P (.matchE ty s arms d) ρ w) (r : Res Val) :
    Ev P (anf (.matchE ty s arms d) n ret).1 ρ w r ↔
      RB (Ev P s ρ w) (fun v w1 => EvA P ρ w1 v arms d) r := by
  rw [← anf_preserves_outcome P _ n ρ w h hw r, ev_matchE]

/-- `&&` / `||`: when the left operand decides, the right operand is not evaluated — the world is
    the one the left operand left -/
theorem short_circuit (P : Prog) (op : BinOp) (ty : Ty) (l r : Expr) (n : Nat) (ρ : Env) (w w1 : World)
    (b : Bool) (hop : (op = .and ∧ b = false) ∨ (op = .or ∧ b = true))
    (h : InAnfFragment (.bin op ty l r) n) (hw : ¬Wrong P (.bin op ty l r) ρ w)
    (hl : Ev P l ρ w (.ok (.bool b) w1)) (x : Res Val) :
    Ev P (anf (.bin op ty l r) n ret).1 ρ w x ↔ x = .ok (.bool b) w1 := by
  rw [← anf_preserves_outcome P _ n ρ w h hw x, ev_bin]
  have hk : ∀ y, binK P op r ρ (.bool b) w1 y ↔ y = .ok (.bool b) w1 := by
    intro y
    rcases hop with ⟨rfl, rfl⟩ | ⟨rfl, rfl⟩ <;> simp [binK, scVal]
  constructor
  · rintro (⟨f, w', h1, _⟩ | ⟨v, w', h1, h2⟩)
    · cases Ev.det h1 hl
    · cases Ev.det h1 hl
      exact (hk x).1 h2
  · intro hx
    exact Or.inr ⟨_, w1, hl, (hk x).2 hx⟩

/-- `while`: after every iteration the condition is evaluated again, in the world the body left -/
theorem while_recheck (P : Prog) (c b : Expr) (n : Nat) (ρ : Env) (w w1 w2 : World) (u : Val)
    (h : InAnfFragment (.while c b) n) (hw : ¬Wrong P (.while c b) ρ w)
    (hc : Ev P c ρ w (.ok (.bool true) w1)) (hb : Ev P b ρ w1 (.ok u w2)) (r : Res Val) :
    Ev P (anf (.while c b) n ret).1 ρ w r ↔ Ev P (.while c b) ρ w2 r := by
  rw [← anf_preserves_outcome P _ n ρ w h hw r, ev_while]
  constructor
  · rintro (⟨f, w', h1, _⟩ | ⟨v, w', h1, h2⟩)
    · cases Ev.det h1 hc
    · cases Ev.det h1 hc
      rcases h2 with ⟨f, w'', h3, _⟩ | ⟨u', w'', h3, h4⟩
      · cases Ev.det h3 hb
      · cases Ev.det h3 hb; exact h4
  · intro h2
    exact Or.inr ⟨_, w1, hc, Or.inr ⟨u, w2, hb, h2⟩⟩

/-- `while`: when the condition is false the body does not run -/
theorem while_exit (P : Prog) (c b : Expr) (n : Nat) (ρ : Env) (w w1 : World)
    (h : InAnfFragment (.while c b) n) (hw : ¬Wrong P (.while c b) ρ w)
    (hc : Ev P c ρ w (.ok (.bool false) w1)) (r : Res Val) :
    Ev P (anf (.while c b) n ret).1 ρ w r ↔ r = .ok .unit w1 := by
  rw [← anf_preserves_outcome P _ n ρ w h hw r, ev_while]
  constructor
  · rintro (⟨f, w', h1, _⟩ | ⟨v, w', h1, h2⟩)
    · cases Ev.det h1 hc
    · cases Ev.det h1 hc; exact h2
  · intro h2
    exact Or.inr ⟨_, w1, hc, h2⟩

/-- `go e`: the closure expression once, then exactly one activation (run at the spawn under the
    eager schedule, queued under the lazy one), and the spawner continues with `unit` -/
theorem go_once (P : Prog) (e : Expr) (n : Nat) (ρ : Env) (w : World)
    (h : InAnfFragment (.go e) n) (hw : ¬Wrong P (.go e) ρ w) (r : Res Val) :
    Ev P (anf (.go e) n ret).1 ρ w r ↔ RB (Ev P e ρ w) (goK P) r := by
  rw [← anf_preserves_outcome P _ n ρ w h hw r, ev_go]

/-! ## non-vacuity: the hypotheses hold on concrete effectful expressions, and they are needed -/

section Examples

private def i32 (v : Int) : Expr := .prim (.int 32 true v)
private def pr (s : String) : Expr :=
  .call .unit (.var "string_println" (.func [.string] .unit)) [.prim (.str s)]
private def f2 : Fn := ⟨"f2", [], [("a", .int 32 true), ("b", .int 32 true)], .int 32 true,
  .bin .sub (.int 32 true) (.var "a" (.int 32 true)) (.var "b" (.int 32 true))⟩
private def one : Fn := ⟨"one", [], [], .int 32 true, i32 1⟩
private def P0 : Prog := { fns := [f2, one] }

/-- what we look at: the integer result and everything printed, or the failure and what was
    printed before it -/
private def obs : Res Val → Option Int × String × String
  | .ok (.int _ _ v) w => (some v, w.out, "ok")
  | .ok _ w => (none, w.out, "ok")
  | .fail f w => (none, w.out, failStr f)

/-- `f2({print "a"; 1}, {print "b"; 2} + 3)`: printing calls in two argument positions -/
private def e1 : Expr :=
  .call (.int 32 true) (.var "f2" (.func [] .unit))
    [.letE "x/1" (pr "a") (i32 1), .bin .add (.int 32 true) (.letE "y/2" (pr "b") (i32 2)) (i32 3)]

example : InAnfFragment e1 0 := by decide
example : isLift e1 = true := by decide
example : (anf e1 0 ret).2 = 3 := by decide +kernel
example : obs (eval 50 P0 [] {} e1) = (some (-4), "a\nb\n", "ok") := by decide +kernel
example : obs (eval 50 P0 [] {} (anf e1 0 ret).1) = (some (-4), "a\nb\n", "ok") := by decide +kernel

/-- `{print "l"; false} && {print "r"; true}`: the lowering to `if` keeps the right operand silent -/
private def e2 : Expr :=
  .bin .and .bool (.letE "p/1" (pr "l") (.prim (.bool false))) (.letE "q/2" (pr "r") (.prim (.bool true)))

example : InAnfFragment e2 0 := by decide
example : obs (eval 50 P0 [] {} e2) = (none, "l\n", "ok") := by decide +kernel
example : obs (eval 50 P0 [] {} (anf e2 0 ret).1) = (none, "l\n", "ok") := by decide +kernel

/-- a failing operation between two prints: `{print "a"; 1} + (1 / 0) + {print "never"; 2}` fails
    after "a" and before "never", before and after ANF -/
private def e3 : Expr :=
  .bin .add (.int 32 true)
    (.bin .add (.int 32 true) (.letE "x/1" (pr "a") (i32 1)) (.bin .div (.int 32 true) (i32 1) (i32 0)))
    (.letE "y/2" (pr "never") (i32 2))

example : InAnfFragment e3 0 := by decide
example : obs (eval 50 P0 [] {} e3) = (none, "a\n", "panic:integer divide by zero") := by decide +kernel
example : obs (eval 50 P0 [] {} (anf e3 0 ret).1) = (none, "a\n", "panic:integer divide by zero") := by
  decide +kernel

/-- the freshness hypothesis is needed: a source variable spelled like the temporary `t0` is
    captured (`one() + t0` becomes `let t0 = one() in t0 + t0`) -/
private def eBad : Expr :=
  .bin .add (.int 32 true) (.call (.int 32 true) (.var "one" (.func [] (.int 32 true))) []) (.var "t0" (.int 32 true))

example : ¬InAnfFragment eBad 0 := by decide
example : obs (eval 50 P0 [("t0", .int 32 true 5)] {} eBad) = (some 6, "", "ok") := by decide +kernel
example : obs (eval 50 P0 [("t0", .int 32 true 5)] {} (anf eBad 0 ret).1) = (some 2, "", "ok") := by
  decide +kernel

/-- the scoping hypothesis is needed: `x + (let x = 5 in x)` becomes
    `let x = 5 in let t0 = x in x + t0`, capturing the outer `x` -/
private def eCap : Expr :=
  .bin .add (.int 32 true) (.var "x" (.int 32 true)) (.letE "x" (i32 5) (.var "x" (.int 32 true)))

example : ¬InAnfFragment eCap 0 := by decide
example : obs (eval 50 P0 [("x", .int 32 true 1)] {} eCap) = (some 6, "", "ok") := by decide +kernel
example : obs (eval 50 P0 [("x", .int 32 true 1)] {} (anf eCap 0 ret).1) = (some 10, "", "ok") := by
  decide +kernel

/-- a whole file: `main` calls `loud` twice in argument position and loops -/
private def loud : Fn := ⟨"loud", [], [("s", .string), ("v", .int 32 true)], .int 32 true,
  .letE "u/1" (.call .unit (.var "string_println" (.func [.string] .unit)) [.var "s" .string]) (.var "v" (.int 32 true))⟩
private def mainFn : Fn := ⟨"main", [], [], .unit,
  .letE "r/1" (.call (.int 32 true) (.var "f2" (.func [] .unit))
      [.call (.int 32 true) (.var "loud" (.func [] .unit)) [.prim (.str "first"), i32 7],
       .call (.int 32 true) (.var "loud" (.func [] .unit)) [.prim (.str "second"), i32 2]])
    (.call .unit (.var "string_println" (.func [.string] .unit))
      [.call .string (.var "int32_to_string" (.func [] .string)) [.var "r/1" (.int 32 true)]])⟩
private def P1 : Prog := { fns := [f2, loud, mainFn] }

example : FileInAnfFragment P1 0 := by decide
example : (run 60 P1).out = "first\nsecond\n5\n" ∧ (run 60 P1).status = "ok" := by decide +kernel
example : (run 60 (anfProg P1 0)).out = "first\nsecond\n5\n" ∧ (run 60 (anfProg P1 0)).status = "ok" := by
  decide +kernel

end Examples

end Goml.C09
