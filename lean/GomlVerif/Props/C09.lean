import GomlVerif.Model.Sem
import GomlVerif.Model.Anf
import GomlVerif.Model.AnfFrag
namespace Goml.C09
open Goml Goml.Anf

theorem placeholder : tmpName 0 = "t0" := by decide

end Goml.C09
