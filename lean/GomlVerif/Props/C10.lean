import GomlVerif.Model.Num
import GomlVerif.Model.GoConst
import GomlVerif.Gen.FloatPrint
import GomlVerif.Gen.OpMap
import GomlVerif.Gen.ToString
import GomlVerif.Gen.NumTypes
/-!
C10 — numbers mean what they say.  Theorems over `Model/Num.lean` and the generated tables `Gen/*`.

* literals: `lit_accept_iff`, `lit_accept_value`, `lit_reject_kind`, `lit_value`, `lit_leading_zeros`,
  `neg_lit_value`, `neg_lit_min_unwritable`
* patterns: `pat_unsuffixed_sound`, `pat_unsuffixed_rejects`, `pat_constraint_needed`
* tables:   `num_types_consistent`, `lit_forms_consistent`, `pat_forms_consistent`, `to_string_covers`, `to_string_verbs_ok`
* operators: `opmap_faithful_bin`, `opmap_faithful_un` (for every operator of the generated map, every
  width and signedness, all operand values), spec-pinning lemmas `wrap_mod`, `wrap_signed_range`, `div_trunc`,
  `div_min_neg_one`, `div_zero_panics`, `cmp_signed`, `cmp_unsigned`
* printing: `to_string_int`
* Go constant folding: `const_operands_faithful_of_fits`, `const_operands_unfaithful` (integers);
  `float_const_faithful_if_exact_operands`, `float_const_two_ops_unfaithful`, `float_const_f32_display_unfaithful`,
  `float_const_f64_display_unfaithful`, `float_const_rejected`, `const_kinds`, `float_print_identifies_f64` (floats);
  the KIND of a printed float literal: `float_const_integral_suffix_needed` (all whole operands), `truncated_quotient_differs`,
  `float_print_always_float_kind`, `float_print_whole_value` (over `Gen/FloatPrint.integralSuffix`),
  `float_const_integer_kind_unfaithful`, `go_float_token_forms`
-/
namespace Goml.Props.C10
open Goml.Num

/-! ### digits -/

theorem digitVal_lt {c : Char} {d : Nat} (h : digitVal c = some d) : d < 10 := by
  unfold digitVal at h
  split at h
  · cases h; omega
  · cases h

theorem digit_ne_sign {c : Char} (h : isDigit c = true) : c ≠ '+' ∧ c ≠ '-' := by
  constructor <;> (intro e; subst e; revert h; decide)

/-- left fold over `Int`, the accumulator of `accPos` -/
def foldZ (acc : Int) (cs : List Char) : Int :=
  cs.foldl (fun a c => a * 10 + (((digitVal c).getD 0 : Nat) : Int)) acc

theorem foldZ_cast (n : Nat) (cs : List Char) :
    foldZ (n : Int) cs = ((cs.foldl (fun a c => a * 10 + (digitVal c).getD 0) n : Nat) : Int) := by
  induction cs generalizing n with
  | nil => rfl
  | cons c cs ih =>
    simp only [foldZ, List.foldl_cons] at ih ⊢
    rw [← ih]; push_cast; rfl

theorem foldZ_zero (cs : List Char) : foldZ 0 cs = (decVal cs : Int) := by
  have := foldZ_cast 0 cs
  simpa [decVal] using this

theorem foldZ_ge (a : Int) (cs : List Char) (ha : 0 ≤ a) : a ≤ foldZ a cs := by
  induction cs generalizing a with
  | nil => simp [foldZ]
  | cons c cs ih =>
    simp only [foldZ, List.foldl_cons]
    have h1 : (0 : Int) ≤ (((digitVal c).getD 0 : Nat) : Int) := Int.natCast_nonneg _
    have := ih (a * 10 + (((digitVal c).getD 0 : Nat) : Int)) (by omega)
    simp only [foldZ] at this
    omega

theorem accPos_digits (hi acc : Int) (cs : List Char) (hd : ∀ c ∈ cs, isDigit c = true)
    (h0 : 0 ≤ acc) (h1 : acc ≤ hi) :
    accPos hi acc cs = if foldZ acc cs ≤ hi then .ok (foldZ acc cs) else .error .posOverflow := by
  induction cs generalizing acc with
  | nil => simp [accPos, foldZ, h1]
  | cons c cs ih =>
    have hc : isDigit c = true := hd c (by simp)
    obtain ⟨d, hdv⟩ : ∃ d, digitVal c = some d := by
      unfold isDigit at hc; exact Option.isSome_iff_exists.mp hc
    have hrest : ∀ x ∈ cs, isDigit x = true := fun x hx => hd x (by simp [hx])
    simp only [accPos, hdv]
    have hstep : foldZ acc (c :: cs) = foldZ (acc * 10 + (d : Int)) cs := by
      simp [foldZ, hdv]
    rw [hstep]
    by_cases hov : acc * 10 + (d : Int) > hi
    · have := foldZ_ge (acc * 10 + (d : Int)) cs (by omega)
      simp only [hov, if_true]
      rw [if_neg (by omega)]
    · simp only [hov, if_false]
      exact ih (acc * 10 + (d : Int)) hrest (by omega) (by omega)

theorem maxVal_nonneg (t : IntTy) : 0 ≤ t.maxVal := by
  unfold IntTy.maxVal
  split
  · have : (1 : Int) ≤ 2 ^ (t.bits - 1) := by
      have := Nat.one_le_two_pow (n := t.bits - 1); exact_mod_cast this
    omega
  · have : (1 : Int) ≤ 2 ^ t.bits := by
      have := Nat.one_le_two_pow (n := t.bits); exact_mod_cast this
    omega

theorem minVal_nonpos (t : IntTy) : t.minVal ≤ 0 := by
  unfold IntTy.minVal
  split
  · have : (0 : Int) ≤ 2 ^ (t.bits - 1) := Int.pow_nonneg (by decide)
    omega
  · exact Int.le_refl 0

/-- on a digit string the parser is the positive accumulation from 0 -/
theorem parseInt_digits (t : IntTy) (s : List Char) (hs : IsDigits s) :
    parseInt t s = if (decVal s : Int) ≤ t.maxVal then .ok (decVal s : Int) else .error .posOverflow := by
  obtain ⟨hne, hd⟩ := hs
  cases s with
  | nil => exact absurd rfl hne
  | cons c rest =>
    have hc := digit_ne_sign (hd c (by simp))
    simp only [parseInt, hc.1, hc.2, false_or, false_and, if_false]
    rw [accPos_digits _ 0 (c :: rest) hd (Int.le_refl 0) (maxVal_nonneg t), foldZ_zero]

theorem head_not_minus (s : List Char) (hs : IsDigits s) : s.head? ≠ some '-' := by
  obtain ⟨hne, hd⟩ := hs
  cases s with
  | nil => exact absurd rfl hne
  | cons c rest =>
    have hc := digit_ne_sign (hd c (by simp))
    simp [hc.2]

/-- what `checkLit` does on a lexed literal body, whichever of the two Rust paths is taken -/
theorem checkLit_digits (u : Bool) (t : IntTy) (s : List Char) (hs : IsDigits s) :
    checkLit u t s = if (decVal s : Int) ≤ t.maxVal then .accept (decVal s : Int) else .doesNotFit := by
  unfold checkLit
  rw [if_neg (by intro h; exact head_not_minus s hs h.2), parseInt_digits t s hs]
  split <;> rfl

/-- **lit_accept_iff** — a digit string is accepted at a type iff the number it writes lies in the type's range
    (all digit strings — any length, leading zeros included — all widths, both signednesses, both Rust paths) -/
theorem lit_accept_iff (u : Bool) (t : IntTy) (s : List Char) (hs : IsDigits s) :
    (∃ v, checkLit u t s = .accept v) ↔ t.InRange (decVal s : Int) := by
  rw [checkLit_digits u t s hs]
  have hmin := minVal_nonpos t
  have hnn : (0 : Int) ≤ (decVal s : Int) := Int.natCast_nonneg _
  unfold IntTy.InRange
  constructor
  · intro ⟨v, h⟩
    split at h
    · constructor <;> omega
    · cases h
  · intro ⟨_, h⟩
    exact ⟨_, by rw [if_pos h]⟩

/-- **lit_accept_value** — an accepted literal is given exactly the written value, and the second parse in
    `tast_builder.rs` (the one whose result reaches Core) yields the same number -/
theorem lit_accept_value (u : Bool) (t : IntTy) (s : List Char) (hs : IsDigits s) (v : Int)
    (h : checkLit u t s = .accept v) : v = (decVal s : Int) ∧ builderValue u t s = v := by
  rw [checkLit_digits u t s hs] at h
  split at h
  next hle =>
    cases h
    refine ⟨rfl, ?_⟩
    unfold builderValue
    rw [if_neg (by intro h; exact head_not_minus s hs h.2), parseInt_digits t s hs, if_pos hle]
  next => cases h

/-- **lit_reject_kind** — an out-of-range literal is rejected, with the "does not fit" diagnostic -/
theorem lit_reject_kind (u : Bool) (t : IntTy) (s : List Char) (hs : IsDigits s)
    (h : ¬ t.InRange (decVal s : Int)) : checkLit u t s = .doesNotFit := by
  rw [checkLit_digits u t s hs]
  have hmin := minVal_nonpos t
  have hnn : (0 : Int) ≤ (decVal s : Int) := Int.natCast_nonneg _
  unfold IntTy.InRange at h
  rw [if_neg (by omega)]

example : IsDigits "0127".toList ∧ checkLit false ⟨true, 8⟩ "0127".toList = .accept 127 := by decide
example : checkLit false ⟨true, 8⟩ "128".toList = .doesNotFit := by decide
example : checkLit true ⟨false, 64⟩ "18446744073709551615".toList = .accept 18446744073709551615 := by decide
example : checkLit true ⟨false, 64⟩ "18446744073709551616".toList = .doesNotFit := by decide

/-! ### the Go literal that is printed, and Go's reading of it -/

theorem digitVal_digitChar (d : Nat) (h : d < 10) : digitVal (digitChar d) = some d := by
  have : d = 0 ∨ d = 1 ∨ d = 2 ∨ d = 3 ∨ d = 4 ∨ d = 5 ∨ d = 6 ∨ d = 7 ∨ d = 8 ∨ d = 9 := by omega
  rcases this with h | h | h | h | h | h | h | h | h | h <;> subst h <;> decide

theorem digitChar_zero (d : Nat) (h : d < 10) (hz : digitChar d = '0') : d = 0 := by
  have : d = 0 ∨ d = 1 ∨ d = 2 ∨ d = 3 ∨ d = 4 ∨ d = 5 ∨ d = 6 ∨ d = 7 ∨ d = 8 ∨ d = 9 := by omega
  rcases this with h | h | h | h | h | h | h | h | h | h <;> subst h <;> revert hz <;> decide

theorem decVal_append (xs : List Char) (c : Char) :
    decVal (xs ++ [c]) = decVal xs * 10 + (digitVal c).getD 0 := by
  simp [decVal, List.foldl_append]

theorem natToDec_small (n : Nat) (h : n < 10) : natToDec n = [digitChar n] := by
  rw [natToDec, if_pos h]

theorem natToDec_big (n : Nat) (h : ¬ n < 10) : natToDec n = natToDec (n / 10) ++ [digitChar (n % 10)] := by
  rw [natToDec, if_neg h]

theorem natToDec_ne_nil (n : Nat) : natToDec n ≠ [] := by
  by_cases h : n < 10
  · rw [natToDec_small n h]; simp
  · rw [natToDec_big n h]; simp

theorem natToDec_digits (n : Nat) : ∀ c ∈ natToDec n, isDigit c = true := by
  induction n using Nat.strongRecOn with
  | _ n ih =>
    by_cases h : n < 10
    · rw [natToDec_small n h]
      intro c hc
      simp only [List.mem_singleton] at hc
      subst hc
      simp [isDigit, digitVal_digitChar n h]
    · rw [natToDec_big n h]
      intro c hc
      rcases List.mem_append.mp hc with hc | hc
      · exact ih (n / 10) (by omega) c hc
      · simp only [List.mem_singleton] at hc
        subst hc
        simp [isDigit, digitVal_digitChar (n % 10) (by omega)]

theorem natToDec_isDigits (n : Nat) : IsDigits (natToDec n) := ⟨natToDec_ne_nil n, natToDec_digits n⟩

/-- the rendering reads back as the number -/
theorem decVal_natToDec (n : Nat) : decVal (natToDec n) = n := by
  induction n using Nat.strongRecOn with
  | _ n ih =>
    by_cases h : n < 10
    · rw [natToDec_small n h]
      simp [decVal, digitVal_digitChar n h]
    · rw [natToDec_big n h, decVal_append, ih (n / 10) (by omega), digitVal_digitChar (n % 10) (by omega)]
      simp only [Option.getD_some]
      omega

/-- no leading zero, except for the number zero itself -/
theorem natToDec_head_zero (n : Nat) (h : (natToDec n).head? = some '0') : n = 0 := by
  induction n using Nat.strongRecOn with
  | _ n ih =>
    by_cases hs : n < 10
    · rw [natToDec_small n hs] at h
      simp only [List.head?_cons, Option.some.injEq] at h
      exact digitChar_zero n hs h
    · rw [natToDec_big n hs] at h
      have hne := natToDec_ne_nil (n / 10)
      have : (natToDec (n / 10) ++ [digitChar (n % 10)]).head? = (natToDec (n / 10)).head? := by
        cases hh : natToDec (n / 10) with
        | nil => exact absurd hh hne
        | cons a as => simp
      rw [this] at h
      have := ih (n / 10) (by omega) h
      omega

/-- Go reads the printed token as the same natural number (it is never taken for an octal literal) -/
theorem goIntToken_natToDec (n : Nat) : goIntToken (natToDec n) = some n := by
  have hd := natToDec_digits n
  have hv := decVal_natToDec n
  have hz := natToDec_head_zero n
  cases hs : natToDec n with
  | nil => exact absurd hs (natToDec_ne_nil n)
  | cons c rest =>
    rw [hs] at hd hv hz
    unfold goIntToken
    simp only
    rw [if_neg (by simpa using hd)]
    by_cases hc : c = '0' ∧ rest ≠ []
    · exfalso
      have hn : n = 0 := hz (by simp [hc.1])
      subst hn
      rw [natToDec_small 0 (by decide)] at hs
      simp only [List.cons.injEq] at hs
      exact hc.2 hs.2.symm
    · rw [if_neg hc, hv]

theorem natToDec_head_not_minus (n : Nat) : ∀ rest, natToDec n ≠ '-' :: rest := by
  intro rest h
  have := natToDec_digits n '-' (by rw [h]; simp)
  revert this; decide

/-- Go's constant for the printed text of any integer is that integer -/
theorem goConst_goLit (v : Int) : goConst (goLit v) = some v := by
  unfold goLit intToDec
  by_cases hneg : v < 0
  · rw [if_pos hneg]
    have hv : -((v.natAbs : Nat) : Int) = v := by omega
    have : goConst ('-' :: natToDec v.natAbs) = (goIntToken (natToDec v.natAbs)).map fun n => -(n : Int) := rfl
    rw [this, goIntToken_natToDec]
    exact congrArg some hv
  · rw [if_neg hneg]
    have hv : ((v.natAbs : Nat) : Int) = v := by omega
    have hnm := natToDec_head_not_minus v.natAbs
    unfold goConst
    split
    next rest h => exact absurd h (hnm rest)
    next =>
      rw [goIntToken_natToDec]
      exact congrArg some hv

/-- **lit_value** — the Go literal printed for an accepted literal, read by Go at the declared type `t`,
    denotes exactly the written number (so neither the re-parse, nor `to_string`, nor Go's octal rule, nor Go's
    representability check can change or reject it) -/
theorem lit_value (u : Bool) (t : IntTy) (s : List Char) (hs : IsDigits s) (v : Int)
    (h : checkLit u t s = .accept v) :
    goTyped t (goLit (builderValue u t s)) = some (decVal s : Int) := by
  have hr : t.InRange (decVal s : Int) := (lit_accept_iff u t s hs).mp ⟨v, h⟩
  obtain ⟨hv, hb⟩ := lit_accept_value u t s hs v h
  rw [hb, hv]
  unfold goTyped
  rw [goConst_goLit]
  simp only [hr, if_true]

/-- leading zeros: goml reads `010` as ten and prints `10`; printing the source text would make Go read eight -/
theorem lit_leading_zeros :
    checkLit false ⟨true, 32⟩ "010".toList = .accept 10 ∧ goLit 10 = "10".toList ∧
    goTyped ⟨true, 32⟩ "010".toList = some 8 := by
  refine ⟨by decide, ?_, by decide⟩
  simp [goLit, intToDec, natToDec, digitChar]

example : goTyped ⟨true, 8⟩ "-128".toList = some (-128) := by decide
example : goTyped ⟨true, 8⟩ "128".toList = none := by decide

/-! ### printing integers -/

/-- **to_string_int** — Go's `%d` rendering of any integer reads back, as a decimal numeral, to that integer -/
theorem to_string_int (v : Int) : readDec (sprintfD v) = some v := by
  unfold sprintfD intToDec
  by_cases hneg : v < 0
  · rw [if_pos hneg]
    have hv : -((v.natAbs : Nat) : Int) = v := by omega
    have : readDec ('-' :: natToDec v.natAbs) =
        if IsDigits (natToDec v.natAbs) then some (-(decVal (natToDec v.natAbs) : Int)) else none := rfl
    rw [this, if_pos (natToDec_isDigits _), decVal_natToDec]
    exact congrArg some hv
  · rw [if_neg hneg]
    have hv : ((v.natAbs : Nat) : Int) = v := by omega
    have hnm := natToDec_head_not_minus v.natAbs
    unfold readDec
    split
    next rest h => exact absurd h (hnm rest)
    next =>
      rw [if_pos (natToDec_isDigits _), decVal_natToDec]
      exact congrArg some hv

/-- `%d` of a value of type `t`, then goml's own literal reader at `t`: the value comes back (non-negative case:
    the rendering is itself an acceptable literal of the type) -/
theorem to_string_int_reparse (u : Bool) (t : IntTy) (v : Int) (h0 : 0 ≤ v) (hr : t.InRange v) :
    checkLit u t (sprintfD v) = .accept v := by
  have hd : sprintfD v = natToDec v.natAbs := by
    unfold sprintfD intToDec; rw [if_neg (by omega)]
  rw [hd, checkLit_digits u t _ (natToDec_isDigits _), decVal_natToDec]
  have : ((v.natAbs : Nat) : Int) = v := by omega
  rw [this, if_pos hr.2]

/-! ### operators: the Go operator the tables select means what the source operator means -/

theorem wrapU (n : Nat) (x : Nat) : ((x % 2 ^ n : Nat) : Int) = (x : Int) % ((2 ^ n : Nat) : Int) := by
  push_cast; rfl

theorem emod_shift (m x y : Nat) (hy : y < m) :
    (((m - y + x) % m : Nat) : Int) = ((x : Int) - (y : Int)) % (m : Int) := by
  rw [Int.natCast_emod]
  have : ((m - y + x : Nat) : Int) = (m : Int) + ((x : Int) - (y : Int)) := by omega
  rw [this, Int.add_emod_left]

theorem toZ_eq_iff (t : IntTy) (a b : BitVec t.bits) : t.toZ a = t.toZ b ↔ a = b := by
  obtain ⟨sg, n⟩ := t
  cases sg
  · simp only [IntTy.toZ, Bool.false_eq_true, if_false]
    rw [Int.ofNat_inj]; exact BitVec.toNat_inj
  · simp only [IntTy.toZ, if_true]
    exact BitVec.toInt_inj

theorem toZ_zero_iff (t : IntTy) (b : BitVec t.bits) : t.toZ b = 0 ↔ b = 0 := by
  have := toZ_eq_iff t b 0
  have h0 : t.toZ (0 : BitVec t.bits) = 0 := by
    obtain ⟨sg, n⟩ := t
    cases sg <;> simp [IntTy.toZ]
  rw [h0] at this; exact this

theorem sub_ok (t : IntTy) (a b : BitVec t.bits) :
    (goBinInt "-" t.signed a b).denote t = semBinInt .sub t (t.toZ a) (t.toZ b) := by
  obtain ⟨sg, n⟩ := t
  cases sg
  · simp (config := {decide := true}) only [goBinInt, GoVal.denote, semBinInt, IntTy.toZ, IntTy.wrap, Bool.false_eq_true, if_false, if_true]
    rw [BitVec.toNat_sub, emod_shift _ _ _ b.isLt]
  · simp (config := {decide := true}) only [goBinInt, GoVal.denote, semBinInt, IntTy.toZ, IntTy.wrap, if_true, if_false]
    rw [BitVec.toInt_sub]

theorem mul_ok (t : IntTy) (a b : BitVec t.bits) :
    (goBinInt "*" t.signed a b).denote t = semBinInt .mul t (t.toZ a) (t.toZ b) := by
  obtain ⟨sg, n⟩ := t
  cases sg
  · simp (config := {decide := true}) only [goBinInt, GoVal.denote, semBinInt, IntTy.toZ, IntTy.wrap, Bool.false_eq_true, if_false, if_true]
    rw [BitVec.toNat_mul, wrapU]; push_cast; rfl
  · simp (config := {decide := true}) only [goBinInt, GoVal.denote, semBinInt, IntTy.toZ, IntTy.wrap, if_true, if_false]
    rw [BitVec.toInt_mul]

theorem div_ok (t : IntTy) (a b : BitVec t.bits) :
    (goBinInt "/" t.signed a b).denote t = semBinInt .div t (t.toZ a) (t.toZ b) := by
  have hz := toZ_zero_iff t b
  by_cases hb : b = 0
  · subst hb
    have : t.toZ (0 : BitVec t.bits) = 0 := hz.mpr rfl
    simp (config := {decide := true}) only [goBinInt, semBinInt, this, if_true, if_false, GoVal.denote]
  · have hb' : ¬ t.toZ b = 0 := fun h => hb (hz.mp h)
    simp (config := {decide := true}) only [goBinInt, semBinInt, hb', hb, if_true, if_false, GoVal.denote]
    obtain ⟨sg, n⟩ := t
    cases sg
    · simp only [IntTy.toZ, IntTy.wrap, Bool.false_eq_true, if_false]
      rw [BitVec.toNat_udiv, Int.ofNat_tdiv]
      have h1 : a.toNat / b.toNat < 2 ^ n := Nat.lt_of_le_of_lt (Nat.div_le_self _ _) a.isLt
      rw [← Int.ofNat_tdiv, Int.emod_eq_of_lt (Int.natCast_nonneg _) (by exact_mod_cast h1)]
    · simp only [IntTy.toZ, IntTy.wrap, if_true]
      rw [BitVec.toInt_sdiv]

theorem add_ok (t : IntTy) (a b : BitVec t.bits) :
    (goBinInt "+" t.signed a b).denote t = semBinInt .add t (t.toZ a) (t.toZ b) := by
  obtain ⟨sg, n⟩ := t
  cases sg
  · simp (config := {decide := true}) only [goBinInt, GoVal.denote, semBinInt, IntTy.toZ, IntTy.wrap, Bool.false_eq_true, if_false, if_true]
    rw [BitVec.toNat_add, wrapU]; push_cast; rfl
  · simp (config := {decide := true}) only [goBinInt, GoVal.denote, semBinInt, IntTy.toZ, IntTy.wrap, if_true, if_false]
    rw [BitVec.toInt_add]

theorem neg_ok (t : IntTy) (a : BitVec t.bits) :
    (goUnInt "-" a).denote t = semUnInt .neg t (t.toZ a) := by
  obtain ⟨sg, n⟩ := t
  cases sg
  · simp (config := {decide := true}) only [goUnInt, GoVal.denote, semUnInt, IntTy.toZ, IntTy.wrap, Bool.false_eq_true, if_false, if_true]
    rw [BitVec.toNat_neg]
    have := emod_shift (2 ^ n) 0 a.toNat a.isLt
    simp only [Nat.add_zero, Int.natCast_zero, Int.zero_sub] at this
    rw [this]
  · simp (config := {decide := true}) only [goUnInt, GoVal.denote, semUnInt, IntTy.toZ, IntTy.wrap, if_true]
    rw [BitVec.toInt_neg]

theorem lt_ok (t : IntTy) (a b : BitVec t.bits) :
    (goBinInt "<" t.signed a b).denote t = semBinInt .lt t (t.toZ a) (t.toZ b) := by
  obtain ⟨sg, n⟩ := t
  cases sg
  · simp (config := {decide := true}) only [goBinInt, GoVal.denote, semBinInt, IntTy.toZ, Bool.false_eq_true, if_false, if_true,
      BitVec.ult_eq_decide, Int.ofNat_lt]
  · simp (config := {decide := true}) only [goBinInt, GoVal.denote, semBinInt, IntTy.toZ, if_true, if_false, BitVec.slt_eq_decide]

theorem gt_ok (t : IntTy) (a b : BitVec t.bits) :
    (goBinInt ">" t.signed a b).denote t = semBinInt .gt t (t.toZ a) (t.toZ b) := by
  obtain ⟨sg, n⟩ := t
  cases sg
  · simp (config := {decide := true}) only [goBinInt, GoVal.denote, semBinInt, IntTy.toZ, Bool.false_eq_true, if_false, if_true,
      BitVec.ult_eq_decide, GT.gt, Int.ofNat_lt]
  · simp (config := {decide := true}) only [goBinInt, GoVal.denote, semBinInt, IntTy.toZ, if_true, if_false, BitVec.slt_eq_decide, GT.gt]

theorem le_ok (t : IntTy) (a b : BitVec t.bits) :
    (goBinInt "<=" t.signed a b).denote t = semBinInt .le t (t.toZ a) (t.toZ b) := by
  obtain ⟨sg, n⟩ := t
  cases sg
  · simp (config := {decide := true}) only [goBinInt, GoVal.denote, semBinInt, IntTy.toZ, Bool.false_eq_true, if_false, if_true,
      BitVec.ule_eq_decide, Int.ofNat_le]
  · simp (config := {decide := true}) only [goBinInt, GoVal.denote, semBinInt, IntTy.toZ, if_true, if_false, BitVec.sle_eq_decide]

theorem ge_ok (t : IntTy) (a b : BitVec t.bits) :
    (goBinInt ">=" t.signed a b).denote t = semBinInt .ge t (t.toZ a) (t.toZ b) := by
  obtain ⟨sg, n⟩ := t
  cases sg
  · simp (config := {decide := true}) only [goBinInt, GoVal.denote, semBinInt, IntTy.toZ, Bool.false_eq_true, if_false, if_true,
      BitVec.ule_eq_decide, GE.ge, Int.ofNat_le]
  · simp (config := {decide := true}) only [goBinInt, GoVal.denote, semBinInt, IntTy.toZ, if_true, if_false, BitVec.sle_eq_decide, GE.ge]

theorem eq_ok (t : IntTy) (a b : BitVec t.bits) :
    (goBinInt "==" t.signed a b).denote t = semBinInt .eq t (t.toZ a) (t.toZ b) := by
  have h := toZ_eq_iff t a b
  simp (config := {decide := true}) only [goBinInt, GoVal.denote, semBinInt, if_true, if_false]
  congr 1
  by_cases hab : a = b
  · simp [hab]
  · have : ¬ t.toZ a = t.toZ b := fun e => hab (h.mp e)
    simp [hab, this]

theorem ne_ok (t : IntTy) (a b : BitVec t.bits) :
    (goBinInt "!=" t.signed a b).denote t = semBinInt .ne t (t.toZ a) (t.toZ b) := by
  have h := toZ_eq_iff t a b
  simp (config := {decide := true}) only [goBinInt, GoVal.denote, semBinInt, if_true, if_false]
  congr 1
  by_cases hab : a = b
  · simp [hab]
  · have : ¬ t.toZ a = t.toZ b := fun e => hab (h.mp e)
    simp [hab, this]

/-- **opmap_faithful_bin** — for every goml binary operator: the generated tables (`compile.rs` operator map, then
    `go_pprint.rs` symbol table) give it a Go operator, and that Go operator, applied to two words of *any* sized
    integer type (every width, both signednesses, all operand values), denotes exactly what the source operator
    means on the numbers the words stand for — including wrap-around, truncated division, the division-by-zero
    failure and signed/unsigned ordering.  On `bool` operands likewise.  Operators that do not apply to a class
    (`&&` on integers, `<` on bools, …) are undefined on both sides. -/
theorem opmap_faithful_bin (op : BinOp) :
    ∃ sym, goSymOf Gen.OpMap.binMap Gen.OpMap.goBinSym op.name = some sym ∧
      (∀ (t : IntTy) (a b : BitVec t.bits),
        (goBinInt sym t.signed a b).denote t = semBinInt op t (t.toZ a) (t.toZ b)) ∧
      (∀ a b : Bool, goBinBool sym a b = semBinBool op a b) := by
  cases op
  · exact ⟨"+", by decide, add_ok, by decide⟩
  · exact ⟨"-", by decide, sub_ok, by decide⟩
  · exact ⟨"*", by decide, mul_ok, by decide⟩
  · exact ⟨"/", by decide, div_ok, by decide⟩
  · exact ⟨"&&", by decide, fun t a b => by simp (config := {decide := true}) [goBinInt, GoVal.denote, semBinInt], by decide⟩
  · exact ⟨"||", by decide, fun t a b => by simp (config := {decide := true}) [goBinInt, GoVal.denote, semBinInt], by decide⟩
  · exact ⟨"<", by decide, lt_ok, by decide⟩
  · exact ⟨">", by decide, gt_ok, by decide⟩
  · exact ⟨"<=", by decide, le_ok, by decide⟩
  · exact ⟨">=", by decide, ge_ok, by decide⟩
  · exact ⟨"==", by decide, eq_ok, by decide⟩
  · exact ⟨"!=", by decide, ne_ok, by decide⟩

/-- **opmap_faithful_un** — the same for the unary operators (`-` wraps: `-(-128) = -128` at int8, `-x = 2^n - x`
    at unsigned types; `!` on bool) -/
theorem opmap_faithful_un (op : UnOp) :
    ∃ sym, goSymOf Gen.OpMap.unMap Gen.OpMap.goUnSym op.name = some sym ∧
      (∀ (t : IntTy) (a : BitVec t.bits), (goUnInt sym a).denote t = semUnInt op t (t.toZ a)) ∧
      (∀ a : Bool, goUnBool sym a = semUnBool op a) := by
  cases op
  · exact ⟨"-", by decide, neg_ok, by decide⟩
  · exact ⟨"!", by decide, fun t a => by simp (config := {decide := true}) [goUnInt, GoVal.denote, semUnInt], by decide⟩

/-- the operator tables are total and only mention known operators: every `common_defs` operator has exactly one row -/
theorem opmap_total :
    Gen.OpMap.binMap.map (·.1) = Gen.OpMap.srcBin.map (·.1) ∧ Gen.OpMap.srcBin.map (·.1) = BinOp.all.map BinOp.name ∧
    Gen.OpMap.unMap.map (·.1) = Gen.OpMap.srcUn.map (·.1) ∧ Gen.OpMap.srcUn.map (·.1) = UnOp.all.map UnOp.name := by
  decide

/-- the source symbol of every operator is the Go symbol it is compiled to (so reading the goml text as Go is faithful) -/
theorem opmap_symbols_agree :
    (∀ r ∈ Gen.OpMap.srcBin, goSymOf Gen.OpMap.binMap Gen.OpMap.goBinSym r.1 = some r.2) ∧
    (∀ r ∈ Gen.OpMap.srcUn, goSymOf Gen.OpMap.unMap Gen.OpMap.goUnSym r.1 = some r.2) := by
  decide

-- non-vacuity: concrete instances at int8 / uint8
example : (goBinInt "+" true (127#8) (1#8)).denote ⟨true, 8⟩ = .int (-128) := by decide
example : semBinInt .add ⟨true, 8⟩ 127 1 = .int (-128) := by decide
example : semBinInt .add ⟨false, 8⟩ 255 1 = .int 0 := by decide
example : semBinInt .div ⟨true, 8⟩ (-7) 2 = .int (-3) := by decide
example : semBinInt .div ⟨true, 8⟩ (-128) (-1) = .int (-128) := by decide
example : semBinInt .lt ⟨false, 8⟩ 200 100 = .bool false ∧ semBinInt .lt ⟨true, 8⟩ (-56) 100 = .bool true := by decide

/-! ### spec-pinning lemmas: what "wraps", "truncates", "fails", "respects signedness" mean -/

/-- **wrap_mod** — unsigned results are the exact result modulo 2^n -/
theorem wrap_mod {n : Nat} (a b : BitVec n) :
    (a + b).toNat = (a.toNat + b.toNat) % 2 ^ n ∧
    (a * b).toNat = (a.toNat * b.toNat) % 2 ^ n ∧
    ((a - b).toNat : Int) = ((a.toNat : Int) - (b.toNat : Int)) % (2 ^ n : Nat) := by
  refine ⟨BitVec.toNat_add a b, BitVec.toNat_mul a b, ?_⟩
  rw [BitVec.toNat_sub, emod_shift _ _ _ b.isLt]

/-- **wrap_signed_range** — a wrapped signed result lies in `[-2^(n-1), 2^(n-1))` and is congruent to the exact
    result modulo 2^n (so it is the unique such number) -/
theorem wrap_signed_range (n : Nat) (hn : 0 < n) (x : Int) :
    let t : IntTy := ⟨true, n⟩
    t.InRange (t.wrap x) ∧ t.wrap x % ((2 ^ n : Nat) : Int) = x % ((2 ^ n : Nat) : Int) := by
  intro t
  have hpow : (2 ^ n : Nat) = 2 * 2 ^ (n - 1) := by
    rw [← Nat.pow_succ']; congr 1; omega
  have hpos : 0 < (2 ^ n : Nat) := Nat.two_pow_pos n
  have h1 := @Int.le_bmod x (2 ^ n) hpos
  have h2 := @Int.bmod_lt x (2 ^ n) hpos
  refine ⟨⟨?_, ?_⟩, ?_⟩
  · simp only [t, IntTy.minVal, IntTy.wrap, if_true]
    have : ((2 ^ n : Nat) : Int) / 2 = 2 ^ (n - 1) := by
      rw [hpow]; push_cast; omega
    push_cast at h1 this ⊢
    omega
  · simp only [t, IntTy.maxVal, IntTy.wrap, if_true]
    have : (((2 ^ n : Nat) : Int) + 1) / 2 = 2 ^ (n - 1) := by
      rw [hpow]; push_cast; omega
    push_cast at h2 this ⊢
    omega
  · simp only [t, IntTy.wrap, if_true]
    exact Int.bmod_emod

/-- **div_trunc** — signed `/` is truncation toward zero of the exact quotient (`-7 / 2 = -3`), wrapped; the only
    operand pair for which the wrap matters is `minInt / -1` (`div_min_neg_one`) -/
theorem div_trunc {n : Nat} (a b : BitVec n) (h : a ≠ BitVec.intMin n ∨ b ≠ -1#n) :
    (a.sdiv b).toInt = a.toInt.tdiv b.toInt :=
  BitVec.toInt_sdiv_of_ne_or_ne a b h

/-- **div_min_neg_one** — `minInt / -1` wraps to `minInt` (no failure), as Go specifies -/
theorem div_min_neg_one (n : Nat) : (BitVec.intMin n).sdiv (-1#n) = BitVec.intMin n :=
  BitVec.intMin_sdiv_neg_one

/-- unsigned `/` is the floor (= truncated) quotient -/
theorem div_unsigned {n : Nat} (a b : BitVec n) : (a / b).toNat = a.toNat / b.toNat := BitVec.toNat_udiv

/-- **div_zero_panics** — at every integer type, for every dividend, dividing by zero is a run-time failure,
    in the source meaning and in the Go meaning of the operator selected by the tables -/
theorem div_zero_panics (t : IntTy) (a : BitVec t.bits) :
    semBinInt .div t (t.toZ a) 0 = .panic ∧ goBinInt "/" t.signed a (0 : BitVec t.bits) = .panic := by
  constructor
  · simp [semBinInt]
  · simp (config := {decide := true}) [goBinInt]

/-- **cmp_signed** — at signed types `<` compares the two's-complement values: `-1 < 0` although `0xFF > 0x00` -/
theorem cmp_signed {n : Nat} (a b : BitVec n) :
    goBinInt "<" true a b = .bool (decide (a.toInt < b.toInt)) ∧
    goBinInt "<=" true a b = .bool (decide (a.toInt ≤ b.toInt)) := by
  constructor <;> simp (config := {decide := true}) [goBinInt, BitVec.slt_eq_decide, BitVec.sle_eq_decide]

/-- **cmp_unsigned** — at unsigned types `<` compares the natural numbers: `200 < 100` is false at uint8 -/
theorem cmp_unsigned {n : Nat} (a b : BitVec n) :
    goBinInt "<" false a b = .bool (decide (a.toNat < b.toNat)) ∧
    goBinInt "<=" false a b = .bool (decide (a.toNat ≤ b.toNat)) := by
  constructor <;> simp (config := {decide := true}) [goBinInt, BitVec.ult_eq_decide, BitVec.ule_eq_decide]

example : goBinInt "<" true (0xFF#8) (0x00#8) = .bool true ∧ goBinInt "<" false (0xFF#8) (0x00#8) = .bool false := by decide

/-- wrapping leaves an in-range number alone -/
theorem wrap_of_inRange (t : IntTy) (hn : 0 < t.bits) (x : Int) (h : t.InRange x) : t.wrap x = x := by
  obtain ⟨sg, n⟩ := t
  simp only at hn
  have hpow : (2 ^ n : Nat) = 2 * 2 ^ (n - 1) := by
    rw [← Nat.pow_succ']; congr 1; omega
  cases sg
  · simp only [IntTy.InRange, IntTy.minVal, IntTy.maxVal, Bool.false_eq_true, if_false] at h
    simp only [IntTy.wrap, Bool.false_eq_true, if_false]
    apply Int.emod_eq_of_lt h.1
    push_cast; omega
  · simp only [IntTy.InRange, IntTy.minVal, IntTy.maxVal, if_true] at h
    simp only [IntTy.wrap, if_true]
    apply Int.bmod_eq_of_le
    · have : ((2 ^ n : Nat) : Int) / 2 = 2 ^ (n - 1) := by rw [hpow]; push_cast; omega
      rw [this]; exact h.1
    · have : (((2 ^ n : Nat) : Int) + 1) / 2 = 2 ^ (n - 1) := by rw [hpow]; push_cast; omega
      rw [this]; omega

/-! ### negated literals: the `-` in `-127i8` is the negation operator, the literal is checked on its own -/

theorem goConst_neg_natToDec (n : Nat) : goConst ('-' :: natToDec n) = some (-(n : Int)) := by
  have : goConst ('-' :: natToDec n) = (goIntToken (natToDec n)).map fun k => -(k : Int) := rfl
  rw [this, goIntToken_natToDec]; rfl

/-- **neg_lit_value** — at a signed type, `-<digits>` with an accepted literal means minus the written number (no
    wrap can occur), and the emitted Go text `-<value>` is read by Go, at the declared type, as that same number -/
theorem neg_lit_value (u : Bool) (t : IntTy) (hsg : t.signed = true) (hn : 0 < t.bits) (s : List Char)
    (hs : IsDigits s) (v : Int) (h : checkLit u t s = .accept v) :
    semUnInt .neg t v = .int (-(decVal s : Int)) ∧ goTyped t ('-' :: goLit v) = some (-(decVal s : Int)) := by
  have hr : t.InRange (decVal s : Int) := (lit_accept_iff u t s hs).mp ⟨v, h⟩
  obtain ⟨hv, _⟩ := lit_accept_value u t s hs v h
  subst hv
  have hnn : (0 : Int) ≤ (decVal s : Int) := Int.natCast_nonneg _
  have hneg : t.InRange (-(decVal s : Int)) := by
    unfold IntTy.InRange IntTy.minVal IntTy.maxVal at *
    rw [if_pos hsg] at hr ⊢
    rw [if_pos hsg] at hr ⊢
    omega
  constructor
  · simp only [semUnInt, wrap_of_inRange t hn _ hneg]
  · have hl : goLit (decVal s : Int) = natToDec (decVal s) := by
      unfold goLit intToDec
      rw [if_neg (by omega)]; rfl
    rw [hl]
    unfold goTyped
    rw [goConst_neg_natToDec]
    simp only [hneg, if_true]

/-- **neg_lit_min_unwritable** — consequently the most negative value of a signed type has no literal form:
    its magnitude `2^(n-1)` is rejected (`-128i8` is a compile error; `-127i8 - 1i8` is the way to write it) -/
theorem neg_lit_min_unwritable (u : Bool) (t : IntTy) (hsg : t.signed = true) (s : List Char) (hs : IsDigits s)
    (hm : (decVal s : Int) = -t.minVal) : checkLit u t s = .doesNotFit := by
  apply lit_reject_kind u t s hs
  unfold IntTy.InRange IntTy.minVal IntTy.maxVal at *
  rw [if_pos hsg] at hm ⊢
  rw [if_pos hsg]
  omega

example : checkLit false ⟨true, 8⟩ "127".toList = .accept 127 ∧ goTyped ⟨true, 8⟩ "-127".toList = some (-127) ∧
    checkLit false ⟨true, 8⟩ "128".toList = .doesNotFit := by decide

/-! ### Go constant folding — the reach of `opmap_faithful_*`

`opmap_faithful_bin` is about Go operators applied to *typed, non-constant* operands.  The backend prints a
literal operand as a bare Go literal (an untyped constant), so an operator whose operands are **both** literals is
a Go *constant expression*: evaluated exactly at compile time and **rejected** when the result overflows the
target type or a constant divisor is zero.  The two theorems say precisely when that still agrees with the source
meaning, and exhibit the disagreement (recorded as a known finding; the harness finds it on the real output). -/

/-- folding agrees with the source meaning whenever the exact result fits (then no wrap happens) -/
theorem const_operands_faithful_of_fits (t : IntTy) (hn : 0 < t.bits) (a b : Int) :
    (t.InRange (a + b) → goConstBin "+" t a b = some (semBinInt .add t a b)) ∧
    (t.InRange (a - b) → goConstBin "-" t a b = some (semBinInt .sub t a b)) ∧
    (t.InRange (a * b) → goConstBin "*" t a b = some (semBinInt .mul t a b)) ∧
    (b ≠ 0 → t.InRange (a.tdiv b) → goConstBin "/" t a b = some (semBinInt .div t a b)) := by
  refine ⟨?_, ?_, ?_, ?_⟩
  · intro h
    simp (config := {decide := true}) only [goConstBin, semBinInt, h, if_true, wrap_of_inRange t hn _ h]
  · intro h
    simp (config := {decide := true}) only [goConstBin, semBinInt, h, if_true, if_false, wrap_of_inRange t hn _ h]
  · intro h
    simp (config := {decide := true}) only [goConstBin, semBinInt, h, if_true, if_false, wrap_of_inRange t hn _ h]
  · intro hb h
    simp (config := {decide := true}) only [goConstBin, semBinInt, h, hb, if_true, if_false, wrap_of_inRange t hn _ h]

/-- …and disagrees otherwise: `127i8 + 1i8` means -128, `1 / 0` means a run-time failure, `255u8 + 1u8` means 0 —
    but the emitted `127 + 1`, `1 / 0`, `255 + 1` are rejected by the Go compiler -/
theorem const_operands_unfaithful :
    (semBinInt .add ⟨true, 8⟩ 127 1 = .int (-128) ∧ goConstBin "+" ⟨true, 8⟩ 127 1 = none) ∧
    (semBinInt .div ⟨true, 32⟩ 1 0 = .panic ∧ goConstBin "/" ⟨true, 32⟩ 1 0 = none) ∧
    (semBinInt .add ⟨false, 8⟩ 255 1 = .int 0 ∧ goConstBin "+" ⟨false, 8⟩ 255 1 = none) := by
  decide

/-! ### Go constant expressions over FLOAT literals

An operator whose operands are all float literals is printed as `lit op lit`; Go evaluates it on the **printed texts**,
exactly, and rounds **once** at the typed use (`Model/GoConst.lean`).  The source meaning is the IEEE operation on
the two floats the literals were rounded to.  IEEE-754 defines `+ − × ÷` as *the exact result, correctly rounded*
(so `ieeeOp a b = round (op (val a) (val b))` is the definition, not an assumption about hardware).  Hence: -/

/-- **float_const_faithful_if_exact_operands** — for ONE operator (`+ − × ÷`, any format, any correctly-rounding
    `round`): if each printed operand text denotes exactly the float it stands for, Go's exact-then-round-once value
    IS the IEEE result.  No double-rounding problem arises, because only one rounding happens on either side. -/
theorem float_const_faithful_if_exact_operands {R F : Type} (op : R → R → R) (round : R → F) (val : F → R)
    (denote : String → R) (ta tb : String) (a b : F) (ha : denote ta = val a) (hb : denote tb = val b) :
    round (op (denote ta) (denote tb)) = round (op (val a) (val b)) := by
  rw [ha, hb]

/-- the same for unary minus applied to a literal (`-0.5`), `round (-x) = -(round x)` not even being needed -/
theorem float_const_neg_faithful_if_exact_operand {R F : Type} (neg : R → R) (round : R → F) (val : F → R)
    (denote : String → R) (t : String) (a : F) (ha : denote t = val a) :
    round (neg (denote t)) = round (neg (val a)) := by
  rw [ha]

set_option maxRecDepth 8000 in
open Goml.GoConst in
/-- non-vacuity of the hypothesis and of the conclusion, on the concrete binary32 model: with the EXACT decimal
    expansion of `0.1f32` the constant expression agrees with the IEEE sum even on an exact rounding tie -/
theorem float_const_exact_texts_example :
    (goFloatConst "float32" (.bin "+" (.lit "0.100000001490116119384765625") (.lit "0.03125"))).toOption = some 0x3e066666 ∧
    ((litBits "float32" "0.1").bind fun a => (litBits "float32" "0.03125").bind fun b => ieeeBin 24 8 "+" a b) = some 0x3e066666 ∧
    (litBits "float32" "0.1").bind (valOfBits 24 8) = some ⟨13421773, 2 ^ 27⟩ := by
  decide +kernel

open Goml.GoConst in
/-- **float_const_two_ops_unfaithful** — the statement does NOT extend to two operators in one constant expression,
    even with exact texts: `16777216 + 1 + 1` is `16777218` exactly, but two float32 additions give `16777216`
    (each `+ 1` is a tie that rounds to even).  The backend is safe only because ANF names every intermediate result,
    so a printed constant expression has exactly one operator — which the harness checks on every emitted program. -/
theorem float_const_two_ops_unfaithful :
    (goFloatConst "float32" (.bin "+" (.bin "+" (.lit "16777216.0") (.lit "1.0")) (.lit "1.0"))).toOption = some 0x4b800001 ∧
    ((litBits "float32" "16777216.0").bind fun a => (litBits "float32" "1.0").bind fun b =>
      (ieeeBin 24 8 "+" a b).bind fun t => ieeeBin 24 8 "+" t b) = some 0x4b800000 := by
  decide

open Goml.GoConst in
/-- **float_const_f32_display_unfaithful** — shortened texts (the shortest decimal that reads back as the *float32*,
    what a printer using `(value as f32).to_string()` emits): `0.1f32 + 0.6f32` means `0.70000005` (0x3f333334) but
    `0.1 + 0.6` is the real number 0.7, which rounds to 0x3f333333; likewise `0.1f32 * 0.1f32`, `0.1f32 / 0.3f32` -/
theorem float_const_f32_display_unfaithful :
    (goFloatConst "float32" (.bin "+" (.lit "0.1") (.lit "0.6"))).toOption = some 0x3f333333 ∧
    ((litBits "float32" "0.1").bind fun a => (litBits "float32" "0.6").bind fun b => ieeeBin 24 8 "+" a b) = some 0x3f333334 ∧
    (goFloatConst "float32" (.bin "+" (.lit "0.10000000149011612") (.lit "0.6000000238418579"))).toOption = some 0x3f333334 ∧
    (goFloatConst "float32" (.bin "*" (.lit "0.1") (.lit "0.1"))).toOption ≠
      ((litBits "float32" "0.1").bind fun a => ieeeBin 24 8 "*" a a) ∧
    (goFloatConst "float32" (.bin "/" (.lit "0.1") (.lit "0.3"))).toOption ≠
      ((litBits "float32" "0.1").bind fun a => (litBits "float32" "0.3").bind fun b => ieeeBin 24 8 "/" a b) := by
  decide

open Goml.GoConst in
/-- **float_const_f64_display_unfaithful** — the texts the printer emits today (`{}` of the f64: the shortest decimal
    that reads back as that *f64*) are not exact either, so the hypothesis of `float_const_faithful_if_exact_operands`
    fails for them too.  float64: `0.1f64 + 0.2f64` means 0.30000000000000004 but `0.1 + 0.2` is exactly 0.3.
    float32: the text is within 2^-53 of the value, which only matters on an exact tie — `0.1f32 + 0.03125f32`:
    the IEEE sum is a tie and rounds to even (0x3e066666); `0.10000000149011612` lies a hair above `0.1f32`, so Go's
    exact sum lies above the tie and rounds up (0x3e066667).  Both are found on the real output (known findings). -/
theorem float_const_f64_display_unfaithful :
    (goFloatConst "float64" (.bin "+" (.lit "0.1") (.lit "0.2"))).toOption = some 0x3fd3333333333333 ∧
    ((litBits "float64" "0.1").bind fun a => (litBits "float64" "0.2").bind fun b => ieeeBin 53 11 "+" a b)
      = some 0x3fd3333333333334 ∧
    (goFloatConst "float32" (.bin "+" (.lit "0.10000000149011612") (.lit "0.03125"))).toOption = some 0x3e066667 ∧
    ((litBits "float32" "0.1").bind fun a => (litBits "float32" "0.03125").bind fun b => ieeeBin 24 8 "+" a b)
      = some 0x3e066666 := by
  decide

set_option maxRecDepth 8000 in
open Goml.GoConst in
/-- **float_const_rejected** — constant division by zero and constant overflow are compile-time errors in Go, while the
    source program is accepted and means ±Inf; and Go has no negative-zero constant: `-0.0` is `+0` -/
theorem float_const_rejected :
    (match goFloatConst "float64" (.bin "/" (.lit "1.0") (.lit "0.0")) with
      | .error .divisionByZero => true | _ => false) = true ∧
    (match goFloatConst "float32" (.bin "*" (.lit "340282346638528859811704183484516925440.0") (.lit "10.0")) with
      | .error .overflows => true | _ => false) = true ∧
    (goFloatConst "float32" (.neg (.lit "0.0"))).toOption = some 0 ∧
    ((litBits "float32" "0.0").map (ieeeNeg 24 8)) = some 0x80000000 := by
  refine ⟨by decide, by decide, by decide, by decide⟩

open Goml.GoConst in
/-- mixed integer/float constants and constant comparison (Go: integer constants divide with truncation, a `.` makes
    the constant floating-point — the printer's `.0` suffix keeps `1.0 / 2.0` from becoming `1 / 2 = 0`) -/
theorem const_kinds :
    (constEval (.bin "/" (.lit "1") (.lit "2"))).toOption.bind CVal.toQ = some ⟨0, 1⟩ ∧
    ((constEval (.bin "/" (.lit "1.0") (.lit "2.0"))).toOption.bind CVal.toQ).map (Q.eqv ⟨1, 2⟩) = some true ∧
    ((constEval (.bin "/" (.lit "1") (.lit "2.0"))).toOption.bind CVal.toQ).map (Q.eqv ⟨1, 2⟩) = some true ∧
    (match constEval (.bin "==" (.bin "+" (.lit "0.1") (.lit "0.2")) (.lit "0.3")) with | .ok (.bool b) => b | _ => false) = true := by
  decide

/-- **float_print_identifies_f64** (over the generated `Gen/FloatPrint`) — both float types are spelled with `{}` of the
    f64 value, the strongest guarantee the printer can give short of exact expansions: the text identifies the value
    among all f64 (so a single literal, and a literal next to a variable, always denote the right float), and integral
    spellings get `.0`.  A printer that spells float32 literals with the float32's own shortest digits fails here. -/
theorem float_print_identifies_f64 :
    Gen.FloatPrint.literalText.map (·.1) = ["TFloat32", "TFloat64"] ∧
    (Gen.FloatPrint.literalText.all fun r => Goml.GoConst.printIdentifiesF64 r.2) = true ∧
    Gen.FloatPrint.integralSuffix = ".0" := by
  decide

section Kind
open Goml.GoConst

/-! ### the KIND of a printed float literal (integer vs floating-point constant) -/

theorem takeWhile_all_eq (p : Char → Bool) (xs : List Char) (h : ∀ c ∈ xs, p c = true) :
    xs.takeWhile p = xs ∧ xs.dropWhile p = [] := by
  induction xs with
  | nil => simp
  | cons x xs ih =>
    have hx : p x = true := h x (by simp)
    have := ih (fun c hc => h c (by simp [hc]))
    simp [hx, this.1, this.2]

theorem takeWhile_stop (p : Char → Bool) (xs : List Char) (y : Char) (ys : List Char)
    (hx : ∀ c ∈ xs, p c = true) (hy : p y = false) :
    (xs ++ y :: ys).takeWhile p = xs ∧ (xs ++ y :: ys).dropWhile p = y :: ys := by
  induction xs with
  | nil => simp [hy]
  | cons x xs ih =>
    have hx' : p x = true := hx x (by simp)
    have := ih (fun c hc => hx c (by simp [hc]))
    simp [hx', this.1, this.2]

theorem digit_not_mark {c : Char} (h : isDigit c = true) : c ≠ '.' ∧ c ≠ 'e' ∧ c ≠ 'E' := by
  refine ⟨?_, ?_, ?_⟩ <;> (intro hc; subst hc; revert h; decide)

/-- a token of digits only is of INTEGER kind -/
theorem isFloatText_digits (cs : List Char) (h : ∀ c ∈ cs, isDigit c = true) : isFloatText cs = false := by
  unfold isFloatText
  rw [List.any_eq_false]
  intro c hc
  have := digit_not_mark (h c hc)
  simp [this.1, this.2.1, this.2.2]


/-- Rust's `{}` of a whole number, as Go reads it: an integer constant of that value -/
theorem litValL_whole (n : Nat) : litValL (natToDec n) = .ok (.int (n : Int)) := by
  unfold litValL
  rw [isFloatText_digits _ (natToDec_digits n), goIntToken_natToDec]
  rfl

theorem isFloatText_suffixed (cs : List Char) : isFloatText (cs ++ ['.', '0']) = true := by
  unfold isFloatText
  rw [List.any_append]
  simp

/-- … and with the `.0` the printer appends: a floating-point constant of the same value -/
theorem litValL_whole_suffixed (n : Nat) :
    litValL (natToDec n ++ ['.', '0']) = .ok (.flt ⟨((n * 10 : Nat) : Int), 10⟩) := by
  have hd := natToDec_digits n
  have hE : ∀ c ∈ natToDec n ++ ['.', '0'], (fun c : Char => !(c == 'e' || c == 'E')) c = true := by
    intro c hc
    rcases List.mem_append.mp hc with h | h
    · have := digit_not_mark (hd c h); simp [this.2.1, this.2.2]
    · simp at h; rcases h with h | h <;> subst h <;> decide
  have hP : ∀ c ∈ natToDec n, (fun c : Char => c != '.') c = true := by
    intro c hc; have := digit_not_mark (hd c hc); simp [this.1]
  unfold litValL
  rw [isFloatText_suffixed]
  simp only [if_true, ofGoFloatText]
  rw [(takeWhile_all_eq _ _ hE).1, (takeWhile_all_eq _ _ hE).2]
  simp only [ofMantissa]
  rw [(takeWhile_stop _ (natToDec n) '.' ['0'] hP (by decide)).1, (takeWhile_stop _ (natToDec n) '.' ['0'] hP (by decide)).2]
  have h0 : IsDigits ['0'] := by decide
  simp only [natToDec_isDigits n, h0, or_true, true_and, natToDec_ne_nil n, false_and, not_false_eq_true, if_true]
  rw [decVal_append, decVal_natToDec]
  rfl


theorem litVal_ofList (cs : List Char) : litVal (String.ofList cs) = litValL cs := by
  simp [litVal]

/-- a truncated quotient is the quotient only when the division is exact -/
theorem truncated_quotient_differs (a b : Nat) (h : ¬ b ∣ a) :
    (Q.ofInt ((a / b : Nat) : Int)).eqv ⟨(a : Int), b⟩ = false := by
  unfold Q.eqv Q.ofInt
  simp only [beq_eq_false_iff_ne, ne_eq]
  intro he
  apply h
  have : a / b * b = a := by
    have h2 : ((a / b * b : Nat) : Int) = (a : Int) := by push_cast; simpa using he
    exact_mod_cast h2
  exact ⟨a / b, by rw [Nat.mul_comm]; exact this.symm⟩

/-- **float_const_integral_suffix_needed** — for ALL whole operands `a`, `b > 0`: printed as Rust's `{}` gives them
    (`7`, `2`), the quotient is a Go INTEGER constant expression and is truncated (`7 / 2` is `3`); with the `.0` that
    `go_float_literal` appends (`7.0 / 2.0`) it is a floating-point constant expression whose exact value is `a / b`.
    The two agree only when `b` divides `a` (`truncated_quotient_differs`).  Standing alone, or beside a variable,
    both spellings denote the same float — only a literal-literal operator shows the difference. -/
theorem float_const_integral_suffix_needed (a b : Nat) (hb : 0 < b) :
    constEval (.bin "/" (.lit (String.ofList (natToDec a))) (.lit (String.ofList (natToDec b))))
      = .ok (.int ((a / b : Nat) : Int)) ∧
    ∃ q, constEval (.bin "/" (.lit (String.ofList (natToDec a ++ ['.', '0']))) (.lit (String.ofList (natToDec b ++ ['.', '0']))))
      = .ok (.flt q) ∧ q.eqv ⟨(a : Int), b⟩ = true := by
  constructor
  · simp only [constEval, litVal_ofList, litValL_whole]
    simp [constBin]
    omega
  · simp only [constEval, litVal_ofList, litValL_whole_suffixed]
    simp only [constBin, CVal.toQ, Q.div?]
    have h1 : ¬ (((b * 10 : Nat) : Int) = 0) := by omega
    have h2 : ((b * 10 : Nat) : Int) > 0 := by omega
    simp only [String.reduceEq, if_false, if_true, h1, h2]
    refine ⟨_, rfl, ?_⟩
    unfold Q.eqv
    simp only [beq_iff_eq]
    have h3 : (((b * 10 : Nat) : Int)).toNat = b * 10 := by omega
    rw [h3]
    push_cast
    simp only [Int.mul_comm, Int.mul_left_comm]

/-- **float_print_always_float_kind** (over the generated `Gen/FloatPrint.integralSuffix`) — whatever text Rust's
    formatting produced, what `go_float_literal` prints is a token of floating-point kind: it has a `.` or an exponent
    already, or gets the suffix, and the suffix has a `.`.  (`isFloatText` is Go's kind test AND the printer's
    `text.contains(['.', 'e', 'E'])`.)  With an empty suffix — or one without `.` — this fails. -/
theorem float_print_always_float_kind (text : List Char) :
    isFloatText (spellFloat Gen.FloatPrint.integralSuffix.toList text) = true := by
  unfold spellFloat
  split
  · assumption
  · unfold isFloatText
    rw [List.any_append]
    have : (Gen.FloatPrint.integralSuffix.toList.any fun c => c == '.' || c == 'e' || c == 'E') = true := by decide
    simp [this]

/-- a whole number printed through `go_float_literal` is read by Go as a floating-point constant of that value -/
theorem float_print_whole_value (n : Nat) :
    litValL (spellFloat Gen.FloatPrint.integralSuffix.toList (natToDec n)) = .ok (.flt ⟨((n * 10 : Nat) : Int), 10⟩) := by
  unfold spellFloat
  rw [isFloatText_digits _ (natToDec_digits n)]
  exact litValL_whole_suffixed n

/-- **float_const_integer_kind_unfaithful** — concrete, on the binary32 model: `7.0f32 / 2.0f32` means 3.5
    (0x40600000).  Printed `7.0 / 2.0` Go computes that; printed `7 / 2` (no suffix) Go computes the INTEGER quotient 3
    (0x40400000), `-7 / 2` is −3 (truncation toward zero), `1 / 2` is 0.  An exponent also makes the token
    floating-point (`7e0 / 2e0` is 3.5), and a lone `7` converts to the same float as `7.0`. -/
theorem float_const_integer_kind_unfaithful :
    ((litBits "float32" "7.0").bind fun a => (litBits "float32" "2.0").bind fun b => ieeeBin 24 8 "/" a b) = some 0x40600000 ∧
    (goFloatConst "float32" (.bin "/" (.lit "7.0") (.lit "2.0"))).toOption = some 0x40600000 ∧
    (goFloatConst "float32" (.bin "/" (.lit "7") (.lit "2"))).toOption = some 0x40400000 ∧
    (goFloatConst "float32" (.bin "/" (.neg (.lit "7")) (.lit "2"))).toOption = some 0xc0400000 ∧
    (goFloatConst "float32" (.bin "/" (.neg (.lit "7.0")) (.lit "2.0"))).toOption = some 0xc0600000 ∧
    (goFloatConst "float64" (.bin "/" (.lit "1") (.lit "2"))).toOption = some 0 ∧
    (goFloatConst "float32" (.bin "/" (.lit "7e0") (.lit "2e0"))).toOption = some 0x40600000 ∧
    (goFloatConst "float32" (.bin "/" (.lit "7") (.lit "2.0"))).toOption = some 0x40600000 ∧
    (goFloatConst "float32" (.lit "7")).toOption = (goFloatConst "float32" (.lit "7.0")).toOption := by
  decide

/-- **go_float_token_forms** — the decimal forms of Go's floating-point literal grammar as `ofGoFloatText` reads them
    (mantissa with either side of the `.` empty, exponent with and without sign, either case of `e`), what is not a
    token, and the octal reading of an integer token with a leading zero -/
theorem go_float_token_forms :
    (ofGoFloatText "7.".toList).map (Q.eqv ⟨7, 1⟩) = some true ∧
    (ofGoFloatText ".5".toList).map (Q.eqv ⟨1, 2⟩) = some true ∧
    (ofGoFloatText "1e3".toList).map (Q.eqv ⟨1000, 1⟩) = some true ∧
    (ofGoFloatText "1.5E+3".toList).map (Q.eqv ⟨1500, 1⟩) = some true ∧
    (ofGoFloatText "25e-2".toList).map (Q.eqv ⟨1, 4⟩) = some true ∧
    (ofGoFloatText "09.5".toList).map (Q.eqv ⟨19, 2⟩) = some true ∧
    ofGoFloatText ".".toList = none ∧ ofGoFloatText "1e".toList = none ∧ ofGoFloatText "e5".toList = none ∧
    ofGoFloatText "1.2.3".toList = none ∧ ofGoFloatText "1e1.5".toList = none ∧
    (litVal "010").toOption.bind CVal.toQ = some ⟨8, 1⟩ ∧ (litVal "08").toOption.bind CVal.toQ = none ∧
    (goFloatConst "float32" (.lit "1e39")).toOption = none ∧
    (goFloatConst "float64" (.lit "1e39")).toOption = some 0x48078287f49c4a1d := by
  decide


/-- non-vacuity: 2 does not divide 7, so the integer-kind quotient `7 / 2 = 3` is not the number 7/2 -/
example : (Q.ofInt ((7 / 2 : Nat) : Int)).eqv ⟨7, 2⟩ = false := truncated_quotient_differs 7 2 (by decide)
example : ∃ q, constEval (.bin "/" (.lit (String.ofList (natToDec 7 ++ ['.', '0']))) (.lit (String.ofList (natToDec 2 ++ ['.', '0']))))
    = .ok (.flt q) ∧ q.eqv ⟨7, 2⟩ = true := (float_const_integral_suffix_needed 7 2 (by decide)).2
example : natToDec 7 ++ ['.', '0'] = ['7', '.', '0'] := by rw [natToDec_small 7 (by decide)]; decide

end Kind

/-! ### the generated tables -/

/-- one row of `Gen.NumTypes.intTypes` is coherent: the Rust carrier type of the `Prim` variant (which fixes the
    accepted range) and the Go type the value is emitted at have the same signedness and width, and the
    signed/unsigned parser path matches it -/
def intRowOk (r : String × String × String × String × String × String × String) : Bool :=
  match IntTy.ofRust r.2.2.2.2.1, IntTy.ofGo r.2.2.2.2.2.2 with
  | some a, some b => a == b && ((r.2.1 == "unsigned") == !a.signed) && (r.2.1 == "signed" || r.2.1 == "unsigned")
  | _, _ => false

/-- **num_types_consistent** — all eight integer types: literal range (Rust carrier) = Go type range, right parser
    path; the value is re-parsed in `tast_builder.rs` at the same `Prim` variant and path; the two float types are
    carried as `f32`/`f64` and emitted as `float32`/`float64` -/
theorem num_types_consistent :
    Gen.NumTypes.intTypes.all intRowOk = true ∧
    Gen.NumTypes.intTypes.map (·.1) = ["TInt8", "TInt16", "TInt32", "TInt64", "TUint8", "TUint16", "TUint32", "TUint64"] ∧
    (Gen.NumTypes.builderInt.all fun b =>
      Gen.NumTypes.intTypes.any fun r => r.1 == b.2.2.2 && r.2.2.2.1 == b.2.1 && r.2.1 == b.2.2.1) = true ∧
    Gen.NumTypes.floatTypes.map (fun r => (r.1, r.2.2.1, r.2.2.2.2)) =
      [("TFloat32", "f32", "float32"), ("TFloat64", "f64", "float64")] := by
  decide

/-- **lit_forms_consistent** — every literal form gets the type its suffix names: suffix `iN`/`uN`/`fN` ↦ the type
    whose Rust carrier is spelled exactly like the suffix; unsuffixed ↦ int32 / float64; and the lexer has exactly
    one rule `[0-9]+<suffix>` (`[0-9]+\.[0-9]+<suffix>` for floats) per form -/
theorem lit_forms_consistent :
    (Gen.NumTypes.litForms.all fun f =>
      if f.1 == "" then (f.2.1 == "EInt" && f.2.2 == "TInt32") || (f.2.1 == "EFloat" && f.2.2 == "TFloat64")
      else (Gen.NumTypes.intTypes.any fun r => r.1 == f.2.2 && r.2.2.2.2.1 == f.1) ||
           (Gen.NumTypes.floatTypes.any fun r => r.1 == f.2.2 && r.2.2.1 == f.1)) = true ∧
    Gen.NumTypes.litForms.length = 12 ∧
    (Gen.NumTypes.litForms.all fun f =>
      Gen.NumTypes.lexRules.any fun l =>
        l.2.1 == (if f.2.2 == "TFloat32" || f.2.2 == "TFloat64" then "[0-9]+\\.[0-9]+" else "[0-9]+") ++ f.1) = true ∧
    Gen.NumTypes.lexRules.length = 12 := by
  decide

/-- **pat_forms_consistent** — literal patterns: a suffixed pattern is typed by its suffix exactly like the
    expression form and rebuilt at the matching `Prim` variant; an unsuffixed pattern, which `check_pat_int` checks at
    the scrutinee's integer type, is rebuilt by `tast_builder.rs` at the `Prim` variant of *that* type, by the same
    parser path (before the fix it was always `Prim::Int32`: `match (x: int8) { 5 => … }` panicked) -/
theorem pat_forms_consistent :
    (Gen.NumTypes.patForms.all fun f =>
      (Gen.NumTypes.litForms.any fun e => e.1 == f.1 && e.2.2 == f.2.2) &&
      (Gen.NumTypes.builderPat.any fun b => b.1 == f.2.1 && b.2.2.2 == f.2.2 &&
        Gen.NumTypes.intTypes.any fun r => r.1 == f.2.2 && r.2.2.2.1 == b.2.1 && r.2.1 == b.2.2.1)) = true ∧
    Gen.NumTypes.patForms.length = 8 ∧
    (Gen.NumTypes.intTypes.all fun r =>
      patPrimOf Gen.NumTypes.builderPatUnsuffixed r.1 == some (r.2.2.2.1, r.2.1)) = true := by
  decide

/-- **pat_unsuffixed_sound** — an unsuffixed integer pattern that is accepted denotes the written number at the
    scrutinee's final type, whatever type it was validated at and whether or not the scrutinee's type was known then:
    acceptance forces `target = final` (the unconditional `TypeEqual` constraint of `check_pat_int`), so the
    diagnostics-free rebuild in `tast_builder.rs` happens at the type the range check was made at -/
theorem pat_unsuffixed_sound (ut uf : Bool) (target final : IntTy) (s : List Char) (hs : IsDigits s) (v : Int)
    (h : patUnsufAccept ut uf target final s = some v) : v = (decVal s : Int) ∧ final.InRange v := by
  unfold patUnsufAccept at h
  split at h
  next w hw =>
    split at h
    next heq =>
      subst heq
      have hr : target.InRange (decVal s : Int) := (lit_accept_iff ut target s hs).mp ⟨w, hw⟩
      obtain ⟨w', hw'⟩ := (lit_accept_iff uf target s hs).mpr hr
      obtain ⟨hv, hb⟩ := lit_accept_value uf target s hs w' hw'
      simp only [Option.some.injEq] at h
      rw [← h, hb, hv]
      exact ⟨rfl, hr⟩
    next => cases h
  next => cases h

/-- an out-of-range unsuffixed pattern is never accepted, at a known or an inferred scrutinee type -/
theorem pat_unsuffixed_rejects (ut uf : Bool) (target final : IntTy) (s : List Char) (hs : IsDigits s)
    (h : ¬ final.InRange (decVal s : Int)) : patUnsufAccept ut uf target final s = none := by
  cases hres : patUnsufAccept ut uf target final s with
  | none => rfl
  | some v =>
    obtain ⟨hv, hr⟩ := pat_unsuffixed_sound ut uf target final s hs v hres
    rw [hv] at hr
    exact absurd hr h

/-- **pat_constraint_needed** — why the constraint must not be skipped for a scrutinee whose type is still a type
    variable: the literal is then validated at `int32` (`patTarget none`), and rebuilding it at the inferred type
    without diagnostics turns `256` on a `uint8` scrutinee and `300` on an `int8` scrutinee into `0` -/
theorem pat_constraint_needed :
    patTarget none = "TInt32" ∧
    checkLit false ⟨true, 32⟩ "256".toList = .accept 256 ∧ builderValue true ⟨false, 8⟩ "256".toList = 0 ∧
    checkLit false ⟨true, 32⟩ "300".toList = .accept 300 ∧ builderValue false ⟨true, 8⟩ "300".toList = 0 ∧
    patUnsufAccept false true ⟨true, 32⟩ ⟨false, 8⟩ "256".toList = none := by
  decide

example : patUnsufAccept false false ⟨true, 32⟩ ⟨true, 32⟩ "300".toList = some 300 := by decide
example : patUnsufAccept true true ⟨false, 8⟩ ⟨false, 8⟩ "255".toList = some 255 := by decide

/-- every numeric type has its `*_to_string` helper, taking a parameter of that Go type -/
theorem to_string_covers :
    Gen.ToString.helpers.map (fun h => (h.1, h.2.1)) =
      (Gen.NumTypes.intTypes.map fun r => (r.2.2.2.2.2.2 ++ "_to_string", r.2.2.2.2.2.1)) ++
      (Gen.NumTypes.floatTypes.map fun r => (r.2.2.2.2 ++ "_to_string", r.2.2.2.1)) := by
  decide

/-- **to_string_verbs_ok** — every integer helper formats with `%d` (decimal, see `to_string_int`) and every float
    helper with a float verb (`%g`/`%v`/`%f`): `%d` applied to a float prints `%!d(float32=3.5)` -/
theorem to_string_verbs_ok : Gen.ToString.helpers.all verbOk = true := by
  decide

end Goml.Props.C10
