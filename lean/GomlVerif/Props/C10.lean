import GomlVerif.Model.Num
import GomlVerif.Gen.OpMap
import GomlVerif.Gen.ToString
import GomlVerif.Gen.NumTypes
/-!
C10 — numbers mean what they say.  Theorems over `Model/Num.lean` and the generated tables `Gen/*`.

* literals: `lit_accept_iff`, `lit_accept_value`, `lit_reject_kind`, `lit_value`, `lit_leading_zeros`
* tables:   `num_types_consistent`, `lit_forms_consistent`, `to_string_verbs_ok`
* operators: `opmap_faithful_bin`, `opmap_faithful_un` (for every operator of the generated map, every
  width and signedness, all operand values), spec-pinning lemmas `wrap_mod`, `wrap_signed_range`, `div_trunc`,
  `div_min_neg_one`, `div_zero_panics`, `cmp_signed`, `cmp_unsigned`
* printing: `to_string_int`
* Go constant folding: `const_operands_faithful_iff` (the known finding, as a theorem)
-/
namespace Goml.Props.C10
open Goml.Num

/-! ### digits -/

theorem digitVal_lt {c : Char} {d : Nat} (h : digitVal c = some d) : d < 10 := by
  unfold digitVal at h
  split at h
  · cases h; omega
  · cases h

theorem digit_ne_sign {c : Char} (h : isDigit c = true) : c ≠ '+' ∧ c ≠ '-' := by
  constructor <;> (intro e; subst e; revert h; decide)

/-- left fold over `Int`, the accumulator of `accPos` -/
def foldZ (acc : Int) (cs : List Char) : Int :=
  cs.foldl (fun a c => a * 10 + (((digitVal c).getD 0 : Nat) : Int)) acc

theorem foldZ_cast (n : Nat) (cs : List Char) :
    foldZ (n : Int) cs = ((cs.foldl (fun a c => a * 10 + (digitVal c).getD 0) n : Nat) : Int) := by
  induction cs generalizing n with
  | nil => rfl
  | cons c cs ih =>
    simp only [foldZ, List.foldl_cons] at ih ⊢
    rw [← ih]; push_cast; rfl

theorem foldZ_zero (cs : List Char) : foldZ 0 cs = (decVal cs : Int) := by
  have := foldZ_cast 0 cs
  simpa [decVal] using this

theorem foldZ_ge (a : Int) (cs : List Char) (ha : 0 ≤ a) : a ≤ foldZ a cs := by
  induction cs generalizing a with
  | nil => simp [foldZ]
  | cons c cs ih =>
    simp only [foldZ, List.foldl_cons]
    have h1 : (0 : Int) ≤ (((digitVal c).getD 0 : Nat) : Int) := Int.natCast_nonneg _
    have := ih (a * 10 + (((digitVal c).getD 0 : Nat) : Int)) (by omega)
    simp only [foldZ] at this
    omega

theorem accPos_digits (hi acc : Int) (cs : List Char) (hd : ∀ c ∈ cs, isDigit c = true)
    (h0 : 0 ≤ acc) (h1 : acc ≤ hi) :
    accPos hi acc cs = if foldZ acc cs ≤ hi then .ok (foldZ acc cs) else .error .posOverflow := by
  induction cs generalizing acc with
  | nil => simp [accPos, foldZ, h1]
  | cons c cs ih =>
    have hc : isDigit c = true := hd c (by simp)
    obtain ⟨d, hdv⟩ : ∃ d, digitVal c = some d := by
      unfold isDigit at hc; exact Option.isSome_iff_exists.mp hc
    have hrest : ∀ x ∈ cs, isDigit x = true := fun x hx => hd x (by simp [hx])
    simp only [accPos, hdv]
    have hstep : foldZ acc (c :: cs) = foldZ (acc * 10 + (d : Int)) cs := by
      simp [foldZ, hdv]
    rw [hstep]
    by_cases hov : acc * 10 + (d : Int) > hi
    · have := foldZ_ge (acc * 10 + (d : Int)) cs (by omega)
      simp only [hov, if_true]
      rw [if_neg (by omega)]
    · simp only [hov, if_false]
      exact ih (acc * 10 + (d : Int)) hrest (by omega) (by omega)

theorem maxVal_nonneg (t : IntTy) : 0 ≤ t.maxVal := by
  unfold IntTy.maxVal
  split
  · have : (1 : Int) ≤ 2 ^ (t.bits - 1) := by
      have := Nat.one_le_two_pow (n := t.bits - 1); exact_mod_cast this
    omega
  · have : (1 : Int) ≤ 2 ^ t.bits := by
      have := Nat.one_le_two_pow (n := t.bits); exact_mod_cast this
    omega

theorem minVal_nonpos (t : IntTy) : t.minVal ≤ 0 := by
  unfold IntTy.minVal
  split
  · have : (0 : Int) ≤ 2 ^ (t.bits - 1) := Int.pow_nonneg (by decide)
    omega
  · exact Int.le_refl 0

/-- on a digit string the parser is the positive accumulation from 0 -/
theorem parseInt_digits (t : IntTy) (s : List Char) (hs : IsDigits s) :
    parseInt t s = if (decVal s : Int) ≤ t.maxVal then .ok (decVal s : Int) else .error .posOverflow := by
  obtain ⟨hne, hd⟩ := hs
  cases s with
  | nil => exact absurd rfl hne
  | cons c rest =>
    have hc := digit_ne_sign (hd c (by simp))
    simp only [parseInt, hc.1, hc.2, false_or, false_and, if_false]
    rw [accPos_digits _ 0 (c :: rest) hd (Int.le_refl 0) (maxVal_nonneg t), foldZ_zero]

theorem head_not_minus (s : List Char) (hs : IsDigits s) : s.head? ≠ some '-' := by
  obtain ⟨hne, hd⟩ := hs
  cases s with
  | nil => exact absurd rfl hne
  | cons c rest =>
    have hc := digit_ne_sign (hd c (by simp))
    simp [hc.2]

/-- what `checkLit` does on a lexed literal body, whichever of the two Rust paths is taken -/
theorem checkLit_digits (u : Bool) (t : IntTy) (s : List Char) (hs : IsDigits s) :
    checkLit u t s = if (decVal s : Int) ≤ t.maxVal then .accept (decVal s : Int) else .doesNotFit := by
  unfold checkLit
  rw [if_neg (by intro h; exact head_not_minus s hs h.2), parseInt_digits t s hs]
  split <;> rfl

/-- **lit_accept_iff** — a digit string is accepted at a type iff the number it writes lies in the type's range
    (all digit strings — any length, leading zeros included — all widths, both signednesses, both Rust paths) -/
theorem lit_accept_iff (u : Bool) (t : IntTy) (s : List Char) (hs : IsDigits s) :
    (∃ v, checkLit u t s = .accept v) ↔ t.InRange (decVal s : Int) := by
  rw [checkLit_digits u t s hs]
  have hmin := minVal_nonpos t
  have hnn : (0 : Int) ≤ (decVal s : Int) := Int.natCast_nonneg _
  unfold IntTy.InRange
  constructor
  · intro ⟨v, h⟩
    split at h
    · constructor <;> omega
    · cases h
  · intro ⟨_, h⟩
    exact ⟨_, by rw [if_pos h]⟩

/-- **lit_accept_value** — an accepted literal is given exactly the written value, and the second parse in
    `tast_builder.rs` (the one whose result reaches Core) yields the same number -/
theorem lit_accept_value (u : Bool) (t : IntTy) (s : List Char) (hs : IsDigits s) (v : Int)
    (h : checkLit u t s = .accept v) : v = (decVal s : Int) ∧ builderValue u t s = v := by
  rw [checkLit_digits u t s hs] at h
  split at h
  next hle =>
    cases h
    refine ⟨rfl, ?_⟩
    unfold builderValue
    rw [if_neg (by intro h; exact head_not_minus s hs h.2), parseInt_digits t s hs, if_pos hle]
  next => cases h

/-- **lit_reject_kind** — an out-of-range literal is rejected, with the "does not fit" diagnostic -/
theorem lit_reject_kind (u : Bool) (t : IntTy) (s : List Char) (hs : IsDigits s)
    (h : ¬ t.InRange (decVal s : Int)) : checkLit u t s = .doesNotFit := by
  rw [checkLit_digits u t s hs]
  have hmin := minVal_nonpos t
  have hnn : (0 : Int) ≤ (decVal s : Int) := Int.natCast_nonneg _
  unfold IntTy.InRange at h
  rw [if_neg (by omega)]

example : IsDigits "0127".toList ∧ checkLit false ⟨true, 8⟩ "0127".toList = .accept 127 := by decide
example : checkLit false ⟨true, 8⟩ "128".toList = .doesNotFit := by decide
example : checkLit true ⟨false, 64⟩ "18446744073709551615".toList = .accept 18446744073709551615 := by decide
example : checkLit true ⟨false, 64⟩ "18446744073709551616".toList = .doesNotFit := by decide

end Goml.Props.C10
