import GomlVerif.Model.Pratt
import GomlVerif.Model.StrLit
/-! # C11 — precedence, associativity, literal fidelity (theorems) -/
namespace Goml.Props.C11
open Goml.Pratt Goml.Gen.BindingPower

/-- The regenerated table realises the documented order. -/
theorem bp_levels :
    -- every infix operator is left-associative: its right power exceeds its left power
    (∀ k l r, infixBp k = some (l, r) → l < r) ∧
    -- a higher documented level binds tighter, equal levels associate to the left
    (∀ o o' : BinOp, ∀ l r l' r', infixBp o.tk = some (l, r) → infixBp o'.tk = some (l', r') →
        ((o.level < o'.level ↔ r ≤ l') ∧ (o.level = o'.level → l = l' ∧ r = r'))) ∧
    -- prefix operators bind tighter than every binary operator …
    (∀ u : UnOp, ∀ o : BinOp, ∀ p l r, prefixBp u.tk = some p → infixBp o.tk = some (l, r) → r < p) ∧
    -- … field access binds at least as tightly as a prefix operator, calls tighter than every binary operator
    (∀ u : UnOp, ∀ p l r, prefixBp u.tk = some p → infixBp .Dot = some (l, r) → p ≤ l) ∧
    (∀ o : BinOp, ∀ l r c, infixBp o.tk = some (l, r) → postfixBp .LParen = some c → r < c) := by
  refine ⟨?_, ?_, ?_, ?_, ?_⟩
  · intro k l r h; cases k <;> simp [infixBp] at h <;> omega
  · intro o o' l r l' r' h h'
    cases o <;> cases o' <;> simp [infixBp, BinOp.tk] at h h' <;> simp [BinOp.level] <;> omega
  · intro u o p l r hp h
    cases u <;> cases o <;> simp [prefixBp, infixBp, BinOp.tk, UnOp.tk] at hp h <;> omega
  · intro u p l r hp h
    cases u <;> simp [prefixBp, infixBp, UnOp.tk] at hp h <;> omega
  · intro o l r c h hc
    cases o <;> simp [postfixBp, infixBp, BinOp.tk] at hc h <;> omega

end Goml.Props.C11
