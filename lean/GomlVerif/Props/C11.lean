import GomlVerif.Model.PrattGrammar
import GomlVerif.Lemmas.PrattParse
import GomlVerif.Lemmas.PrattLower
import GomlVerif.Lemmas.StrLitLemmas
/-!
# C11 — source text is read as written: precedence, associativity, literal fidelity

Theorems about `Model/Pratt.lean` (Pratt loop over the regenerated binding-power table,
`lower_expr_with_args`) and `Model/StrLit.lean` (string literals). The models are tied to the
Rust by `./check C11` (translator for the table, differential run for parser + lowering + literals).
-/
namespace Goml.Props.C11
open Goml.Pratt Goml.Gen.BindingPower Goml.StrLit

/-- The regenerated table realises the documented order. -/
theorem bp_levels :
    -- every infix operator is left-associative: its right power exceeds its left power
    (∀ k l r, infixBp k = some (l, r) → l < r) ∧
    -- a higher documented level binds tighter, equal levels share their powers
    (∀ o o' : BinOp, ∀ l r l' r', infixBp o.tk = some (l, r) → infixBp o'.tk = some (l', r') →
        ((o.level < o'.level ↔ r ≤ l') ∧ (o.level = o'.level → l = l' ∧ r = r'))) ∧
    -- prefix operators bind tighter than every binary operator …
    (∀ u : UnOp, ∀ o : BinOp, ∀ p l r, prefixBp u.tk = some p → infixBp o.tk = some (l, r) → r < p) ∧
    -- … field access binds at least as tightly as a prefix operator (`-a.b` is `-(a.b)`),
    -- calls bind tighter than every binary operator …
    (∀ u : UnOp, ∀ p l r, prefixBp u.tk = some p → infixBp .Dot = some (l, r) → p ≤ l) ∧
    (∀ o : BinOp, ∀ l r c, infixBp o.tk = some (l, r) → postfixBp .LParen = some c → r < c) ∧
    -- … but *looser* than a prefix operator in the table: `-f(x)` is the CST `(-f)(x)`, and it is
    -- lowering (`parse_print` below) that makes calls bind tightest
    (∀ u : UnOp, ∀ p c, prefixBp u.tk = some p → postfixBp .LParen = some c → c < p) := by
  refine ⟨?_, ?_, ?_, ?_, ?_, ?_⟩
  · intro k l r h; cases k <;> simp [infixBp] at h <;> omega
  · intro o o' l r l' r' h h'
    cases o <;> cases o' <;> simp [infixBp, BinOp.tk] at h h' <;> simp [BinOp.level] <;> omega
  · intro u o p l r hp h
    cases u <;> cases o <;> simp [prefixBp, infixBp, BinOp.tk, UnOp.tk] at hp h <;> omega
  · intro u p l r hp h
    cases u <;> simp [prefixBp, infixBp, UnOp.tk] at hp h <;> omega
  · intro o l r c h hc
    cases o <;> simp [postfixBp, infixBp, BinOp.tk] at hc h <;> omega
  · intro u p c hp hc
    cases u <;> simp [prefixBp, postfixBp, UnOp.tk] at hp hc <;> omega

/-- The Pratt loop turns the minimal-parentheses printing of **any** tree into the CST described
by its spine (no side condition): prefix operators take the receiver chain up to the first call,
everything else nests as written. -/
theorem parse_print_cst (t : Ast) : parseCst (printMin t 0) = some (bare t).full :=
  parseCst_printMin t

/-- **parse ∘ print = id**: printing a well-formed operator tree (all 12 binary operators, both
prefix operators, calls with any number of arguments, field access, tuple projection, over
identifiers and integer literals) with only the necessary parentheses and reading it back with the
Pratt loop and `lower_expr_with_args` yields the same tree. `wf` only excludes an integer literal
that is called directly (see `literal_receiver_rejected`); a literal may be the receiver of `.field` /
`.index`, also under a prefix operator and followed by further postfix operations (`-7 . f (x) . 0`). -/
theorem parse_print (t : Ast) (h : wf t = true) : parse (printMin t 0) = some t := by
  unfold parse
  rw [parseCst_printMin]
  exact (lp_all t h).c0

/-- binary operators are left-associative: `a ∘ b ∘ c` printed without parentheses is `(a ∘ b) ∘ c` -/
theorem left_assoc (o : BinOp) (a b c : String) :
    parse [.ident a, .op o.tk, .ident b, .op o.tk, .ident c] =
      some (.bin o (.bin o (.var a) (.var b)) (.var c)) := by
  have := parse_print (.bin o (.bin o (.var a) (.var b)) (.var c)) rfl
  simpa [printMin, parens] using this

/-- … and the right-nested tree needs (and gets) parentheses -/
theorem right_nested_needs_parens (o : BinOp) (a b c : String) :
    printMin (.bin o (.var a) (.bin o (.var b) (.var c))) 0 =
      [.ident a, .op o.tk, .op .LParen, .ident b, .op o.tk, .ident c, .rparen] := by
  simp [printMin, parens]

/-- why `wf` is needed: a call on an integer literal is a lowering diagnostic
("Cannot apply arguments to integer literal") -/
theorem literal_receiver_rejected :
    parse (printMin (.call (.lit ['1']) [.var "x"]) 0) = none := by
  rfl

/-! ### non-vacuity: concrete trees that exercise every re-association -/

/-- `- 7 . f ( x )`: the pending call reaches the `.` node whose receiver is a literal; it is applied
there, not handed to the literal -/
example : parse [.op .Minus, .int ['7'], .op .Dot, .ident "f", .op .LParen, .ident "x", .rparen] =
    some (.un .neg (.call (.field (.lit ['7']) "f") [.var "x"])) :=
  parse_print (.un .neg (.call (.field (.lit ['7']) "f") [.var "x"])) rfl

/-- `(a + f)(c)` keeps its parentheses and is read back as a call of `a + f` -/
example : printMin (.call (.bin .add (.var "a") (.var "f")) [.var "c"]) 0 =
    [.op .LParen, .ident "a", .op .Plus, .ident "f", .rparen, .op .LParen, .ident "c", .rparen] := rfl
example : parse (printMin (.call (.bin .add (.var "a") (.var "f")) [.var "c"]) 0) =
    some (.call (.bin .add (.var "a") (.var "f")) [.var "c"]) := parse_print _ rfl
/-- `!done()`: the empty argument list is not lost -/
example : parse [.op .Bang, .ident "done", .op .LParen, .rparen] = some (.un .not (.call (.var "done") [])) :=
  parse_print (.un .not (.call (.var "done") [])) rfl
/-- `-g(x).h` is `-(g(x).h)`: the CST is `((-g)(x)).h`, lowering re-attaches call and field -/
example : parseCst [.op .Minus, .ident "g", .op .LParen, .ident "x", .rparen, .op .Dot, .ident "h"] =
    some (.binary .Dot (.call (.prefix .Minus (.ident "g")) [.ident "x"]) (.ident "h")) := by rfl
example : parse [.op .Minus, .ident "g", .op .LParen, .ident "x", .rparen, .op .Dot, .ident "h"] =
    some (.un .neg (.field (.call (.var "g") [.var "x"]) "h")) :=
  parse_print (.un .neg (.field (.call (.var "g") [.var "x"]) "h")) rfl
/-- a larger tree: `- a * (b + c) . f (d, !e) < g || h` -/
example : wf (.bin .or (.bin .lt (.bin .mul (.un .neg (.var "a"))
    (.call (.field (.bin .add (.var "b") (.var "c")) "f") [.var "d", .un .not (.var "e")])) (.var "g")) (.var "h")) = true := rfl

/-! ### string literals -/

/-- every string has a spelling the lexer accepts … -/
theorem escape_accepted (s : List Char) : accepts (escape s) = true :=
  acceptsF_escape s _ (Nat.le_refl _)

/-- … and lowering that spelling yields exactly the string: escapes denote the characters written -/
theorem decode_escape (s : List Char) : lowerStr (escape s) = some s :=
  decodeF_escape s _ (Nat.le_refl _)

/-- text without a backslash denotes itself -/
theorem decode_plain (s : List Char) (h : ∀ c, c ∈ s → c ≠ '\\') : lowerStr s = some s :=
  decodeF_noBackslash s _ (Nat.le_refl _) h

/-- the escape table of the lexer, one by one -/
theorem escape_table :
    lowerStr "\\n".toList = some ['\n'] ∧ lowerStr "\\t".toList = some ['\t'] ∧
    lowerStr "\\r".toList = some ['\r'] ∧ lowerStr "\\\"".toList = some ['"'] ∧
    lowerStr "\\\\".toList = some ['\\'] ∧ lowerStr "\\/".toList = some ['/'] ∧
    lowerStr "\\b".toList = some [Char.ofNat 8] ∧ lowerStr "\\f".toList = some [Char.ofNat 12] ∧
    lowerStr "\\u0041".toList = some ['A'] ∧ lowerStr "\\u20AC".toList = some ['€'] ∧
    lowerStr "\\ud83d\\ude00".toList = some [Char.ofNat 0x1F600] ∧
    lowerStr "\\ud83d".toList = none := by
  decide

example : lowerStr "a\\nb".toList = some ['a', '\n', 'b'] := by decide
example : accepts "a\\nb \\u00e9 \\\" x".toList = true := by decide
example : accepts "a\\qb".toList = false := by decide
example : escape ['a', '\n', '"', Char.ofNat 1] = "a\\n\\\"\\u0001".toList := by decide

/-! ### `\u` escapes and UTF-16 surrogate pairs (`Gen/StrEscapes.lean` is regenerated from
`unescape_string`: escape table, surrogate ranges and the recombination arithmetic) -/

/-- the regenerated pieces are the JSON ones: the surrogate ranges, every escape letter the lexer
admits has an arm in `unescape_string`, and the arms denote the documented characters -/
theorem escapes_table_spec :
    (Gen.StrEscapes.highLo, Gen.StrEscapes.highHi, Gen.StrEscapes.lowLo, Gen.StrEscapes.lowHi) =
      (0xD800, 0xDC00, 0xDC00, 0xE000) ∧
    Gen.StrEscapes.lexerEscapes.all (fun e => (simpleEscape (Char.ofNat e)).isSome) = true ∧
    Gen.StrEscapes.simpleTable.all (fun p => Gen.StrEscapes.lexerEscapes.contains p.1) = true ∧
    (simpleEscape 'n' = some '\n' ∧ simpleEscape 't' = some '\t' ∧ simpleEscape 'r' = some '\r' ∧
      simpleEscape 'b' = some (Char.ofNat 8) ∧ simpleEscape 'f' = some (Char.ofNat 12) ∧
      simpleEscape '"' = some '"' ∧ simpleEscape '\\' = some '\\' ∧ simpleEscape '/' = some '/') := by
  refine ⟨by decide, by decide, by decide, ?_⟩
  decide

/-- the recombination arithmetic found in the Rust source is the UTF-16 formula for **all**
1024 × 1024 surrogate pairs and always yields a supplementary-plane scalar value -/
theorem surrogate_combine (hi lo : Nat) (h1 : 0xD800 ≤ hi) (h2 : hi < 0xDC00) (h3 : 0xDC00 ≤ lo) (h4 : lo < 0xE000) :
    Gen.StrEscapes.combine hi lo = 0x10000 + (hi - 0xD800) * 0x400 + (lo - 0xDC00) ∧
      0x10000 ≤ Gen.StrEscapes.combine hi lo ∧ Gen.StrEscapes.combine hi lo ≤ 0x10FFFF :=
  combine_spec hi lo h1 h2 h3 h4

/-- a pair of escapes `\uHHHH\uLLLL` (any spelling of the hexadecimal digits) with `hi` a high and
`lo` a low surrogate denotes exactly the scalar value `0x10000 + (hi-0xD800)*0x400 + (lo-0xDC00)` -/
theorem decode_surrogate_pair (a b c d a' b' c' d' : Char) (hi lo : Nat)
    (hh : hex4 a b c d = some hi) (hl : hex4 a' b' c' d' = some lo)
    (h1 : 0xD800 ≤ hi) (h2 : hi < 0xDC00) (h3 : 0xDC00 ≤ lo) (h4 : lo < 0xE000) :
    lowerStr ['\\', 'u', a, b, c, d, '\\', 'u', a', b', c', d'] =
      some [Char.ofNat (0x10000 + (hi - 0xD800) * 0x400 + (lo - 0xDC00))] := by
  show decodeF 12 _ = _
  rw [decodeF_u, readU_pair a b c d a' b' c' d' [] hi lo hh hl h1 h2 h3 h4]
  rfl

/-- a single escape outside the surrogate range denotes its code point -/
theorem decode_bmp_escape (a b c d : Char) (n : Nat) (h : hex4 a b c d = some n) (hs : n < 0xD800 ∨ 0xDFFF < n) :
    lowerStr ['\\', 'u', a, b, c, d] = some [Char.ofNat n] := by
  have hb : n < 0x10000 := by
    unfold hex4 at h
    split at h
    · rename_i hx
      simp only [Bool.and_eq_true] at hx
      have bound : ∀ ch, isHex ch = true → hexVal ch < 16 := by
        intro ch hc
        simp only [isHex, Bool.or_eq_true, Bool.and_eq_true, decide_eq_true_eq] at hc
        have e1 : ('0' : Char).toNat = 48 := rfl
        have e2 : ('9' : Char).toNat = 57 := rfl
        have e3 : ('a' : Char).toNat = 97 := rfl
        have e4 : ('f' : Char).toNat = 102 := rfl
        have e5 : ('A' : Char).toNat = 65 := rfl
        have e6 : ('F' : Char).toNat = 70 := rfl
        simp only [Char.le_def, UInt32.le_iff_toNat_le] at hc
        unfold hexVal
        simp only [Bool.and_eq_true, decide_eq_true_eq, Char.le_def, UInt32.le_iff_toNat_le]
        have t : ∀ x : Char, x.val.toNat = x.toNat := fun _ => rfl
        simp only [t, e1, e2, e3, e4, e5, e6] at hc ⊢
        split
        · omega
        · split <;> omega
      have := bound a hx.1.1.1; have := bound b hx.1.1.2; have := bound c hx.1.2; have := bound d hx.2
      simp only [Option.some.injEq] at h
      omega
    · cases h
  show decodeF 6 _ = _
  rw [decodeF_u, readU_bmp a b c d [] n h hs hb]
  rfl

/-- a high surrogate escape that is not followed by a low surrogate escape, and a low surrogate
escape on its own, denote no character: lowering reports a diagnostic -/
theorem decode_lone_surrogate (a b c d : Char) (n : Nat) (h : hex4 a b c d = some n)
    (hs : 0xD800 ≤ n ∧ n < 0xE000) (tail : List Char) (ht : ∀ r, tail ≠ '\\' :: r) :
    lowerStr ('\\' :: 'u' :: a :: b :: c :: d :: tail) = none := by
  show decodeF (tail.length + 6) _ = _
  rw [decodeF_u]
  by_cases hh : n < 0xDC00
  · rw [readU_lone_high a b c d tail n h hs.1 hh
      (fun a' b' c' d' r lo e _ => absurd e (ht _))]
  · rw [readU_lone_low a b c d tail n h (by omega) hs.2]

/-- round trip with the all-escapes encoder (one `\u` escape in the BMP, a surrogate pair above):
every string has such a spelling, the lexer accepts it, lowering decodes it back -/
theorem decode_escapeAllU (s : List Char) :
    accepts (escapeAllU s) = true ∧ lowerStr (escapeAllU s) = some s :=
  ⟨acceptsF_escapeAllU s _ (Nat.le_refl _), decodeF_escapeAllU s _ (Nat.le_refl _)⟩

example : escapeAllU [Char.ofNat 0x20000, 'é'] = "\\ud840\\udc00\\u00e9".toList := by decide
example : lowerStr "\\uD840\\uDC00".toList = some [Char.ofNat 0x20000] := by decide
example : lowerStr "\\uDBFF\\uDFFF".toList = some [Char.ofNat 0x10FFFF] := by decide
example : lowerStr "\\ud800\\u0041".toList = none := by decide
example : lowerStr "\\udc00\\ud800".toList = none := by decide

/-- a multi-line string literal (every line: blanks, the `\\` marker, raw content) denotes its
contents joined by line feeds; nothing inside is an escape -/
theorem multiline_fidelity (ls : List (List Char × List Char)) (hne : ls ≠ [])
    (hok : ∀ p, p ∈ ls → LineOK p) :
    lowerMultiline (spellLines ls) = some (joinLines (ls.map (·.2))) :=
  lowerMultiline_spell ls hne hok

example : LineOK ("    ".toList, "a\\nb \"q\"".toList) := by
  refine ⟨by decide, by decide, by decide⟩
example : lowerMultiline "\\\\first\n      \\\\a\\nb".toList = some "first\na\\nb".toList := by decide

end Goml.Props.C11

/-! ## round 11: the Pratt model and the grammar model (`Model/PrattGrammar.lean`)

`Model/Grammar.lean` holds `expr_bp`, `atom`, `arg_list`, `arg` as data and is tied event for event to `Parser.events`;
`Model/Pratt.lean` is the model the theorems above are about. -/
namespace Goml.PrattGrammar
open Goml.Pratt Goml.Gen.BindingPower

/-- **The two regenerated binding-power tables are the same table**: `Gen/BindingPower.lean` (`extract_binding_power`,
functions on the enum `TK`) and `Gen/Grammar.lean` (`extract_grammar`, association lists on `TokenKind as u16`) agree on
every operator, and neither has an operator the other lacks. -/
theorem binding_power_tables_agree : tablesAgree = true := by decide +kernel

/-- **`pratt_is_grammar`, for every token list of at most 4 tokens** over one token of each class the operator loop
distinguishes (identifier, integer, `)`, `,`, `(`, `-`, `!`, `*`, `==`, `||`, `.`; 16 105 lists): whenever `Pratt.parseCst`
accepts, the grammar model started at `expr` consumes every token, reports no error and emits exactly the item tree of that
`Cst` (`EXPR_IDENT(PATH)`, `EXPR_INT`, `EXPR_PAREN`, `EXPR_PREFIX`, `EXPR_BINARY`/`EXPR_CALL` opened by `precede` on the left
operand, `ARG_LIST`/`ARG`), up to the trailing `,` of a last argument, which a `Cst` does not record.
*Bounded*: the statement for ALL token lists is not proved — see `pratt_is_grammar_needs_fuel_bound` for why it must
carry a nesting bound, and DESIGN.md for the missing simulation lemma. The same predicate `agrees` is evaluated on every
tree of the C11 streams at run time (`pratt_vs_grammar_model` in the evidence). -/
theorem pratt_is_grammar_upto4 : (listsUpTo alphabet 4).all agrees = true := by decide +kernel

/-- **The unbounded statement is false**: `( - … - x )` with 260 prefix operators is accepted by `Pratt.parseCst`, but the
grammar model — like the real parser, whose events it reproduces — has spent its 256 looks of fuel while returning through
the nested `expr_bp` frames, answers `eof` to `p.expect(')')` and reports an error. Any general `pratt_is_grammar` needs a
bound on the nesting depth (≈ 250). -/
theorem pratt_is_grammar_needs_fuel_bound :
    (parseCst ([.op .LParen] ++ List.replicate 260 (.op .Minus) ++ [.ident "x", .rparen])).isSome = true ∧
      agrees ([.op .LParen] ++ List.replicate 260 (.op .Minus) ++ [.ident "x", .rparen]) = false := by
  decide +kernel

end Goml.PrattGrammar
