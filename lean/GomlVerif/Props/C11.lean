import GomlVerif.Lemmas.PrattParse
import GomlVerif.Lemmas.PrattLower
import GomlVerif.Lemmas.StrLitLemmas
/-!
# C11 — source text is read as written: precedence, associativity, literal fidelity

Theorems about `Model/Pratt.lean` (Pratt loop over the regenerated binding-power table,
`lower_expr_with_args`) and `Model/StrLit.lean` (string literals). The models are tied to the
Rust by `./check C11` (translator for the table, differential run for parser + lowering + literals).
-/
namespace Goml.Props.C11
open Goml.Pratt Goml.Gen.BindingPower Goml.StrLit

/-- The regenerated table realises the documented order. -/
theorem bp_levels :
    -- every infix operator is left-associative: its right power exceeds its left power
    (∀ k l r, infixBp k = some (l, r) → l < r) ∧
    -- a higher documented level binds tighter, equal levels share their powers
    (∀ o o' : BinOp, ∀ l r l' r', infixBp o.tk = some (l, r) → infixBp o'.tk = some (l', r') →
        ((o.level < o'.level ↔ r ≤ l') ∧ (o.level = o'.level → l = l' ∧ r = r'))) ∧
    -- prefix operators bind tighter than every binary operator …
    (∀ u : UnOp, ∀ o : BinOp, ∀ p l r, prefixBp u.tk = some p → infixBp o.tk = some (l, r) → r < p) ∧
    -- … field access binds at least as tightly as a prefix operator (`-a.b` is `-(a.b)`),
    -- calls bind tighter than every binary operator …
    (∀ u : UnOp, ∀ p l r, prefixBp u.tk = some p → infixBp .Dot = some (l, r) → p ≤ l) ∧
    (∀ o : BinOp, ∀ l r c, infixBp o.tk = some (l, r) → postfixBp .LParen = some c → r < c) ∧
    -- … but *looser* than a prefix operator in the table: `-f(x)` is the CST `(-f)(x)`, and it is
    -- lowering (`parse_print` below) that makes calls bind tightest
    (∀ u : UnOp, ∀ p c, prefixBp u.tk = some p → postfixBp .LParen = some c → c < p) := by
  refine ⟨?_, ?_, ?_, ?_, ?_, ?_⟩
  · intro k l r h; cases k <;> simp [infixBp] at h <;> omega
  · intro o o' l r l' r' h h'
    cases o <;> cases o' <;> simp [infixBp, BinOp.tk] at h h' <;> simp [BinOp.level] <;> omega
  · intro u o p l r hp h
    cases u <;> cases o <;> simp [prefixBp, infixBp, BinOp.tk, UnOp.tk] at hp h <;> omega
  · intro u p l r hp h
    cases u <;> simp [prefixBp, infixBp, UnOp.tk] at hp h <;> omega
  · intro o l r c h hc
    cases o <;> simp [postfixBp, infixBp, BinOp.tk] at hc h <;> omega
  · intro u p c hp hc
    cases u <;> simp [prefixBp, postfixBp, UnOp.tk] at hp hc <;> omega

/-- The Pratt loop turns the minimal-parentheses printing of **any** tree into the CST described
by its spine (no side condition): prefix operators take the receiver chain up to the first call,
everything else nests as written. -/
theorem parse_print_cst (t : Ast) : parseCst (printMin t 0) = some (bare t).full :=
  parseCst_printMin t

/-- **parse ∘ print = id**: printing a well-formed operator tree (all 12 binary operators, both
prefix operators, calls with any number of arguments, field access, tuple projection, over
identifiers and integer literals) with only the necessary parentheses and reading it back with the
Pratt loop and `lower_expr_with_args` yields the same tree. `wf` only excludes an integer literal as
the receiver of a postfix operation (see `literal_receiver_rejected`). -/
theorem parse_print (t : Ast) (h : wf t = true) : parse (printMin t 0) = some t := by
  unfold parse
  rw [parseCst_printMin]
  exact (lp_all t h).c0

/-- binary operators are left-associative: `a ∘ b ∘ c` printed without parentheses is `(a ∘ b) ∘ c` -/
theorem left_assoc (o : BinOp) (a b c : String) :
    parse [.ident a, .op o.tk, .ident b, .op o.tk, .ident c] =
      some (.bin o (.bin o (.var a) (.var b)) (.var c)) := by
  have := parse_print (.bin o (.bin o (.var a) (.var b)) (.var c)) rfl
  simpa [printMin, parens] using this

/-- … and the right-nested tree needs (and gets) parentheses -/
theorem right_nested_needs_parens (o : BinOp) (a b c : String) :
    printMin (.bin o (.var a) (.bin o (.var b) (.var c))) 0 =
      [.ident a, .op o.tk, .op .LParen, .ident b, .op o.tk, .ident c, .rparen] := by
  simp [printMin, parens]

/-- why `wf` is needed: a call on an integer literal is a lowering diagnostic
("Cannot apply arguments to integer literal") -/
theorem literal_receiver_rejected :
    parse (printMin (.call (.lit ['1']) [.var "x"]) 0) = none := by
  rfl

/-! ### non-vacuity: concrete trees that exercise every re-association -/

/-- `(a + f)(c)` keeps its parentheses and is read back as a call of `a + f` -/
example : printMin (.call (.bin .add (.var "a") (.var "f")) [.var "c"]) 0 =
    [.op .LParen, .ident "a", .op .Plus, .ident "f", .rparen, .op .LParen, .ident "c", .rparen] := rfl
example : parse (printMin (.call (.bin .add (.var "a") (.var "f")) [.var "c"]) 0) =
    some (.call (.bin .add (.var "a") (.var "f")) [.var "c"]) := parse_print _ rfl
/-- `!done()`: the empty argument list is not lost -/
example : parse [.op .Bang, .ident "done", .op .LParen, .rparen] = some (.un .not (.call (.var "done") [])) :=
  parse_print (.un .not (.call (.var "done") [])) rfl
/-- `-g(x).h` is `-(g(x).h)`: the CST is `((-g)(x)).h`, lowering re-attaches call and field -/
example : parseCst [.op .Minus, .ident "g", .op .LParen, .ident "x", .rparen, .op .Dot, .ident "h"] =
    some (.binary .Dot (.call (.prefix .Minus (.ident "g")) [.ident "x"]) (.ident "h")) := by rfl
example : parse [.op .Minus, .ident "g", .op .LParen, .ident "x", .rparen, .op .Dot, .ident "h"] =
    some (.un .neg (.field (.call (.var "g") [.var "x"]) "h")) :=
  parse_print (.un .neg (.field (.call (.var "g") [.var "x"]) "h")) rfl
/-- a larger tree: `- a * (b + c) . f (d, !e) < g || h` -/
example : wf (.bin .or (.bin .lt (.bin .mul (.un .neg (.var "a"))
    (.call (.field (.bin .add (.var "b") (.var "c")) "f") [.var "d", .un .not (.var "e")])) (.var "g")) (.var "h")) = true := rfl

/-! ### string literals -/

/-- every string has a spelling the lexer accepts … -/
theorem escape_accepted (s : List Char) : accepts (escape s) = true :=
  acceptsF_escape s _ (Nat.le_refl _)

/-- … and lowering that spelling yields exactly the string: escapes denote the characters written -/
theorem decode_escape (s : List Char) : lowerStr (escape s) = some s :=
  decodeF_escape s _ (Nat.le_refl _)

/-- text without a backslash denotes itself -/
theorem decode_plain (s : List Char) (h : ∀ c, c ∈ s → c ≠ '\\') : lowerStr s = some s :=
  decodeF_noBackslash s _ (Nat.le_refl _) h

/-- the escape table of the lexer, one by one -/
theorem escape_table :
    lowerStr "\\n".toList = some ['\n'] ∧ lowerStr "\\t".toList = some ['\t'] ∧
    lowerStr "\\r".toList = some ['\r'] ∧ lowerStr "\\\"".toList = some ['"'] ∧
    lowerStr "\\\\".toList = some ['\\'] ∧ lowerStr "\\/".toList = some ['/'] ∧
    lowerStr "\\b".toList = some [Char.ofNat 8] ∧ lowerStr "\\f".toList = some [Char.ofNat 12] ∧
    lowerStr "\\u0041".toList = some ['A'] ∧ lowerStr "\\u20AC".toList = some ['€'] ∧
    lowerStr "\\ud83d\\ude00".toList = some [Char.ofNat 0x1F600] ∧
    lowerStr "\\ud83d".toList = none := by
  decide

example : lowerStr "a\\nb".toList = some ['a', '\n', 'b'] := by decide
example : accepts "a\\nb \\u00e9 \\\" x".toList = true := by decide
example : accepts "a\\qb".toList = false := by decide
example : escape ['a', '\n', '"', Char.ofNat 1] = "a\\n\\\"\\u0001".toList := by decide

/-- a multi-line string literal (every line: blanks, the `\\` marker, raw content) denotes its
contents joined by line feeds; nothing inside is an escape -/
theorem multiline_fidelity (ls : List (List Char × List Char)) (hne : ls ≠ [])
    (hok : ∀ p, p ∈ ls → LineOK p) :
    lowerMultiline (spellLines ls) = some (joinLines (ls.map (·.2))) :=
  lowerMultiline_spell ls hne hok

example : LineOK ("    ".toList, "a\\nb \"q\"".toList) := by
  refine ⟨by decide, by decide, by decide⟩
example : lowerMultiline "\\\\first\n      \\\\a\\nb".toList = some "first\na\\nb".toList := by decide

end Goml.Props.C11
