import GomlVerif.Lemmas.C12Tree
import GomlVerif.Lemmas.C12Regex
import GomlVerif.Lemmas.GrammarStep
import GomlVerif.Lemmas.GrammarKinds
import GomlVerif.Lemmas.InputViewLemmas
import GomlVerif.Props.C04
/-!
# C12 — the syntax tree is lossless and positions are exact

Models: `Model/Lex.lean` (`longestMatch`, `lexMultilineStr`, `lexAll`) over the rule
tables regenerated from `crates/lexer/src/lib.rs` (`Gen/Tokens.lean`), and
`Model/Tree.lean` (`buildTree`: `Parser::build_tree` + rowan's builder).
Helper lemmas are in `Lemmas/C12Lex.lean`, `Lemmas/C12Tree.lean`; this file states the
property theorems only. Text is a list of Unicode scalars; byte offsets are UTF-8 prefix
sums (`byteLen`), so "on a char boundary" is `charsOfBytes s n = some _`.
-/
namespace Goml.C12
open Goml.Lex Goml.Tree Goml.Gen.Tokens

/-! ## facts about the generated tables (re-checked whenever `Gen/Tokens.lean` changes) -/

/-- `TokenKind as u16` and `MySyntaxKind as u16` agree on every kind the lexer can produce
(all variants before `Eof`), so `to_syntax_kind` maps a token kind to the syntax kind of the same name -/
theorem kinds_aligned :
    (kindNames.take eofKind).map String.toList = (syntaxKindNames.take eofKind).map String.toList ∧
      eofKind + 1 = kindNames.length ∧ errorKind + 1 = eofKind := by
  decide +kernel

/-- `kind_from_raw` accepts exactly the declared kinds: its bound is the last variant -/
theorem kind_from_raw_bound_is_last :
    (syntaxKindNames.getLast?.map String.toList) = some kindFromRawBound.toList := by
  decide +kernel

/-- no rule can match the empty string (logos would loop / reject such a rule) -/
theorem rules_never_match_empty :
    (∀ l ∈ genRules.literals, l.2 ≠ []) ∧ (∀ r ∈ genRules.regexes, r.re.nullable = false) := by
  decide +kernel

/-- whenever a `#[regex]` rule matches a `#[token]` literal in full (`fn` vs the identifier rule),
the literal has the strictly higher priority: keywords win equal-length ties -/
theorem keywords_beat_regexes :
    ∀ l ∈ genRules.literals, ∀ r ∈ genRules.regexes,
      r.re.longest l.2 = some l.2.length → r.prio.getD r.re.priority < 2 * byteLen l.2 := by
  decide +kernel

/-- every rule produces a kind below `Error`; trivia kinds are rule kinds; `Eof` is not trivia -/
theorem rule_kinds_valid :
    (∀ l ∈ genRules.literals, l.1 < errorKind) ∧ (∀ r ∈ genRules.regexes, r.kind < errorKind) ∧
      (∀ k ∈ triviaKinds, k < errorKind) ∧ stops eofKind = true ∧ stops errorKind = true := by
  decide +kernel

/-! ## the lexer -/

/-- The byte count `lex_multiline_str` passes to `Lexer::bump` is a char boundary of the
remainder (it stops only at a `\n` byte or at the end), so the bump never panics and never
splits a scalar. `utf8s cs` is the remainder as bytes. -/
theorem multiline_boundaries (cs : List Char) (n : Nat) (h : lexMultilineStr (utf8s cs) = some n) :
    ∃ k, charsOfBytes cs n = some k ∧ k ≤ cs.length :=
  lexMultilineStr_boundary cs n h

/-- **Lexing terminates and tiles the text.** For every rule table and every positive
error-token length: the token loop ends normally (no invalid bump, no stall), the token texts
concatenated are the input (every scalar exactly once, in order), and no token is empty. -/
theorem lex_tiles (rules : Rules) (errLen : List Char → Nat → Nat) (h : ∀ s p, 0 < errLen s p)
    (s : List Char) :
    ∃ ts, lexAll rules errLen s = .ok ts ∧ textOf ts = s ∧ (∀ t ∈ ts, t.text ≠ []) ∧
      (ts.map fun t => t.text.length).sum = s.length := by
  obtain ⟨ts, h1, h2, h3⟩ := lexLoop_tiles rules (errLen s) (h s) (s.length + 1) 0 s (by omega)
  refine ⟨ts, h1, h2, h3, ?_⟩
  rw [← h2]
  simp [textOf, List.length_flatMap]

/-- **Token ranges tile the text on character boundaries**: the byte ranges of the tokens
start at 0, are contiguous and non-empty, end at the byte length of the text, and every range
end is a char boundary of the text. -/
theorem lex_ranges_tile (rules : Rules) (errLen : List Char → Nat → Nat) (h : ∀ s p, 0 < errLen s p)
    (s : List Char) :
    ∃ ts, lexAll rules errLen s = .ok ts ∧ Tiles 0 (ranges 0 ts) (byteLen s) ∧
      ∀ r ∈ ranges 0 ts, ∃ k, charsOfBytes s r.2 = some k := by
  obtain ⟨ts, h1, h2, h3, _⟩ := lex_tiles rules errLen h s
  refine ⟨ts, h1, ?_, ?_⟩
  · have := tiles_of_nonempty ts h3 0
    rw [h2] at this
    simpa using this
  · have := range_ends_are_boundaries ts []
    simp only [byteLen, List.nil_append, h2] at this
    exact this

/-- Every token of `lexAll` is what `longestMatch` answers at the token's start: a rule token has
exactly the kind and length of the longest match there, and an error token occurs only where no
rule matches (this is the statement the harness checks on the real `lexer::lex`). -/
theorem tokens_are_longestMatch (rules : Rules) (errLen : List Char → Nat → Nat) (s : List Char)
    (ts : List Tok) (h : lexAll rules errLen s = .ok ts) :
    ∀ (pre : List Tok) (t : Tok) (post : List Tok), ts = pre ++ t :: post →
      longestMatch rules (textOf (t :: post)) = .tok t.kind t.text.length ∨
        (longestMatch rules (textOf (t :: post)) = .noMatch ∧ t.kind = rules.errorKind) := by
  exact (lexLoop_longestMatch rules (errLen s) _ _ _ _ h).2

/-- **Every non-error token is the longest match at its start**: no `#[token]` literal and no
`#[regex]` pattern of the table matches a longer prefix of the remaining text than the token that
was produced (`Re.Matches` is the declarative meaning of the regex AST; the matcher's correctness
with respect to it is proved in `Lemmas/C12Regex.lean`). -/
theorem valid_tokens_maximal (rules : Rules) (errLen : List Char → Nat → Nat) (s : List Char)
    (ts : List Tok) (h : lexAll rules errLen s = .ok ts)
    (pre : List Tok) (t : Tok) (post : List Tok) (hs : ts = pre ++ t :: post)
    (hk : t.kind ≠ rules.errorKind) :
    ∀ j, RuleMatches rules (textOf (t :: post)) j → j ≤ t.text.length := by
  rcases tokens_are_longestMatch rules errLen s ts h pre t post hs with h1 | h1
  · exact longestMatch_maximal rules _ _ _ h1
  · exact absurd h1.2 hk

/-- **An error token occurs only where no rule matches** (or where the multi-line-string callback
rejected its `\\\\` match): for a table whose rule kinds differ from `Error`, at the start of every
error token either no rule matches any non-empty prefix, or a rule *with a callback* matched. -/
theorem error_only_without_match (rules : Rules) (errLen : List Char → Nat → Nat) (s : List Char)
    (hkinds : (∀ l ∈ rules.literals, l.1 ≠ rules.errorKind) ∧ (∀ r ∈ rules.regexes, r.kind ≠ rules.errorKind))
    (ts : List Tok) (h : lexAll rules errLen s = .ok ts)
    (pre : List Tok) (t : Tok) (post : List Tok) (hs : ts = pre ++ t :: post)
    (hk : t.kind = rules.errorKind) :
    (∀ j, ¬ RuleMatches rules (textOf (t :: post)) j) ∨
      ∃ r ∈ rules.regexes, r.callback.isSome = true ∧
        ∃ j, 0 < j ∧ Re.Matches r.re (Re.word ((textOf (t :: post)).take j)) := by
  rcases tokens_are_longestMatch rules errLen s ts h pre t post hs with h1 | h1
  · exfalso
    exact longestMatch_kind_ne rules _ _ _ h1 hkinds hk
  · exact longestMatch_noMatch rules _ h1.1

/-! ## the tree builder -/

/-- **The tree contains every token exactly once and in order.** If the resolved event list is
balanced (one root, opened by the first event and closed by the last) and has at least one
`Advance` per non-trivia token, `build_tree` succeeds, the leaves of the tree read left to right
are exactly the token list, and no token is left over. -/
theorem buildTree_lossless (evs : List Ev) (toks : List Tok) (revs : List REv)
    (hr : resolve evs = some revs) (hb : balancedFrom 0 revs = true)
    (ha : nonTrivia toks ≤ advances revs) :
    ∃ b, buildTree evs toks = some b ∧ leaves b.tree = toks ∧ b.dropped = [] := by
  cases revs with
  | nil => simp [balancedFrom] at hb
  | cons ev evs' =>
    cases evs' with
    | nil => simp [balancedFrom] at hb
    | cons ev2 evs'' =>
      simp only [balancedFrom] at hb
      split at hb
      · rename_i d' hd
        cases ev with
        | finish => simp [depthAfter] at hd
        | advance => simp [depthAfter] at hd
        | error m => simp [depthAfter] at hd
        | starts ks =>
          simp only [depthAfter, Nat.zero_add, Option.some.injEq] at hd
          let st0 : St := { rest := toks, off := 0, b := {}, diags := [] }
          let st1 : St := { st0 with b := ks.foldl Builder.startNode st0.b }
          obtain ⟨f1, f2⟩ := foldl_startNode ks st0.b
          obtain ⟨pre, a1, a2, a3, a4, a5, _⟩ := attachTrivia_spec st1.rest st1.off st1.b
          have hpar : (afterEvent st1).b.parents = ks.reverse.map (·, 0) := by
            simp only [afterEvent]; rw [a4]
            show (ks.foldl Builder.startNode st0.b).parents = _
            rw [f2]; simp [st0]
          have hchild : (afterEvent st1).b.children = pre.map leafOf := by
            simp only [afterEvent]; rw [a3]
            show (ks.foldl Builder.startNode st0.b).children ++ _ = _
            rw [f1]; simp [st0]
          have hbz : BottomZero (afterEvent st1).b := by
            cases ks with
            | nil => simp at hd
            | cons k0 ks' => exact ⟨ks'.reverse.map (·, 0), k0, by rw [hpar]; simp⟩
          have hlen : (afterEvent st1).b.parents.length = d' + 1 := by rw [hpar]; simp [hd]
          have hnt : nonTrivia (afterEvent st1).rest ≤ advances (ev2 :: evs'') := by
            simp only [afterEvent]; rw [a5]; simpa [advances, st1, st0] using ha
          obtain ⟨st', r1, r2, ⟨k, ch, r3⟩, r4⟩ :=
            run_lossless (lastRangeOf toks) (ev2 :: evs'') (afterEvent st1) (by rw [hlen]; exact hb) hbz a2 hnt
          refine ⟨{ tree := .node k ch, diags := st'.diags, dropped := st'.rest }, ?_, ?_, r2⟩
          · simp only [buildTree, hr, Option.bind_eq_bind, Option.bind_some]
            have : runEvents (lastRangeOf toks) (REv.starts ks :: ev2 :: evs'') st0 = some st' := by
              rw [runEvents]; exact r1
            simp only [st0] at this
            rw [this]
            simp [Builder.finish, r3]
          · have hl : leavesList (afterEvent st1).b.children ++ (afterEvent st1).rest = toks := by
              rw [hchild, leavesList_map_leaf]; exact a1.symm
            rw [r3] at r4
            simp only [leavesList, List.append_nil] at r4
            rw [r4, hl]
      · simp at hb

/-- **Diagnostic positions lie within the text**: every range `build_tree` attaches to an `Error`
event is a sub-range of `[0, |text|]` — for *any* event list (balanced or not). -/
theorem diag_ranges_in_text (evs : List Ev) (toks : List Tok) (b : Built)
    (h : buildTree evs toks = some b) :
    ∀ d ∈ b.diags, ∀ r, d.range = some r → r.1 ≤ r.2 ∧ r.2 ≤ byteLen (textOf toks) := by
  simp only [buildTree, Option.bind_eq_bind] at h
  cases hr : resolve evs with
  | none => simp [hr] at h
  | some revs =>
    simp only [hr, Option.bind_some] at h
    cases hrun : runEvents (lastRangeOf toks) revs { rest := toks, off := 0, b := {}, diags := [] } with
    | none => simp [hrun] at h
    | some st =>
      simp only [hrun, Option.bind_some] at h
      cases hf : st.b.finish with
      | none => simp [hf] at h
      | some t =>
        simp only [hf, Option.bind_some, Option.pure_def, Option.some.injEq] at h
        subst h
        have inv := runEvents_rangeInv (byteLen (textOf toks)) (lastRangeOf toks) (lastRangeOf_within toks)
          revs _ st ⟨by simp, by simp⟩ hrun
        exact inv.2

/-- **Node positions lie within the text**: the byte range of every node and token of a tree,
computed from the text lengths below it (rowan's `text_range`), is inside `[0, |tree text|]`. -/
theorem node_ranges_in_text (t : Tree) :
    ∀ x ∈ spans 0 t, x.2.1 ≤ x.2.2 ∧ x.2.2 ≤ byteLen (textOf (leaves t)) := by
  intro x hx
  have := spans_within t 0 x hx
  simp only [treeLen] at this
  omega

/-- **Lexing then tree building is lossless and every position is inside the text** — for any
event list inside the hypotheses of `buildTree_lossless`. *Partial* with respect to the
property: it does not prove that the event list produced by the grammar functions
(`file::file` and below) is balanced and advances over every non-trivia token; that is checked
on every real event list at run time (evidence: `real_event_lists_inside_…_hypotheses`) and is
C04's `file_consumes_all`. -/
theorem parse_lossless_partial (rules : Rules) (errLen : List Char → Nat → Nat)
    (h : ∀ s p, 0 < errLen s p) (s : List Char) (evs : List Ev) (revs : List REv)
    (hr : resolve evs = some revs) (hb : balancedFrom 0 revs = true)
    (ha : ∀ ts, lexAll rules errLen s = .ok ts → nonTrivia ts ≤ advances revs) :
    ∃ ts b, lexAll rules errLen s = .ok ts ∧ buildTree evs ts = some b ∧
      textOf (leaves b.tree) = s ∧
      (∀ x ∈ spans 0 b.tree, x.2.1 ≤ x.2.2 ∧ x.2.2 ≤ byteLen s) ∧
      (∀ d ∈ b.diags, ∀ r, d.range = some r → r.1 ≤ r.2 ∧ r.2 ≤ byteLen s) := by
  obtain ⟨ts, h1, h2, _, _⟩ := lex_tiles rules errLen h s
  obtain ⟨b, b1, b2, _⟩ := buildTree_lossless evs ts revs hr hb (ha ts h1)
  refine ⟨ts, b, h1, b1, by rw [b2, h2], ?_, ?_⟩
  · have := node_ranges_in_text b.tree
    rw [b2, h2] at this
    exact this
  · have := diag_ranges_in_text evs ts b b1
    rw [h2] at this
    exact this

/-! ## non-vacuity: the hypotheses hold on concrete inputs, and are needed -/

/-- keyword, blank, a scalar no rule accepts, punctuation, a string with a 2-byte scalar, an
unmatched `$`, a comment: 8 tokens tiling the 15 scalars (error tokens get length 1 here) -/
example : lexAll genRules (fun _ _ => 1) "fn é(\"ü\")$// c".toList =
    .ok [⟨32, "fn".toList⟩, ⟨80, " ".toList⟩, ⟨82, "é".toList⟩, ⟨0, "(".toList⟩, ⟨78, "\"ü\"".toList⟩,
         ⟨1, ")".toList⟩, ⟨82, "$".toList⟩, ⟨81, "// c".toList⟩] := by decide +kernel

/-- a two-line multi-line string whose second line holds a 2-byte scalar: the hand-written scanner
returns 7 bytes = 6 scalars after the `\\`, the trailing newline is left to `Whitespace` -/
example : lexAll genRules (fun _ _ => 1) "\\\\a\n \\\\é\nx".toList =
    .ok [⟨79, "\\\\a\n \\\\é".toList⟩, ⟨80, "\n".toList⟩, ⟨65, "x".toList⟩] := by decide +kernel

example : lexMultilineStr (utf8s "a\n \\\\é\nx".toList) = some 7 := by decide +kernel

/-- `0 < errLen` is needed: with an error length of 0 the loop cannot get past `$` -/
example : lexAll genRules (fun _ _ => 0) "a$".toList = .stuck [⟨65, "a".toList⟩] 1 := by decide +kernel

/-- keywords beat the identifier rule only at equal length -/
example : longestMatch genRules "fn".toList = .tok 32 2 ∧ longestMatch genRules "fnx".toList = .tok 65 3 ∧
    longestMatch genRules "1.5f32x".toList = .tok 66 6 ∧ longestMatch genRules "\"a".toList = .noMatch := by
  decide +kernel

/-- `RuleMatches` (the hypothesis of `valid_tokens_maximal`) is inhabited: at `fnx ` the literal `fn`
matches 2 scalars and the identifier pattern matches 3 — the token is the longer one -/
example : RuleMatches genRules "fnx ".toList 2 ∧ RuleMatches genRules "fnx ".toList 3 ∧
    longestMatch genRules "fnx ".toList = .tok 65 3 := by
  refine ⟨.inl ⟨(32, "fn".toList), by decide +kernel, by decide +kernel, by decide +kernel, by decide +kernel⟩, .inr ?_,
    by decide +kernel⟩
  refine ⟨genRules.regexes[0]'(by decide +kernel), List.getElem_mem _, by decide, by decide +kernel, ?_⟩
  exact (Re.longest_sound _ _ 3 (by decide +kernel)).2

/-- tokens ` #fn é//` and the events of `file` for an attributed item (forward parent from the
attribute list, index 1, to the `FN` opened at index 4), with an `Error` event -/
def exToks : List Tok :=
  [⟨80, " ".toList⟩, ⟨28, "#".toList⟩, ⟨32, "fn".toList⟩, ⟨80, " ".toList⟩, ⟨65, "é".toList⟩, ⟨81, "//".toList⟩]

def exEvs : List Ev :=
  [.op 191 none, .op 192 (some 3), .advance, .close, .op 88 none, .advance, .error "e", .advance, .close, .close]

/-- the hypotheses of `buildTree_lossless` hold for it … -/
example : (resolve exEvs).map (fun r => (balancedFrom 0 r, advances r)) = some (true, 3) ∧ nonTrivia exToks = 3 := by
  decide +kernel

/-- … the tree keeps all six tokens, leading and trailing trivia included, and the diagnostic
sits on the token at the cursor (`é`, bytes 5..7) -/
example : (buildTree exEvs exToks).map (fun b => (leaves b.tree, b.dropped, b.diags.map (·.range)))
    = some (exToks, [], [some (5, 7)]) := by decide +kernel

/-- the `Advance` hypothesis is needed: an event list that stops early loses the remaining tokens -/
example : (buildTree [.op 191 none, .advance, .close] exToks).map (fun b => (leaves b.tree).length + b.dropped.length)
    = some 6 ∧
    (buildTree [.op 191 none, .advance, .close] exToks).map (fun b => b.dropped.length) = some 4 := by
  decide +kernel

/-- the balance hypothesis is needed: a token emitted before any node is open has no root -/
example : (buildTree [.advance, .op 191 none, .close] exToks).isNone = true := by decide +kernel

/-! ## round 11: the grammar functions (`Model/Grammar.lean`, tables in `Gen/Grammar.lean`)

The model of `file::file` and everything below it produces, for the kinds of the real non-trivia tokens, an item
tree whose event list `flatL` is compared event for event with the real `Parser.events` on every run. -/
section grammar
open Goml.Grammar Goml.Gen.Gram

/-- **Every grammar function of the source is modelled, loop for loop**: the list of `fn`s of `file.rs`, `expr.rs`,
`pattern.rs`, `path.rs`, `stmt.rs` with the number of `while`/`loop` heads in each, regenerated from the Rust text
on every run, is exactly the model's table (a new function or a new loop breaks this theorem). -/
theorem grammar_model_covers_source :
    grammarFns.map (fun r => (r.2.1.toList, r.2.2.1.length)) = fnTable.map (fun r => (r.1.toList, r.2.2.length)) := by
  decide +kernel

/-- no first-set and no recovery set of the grammar contains `eof`, no binding-power table has an entry for it:
a look that answers `eof` (real end, or fuel spent) never selects a branch that expects a token -/
theorem grammar_sets_reject_eof :
    T_Eof ∉ exprFirst ∧ T_Eof ∉ patternFirst ∧ T_Eof ∉ typeFirst ∧ T_Eof ∉ paramListRecovery ∧ T_Eof ∉ expectKeeps ∧
      (∀ o ∈ prefixBp, o.1 ≠ T_Eof) ∧ (∀ o ∈ postfixBp, o.1 ≠ T_Eof) ∧ (∀ o ∈ infixBp, o.1 ≠ T_Eof) ∧
      (∀ o ∈ typeInfixBp, o.1 ≠ T_Eof) := by
  decide +kernel

/-- every `(l_bp, r_bp)` the loops of `expr_bp` / `type_expr_bp` recurse with is a parameter the model instantiates:
binding powers are below the number the model's `Fn` parameters range over (no silent truncation) -/
theorem grammar_binding_powers_small :
    (∀ o ∈ infixBp, o.2.1 < 64 ∧ o.2.2 < 64) ∧ (∀ o ∈ prefixBp, o.2 < 64) ∧ (∀ o ∈ postfixBp, o.2 < 64) := by
  decide +kernel

/-- **The tree contains every token the grammar saw** — for every token list the item tree of `file` has at least one
`Advance` per non-trivia token and the cursor ends at the end (`grammar_terminates` + `grammar_stepOK` +
`fileItems_ends_at_eof`). -/
theorem parse_events_cover_tokens (toks : List Nat) :
    toks.length ≤ advsL (parseItems toks).out ∧ (parseItems toks).pos = toks.length :=
  ⟨(file_consumes_all_tokens toks).2, (file_consumes_all_tokens toks).1⟩

/-- `fn f[T: A](x: T) -> T { match x { P(a, (b, _)) => a } }`: an item with generics and bounds, a match with
nested patterns (32 tokens) -/
def exGrammar1 : List Nat := [32,65,4,65,10,65,5,0,65,10,65,1,11,65,2,39,65,2,65,0,65,8,0,65,8,50,1,1,12,65,3,3]

/-- `fn ( ) { let = 1 ; } struct { a } }`: recovery in `func` (missing name), `let_stmt` (missing pattern),
`struct_def` (missing name), `struct_field` (missing `:` and type) and a stray `}` at top level (14 tokens) -/
def exGrammar2 : List Nat := [32,0,1,2,42,6,77,7,3,37,2,65,3,3]

/-- non-vacuity: the budget suffices, the events are inside the hypotheses of `buildTree_lossless`, one `Advance`
per token; the second text reports 10 errors and still keeps all 14 tokens -/
example : (parseItems exGrammar1).oof = false ∧
    (resolve (parseEvents exGrammar1)).map (fun r => (balancedFrom 0 r, advances r)) = some (true, 32) ∧
    advsL (parseItems exGrammar1).out = 32 := by decide +kernel

example : (parseItems exGrammar2).oof = false ∧
    (resolve (parseEvents exGrammar2)).map (fun r => (balancedFrom 0 r, advances r)) = some (true, 14) ∧
    ((parseEvents exGrammar2).filter fun e => match e with | .error _ => true | _ => false).length = 10 := by
  decide +kernel

/-- a forward parent produced by the model: `#[a] fn f() {}` — the attribute list (event 1) points 8 events ahead to
the `FN` node (event 9) that `item_with_attrs` opens after it -/
example : (parseEvents [28, 4, 65, 5, 32, 65, 0, 1, 2, 3]).take 10 =
    [.op K_FILE none, .op K_ATTRIBUTE_LIST (some 8), .op K_ATTRIBUTE none, .advance, .advance, .advance, .advance,
     .close, .close, .op K_FN none] := by
  decide +kernel

/-! ### well-formedness of the model's event list, for every token list -/

/-- the kinds of the non-trivia tokens: what the parser's `Input` shows to the grammar functions -/
def kindsOf (ts : List Tok) : List Nat := (ts.filter fun t => !isTrivia t.kind).map (·.kind)

theorem stops_eq_not_trivia (k : Nat) : stops k = !isTrivia k := by
  unfold stops
  by_cases h : k = eofKind
  · subst h; decide
  · simp [h]

theorem nonTrivia_eq_kindsOf (ts : List Tok) : nonTrivia ts = (kindsOf ts).length := by
  induction ts with
  | nil => rfl
  | cons t ts ih =>
    simp only [nonTrivia, ih, stops_eq_not_trivia, kindsOf, List.filter_cons]
    cases isTrivia t.kind <;> simp <;> omega

/-- the output of `file` is one `FILE` node -/
theorem parseItems_root (toks : List Nat) : ∃ ch, (parseItems toks).out = [.node K_FILE ch] := by
  unfold parseItems budget
  generalize ranks * ((toks.length + 1) * (FUEL + 1)) + ranks = n
  obtain ⟨A, B, hA⟩ := body_file
  rw [run, hA]
  exact ⟨_, rfl⟩

/-- **`grammar_events_wellformed`: the event list the grammar functions produce satisfies the structural hypotheses
of `buildTree_lossless` for EVERY token list** (any fuel corner, any recovery path, even if the model's call budget
ran out): forward parents resolve (`resolve` succeeds: every chain lands on an `Open`), the resolved list is balanced —
root opened by the first event, depth ≥ 1 until the last event closes it — and its number of `Advance`s is the number
of `adv` leaves of the item tree. Proof: `flat_root_wellformed` (every rooted item tree, `Lemmas/GrammarFlat.lean`:
`rf_spec` for the forward-parent chains of `wrap`, `rf_balanced`) and `run_kinv` (no node of kind `TombStone`). -/
theorem grammar_events_wellformed (toks : List Nat) :
    ∃ revs ch, (parseItems toks).out = [.node K_FILE ch] ∧ resolve (parseEvents toks) = some revs ∧
      balancedFrom 0 revs = true ∧ advances revs = advsL ch := by
  obtain ⟨ch, hch⟩ := parseItems_root toks
  have hk : KInv (parseItems toks) := run_kinv _ _ _ ⟨rfl, by show (0 : Nat) ≠ tombK; decide⟩
  have hk' : kindsOK (.node K_FILE ch) = true := by
    have := hk.1; rw [hch] at this; simpa [kindsOKL] using this
  obtain ⟨revs, h1, h2, h3⟩ := flat_root_wellformed K_FILE ch hk'
  exact ⟨revs, ch, hch, by rw [parseEvents, hch]; exact h1, h2, h3⟩

/-- … and it has at least one `Advance` per token: all structural hypotheses of `buildTree_lossless`, for every token list -/
theorem grammar_events_cover_tokens (toks : List Nat) :
    ∃ revs, resolve (parseEvents toks) = some revs ∧ balancedFrom 0 revs = true ∧ toks.length ≤ advances revs := by
  obtain ⟨revs, ch, hch, h1, h2, h3⟩ := grammar_events_wellformed toks
  refine ⟨revs, h1, h2, ?_⟩
  have := (file_consumes_all_tokens toks).2
  rw [hch] at this
  simp only [advsL, advs, Nat.add_zero] at this
  omega

/-- **`parse_lossless`: lexing, the grammar functions and tree building compose to a lossless tree** — for every rule
table, every positive error length and every text: the lexer tiles the text (`lex_tiles`), the grammar model run on the
kinds of its non-trivia tokens yields events inside the hypotheses of `buildTree_lossless`
(`grammar_events_wellformed`), hence `build_tree` succeeds, the tree's text is the input, nothing is dropped, and all node
and diagnostic ranges lie in the text. Unconditional for the modelled grammar: termination (`grammar_terminates`), balance,
forward parents, advance accounting, recovery paths and fuel corners are all proved; what ties the model to the Rust is the
event-for-event comparison with `Parser.events` on every run. -/
theorem parse_lossless (rules : Rules) (errLen : List Char → Nat → Nat)
    (h : ∀ s p, 0 < errLen s p) (s : List Char) :
    ∃ ts b, lexAll rules errLen s = .ok ts ∧ buildTree (parseEvents (kindsOf ts)) ts = some b ∧
      leaves b.tree = ts ∧ textOf (leaves b.tree) = s ∧ b.dropped = [] ∧
      (∀ x ∈ spans 0 b.tree, x.2.1 ≤ x.2.2 ∧ x.2.2 ≤ byteLen s) ∧
      (∀ d ∈ b.diags, ∀ r, d.range = some r → r.1 ≤ r.2 ∧ r.2 ≤ byteLen s) := by
  obtain ⟨ts, h1, h2, _, _⟩ := lex_tiles rules errLen h s
  obtain ⟨revs, r1, r2, r3⟩ := grammar_events_cover_tokens (kindsOf ts)
  obtain ⟨b, b1, b2, b3⟩ := buildTree_lossless (parseEvents (kindsOf ts)) ts revs r1 r2
    (by rw [nonTrivia_eq_kindsOf]; exact r3)
  refine ⟨ts, b, h1, b1, b2, by rw [b2, h2], b3, ?_, ?_⟩
  · have := node_ranges_in_text b.tree
    rw [b2, h2] at this
    exact this
  · have := diag_ranges_in_text _ ts b b1
    rw [h2] at this
    exact this

/-! ### `Input`: the non-trivia view (`Model/InputView.lean`) -/
open Goml.InputView in
/-- **The grammar model sees exactly what `Input` shows the parser.** `Corr all pre rest s`: the real cursor has passed
`pre` and still has `rest` (all tokens, trivia included), the model state `s` holds the non-trivia kinds and the count of
those passed. Then `Input::nth(n)` (its loop over `tokens[cursor..]`), `Input::peek()` (after `eat_trivia`) and
`Input::eof()` answer what the model's `look`/`isEof` answer, `Input::skip()` leads to a corresponding state of `bump`,
the initial states correspond, and the model's token list is `kindsOf` of the lexer's tokens, whose length is the lexer
model's `nonTrivia`. -/
theorem input_view (all pre rest : List Nat) (s : PS) (h : Corr all pre rest s) :
    (∀ n, s.fuel ≠ 0 → (look s n).1 = InputView.nth rest n) ∧
    (s.fuel ≠ 0 → (look s 0).1 = (InputView.peek rest).1) ∧
    s.isEof = (InputView.eof rest).1 ∧
    (∃ pre', Corr all pre' (InputView.skip rest) (bump s)) ∧
    Corr all [] all (initPS (view all)) := by
  refine ⟨?_, ?_, corr_isEof h, corr_skip h, ⟨rfl, rfl, rfl⟩⟩
  · intro n hf; unfold look; rw [if_neg hf]; exact corr_getD h n
  · intro hf
    have : (look s 0).1 = InputView.nth rest 0 := by unfold look; rw [if_neg hf]; exact corr_getD h 0
    rw [this, nth_eq_view, InputView.peek, eatTrivia_head]
    cases view rest <;> rfl

theorem kindsOf_eq_view (ts : List Tok) : kindsOf ts = InputView.view (ts.map (·.kind)) := by
  simp [kindsOf, InputView.view, List.filter_map, Function.comp_def]

end grammar

end Goml.C12

namespace Goml.C12.Grammar
open Goml.ParserFuel

/-! ## the grammar side of `ha`: the top-level loop, also when it is entered out of fuel

`parse_lossless_partial` needs one `Advance` event per non-trivia token. On the model of the parser's
progress machinery (`Model/ParserFuel.lean`: tokens = the non-trivia tokens, `isEof` = `Parser::eof`
= `Input::eof`, fuel from `Gen/Consts.lean`) this is a theorem for ANY item parsers built from the
primitives, from ANY well-formed state — in particular after a lookahead-only scan of any length
(`impl_has_trait`; `Gen/Lookahead.lean` lists such functions) has left the parser without fuel. -/

/-- **file_advances_cover_tokens**: `while !p.eof() { if p.at(..) … else { advance_with_error } }`
started in any well-formed state whose cursor is covered by `Advance` events ends at the real end of
input with at least as many `Advance` events as there are tokens — whatever the branches do, as long
as they are parser functions (`StepOK`, `KeepsCovered`) and no guard accepts `eof` -/
theorem file_advances_cover_tokens (bs : List ((Kind → Bool) × (St → St)))
    (hbs : ∀ b ∈ bs, StepOK b.2 ∧ KeepsCovered b.2 ∧ b.1 EOF = false)
    (s : St) (hw : Wf s) (hc : CursorCovered s) :
    ∃ r c, runLoop none (dispatch bs) (Goml.ParserFuel.measure s) s = some (r, c) ∧
      r.toks = s.toks ∧ r.cursor = s.toks.length ∧ s.toks.length ≤ r.advances := by
  have hbs1 : ∀ b ∈ bs, StepOK b.2 ∧ b.1 EOF = false := fun b hb => ⟨(hbs b hb).1, (hbs b hb).2.2⟩
  have hbs2 : ∀ b ∈ bs, KeepsCovered b.2 := fun b hb => (hbs b hb).2.1
  obtain ⟨r, c, hr, _, wr, tr⟩ :=
    loop_terminates none (dispatch bs) (dispatch_progress bs hbs1) (Goml.ParserFuel.measure s) s hw (Nat.le_refl _)
  have hcov : CursorCovered r :=
    runLoop_keepsCovered none (dispatch bs) (dispatch_keepsCovered bs hbs2) _ s r c hc hr
  have hcur : r.cursor = s.toks.length := by
    rcases runLoop_exit none (dispatch bs) _ _ r c hr with he | ⟨k, _, hk, _⟩
    · have h1 : r.toks.length ≤ r.cursor := by simpa [isEof] using he
      have h2 := wr.1
      rw [tr] at h1 h2; omega
    · cases hk
  refine ⟨r, c, hr, tr, hcur, ?_⟩
  unfold CursorCovered at hcov
  omega

/-- … in particular after a scan of any length that only looks (two `nth` per path segment in
`impl_has_trait`), which may have used up all the fuel: the loop still consumes every token -/
theorem file_after_lookahead (bs : List ((Kind → Bool) × (St → St)))
    (hbs : ∀ b ∈ bs, StepOK b.2 ∧ KeepsCovered b.2 ∧ b.1 EOF = false) (toks : List Kind) (ns : List Nat) :
    ∃ r c, runLoop none (dispatch bs) (Goml.ParserFuel.measure (looks ns (init toks))) (looks ns (init toks)) = some (r, c) ∧
      r.cursor = toks.length ∧ toks.length ≤ r.advances := by
  obtain ⟨r, c, hr, _, h1, h2⟩ := file_advances_cover_tokens bs hbs (looks ns (init toks))
    ((looks_stepOK ns) (init toks) (init_wf toks)).1 (looks_keepsCovered ns _ (init_covered toks))
  rw [looks_toks] at h1 h2
  exact ⟨r, c, hr, h1, h2⟩

/-- a scan that looks exactly `parserFuel` times and consumes nothing (a path of `parserFuel / 2`
segments under `impl_has_trait`) -/
@[irreducible] def fuelScan : St → St := looks (List.replicate FUEL 0)

/-- **fuel_aware_eof_drops_tokens**: the hypothesis "`eof()` does not go through `peek()`" is needed.
With the fuel-aware reading `p.at(T![eof])` in the loop condition, item parsers that ARE parser
functions and guards that reject `eof` no longer suffice: after a branch that only looks `parserFuel`
times the loop leaves in front of unconsumed tokens (the tree then lacks them). -/
theorem fuel_aware_eof_drops_tokens :
    ∃ (bs : List ((Kind → Bool) × (St → St))) (toks : List Kind),
      (∀ b ∈ bs, StepOK b.2 ∧ KeepsCovered b.2 ∧ b.1 EOF = false) ∧
      ∃ r c, runLoopPeekEof (dispatch bs) 1 (init toks) = some (r, c) ∧
        r.cursor < toks.length ∧ r.advances < toks.length := by
  have h1 : StepOK fuelScan := by unfold fuelScan; exact looks_stepOK (List.replicate FUEL 0)
  have h2 : KeepsCovered fuelScan := by unfold fuelScan; exact looks_keepsCovered (List.replicate FUEL 0)
  have h3 : (fun k : Kind => k == "impl") EOF = false := by decide
  refine ⟨[((fun k : Kind => k == "impl"), fuelScan)], ["impl", "Seg", "::", "Seg"], ?_, ?_⟩
  · intro b hb
    simp only [List.mem_singleton] at hb
    subst hb
    exact ⟨h1, h2, h3⟩
  · have h : (runLoopPeekEof (dispatch [((fun k : Kind => k == "impl"), fuelScan)]) 1
        (init ["impl", "Seg", "::", "Seg"])).map (fun rc => (rc.1.cursor, rc.1.advances)) = some (0, 0) := by
      decide +kernel
    cases hr : runLoopPeekEof (dispatch [((fun k : Kind => k == "impl"), fuelScan)]) 1
        (init ["impl", "Seg", "::", "Seg"]) with
    | none => rw [hr] at h; cases h
    | some rc =>
      obtain ⟨r, c⟩ := rc
      rw [hr] at h
      simp only [Option.map_some, Option.some.injEq, Prod.mk.injEq] at h
      refine ⟨r, c, rfl, ?_, ?_⟩
      · rw [h.1]; decide
      · rw [h.2]; decide

/-- non-vacuity of `file_after_lookahead`, and the same input under both readings of `eof`: an item
parser that scans ahead `parserFuel` times and then consumes nothing. With `Parser::eof` the default
branch eats the four tokens one by one (4 `Advance` events, 4 errors); with the fuel-aware reading
the loop stops at token 0. -/
example :
    let bs : List ((Kind → Bool) × (St → St)) := [((· == "impl"), fuelScan)]
    (runLoop none (dispatch bs) 10 (init ["impl", "Seg", "::", "Seg"])).map (fun (r, c) => (r.cursor, r.advances, c))
        = some (4, 4, 5) ∧
      (runLoopPeekEof (dispatch bs) 10 (init ["impl", "Seg", "::", "Seg"])).map (fun (r, c) => (r.cursor, r.advances, c))
        = some (0, 0, 1) := by
  decide +kernel

end Goml.C12.Grammar
