import GomlVerif.Lemmas.Discover
/-!
# C13 — compilation is deterministic: no dependence on how a set is enumerated

The only inputs of `discover` / `topoSort` / `assignIds` / `plan` that are not pure data are the
orders in which sets of package names are enumerated: `enum p` (the import set of package `p`:
the sequence of insertions into the set, or the order a `HashSet` yields) and `keys` (the keys of
the `packages` map).  "Deterministic" = the result is the same for every pair of enumerations of
the same sets.

* For the code **before** the fix (`imports: HashSet`, model `hashIter`) this is false:
  `hash_discovery_order_varies`, `hash_reported_error_varies` are concrete counter-examples; what
  does hold is `hash_only_link_order_varies` (same package set, same ids, same type-check order).
* For the code **after** the fix (`imports: BTreeSet`, model `btreeIter`; `imports_ordered` checks
  the regenerated `Gen/PackageIds.importsOrdered`) `plan_enum_invariant` holds for all disks and
  all pairs of enumerations.
-/
namespace Goml.Graph

/-- `PackageUnit.imports` of the compiler under test is an ordered set (regenerated from
    `packages.rs` on every run; `false` — a `HashSet` — makes this theorem, hence the check, fail) -/
theorem imports_ordered : importsOrdered = true := by decide

/-! ## the fixed code: invariance -/

/-- **discovery does not depend on the enumeration of any import set**: same discovered packages
    in the same order, or the same error -/
theorem discover_enum_invariant (disk : Disk) (e₁ e₂ : Pkg → List Pkg)
    (h : ∀ p, SameSet (e₁ p) (e₂ p)) :
    discover disk (btreeIter e₁) = discover disk (btreeIter e₂) := by
  rw [btreeIter_ext h]

/-- **the dependency order depends only on the sets**: two graphs whose key sets and import sets
    are enumerated differently get the same order or the same error (true before the fix as well:
    `topo_sort_packages` sorts both) -/
theorem topo_enum_invariant (g₁ g₂ : Graph) (hn : SameSet g₁.names g₂.names)
    (hi : ∀ p, SameSet (g₁.imports p) (g₂.imports p)) : topoSort g₁ = topoSort g₂ := by
  have h1 : g₁.has = g₂.has := by
    funext n
    have := hn n
    rw [← has_iff, ← has_iff] at this
    exact Bool.eq_iff_iff.2 this
  have h2 : g₁.deps = g₂.deps := funext fun p => sorted_ext (hi p)
  have h3 : sorted g₁.names = sorted g₂.names := sorted_ext hn
  unfold topoSort
  rw [h1, h2, h3]

/-- **package ids depend only on the set of package names** -/
theorem ids_enum_invariant (n₁ n₂ : List Pkg) (h : SameSet n₁ n₂) : assignIds n₁ = assignIds n₂ := by
  unfold assignIds
  rw [sorted_ext h]

/-- **ids, type-check order and concatenation order are the same for every pair of enumerations**
    of the import sets and of the package map's keys -/
theorem plan_enum_invariant (disk : Disk) (e₁ e₂ : Pkg → List Pkg) (k₁ k₂ : List Pkg → List Pkg)
    (he : ∀ p, SameSet (e₁ p) (e₂ p)) (hk : ∀ l, SameSet (k₁ l) (k₂ l)) :
    plan disk (btreeIter e₁) k₁ = plan disk (btreeIter e₂) k₂ := by
  unfold plan
  rw [btreeIter_ext he]
  cases discover disk (btreeIter e₂) with
  | error e => rfl
  | ok order =>
    simp only
    rw [topo_enum_invariant ⟨k₁ order, btreeIter e₂⟩ ⟨k₂ order, btreeIter e₂⟩ (hk order) (fun _ _ => Iff.rfl),
      ids_enum_invariant (k₁ order) (k₂ order) (hk order)]

/-- the concatenated toplevels (and with them everything computed from them) are the same -/
theorem link_enum_invariant {α : Type} (items : Pkg → List α) (disk : Disk) (e₁ e₂ : Pkg → List Pkg)
    (k₁ k₂ : List Pkg → List Pkg) (he : ∀ p, SameSet (e₁ p) (e₂ p)) (hk : ∀ l, SameSet (k₁ l) (k₂ l))
    (p₁ p₂ : Plan) (h₁ : plan disk (btreeIter e₁) k₁ = .ok p₁) (h₂ : plan disk (btreeIter e₂) k₂ = .ok p₂) :
    concat items p₁.linkOrder = concat items p₂.linkOrder := by
  rw [plan_enum_invariant disk e₁ e₂ k₁ k₂ he hk, h₂] at h₁
  cases h₁
  rfl

/-- **ids are injective**: no two entries of the id table share an id -/
theorem ids_injective (names : List Pkg) : ((assignIds names).map (·.2)).Nodup := by
  unfold assignIds
  simp only [List.map_append, List.map_cons, List.map_nil]
  rw [List.nodup_append]
  refine ⟨by decide, number_snd_nodup _ _, ?_⟩
  intro a ha b hb
  obtain ⟨x, hx, hs⟩ := List.mem_map.1 hb
  have := number_snd_ge _ _ x hx
  have h2 : firstFreeId = 2 := by decide
  have h0 : builtinId = 0 := by decide
  have h1 : mainId = 1 := by decide
  simp only [List.mem_cons, List.not_mem_nil, or_false] at ha
  omega

/-! ## the code before the fix: what varies and what does not -/

/-- corpus project003: `Main` imports `Math`, `Stats`; `Stats` imports `Math` -/
def project003 : Disk :=
  [("Main", .unit "Main" ["Math", "Stats"]), ("Math", .unit "Math" []), ("Stats", .unit "Stats" ["Math"])]

def enumA : Pkg → List Pkg := fun p => if p = "Main" then ["Math", "Stats"] else project003.importsOf p
def enumB : Pkg → List Pkg := fun p => if p = "Main" then ["Stats", "Math"] else project003.importsOf p

/-- **counter-example (observed on the real compiler: 40 compiles of project003, two function
    orders)**: with a `HashSet` the discovery order, hence the order of the emitted Go functions,
    depends on the enumeration -/
theorem hash_discovery_order_varies :
    (∀ p, SameSet (enumA p) (enumB p)) ∧
    discover project003 (hashIter enumA) = .ok ["Main", "Stats", "Math"] ∧
    discover project003 (hashIter enumB) = .ok ["Main", "Math", "Stats"] := by
  refine ⟨?_, by decide, by decide⟩
  intro p x
  unfold enumA enumB
  split
  · simp only [List.mem_cons, List.not_mem_nil, or_false]; exact Or.comm
  · exact Iff.rfl

/-- two broken imports: which one is reported depends on the enumeration -/
def twoBroken : Disk := [("Main", .unit "Main" ["Aa", "Bb"]), ("Aa", .noFiles), ("Bb", .unit "Cc" [])]

theorem hash_reported_error_varies :
    discover twoBroken (hashIter fun p => if p = "Main" then ["Aa", "Bb"] else []) = .error (.declMismatch "Bb" "Cc") ∧
    discover twoBroken (hashIter fun p => if p = "Main" then ["Bb", "Aa"] else []) = .error (.load "Aa" .noFiles) := by
  decide

/-- the same two inputs under the fixed discipline -/
example : discover project003 (btreeIter enumA) = .ok ["Main", "Stats", "Math"] ∧
    discover project003 (btreeIter enumB) = .ok ["Main", "Stats", "Math"] := by decide

/-! ### the discovered *set* never depended on the enumeration -/

/-- **a successful discovery returns exactly the packages reachable from the root, each once —
    whatever the enumeration** -/
theorem discover_mem_iff_reach {disk : Disk} {iter : Pkg → List Pkg} (hi : IterOk disk iter)
    {order : List Pkg} (h : discover disk iter = .ok order) :
    order.Nodup ∧ ∀ p, p ∈ order ↔ Reach disk p := by
  have inv := discover_inv hi h
  refine ⟨inv.nodup, fun p => ⟨inv.reachO p, ?_⟩⟩
  intro r
  induction r with
  | root => exact inv.root
  | step _ e ih =>
    obtain ⟨imps', hl', hb⟩ := e
    rename_i a b _
    have hb' : b ∈ iter a := by
      have := ((hi a).2 b).2
      rw [importsOf_unit hl'] at this
      exact this hb
    rcases inv.closed a ih b hb' with h1 | h1
    · exact h1
    · simp at h1

/-- **before the fix only the concatenation order could vary**: for any two enumerations under which
    the front end succeeds, the package set, the ids and the type-check order (hence the order of
    diagnostics across packages) agree; the concatenation orders are permutations of each other -/
theorem hash_only_link_order_varies {disk : Disk} {i₁ i₂ : Pkg → List Pkg} {k₁ k₂ : List Pkg → List Pkg}
    (h₁ : IterOk disk i₁) (h₂ : IterOk disk i₂) (hk₁ : ∀ l, SameSet (k₁ l) l) (hk₂ : ∀ l, SameSet (k₂ l) l)
    {p₁ p₂ : Plan} (r₁ : plan disk i₁ k₁ = .ok p₁) (r₂ : plan disk i₂ k₂ = .ok p₂) :
    p₁.ids = p₂.ids ∧ p₁.checkOrder = p₂.checkOrder ∧ p₁.linkOrder.Perm p₂.linkOrder := by
  unfold plan at r₁ r₂
  cases d₁ : discover disk i₁ with
  | error e => simp [d₁] at r₁
  | ok o₁ =>
    cases d₂ : discover disk i₂ with
    | error e => simp [d₂] at r₂
    | ok o₂ =>
      simp only [d₁] at r₁
      simp only [d₂] at r₂
      obtain ⟨n₁, m₁⟩ := discover_mem_iff_reach h₁ d₁
      obtain ⟨n₂, m₂⟩ := discover_mem_iff_reach h₂ d₂
      have same : SameSet o₁ o₂ := fun x => (m₁ x).trans (m₂ x).symm
      have sk : SameSet (k₁ o₁) (k₂ o₂) := fun x => ((hk₁ o₁ x).trans (same x)).trans (hk₂ o₂ x).symm
      have ht := topo_enum_invariant ⟨k₁ o₁, i₁⟩ ⟨k₂ o₂, i₂⟩ sk
        (fun p x => ((h₁ p).2 x).trans ((h₂ p).2 x).symm)
      cases t₁ : topoSort ⟨k₁ o₁, i₁⟩ with
      | error e => simp [t₁] at r₁
      | ok tp₁ =>
        rw [t₁] at ht
        simp only [t₁, Except.ok.injEq] at r₁
        simp only [← ht, Except.ok.injEq] at r₂
        subst r₁ r₂
        exact ⟨ids_enum_invariant _ _ sk, rfl, (List.perm_ext_iff_of_nodup n₁ n₂).2 same⟩

/-! ### the recursion budget of the model is never the reason for an error -/

/-- **`Err.fuel` is never the outcome of discovery** (for any enumeration without repetitions) -/
theorem discover_fuel_suffices {disk : Disk} {iter : Pkg → List Pkg} (hi : IterOk disk iter) :
    discover disk iter ≠ .error .fuel := by
  unfold discover
  cases hl : disk.load rootName with
  | unit decl imps =>
    simp only
    by_cases hd : decl = rootName
    · rw [if_pos hd]
      rw [hd] at hl
      refine discoverLoop_fuel hi _ _ _ ?_
      have h1 := pending_load (order := []) (load_mem hl) (by simp)
      have h2 := iter_length_le hi rootName
      rw [importsOf_unit hl] at h2
      have h3 : pending disk [] + 1 = discoverFuel disk := by
        have : (fun e : Pkg × Load => term [] e) = fun e => match e.2 with | .unit _ imps => imps.length | _ => 0 := by
          funext e
          simp only [term, List.not_mem_nil, if_false]
          cases e.2 <;> rfl
        simp only [pending, discoverFuel]
        rw [show term [] = fun e : Pkg × Load => term [] e from rfl, this]
        rfl
      simp only [weight, List.nil_append] at h1
      simp only [List.length_reverse]
      omega
    · rw [if_neg hd]; simp
  | unreadable => simp
  | noFiles => simp
  | parse => simp
  | fileMismatch => simp

/-! ## non-vacuity: a diamond with a back reference to an already loaded package -/

def diamond : Disk :=
  [("Main", .unit "Main" ["Bb", "Aa", "Bb"]), ("Aa", .unit "Aa" ["Cc"]), ("Bb", .unit "Bb" ["Cc", "Aa"]),
   ("Cc", .unit "Cc" []), ("Zq", .unit "Zq" ["Main"])]

example : plan diamond (btreeIter diamond.importsOf) id =
    .ok { ids := [("Builtin", 0), ("Main", 1), ("Aa", 2), ("Bb", 3), ("Cc", 4)],
          checkOrder := ["Cc", "Aa", "Bb", "Main"], linkOrder := ["Main", "Bb", "Cc", "Aa"] } := by
  decide

example : IterOk diamond (btreeIter diamond.importsOf) := by
  intro p
  refine ⟨nodup_sorted _, fun x => mem_sorted⟩

/-- a cycle is reported with its path; a package directory that declares another name is an error -/
example : plan [("Main", .unit "Main" ["Aa"]), ("Aa", .unit "Aa" ["Bb"]), ("Bb", .unit "Bb" ["Aa"])]
    (btreeIter fun p => if p = "Main" then ["Aa"] else if p = "Aa" then ["Bb"] else ["Aa"]) id =
    .error (.cycle ["Aa", "Bb", "Aa"]) := by decide

example : topoSort ⟨["Main", "Aa"], fun p => if p = "Main" then ["Aa", "Zz"] else []⟩ =
    .error (.missing "Main" "Zz") := by decide

end Goml.Graph
