import GomlVerif.Model.Graph
namespace Goml.Graph
theorem placeholder : sorted ([] : List Pkg) = [] := rfl
end Goml.Graph
