import GomlVerif.Lemmas.C14Alpha
import GomlVerif.Lemmas.C14Validate
import GomlVerif.Model.Link
import GomlVerif.Lemmas.C14Exports
import GomlVerif.Gen.Exports
/-!
C14 — separate compilation is equivalent to whole-program compilation.

The two ways hand the same stages (mono → lift → anf → go) a Core file that differs in two
respects only: the packages' functions are concatenated in another order (discovery order vs
topological order), and the temporaries of `compile_match` are numbered from another offset (one
`Gensym` for the whole program vs one per package).  The theorems say that `Sem.run` does not see
either difference — closures included: the values of the two runs are related (`Alpha.VRel`), their
observable outcomes equal; `validate_sound` packages both into a verified validator that the check runs on
the real Core of both ways.
-/
namespace Goml.C14
open Goml Goml.Sem Goml.Alpha

/-- **function order is irrelevant**: if the function names of a program are pairwise distinct,
    running it is invariant under any permutation of its function list -/
theorem run_perm_invariant (P : Prog) (fns' : List Fn) (hp : P.fns.Perm fns')
    (hd : (P.fns.map (·.name)).Nodup) (fuel : Nat) (entry : String) (eager : Bool) :
    run fuel { P with fns := fns' } entry eager = run fuel P entry eager :=
  run_perm P fns' hp hd fuel entry eager

/-- **names of bound variables are irrelevant, closures included**: renaming every function of a program by its
    own renaming `σs f` does not change `Sem.run` — stdout, the way of ending and the extern events are EQUAL —
    provided each renaming is injective on the names its function mentions (`Ns f`), every variable it moves is
    bound by a `let` inside the body, and no closure parameter is moved (`scC`; a closure value may be applied to
    fewer arguments than it has parameters, so a parameter is not known to be bound).  Closure expressions,
    closure values in environments, in the `Ref` store, in data, returned, passed and called through locals
    are all covered: the proof relates the values of the two runs by `Alpha.VRel` (a closure is related to the
    closure whose body is the `σ`-renaming under a `σ`-renamed, value-wise related environment; stores related
    cell by cell) instead of equating them.  All hypotheses are decidable. -/
theorem run_alpha_invariant (P : Prog) (σs : String → String → String) (Ns : String → List String)
    (H : HypC σs Ns P) (fuel : Nat) (entry : String) (eager : Bool) :
    run fuel (renP σs P) entry eager = run fuel P entry eager :=
  run_alpha_full H fuel entry eager

/-- the round-1 statement (closure-free programs, `Hyp`), kept as a corollary of `run_alpha_invariant`:
    on a closure-free body the scope check `scE` implies `scC` (`scC_of_cf`), so `Hyp` implies `HypC` -/
theorem run_alpha_invariant_partial (P : Prog) (σs : String → String → String) (Ns : String → List String)
    (H : Hyp σs Ns P) (fuel : Nat) (entry : String) (eager : Bool) :
    run fuel (renP σs P) entry eager = run fuel P entry eager :=
  run_alpha_invariant P σs Ns (hyp_hypC H) fuel entry eager

/-- **verified validator**: if `validate σs Ns S W` accepts — every function of `S` has a twin in `W`
    that is its `σs`-renaming (type annotations aside; closure expressions included), `W` has no other function,
    the `dyn` tables agree, and the hypotheses of the renaming theorem hold of `S` — then `W` and `S` run alike.
    The check evaluates `validate` on the real linked Core (`S`) and the real whole-program Core
    (`W`) with `σs f` = the shift of `f`'s temporaries. -/
theorem separate_eq_whole_validated (σs : String → String → String) (Ns : String → List String) (S W : Prog)
    (h : validate σs Ns S W = true) (fuel : Nat) (entry : String) (eager : Bool) :
    run fuel W entry eager = run fuel S entry eager :=
  validate_sound h fuel entry eager

/-- **`check` and `build` of the same sources emit the same interface** (model of
    `check_package` / `build_package`, `Model/Link.lean`): in every store state they accept together,
    write the same `.interface`, and the interface inside the `.core` is that file -/
theorem check_build_same_interface (H : Link.View → Link.Hash) (s : Link.St) (p : Link.Pkg) :
    (∀ e, Link.check H s p = .error e ↔ Link.build H s p = .error e) ∧
    (∀ s1 s2, Link.check H s p = .ok s1 → Link.build H s p = .ok s2 →
      s1.ifaceFile p = s2.ifaceFile p ∧ (s2.coreFile p).map (·.iface.view) = (s2.ifaceFile p).map (·.view) ∧
      (s2.coreFile p).map (·.iface.hash) = (s2.ifaceFile p).map (·.hash)) := by
  unfold Link.check Link.build
  cases Link.loadDeps H s (s.imports p) with
  | error e => simp
  | ok loaded =>
    refine ⟨by simp, ?_⟩
    intro s1 s2 h1 h2
    simp only [Except.ok.injEq] at h1 h2
    subst h1; subst h2
    simp [Link.setIface, Link.setCore]

/-! ### the link environment (`PackageExports::apply_to`, artifact.rs; `link_cores`, separate.rs; `compile`, pipeline.rs) -/

/-- **`apply_to` forgets nothing** (tables regenerated from env.rs / artifact.rs): every map of `TypeEnv`, `TraitEnv`
    and `ValueEnv` is extended by a loop of `PackageExports::apply_to`, those structs have no field that is not a
    map, `PackageExports` has exactly the parts of `GlobalTypeEnv`, and `to_genv` clones each part into the part
    of the same name -/
theorem apply_to_copies_every_map :
    (Gen.Exports.envMaps.all fun f => Gen.Exports.appliedMaps.contains f) = true ∧
    (Gen.Exports.appliedMaps.all fun f => Gen.Exports.envMaps.contains f) = true ∧
    Gen.Exports.envOther = [] ∧ Gen.Exports.exportsParts = Gen.Exports.genvParts ∧
    Gen.Exports.toGenv = Gen.Exports.genvParts.map (fun p => (p, p)) := by decide

/-- **an `IndexMap` rebuilt from its own entries is itself**: inserting the entries of a map with distinct keys
    into an empty map, in their order, yields the map — what reading the exports back from the interface JSON does
    to each of their maps (the codec of the entries themselves is validated, `exports_roundtrip` oracle, not modelled) -/
theorem indexmap_rebuilt_from_entries (m : Exports.IMap) (hd : (m.map (·.1)).Nodup) : Exports.IMap.extend [] m = m :=
  Exports.extend_nil_id m hd

/-- **the order of the packages is irrelevant for every lookup in the link environment**: if every export map has
    distinct keys and no two packages export the same key of the same map with different values, then the
    environments built by `apply_to` over any two orders of the packages answer every lookup in every map alike.
    (The whole-program way and `link_cores` use two different topological sorts; the maps' iteration order does
    differ, which is why `implsAgree` above compares tables by lookup.)  The check evaluates both hypotheses and
    `applyAll` on the real exports of every accepted project and compares every lookup with the real environment
    of both ways. -/
theorem link_env_order_irrelevant (fields : List String) (es es' : List Exports.Env) (g : Exports.Env)
    (hp : es.Perm es') (hwf : Exports.WF es) (hc : Exports.Consistent es)
    (f : String) (hf : fields.contains f = true) (k : String) :
    Exports.IMap.lookup ((Exports.applyAll fields es g) f) k = Exports.IMap.lookup ((Exports.applyAll fields es' g) f) k :=
  Exports.applyAll_perm fields es es' g hp hwf hc f hf k

/-! ### non-vacuity -/

/-- two packages exporting into the same two maps, applied in both orders: the iteration order of the maps
    differs, every lookup agrees -/
def exE1 : Exports.Env := Exports.ofList [("value_env.funcs", [("A::f", "h1"), ("A::g", "h2")]), ("type_env.enums", [("A::T", "h3")])]
def exE2 : Exports.Env := Exports.ofList [("value_env.funcs", [("B::f", "h4")]), ("type_env.enums", [("B::U", "h5")])]
def exG0 : Exports.Env := Exports.ofList [("value_env.funcs", [("string_println", "h0")])]

example : (Exports.applyAll Gen.Exports.appliedMaps [exE1, exE2] exG0) "value_env.funcs"
    = [("string_println", "h0"), ("A::f", "h1"), ("A::g", "h2"), ("B::f", "h4")] := by decide +kernel
example : (Exports.applyAll Gen.Exports.appliedMaps [exE2, exE1] exG0) "value_env.funcs"
    = [("string_println", "h0"), ("B::f", "h4"), ("A::f", "h1"), ("A::g", "h2")] := by decide +kernel
example : Exports.IMap.lookup ((Exports.applyAll Gen.Exports.appliedMaps [exE2, exE1] exG0) "value_env.funcs") "A::g" = some "h2" := by
  decide +kernel

/-- two packages' functions in the two orders, the dependency's temporaries numbered from 0 resp. 2:
    the validator accepts, so the two programs run alike — and they print something -/
def exS : Prog :=
  { fns := [
      { name := "Lib::f", generics := [], params := [("a/0", .int 32 true)], ret := .int 32 true,
        body := .letE "mtmp0" (.var "a/0" (.int 32 true))
                  (.bin .add (.int 32 true) (.var "mtmp0" (.int 32 true)) (.prim (.int 32 true 1))) },
      { name := "main", generics := [], params := [], ret := .unit,
        body := .letE "x0" (.call (.int 32 true) (.var "Lib::f" .unit) [.prim (.int 32 true 41)])
                  (.call .unit (.var "string_println" .unit)
                    [.call .string (.var "int32_to_string" .unit) [.var "x0" (.int 32 true)]]) }] }

def exW : Prog :=
  { fns := [
      { name := "main", generics := [], params := [], ret := .unit,
        body := .letE "x0" (.call (.int 32 true) (.var "Lib::f" .unit) [.prim (.int 32 true 41)])
                  (.call .unit (.var "string_println" .unit)
                    [.call .string (.var "int32_to_string" .unit) [.var "x0" (.int 32 true)]]) },
      { name := "Lib::f", generics := [], params := [("a/0", .int 32 true)], ret := .int 32 true,
        body := .letE "mtmp2" (.var "a/0" (.int 32 true))
                  (.bin .add (.int 32 true) (.var "mtmp2" (.int 32 true)) (.prim (.int 32 true 1))) }] }

def exσ (f : String) : String → String :=
  if f = "Lib::f" then fun x => if x = "mtmp0" then "mtmp2" else x else fun x => x

def exN (f : String) : List String :=
  if f = "Lib::f" then ["a/0", "mtmp0"] else ["x0", "Lib::f", "string_println", "int32_to_string"]

example : validate exσ exN exS exW = true := by decide +kernel
example : (run 100 exS).out = "42\n" ∧ (run 100 exW).out = "42\n" := by decide +kernel

/-- closures: `Lib::mk` returns a closure that captures a renamed temporary and binds another one inside its
    body; `main` stores the closure in a `Ref`, reads it back and calls it through a local -/
def exCS : Prog :=
  { fns := [
      { name := "Lib::mk", generics := [], params := [("a/0", .int 32 true)], ret := .func [.int 32 true] (.int 32 true),
        body := .letE "mtmp0" (.var "a/0" (.int 32 true))
                  (.closure (.func [.int 32 true] (.int 32 true)) [("b/1", .int 32 true)]
                    (.letE "x1" (.bin .add (.int 32 true) (.var "mtmp0" (.int 32 true)) (.var "b/1" (.int 32 true)))
                      (.var "x1" (.int 32 true)))) },
      { name := "main", generics := [], params := [], ret := .unit,
        body := .letE "r/0" (.call .unit (.var "ref" .unit) [.call .unit (.var "Lib::mk" .unit) [.prim (.int 32 true 40)]])
                  (.letE "f/1" (.call .unit (.var "ref_get" .unit) [.var "r/0" .unit])
                    (.call .unit (.var "string_println" .unit)
                      [.call .string (.var "int32_to_string" .unit)
                        [.call (.int 32 true) (.var "f/1" .unit) [.prim (.int 32 true 2)]]])) }] }

def exCW : Prog :=
  { fns := [
      { name := "main", generics := [], params := [], ret := .unit,
        body := .letE "r/0" (.call .unit (.var "ref" .unit) [.call .unit (.var "Lib::mk" .unit) [.prim (.int 32 true 40)]])
                  (.letE "f/1" (.call .unit (.var "ref_get" .unit) [.var "r/0" .unit])
                    (.call .unit (.var "string_println" .unit)
                      [.call .string (.var "int32_to_string" .unit)
                        [.call (.int 32 true) (.var "f/1" .unit) [.prim (.int 32 true 2)]]])) },
      { name := "Lib::mk", generics := [], params := [("a/0", .int 32 true)], ret := .func [.int 32 true] (.int 32 true),
        body := .letE "mtmp3" (.var "a/0" (.int 32 true))
                  (.closure (.func [.int 32 true] (.int 32 true)) [("b/1", .int 32 true)]
                    (.letE "x4" (.bin .add (.int 32 true) (.var "mtmp3" (.int 32 true)) (.var "b/1" (.int 32 true)))
                      (.var "x4" (.int 32 true)))) }] }

def exCσ (f : String) : String → String :=
  if f = "Lib::mk" then fun x => if x = "mtmp0" then "mtmp3" else if x = "x1" then "x4" else x else fun x => x

def exCN (f : String) : List String :=
  if f = "Lib::mk" then ["a/0", "mtmp0", "b/1", "x1"]
  else ["r/0", "f/1", "ref", "ref_get", "Lib::mk", "string_println", "int32_to_string"]

example : validate exCσ exCN exCS exCW = true := by decide +kernel
example : (run 100 exCS).out = "42\n" ∧ (run 100 exCW).out = "42\n" := by decide +kernel
/-- the renaming theorem's hypotheses hold of `exCS` (closure body binds a moved name, captures another) -/
example : HypC exCσ exCN exCS :=
  ⟨by decide +kernel, by decide +kernel, by decide +kernel⟩

/-- the hypotheses of `link_env_order_irrelevant` hold of the two example packages -/
example : Exports.WF [exE1, exE2] := by
  intro e he f
  simp only [List.mem_cons, List.not_mem_nil, or_false] at he
  rcases he with rfl | rfl
  · exact Exports.wf_ofList _ (by decide) f
  · exact Exports.wf_ofList _ (by decide) f

example : Exports.Consistent [exE1, exE2] := by
  intro e1 h1 e2 h2 f k v1 v2 l1 l2
  simp only [List.mem_cons, List.not_mem_nil, or_false] at h1 h2
  rcases h1 with rfl | rfl <;> rcases h2 with rfl | rfl
  · rw [l1] at l2; injection l2
  · exact Exports.consistent_pair _ _ (by decide) f k v1 v2 l1 l2
  · exact Exports.consistent_pair _ _ (by decide) f k v1 v2 l1 l2
  · rw [l1] at l2; injection l2

end Goml.C14
