import GomlVerif.Model.Link
/-!
# C15 — linking never combines packages built against different interfaces

All statements are for an arbitrary hash function `H` that is injective on interface
views (the assumption on SHA-256 ∘ serde_json, a hypothesis — not an axiom).
-/
namespace Goml.Link

variable {H : View → Hash}

/-! ## helper lemmas -/

theorem loadIface_ok {s : St} {d : Pkg} {u : Iface} (h : loadIface H s d = .ok u) :
    s.ifaceFile d = some u ∧ u.view.pkg = d ∧ u.hash = H u.view ∧
      u.view.version = FORMAT_VERSION ∧ u.view.abi = COMPILER_ABI := by
  unfold loadIface at h
  cases hf : s.ifaceFile d with
  | none => simp [hf] at h
  | some w =>
    simp only [hf] at h
    by_cases h1 : (w.view.pkg != d) = true
    · simp [h1] at h
    · by_cases h0 : (w.view.version != FORMAT_VERSION || w.view.abi != COMPILER_ABI) = true
      · simp [h1, h0] at h
      · by_cases h2 : (!validHash H w) = true
        · simp [h1, h0, h2] at h
        · simp only [h1, h0, h2] at h
          have : w = u := by simpa using h
          subst this
          simp only [bne_iff_ne, ne_eq, Decidable.not_not] at h1
          simp only [validHash, Bool.not_eq_true', beq_eq_false_iff_ne, ne_eq, Decidable.not_not] at h2
          simp only [Bool.or_eq_true, bne_iff_ne, ne_eq, not_or, Decidable.not_not] at h0
          exact ⟨rfl, h1, h2, h0.1, h0.2⟩

theorem loadDeps_ok {s : St} {ds : List Pkg} {loaded : List (Pkg × Iface)}
    (h : loadDeps H s ds = .ok loaded) :
    ∀ d u, (d, u) ∈ loaded → u.hash = H u.view ∧ u.view.pkg = d := by
  induction ds generalizing loaded with
  | nil =>
    simp only [loadDeps, Except.ok.injEq] at h; subst h; intro d u hm; cases hm
  | cons d ds ih =>
    simp only [loadDeps] at h
    cases hl : loadIface H s d with
    | error e => simp [hl] at h
    | ok u =>
      simp only [hl] at h
      cases hr : loadDeps H s ds with
      | error e => simp [hr] at h
      | ok us =>
        simp only [hr, Except.ok.injEq] at h
        subst h
        intro d' u' hm
        rcases List.mem_cons.1 hm with heq | hm
        · cases heq
          have := loadIface_ok hl
          exact ⟨this.2.2.1, this.2.1⟩
        · exact ih hr d' u' hm

/-- the ghost record agrees with the pinned hashes -/
def seenSync (H : View → Hash) (c : Core) : Prop :=
  ∀ d v, (d, v) ∈ c.seen → (d, H v) ∈ c.iface.view.deps

/-- invariant of every stored core file -/
def CoreOK (H : View → Hash) (c : Core) : Prop :=
  (c.tainted = false → validate H c = true) ∧ (validate H c = true → seenSync H c)

def Inv (H : View → Hash) (s : St) : Prop :=
  ∀ p c, s.coreFile p = some c → CoreOK H c

theorem validate_iff (c : Core) :
    validate H c = true ↔
      c.version = FORMAT_VERSION ∧ c.abi = COMPILER_ABI ∧ c.pkg = c.iface.view.pkg ∧
      c.iface.hash = H c.iface.view ∧ c.deps = c.iface.view.deps := by
  simp [validate, validHash, and_assoc]

theorem built_core_ok {s : St} {p : Pkg} {loaded : List (Pkg × Iface)}
    (h : loadDeps H s (s.imports p) = .ok loaded) :
    CoreOK H { version := FORMAT_VERSION, abi := COMPILER_ABI, pkg := p,
               iface := mkIface H p (s.src p).iface loaded, body := (s.src p).body,
               deps := (mkIface H p (s.src p).iface loaded).view.deps,
               seen := loaded.map fun (d, u) => (d, u.view) } := by
  constructor
  · intro _; simp [validate, validHash, mkIface]
  · intro _ d v hm
    simp only [List.mem_map] at hm
    obtain ⟨⟨d', u⟩, hmem, heq⟩ := hm
    simp only [Prod.mk.injEq] at heq
    obtain ⟨rfl, rfl⟩ := heq
    have := (loadDeps_ok h d' u hmem).1
    simp only [mkIface, List.mem_map]
    exact ⟨(d', u), hmem, by simp [this]⟩

theorem corrupt_core_ok (hinj : Function.Injective H) (c : Core) (k : Corruption)
    (hc : CoreOK H c) (hunt : c.tainted = false) : CoreOK H (corruptCore c k) := by
  have hval := hc.1 hunt
  have hsync := hc.2 hval
  have hv := (validate_iff c).1 hval
  constructor
  · intro ht; cases hf : k.field <;> simp [corruptCore, hf] at ht
  · intro hval'
    have hv' := (validate_iff _).1 hval'
    -- either the view is untouched, or the stored hash is untouched and pins the view
    have key : (corruptCore c k).iface.view = c.iface.view := by
      cases hf : k.field <;> simp only [corruptCore, corruptIface, hf] at hv' ⊢
      all_goals first
        | rfl
        | (apply hinj; rw [← hv'.2.2.2.1]; exact hv.2.2.2.1)
    intro d v hm
    have hseen : (corruptCore c k).seen = c.seen := by
      cases hf : k.field <;> simp [corruptCore, hf]
    rw [hseen] at hm
    rw [key]
    exact hsync d v hm

theorem step_inv (hinj : Function.Injective H) (s : St) (op : Op) (hI : Inv H s) :
    Inv H (step H s op) := by
  cases op with
  | editBody p v => exact hI
  | editIface p v => exact hI
  | link ps => exact hI
  | check p =>
    simp only [step]
    cases hc : check H s p with
    | error e => exact hI
    | ok s' =>
      simp only [check] at hc
      cases hl : loadDeps H s (s.imports p) with
      | error e => simp [hl] at hc
      | ok loaded =>
        simp only [hl, Except.ok.injEq] at hc
        subst hc
        exact hI
  | build p =>
    simp only [step]
    cases hb : build H s p with
    | error e => exact hI
    | ok s' =>
      simp only [build] at hb
      cases hl : loadDeps H s (s.imports p) with
      | error e => simp [hl] at hb
      | ok loaded =>
        simp only [hl, Except.ok.injEq] at hb
        subst hb
        intro q c hq
        simp only [setCore, setIface] at hq
        by_cases hqp : q = p
        · simp only [hqp, if_true, Option.some.injEq] at hq
          subst hq
          exact built_core_ok hl
        · simp only [hqp, if_false] at hq
          exact hI q c hq
  | corruptIfaceFile p k =>
    simp only [step]
    cases hf : s.ifaceFile p with
    | none => exact hI
    | some i =>
      by_cases ht : i.tainted = true
      · simp only [ht, if_true]; exact hI
      · have htf : i.tainted = false := by simpa using ht
        simp only [htf, Bool.false_eq_true, if_false]; exact hI
  | foreignIface p ver abi => exact hI
  | corruptCoreFile p k =>
    simp only [step]
    cases hf : s.coreFile p with
    | none => exact hI
    | some c0 =>
      by_cases ht : c0.tainted = true
      · simp only [ht, if_true]; exact hI
      · have htf : c0.tainted = false := by simpa using ht
        simp only [htf, Bool.false_eq_true, if_false]
        intro q c hq
        simp only [setCore] at hq
        by_cases hqp : q = p
        · simp only [hqp, if_true, Option.some.injEq] at hq
          subst hq
          exact corrupt_core_ok hinj c0 k (hI p c0 hf) (by simpa using ht)
        · simp only [hqp, if_false] at hq
          exact hI q c hq

theorem run_inv (hinj : Function.Injective H) (s : St) (ops : List Op) (hI : Inv H s) :
    Inv H (run H s ops) := by
  induction ops generalizing s with
  | nil => exact hI
  | cons op ops ih => exact ih (step H s op) (step_inv hinj s op hI)

theorem init_inv (imports : Pkg → List Pkg) : Inv H (init imports) := by
  intro p c h; simp [init] at h

theorem readCores_ok {s : St} {ps : List Pkg} {cs : List Core} (h : readCores H s ps = .ok cs) :
    ∀ c ∈ cs, validate H c = true ∧ ∃ p, s.coreFile p = some c := by
  induction ps generalizing cs with
  | nil => simp only [readCores, Except.ok.injEq] at h; subst h; intro c hc; cases hc
  | cons p ps ih =>
    simp only [readCores] at h
    cases hf : s.coreFile p with
    | none => simp [hf] at h
    | some c0 =>
      simp only [hf] at h
      by_cases hv : validate H c0 = true
      · simp only [hv, Bool.not_true, Bool.false_eq_true, if_false] at h
        cases hr : readCores H s ps with
        | error e => simp [hr] at h
        | ok cs' =>
          simp only [hr, Except.ok.injEq] at h
          subst h
          intro c hc
          rcases List.mem_cons.1 hc with rfl | hc
          · exact ⟨hv, p, hf⟩
          · exact ih hr c hc
      · simp [hv] at h

theorem checkDeps_ok {cs : List Core} {p : Pkg} {deps : List (Pkg × Hash)}
    (h : checkDeps cs p deps = .ok ()) :
    ∀ d hsh, (d, hsh) ∈ deps → ∃ cd, findCore cs d = some cd ∧ cd.iface.hash = hsh := by
  induction deps with
  | nil => intro d hsh hm; cases hm
  | cons e rest ih =>
    obtain ⟨d0, h0⟩ := e
    simp only [checkDeps] at h
    cases hf : findCore cs d0 with
    | none => simp [hf] at h
    | some cd =>
      simp only [hf] at h
      by_cases hne : (cd.iface.hash != h0) = true
      · simp [hne] at h
      · simp only [hne] at h
        intro d hsh hm
        rcases List.mem_cons.1 hm with heq | hm
        · cases heq
          exact ⟨cd, hf, by simpa using hne⟩
        · exact ih h d hsh hm

theorem checkAll_ok {cs all : List Core} (h : checkAll all cs = .ok ()) :
    ∀ c ∈ cs, checkDeps all c.pkg c.deps = .ok () := by
  induction cs with
  | nil => intro c hc; cases hc
  | cons c0 rest ih =>
    simp only [checkAll] at h
    cases hd : checkDeps all c0.pkg c0.deps with
    | error e => simp [hd] at h
    | ok u =>
      simp only [hd] at h
      intro c hc
      rcases List.mem_cons.1 hc with rfl | hc
      · exact hd
      · exact ih h c hc

theorem mem_insCore (c x : Core) (l : List Core) : x ∈ insCore c l ↔ x = c ∨ x ∈ l := by
  induction l with
  | nil => simp [insCore]
  | cons d ds ih =>
    simp only [insCore]
    split
    · simp
    · simp only [List.mem_cons, ih]
      constructor
      · rintro (h | h | h) <;> simp [h]
      · rintro (h | h | h) <;> simp [h]

theorem mem_sortCores (x : Core) (l : List Core) : x ∈ sortCores l ↔ x ∈ l := by
  induction l with
  | nil => simp [sortCores]
  | cons c cs ih => simp [sortCores, mem_insCore, ih]

/-! ## P1 — link soundness over every history -/

/-- **link_sound.** After any history of edits, checks, builds, links and single-field
    corruptions, if `link` accepts a set of cores then every package in it was type-checked
    against exactly the interface view (format, ABI, package, exported content *and that
    interface's own pinned dependencies* — hence transitively) that its dependency's core
    carries in this link. -/
theorem link_sound (hinj : Function.Injective H) (imports : Pkg → List Pkg) (ops : List Op)
    (ps : List Pkg) (cs : List Core)
    (hl : link H (run H (init imports) ops) ps = .ok cs) :
    ∀ c ∈ cs, ∀ d v, (d, v) ∈ c.seen →
      ∃ cd, findCore cs d = some cd ∧ cd ∈ cs ∧ cd.iface.view = v := by
  have hI := run_inv hinj (init imports) ops (init_inv imports)
  generalize run H (init imports) ops = s at hl hI
  simp only [link] at hl
  cases hr : readCores H s ps with
  | error e => simp [hr] at hl
  | ok cs' =>
    simp only [hr] at hl
    cases hk : linkCores cs' with
    | error e => simp [hk] at hl
    | ok u =>
      simp only [hk, Except.ok.injEq] at hl
      subst hl
      simp only [linkCores] at hk
      by_cases hemp : cs'.isEmpty = true
      · simp [hemp] at hk
      simp only [hemp] at hk
      cases hdup : dupFree cs' [] with
      | error e => simp [hdup] at hk
      | ok u' =>
        simp only [hdup] at hk
        by_cases hm : (findCore cs' "Main").isNone = true
        · simp [hm] at hk
        · simp only [hm] at hk
          intro c hc d v hseen
          obtain ⟨hval, q, hq⟩ := readCores_ok hr c hc
          have hsync := (hI q c hq).2 hval d v hseen
          have hv := (validate_iff c).1 hval
          have hdeps : (d, H v) ∈ c.deps := by rw [hv.2.2.2.2]; exact hsync
          obtain ⟨cd, hfind, hhash⟩ := checkDeps_ok (checkAll_ok hk c ((mem_sortCores c cs').2 hc)) d (H v) hdeps
          have hcd : cd ∈ cs' := List.mem_of_find?_eq_some hfind
          obtain ⟨hvald, _⟩ := readCores_ok hr cd hcd
          have hvd := (validate_iff cd).1 hvald
          refine ⟨cd, hfind, hcd, hinj ?_⟩
          rw [← hvd.2.2.2.1, hhash]

/-! ## P2 — what changes the hash and what does not -/

/-- body-only edits leave the emitted interface (and its hash) unchanged -/
theorem body_edit_hash_stable (s : St) (p : Pkg) (v : Nat) (s1 s2 : St)
    (h1 : build H s p = .ok s1) (h2 : build H (step H s (.editBody p v)) p = .ok s2) :
    s2.ifaceFile p = s1.ifaceFile p := by
  simp only [build, step] at h1 h2
  have hload : loadDeps H { s with src := fun q => if q = p then { s.src p with body := v } else s.src q }
      (s.imports p) = loadDeps H s (s.imports p) := by
    generalize s.imports p = ds
    induction ds with
    | nil => rfl
    | cons d ds ih => simp only [loadDeps, loadIface]; rw [ih]
  rw [hload] at h2
  cases hl : loadDeps H s (s.imports p) with
  | error e => simp [hl] at h1
  | ok loaded =>
    simp only [hl, Except.ok.injEq] at h1 h2
    subst h1; subst h2
    simp [setCore, setIface]

/-- an interface-visible edit changes the hash (H injective) -/
theorem iface_edit_hash_changes (hinj : Function.Injective H) (p : Pkg) (c1 c2 : Nat)
    (l1 l2 : List (Pkg × Iface)) (hne : c1 ≠ c2) :
    (mkIface H p c1 l1).hash ≠ (mkIface H p c2 l2).hash := by
  simp only [mkIface]
  intro h
  have := hinj h
  simp only [View.mk.injEq] at this
  exact hne this.2.2.2.1

/-- a changed dependency hash changes the dependent's hash: staleness propagates transitively -/
theorem dep_hash_propagates (hinj : Function.Injective H) (p : Pkg) (c : Nat)
    (l1 l2 : List (Pkg × Iface))
    (hne : (l1.map fun (d, u) => (d, u.hash)) ≠ (l2.map fun (d, u) => (d, u.hash))) :
    (mkIface H p c l1).hash ≠ (mkIface H p c l2).hash := by
  simp only [mkIface]
  intro h
  have := hinj h
  simp only [View.mk.injEq] at this
  exact hne this.2.2.2.2

/-- a dependent whose pinned hash differs from the linked dependency is rejected -/
theorem stale_rejected (cs : List Core) (p d : Pkg) (hsh : Hash) (rest : List (Pkg × Hash)) (cd : Core)
    (hf : findCore cs d = some cd) (hne : cd.iface.hash ≠ hsh) :
    checkDeps cs p ((d, hsh) :: rest) = .error (.stale p d) := by
  simp [checkDeps, hf, hne]

/-! ## P1b — acceptance is a statement about EVERY import edge

`link_sound` uses only the direction "accepted → every edge matches". The converse directions below
make the acceptance condition of `linkCores` an *iff* over the SET of import edges of the inputs: no
reference to the order in which packages or dependencies are visited, to package names, or to where an
edge sits in the graph. A stale edge anywhere (second importer of a shared dependency, below a package
already seen, in a part Main does not reach) refuses the link. -/

theorem checkDeps_ok_iff (cs : List Core) (p : Pkg) (deps : List (Pkg × Hash)) :
    checkDeps cs p deps = .ok () ↔
      ∀ d hsh, (d, hsh) ∈ deps → ∃ cd, findCore cs d = some cd ∧ cd.iface.hash = hsh := by
  constructor
  · exact checkDeps_ok
  · intro h
    induction deps with
    | nil => rfl
    | cons e rest ih =>
      obtain ⟨d0, h0⟩ := e
      obtain ⟨cd, hf, hh⟩ := h d0 h0 (List.mem_cons_self ..)
      simp only [checkDeps, hf, hh, bne_self_eq_false, Bool.false_eq_true, if_false]
      exact ih (fun d hsh hm => h d hsh (List.mem_cons_of_mem _ hm))

theorem checkAll_ok_iff (all cs : List Core) :
    checkAll all cs = .ok () ↔ ∀ c ∈ cs, checkDeps all c.pkg c.deps = .ok () := by
  constructor
  · exact checkAll_ok
  · intro h
    induction cs with
    | nil => rfl
    | cons c0 rest ih =>
      simp only [checkAll, h c0 (List.mem_cons_self ..)]
      exact ih (fun c hc => h c (List.mem_cons_of_mem _ hc))

/-- **linkCores_ok_iff.** `link_cores` accepts exactly the non-empty, duplicate-free sets of cores that
    contain Main and in which EVERY recorded dependency hash of EVERY input equals the interface hash of
    the core given for that dependency. -/
theorem linkCores_ok_iff (cs : List Core) :
    linkCores cs = .ok () ↔
      cs ≠ [] ∧ dupFree cs [] = .ok () ∧ (findCore cs "Main").isSome = true ∧
      ∀ c ∈ cs, ∀ d hsh, (d, hsh) ∈ c.deps → ∃ cd, findCore cs d = some cd ∧ cd.iface.hash = hsh := by
  simp only [linkCores]
  cases cs with
  | nil => simp
  | cons c0 rest =>
    simp only [List.isEmpty_cons, Bool.false_eq_true, if_false, ne_eq, reduceCtorEq, not_false_eq_true, true_and]
    cases hdup : dupFree (c0 :: rest) [] with
    | error e => simp
    | ok u =>
      cases hm : findCore (c0 :: rest) "Main" with
      | none => simp
      | some cm =>
        simp only [Option.isNone_some, Bool.false_eq_true, if_false, Option.isSome_some, true_and]
        rw [checkAll_ok_iff]
        constructor
        · intro h c hc
          exact (checkDeps_ok_iff _ _ _).1 (h c ((mem_sortCores c _).2 hc))
        · intro h c hc
          exact (checkDeps_ok_iff _ _ _).2 (h c ((mem_sortCores c _).1 hc))

/-- a single import edge whose pinned hash differs from the linked dependency refuses the whole link,
    whichever input it belongs to and whatever else is among the inputs -/
theorem stale_edge_rejected (cs : List Core) (c cd : Core) (d : Pkg) (hsh : Hash)
    (hc : c ∈ cs) (he : (d, hsh) ∈ c.deps) (hf : findCore cs d = some cd) (hne : cd.iface.hash ≠ hsh) :
    linkCores cs ≠ .ok () := by
  intro h
  obtain ⟨cd', hf', hh⟩ := ((linkCores_ok_iff cs).1 h).2.2.2 c hc d hsh he
  rw [hf] at hf'
  cases hf'
  exact hne hh

/-- … and so does an import edge whose target is not among the inputs -/
theorem missing_edge_rejected (cs : List Core) (c : Core) (d : Pkg) (hsh : Hash)
    (hc : c ∈ cs) (he : (d, hsh) ∈ c.deps) (hf : findCore cs d = none) :
    linkCores cs ≠ .ok () := by
  intro h
  obtain ⟨cd', hf', _⟩ := ((linkCores_ok_iff cs).1 h).2.2.2 c hc d hsh he
  rw [hf] at hf'
  cases hf'

/-! ## P3 — altered artefacts are rejected -/

/-- a genuine core with any single *validated* field changed fails `validate`
    (everything except the Core IR body itself) -/
theorem corrupt_core_rejected (hinj : Function.Injective H) (c : Core) (k : Corruption)
    (hval : validate H c = true) (hch : changesCore c k = true) (hnb : k.field ≠ .coreBody) :
    validate H (corruptCore c k) = false := by
  have hv := (validate_iff c).1 hval
  cases hvc : validate H (corruptCore c k) with
  | false => rfl
  | true =>
    exfalso
    have hv' := (validate_iff _).1 hvc
    cases hf : k.field <;> simp only [hf, corruptCore, corruptIface, changesCore, changesIface,
      bne_iff_ne, ne_eq] at hv' hch
    case version =>
      exact hch (congrArg View.version (hinj (hv'.2.2.2.1.symm.trans hv.2.2.2.1)))
    case abi =>
      exact hch (congrArg View.abi (hinj (hv'.2.2.2.1.symm.trans hv.2.2.2.1)))
    case pkg =>
      exact hch (congrArg View.pkg (hinj (hv'.2.2.2.1.symm.trans hv.2.2.2.1)))
    case content =>
      exact hch (congrArg View.content (hinj (hv'.2.2.2.1.symm.trans hv.2.2.2.1)))
    case deps =>
      exact hch (congrArg View.deps (hinj (hv'.2.2.2.1.symm.trans hv.2.2.2.1)))
    case hash => exact hch (hv'.2.2.2.1.trans hv.2.2.2.1.symm)
    case coreVersion => exact hch (hv'.1.trans hv.1.symm)
    case coreAbi => exact hch (hv'.2.1.trans hv.2.1.symm)
    case corePkg => exact hch (hv'.2.2.1.trans hv.2.2.1.symm)
    case coreDeps => exact hch (hv'.2.2.2.2.trans hv.2.2.2.2.symm)
    case coreBody => exact hnb hf

/-- a genuine interface file with any single field changed is refused by `load_interface_from_paths` -/
theorem corrupt_iface_rejected (hinj : Function.Injective H) (s : St) (d : Pkg) (i : Iface)
    (k : Corruption) (hgen : i.hash = H i.view) (hch : changesIface i k = true)
    (hfile : s.ifaceFile d = some (corruptIface i k)) :
    ∃ e, loadIface H s d = .error e := by
  cases hl : loadIface H s d with
  | error e => exact ⟨e, rfl⟩
  | ok u =>
    exfalso
    obtain ⟨hf, _, hh, _, _⟩ := loadIface_ok hl
    rw [hfile] at hf
    cases hf
    cases hfld : k.field <;> simp only [hfld, corruptIface, changesIface, bne_iff_ne, ne_eq] at hh hch
    case version => exact hch (congrArg View.version (hinj (hh.symm.trans hgen)))
    case abi => exact hch (congrArg View.abi (hinj (hh.symm.trans hgen)))
    case pkg => exact hch (congrArg View.pkg (hinj (hh.symm.trans hgen)))
    case content => exact hch (congrArg View.content (hinj (hh.symm.trans hgen)))
    case deps => exact hch (congrArg View.deps (hinj (hh.symm.trans hgen)))
    case hash => exact hch (hh.trans hgen.symm)
    all_goals simp at hch

/-- cores written by another format version or ABI are rejected -/
theorem other_version_core_rejected (c : Core) (h : c.version ≠ FORMAT_VERSION ∨ c.abi ≠ COMPILER_ABI) :
    validate H c = false := by
  cases hv : validate H c with
  | false => rfl
  | true =>
    have := (validate_iff c).1 hv
    rcases h with h | h
    · exact absurd this.1 h
    · exact absurd this.2.1 h

/-- an interface file of another format version / ABI is refused even when its own hash is
    consistent with its contents (before the `fix:` commit `load_interface_from_paths` accepted it:
    the hash is recomputed over the foreign version and matches). -/
theorem other_version_iface_rejected (s : St) (d : Pkg) (i : Iface)
    (h : i.view.version ≠ FORMAT_VERSION ∨ i.view.abi ≠ COMPILER_ABI)
    (hfile : s.ifaceFile d = some i) :
    ∃ e, loadIface H s d = .error e := by
  cases hl : loadIface H s d with
  | error e => exact ⟨e, rfl⟩
  | ok u =>
    exfalso
    obtain ⟨hf, _, _, hv, ha⟩ := loadIface_ok hl
    rw [hfile] at hf; cases hf
    rcases h with h | h
    · exact h hv
    · exact h ha

/-! ## what is *not* covered by validation: the Core IR body (known finding) -/

/-- changing only the Core IR of a stored `.core` file is not detected by `validate`:
    `CoreUnit` carries no digest of `core_ir`. -/
theorem corrupt_core_body_accepted (c : Core) (n : Nat) (hval : validate H c = true) :
    validate H (corruptCore c { field := .coreBody, nat := n }) = true := by
  simpa [corruptCore, validate] using hval

/-! ## non-vacuity: a three-package history with one successful and one failing link -/

section Demo
/-- an injective hash for the demonstration: the view itself, Gödel-numbered by `toString ∘ repr` is
    overkill; a lookup table over the views that occur suffices for `decide`-free evaluation -/
def demoImports : Pkg → List Pkg
  | "Main" => ["Lib"]
  | "Lib" => ["Base"]
  | _ => []

def demoH (v : View) : Hash :=
  -- injective on the finitely many views of the demo (distinct (pkg, content, deps) give distinct numbers)
  v.version + 2 * v.abi + 10 * v.content + 1000 * v.pkg.length + 100000 * (v.deps.foldl (fun a d => a * 7 + d.2 + 1) 0)

def demoOps1 : List Op := [.build "Base", .build "Lib", .build "Main"]
def demoOps2 : List Op := demoOps1 ++ [.editIface "Base" 1, .build "Base"]

example : (link demoH (run demoH (init demoImports) demoOps1) ["Main", "Lib", "Base"]).isOk = true := by
  decide
example : (link demoH (run demoH (init demoImports) demoOps2) ["Main", "Lib", "Base"]).isOk = false := by
  decide

/-- a shared dependency with one fresh and one stale importer, under two namings: the shared package
    sorts before / after its stale importer. Both are refused (`stale_edge_rejected` applies to the edge
    of the second importer, which a walk that compares a package only on its first visit never looks at) -/
def diamondImports (shared mid : Pkg) : Pkg → List Pkg := fun p =>
  if p = "Main" then [shared, mid] else if p = mid then [shared] else []

def diamondOps (shared mid : Pkg) : List Op :=
  [.build shared, .build mid, .build "Main", .editIface shared 1, .build shared, .build "Main"]

example : (link demoH (run demoH (init (diamondImports "Base" "Mid")) (diamondOps "Base" "Mid"))
    ["Main", "Mid", "Base"]).isOk = false := by decide
example : (link demoH (run demoH (init (diamondImports "Zeta" "Al")) (diamondOps "Zeta" "Al"))
    ["Main", "Al", "Zeta"]).isOk = false := by decide
example : (link demoH (run demoH (init (diamondImports "Base" "Mid")) (diamondOps "Base" "Mid" ++ [.build "Mid", .build "Main"]))
    ["Main", "Mid", "Base"]).isOk = true := by decide
end Demo

end Goml.Link
