import GomlVerif.Lemmas.Coherence
import GomlVerif.Props.C13
/-!
# C16 — packages are isolated by imports; trait implementations are coherent

Statements about `Model/Visibility.lean` (decision logic of name resolution, orphan rule, duplicate
checks, merge) and `Model/Graph.lean` (discovery, dependency order).  `topo_ok_iff_acyclic` and
`topo_order_correct` restate `Lemmas/Topo.lean` (shared with C04) so that they are audited here.
-/
namespace Goml.Vis
open Goml.Graph

/-! ## isolation: what a file can name -/

/-- `package_allowed` is exactly: own package, `Builtin`, or an import of the file -/
theorem package_allowed_iff (p cur : Pkg) (imps : List Pkg) :
    packageAllowed p cur imps = true ↔ p = cur ∨ p = builtinName ∨ p ∈ imps :=
  packageAllowed_iff p cur imps

/-- every import of the file is an import of the package, whose interface has been loaded -/
def Ctx.WF (c : Ctx) : Prop := ∀ p ∈ c.imports, (c.deps.lookup p).isSome

/-- the item exists where the compiler would look for it: among the own definitions for the
    current package and `Builtin`, in the package's interface otherwise -/
def ItemExists (c : Ctx) (p : Pkg) (full : String) : Prop :=
  if p = c.current ∨ p = builtinName then full ∈ c.defNames
  else ∀ ex, c.deps.lookup p = some ex → full ∈ ex

/-- **`P::x` resolves from a file of `Q` iff `P = Q ∨ P = Builtin ∨ P ∈ imports`**, given that the
    item exists -/
theorem visible_iff (c : Ctx) (hwf : c.WF) (p : Pkg) (full : String) (hex : ItemExists c p full) :
    (resolveQualified c p full).res = .defn ↔ p = c.current ∨ p = builtinName ∨ p ∈ c.imports := by
  unfold resolveQualified ItemExists at *
  by_cases h1 : p = c.current ∨ p = builtinName
  · have h1' : (p == c.current || p == builtinName) = true := by simpa using h1
    rw [if_pos h1] at hex
    simp only [h1', if_true]
    have : c.defNames.contains full = true := by simpa using hex
    simp only [this, if_true, true_iff]
    rcases h1 with h | h
    · exact Or.inl h
    · exact Or.inr (Or.inl h)
  · have h1' : (p == c.current || p == builtinName) = false := by simpa using h1
    rw [if_neg h1] at hex
    simp only [h1', Bool.false_eq_true, if_false]
    by_cases h2 : p ∈ c.imports
    · have h2' : c.imports.contains p = true := by simpa using h2
      simp only [h2', if_true]
      have := hwf p h2
      cases hl : c.deps.lookup p with
      | none => simp [hl] at this
      | some ex =>
        have : ex.contains full = true := by simpa using hex ex hl
        simp only [this, if_true, true_iff]
        exact Or.inr (Or.inr h2)
    · have h2' : c.imports.contains p = false := by simpa using h2
      simp only [h2', Bool.false_eq_true, if_false]
      constructor
      · intro h; cases h
      · intro h
        rcases h with h | h | h
        · exact absurd (Or.inl h) h1
        · exact absurd (Or.inr h) h1
        · exact absurd h h2

/-- a package that is neither the current one, nor `Builtin`, nor imported by the file never
    resolves — whether or not it exists, is loaded, or is imported by someone else -/
theorem invisible_unresolved (c : Ctx) (p : Pkg) (full : String)
    (h : ¬(p = c.current ∨ p = builtinName ∨ p ∈ c.imports)) :
    (resolveQualified c p full).res = .unresolved := by
  simp only [not_or] at h
  simp [resolveQualified, h.1, h.2.1, h.2.2]

/-- … and when another file of the package imports it, the diagnostic says so -/
theorem not_imported_reported (c : Ctx) (p : Pkg) (full : String)
    (h1 : p ≠ c.current) (h2 : p ≠ builtinName) (h3 : p ∉ c.imports) (h4 : (c.deps.lookup p).isSome) :
    (resolveQualified c p full).notImported = true := by
  simp [resolveQualified, h1, h2, h3, h4]

/-- a value path — of any length — is error-free only if its root is the package itself or an
    import of the file -/
theorem path_accepted_visible {q : PkgSrc} {fi : List Pkg} {p : Pkg} (h : pathCls q fi p = []) :
    p = q.name ∨ p ∈ fi := by
  unfold pathCls at h
  by_cases ho : p = q.name
  · exact Or.inl ho
  · have ho' : (p == q.name) = false := by simpa using ho
    simp only [ho', Bool.false_eq_true, if_false] at h
    by_cases hc : p ∈ fi
    · exact Or.inr hc
    · simp [hc] at h

/-- **no reference form is accepted unless every package it names is visible from its file**:
    `P::f`, `P::SP`, `P::SP { }`, `P::EP::K`, `T: P::TP`, `dyn P::TP`, and the three-segment paths
    `P::SP::mk`, `P::SP::get`, `P::TP::m` name `P`; `sself` and `flow` name the package whose
    function hands out the value (`flow` names nothing else: it only uses a value of a type of `P`) -/
theorem use_accepted_visible (q : PkgSrc) (u : Use) (h : useClasses q u = []) :
    ∀ n ∈ u.named, n = q.name ∨ n = builtinName ∨ n ∈ fileImports q u.file := by
  have viaAllowed : ∀ p, packageAllowed p q.name (fileImports q u.file) = true →
      p = q.name ∨ p = builtinName ∨ p ∈ fileImports q u.file :=
    fun p => (package_allowed_iff _ _ _).1
  have ofPath : ∀ p, pathCls q (fileImports q u.file) p = [] →
      p = q.name ∨ p = builtinName ∨ p ∈ fileImports q u.file := by
    intro p hp
    rcases path_accepted_visible hp with e | e
    · exact Or.inl e
    · exact Or.inr (Or.inr e)
  have single : (u.target = q.name ∨ u.target = builtinName ∨ u.target ∈ fileImports q u.file) →
      u.named = [u.target] → ∀ n ∈ u.named, n = q.name ∨ n = builtinName ∨ n ∈ fileImports q u.file := by
    intro ht hn n hm
    rw [hn] at hm
    have : n = u.target := by simpa using hm
    exact this ▸ ht
  unfold useClasses at h
  cases hf : u.form <;> simp only [hf] at h
  case smeth => exact single (ofPath _ (List.append_eq_nil_iff.1 h).2) (by simp [Use.named, hf])
  case tmeth => exact single (ofPath _ (List.append_eq_nil_iff.1 h).2) (by simp [Use.named, hf])
  case sself =>
    have h' := List.append_eq_nil_iff.1 h
    intro n hm
    have : n = u.via ∨ n = u.target := by simpa [Use.named, hf] using hm
    rcases this with e | e
    · exact e ▸ ofPath _ (List.append_eq_nil_iff.1 h'.1).1
    · exact e ▸ ofPath _ h'.2
  case flow =>
    have h' := List.append_eq_nil_iff.1 h
    intro n hm
    have : n = u.via := by simpa [Use.named, hf] using hm
    exact this ▸ ofPath _ h'.1
  all_goals
    refine single ?_ (by simp [Use.named, hf])
    by_cases hown : u.target = q.name
    · exact Or.inl hown
    · have hown' : (u.target == q.name) = false := by simpa using hown
      try simp only [hown', Bool.false_eq_true, if_false, Bool.false_or] at h
      first
        | exact ofPath _ h
        | (by_cases ha : packageAllowed u.target q.name (fileImports q u.file) = true
           · exact viaAllowed _ ha
           · simp [ha] at h)

/-- **an error-free package names only visible packages in its impls and obeys the orphan rule**:
    every package named by an impl (its trait, the head and the argument of its target type) is
    visible from the file; a trait impl has its trait or the outermost nominal type of its target
    in the package itself — `Vec[…]`, `Ref[…]`, tuples, arrays, function types, `dyn` and primitives
    are nobody's — and an inherent impl is for a type of the package itself -/
theorem accepted_package_isolated (q : PkgSrc) (h : (localCheck q).cls = []) :
    (∀ u ∈ q.uses, ∀ n ∈ u.named, n = q.name ∨ n = builtinName ∨ n ∈ fileImports q u.file) ∧
    (∀ d ∈ q.impls,
      (∀ n ∈ d.tyNames, n = q.name ∨ n = builtinName ∨ n ∈ fileImports q d.file) ∧
      (d.inherent = true → (d.shape = .nom ∨ d.shape = .gen) ∧ d.head = q.name) ∧
      (d.inherent = false →
        (d.tr = q.name ∨ d.tr = builtinName ∨ d.tr ∈ fileImports q d.file) ∧
        (d.tr = q.name ∨ ((d.shape = .nom ∨ d.shape = .gen) ∧ d.head = q.name)))) := by
  obtain ⟨hu, hd, _, _⟩ := localCheck_nil h
  refine ⟨fun u hu' => use_accepted_visible q u (hu u hu'), ?_⟩
  intro d hd'
  have local_iff : d.typeLocalTo q.name = true → (d.shape = .nom ∨ d.shape = .gen) ∧ d.head = q.name := by
    intro hl
    simpa [ImplD.typeLocalTo] using hl
  obtain ⟨hi, ht⟩ := hd d hd'
  cases hinh : d.inherent with
  | true =>
    obtain ⟨vis, loc⟩ := hi hinh
    exact ⟨fun n hn => (package_allowed_iff _ _ _).1 (vis n hn), fun _ => local_iff loc, fun hf => absurd hf (by decide)⟩
  | false =>
    obtain ⟨r1, vis, r3⟩ := ht hinh
    refine ⟨fun n hn => (package_allowed_iff _ _ _).1 (vis n hn), fun hf => absurd hf (by decide), fun _ => ?_⟩
    refine ⟨(package_allowed_iff _ _ _).1 r1, ?_⟩
    rcases r3 with r | r
    · exact Or.inl r
    · exact Or.inr (local_iff r)

/-! ## the package graph -/

/-- **`topo_sort_packages` succeeds exactly on acyclic graphs whose imports are all present** -/
theorem topo_ok_iff_acyclic (g : Graph) : (∃ o, topoSort g = .ok o) ↔ Acyclic g ∧ ImportsPresent g :=
  topoSort_ok_iff g

/-- … and then the order lists every package exactly once, each after all its imports -/
theorem topo_order_correct {g : Graph} {o : List Pkg} (hn : g.names.Nodup) (h : topoSort g = .ok o) :
    o.Perm g.names ∧ ∀ pre n post, o = pre ++ n :: post → ∀ d ∈ g.imports n, d ∈ pre :=
  ⟨topoSort_perm hn h, (topoSort_isTopoOrder h).2.2⟩

/-- an error of `topo_sort_packages` tells the truth: the cycle it prints is a closed walk of
    import edges, the missing package is imported and absent -/
theorem topo_error_truthful {g : Graph} {e : Err} (h : topoSort g = .error e) :
    (∃ m mid, e = .cycle (m :: mid ++ [m]) ∧ Linked (Edge g) (m :: mid ++ [m])) ∨
    (∃ p d, e = .missing p d ∧ Edge g p d ∧ d ∉ g.names) :=
  topoSort_err_truth h

/-- **missing packages, mismatched declarations and import cycles are always reported**: if the
    front end gets as far as type checking, then every package reachable from `Main` through
    imports has a directory whose files declare that very package, and the import graph of the
    discovered packages has no cycle and no dangling import -/
theorem cycle_missing_reported {w : World} {iter : Pkg → List Pkg} {keys : List Pkg → List Pkg}
    {cls : List Cls} (hi : IterOk w.disk iter) (h : check w iter keys = .ok cls) :
    (∀ p, Reach w.disk p → ∃ imps, w.disk.load p = .unit p imps) ∧
    ∃ order, discover w.disk iter = .ok order ∧
      Acyclic ⟨keys order, iter⟩ ∧ ImportsPresent ⟨keys order, iter⟩ := by
  unfold check plan at h
  cases hd : discover w.disk iter with
  | error e => simp [hd] at h
  | ok order =>
    simp only [hd] at h
    cases ht : topoSort ⟨keys order, iter⟩ with
    | error e => simp [ht] at h
    | ok topo =>
      have inv := discover_inv hi hd
      refine ⟨?_, order, rfl, (topo_ok_iff_acyclic _).1 ⟨topo, ht⟩⟩
      intro p hp
      -- reachable packages are in `order` (closedness), and everything in `order` loaded
      have hmem : p ∈ order := by
        induction hp with
        | root => exact inv.root
        | step _ e ih =>
          obtain ⟨imps', hl', hb⟩ := e
          rename_i a b _
          have hb' : b ∈ iter a := by
            have := ((hi a).2 b).2
            rw [importsOf_unit hl'] at this
            exact this hb
          rcases inv.closed a ih b hb' with h1 | h1
          · exact h1
          · simp at h1
      exact inv.loads p hmem

/-! ## coherence -/

/-- all trait-impl declarations of the packages in `order`, the standard one included -/
def decls (w : World) (order : List Pkg) : List Key :=
  order.flatMap fun p => stdKey (w.src p).name :: (traitImpls (w.src p).impls).map ImplD.key

/-- **accepted ⇒ at most one implementation for every (trait, type)** among the type-checked
    packages -/
theorem coherent (w : World) (order : List Pkg) (h : checkOrder w order = []) :
    ∀ k, (decls w order).count k ≤ 1 := by
  obtain ⟨hloc, hpair⟩ := (checkOrder_nil_iff w order).1 h
  have hn : ((order.map fun p => (localCheck (w.src p)).reg).flatten).Nodup := by
    apply flatten_nodup_of_pairwise _ _ hpair
    intro r hr
    obtain ⟨p, hp, rfl⟩ := List.mem_map.1 hr
    exact (localCheck_nil (hloc p hp)).2.2.2
  have he : decls w order = (order.map fun p => (localCheck (w.src p)).reg).flatten := by
    unfold decls
    rw [List.flatMap_def]
    congr 1
    apply List.map_congr_left
    intro p hp
    exact ((localCheck_nil (hloc p hp)).2.2.1).symm
  rw [he]
  exact fun k => List.nodup_iff_count_le_one.1 hn k

/-- **acceptance does not depend on the order in which the packages are type-checked and merged**
    (any permutation, in particular any topological order) -/
theorem order_independent (w : World) (o₁ o₂ : List Pkg) (hp : o₁.Perm o₂) :
    checkOrder w o₁ = [] ↔ checkOrder w o₂ = [] := by
  rw [checkOrder_nil_iff, checkOrder_nil_iff]
  have h1 : (∀ p ∈ o₁, (localCheck (w.src p)).cls = []) ↔ (∀ p ∈ o₂, (localCheck (w.src p)).cls = []) :=
    ⟨fun h p hp' => h p (hp.mem_iff.2 hp'), fun h p hp' => h p (hp.mem_iff.1 hp')⟩
  have h2 := (hp.map fun p => (localCheck (w.src p)).reg).pairwise_iff (R := Disj) (fun h => h.symm)
  rw [h1, h2]

/-- **nor on how any set is enumerated** (after the C13 fix): the whole verdict — graph error or
    classes of diagnostics — is the same for every pair of enumerations -/
theorem enum_independent (w : World) (e₁ e₂ : Pkg → List Pkg) (k₁ k₂ : List Pkg → List Pkg)
    (he : ∀ p, SameSet (e₁ p) (e₂ p)) (hk : ∀ l, SameSet (k₁ l) (k₂ l)) :
    check w (btreeIter e₁) k₁ = check w (btreeIter e₂) k₂ := by
  unfold check
  rw [plan_enum_invariant w.disk e₁ e₂ k₁ k₂ he hk]

/-- **the cross-package duplicate check is implied by the orphan rule, visibility and acyclicity**:
    two different error-free packages of an acyclic graph never register the same (trait, type) -/
theorem merge_check_redundant (g : Graph) (hac : Acyclic g) (w : World) (q₁ q₂ : Pkg)
    (h₁ : q₁ ∈ g.names) (h₂ : q₂ ∈ g.names) (hne : q₁ ≠ q₂) (hb : builtinName ∉ g.names)
    (hn₁ : (w.src q₁).name = q₁) (hn₂ : (w.src q₂).name = q₂)
    (hi₁ : ∀ x, x ∈ (w.src q₁).imports → x ∈ g.imports q₁)
    (hi₂ : ∀ x, x ∈ (w.src q₂).imports → x ∈ g.imports q₂)
    (hc₁ : (localCheck (w.src q₁)).cls = []) (hc₂ : (localCheck (w.src q₂)).cls = []) :
    Disj (localCheck (w.src q₁)).reg (localCheck (w.src q₂)).reg := by
  obtain ⟨_, r₁, e₁, _⟩ := localCheck_nil hc₁
  obtain ⟨_, r₂, e₂, _⟩ := localCheck_nil hc₂
  -- a visible package other than the current one is an import, hence an edge
  have edge : ∀ (q p : Pkg) (file : Nat), q ∈ g.names → (w.src q).name = q →
      (∀ x, x ∈ (w.src q).imports → x ∈ g.imports q) → p ∈ g.names → p ≠ q →
      packageAllowed p (w.src q).name (fileImports (w.src q) file) = true → Edge g q p := by
    intro q p file hq hn hi hp hpq ha
    rcases (package_allowed_iff _ _ _).1 ha with h | h | h
    · exact absurd (h.trans hn) hpq
    · exact absurd (h ▸ hp) hb
    · exact ⟨hq, hi p (fileImports_sub _ _ p h)⟩
  -- a type that is local to `q` is a struct or generic application whose head is `q`
  have headOf : ∀ (d : ImplD) (q : Pkg), d.typeLocalTo q = true → d.head = q ∧ (d.shape = .nom ∨ d.shape = .gen) := by
    intro d q hl
    have : (d.shape = .nom ∨ d.shape = .gen) ∧ d.head = q := by simpa [ImplD.typeLocalTo] using hl
    exact ⟨this.2, this.1⟩
  have headMem : ∀ (d : ImplD), (d.shape = .nom ∨ d.shape = .gen) → d.head ∈ d.tyNames := by
    intro d hs
    rcases hs with hs | hs <;> simp [ImplD.tyNames, hs, Shape.hasHead]
  intro k hk₂ hk₁
  rw [e₁, hn₁] at hk₁
  rw [e₂, hn₂] at hk₂
  -- a registered key is the standard one or comes from a registrable trait impl
  have shape : ∀ (q : Pkg) (k : Key), (w.src q).name = q →
      (∀ d ∈ (w.src q).impls, (d.inherent = true → InherentOk (w.src q) d) ∧ (d.inherent = false → Registrable (w.src q) d)) →
      k ∈ stdKey q :: (traitImpls (w.src q).impls).map ImplD.key →
      (k.tr = q ∧ k.head = q ∧ (k.shape = .nom)) ∨
      ∃ d ∈ (w.src q).impls, d.key = k ∧ Registrable (w.src q) d := by
    intro q k _ hr hk
    rcases List.mem_cons.1 hk with rfl | hk
    · exact Or.inl ⟨rfl, rfl, rfl⟩
    · obtain ⟨d, hd, rfl⟩ := List.mem_map.1 hk
      have hd' := List.mem_filter.1 hd
      have hinh : d.inherent = false := by simpa using hd'.2
      exact Or.inr ⟨d, hd'.1, rfl, (hr d hd'.1).2 hinh⟩
  -- the local-type alternative for a key whose shape and head are known
  have localOfKey : ∀ (d : ImplD) (q : Pkg), d.typeLocalTo q = true → d.key.head = q := by
    intro d q hl; exact (headOf d q hl).1
  rcases shape q₁ k hn₁ r₁ hk₁ with ⟨t1, s1, sh1⟩ | ⟨d₁, _, k1, a1, b1, c1⟩
  · rcases shape q₂ k hn₂ r₂ hk₂ with ⟨t2, _, _⟩ | ⟨d₂, _, k2, _, _, c2⟩
    · exact hne (t1.symm.trans t2)
    · have ht : d₂.tr = k.tr := by rw [← k2]; rfl
      rw [hn₂] at c2
      rcases c2 with c | c
      · exact hne ((t1.symm.trans ht.symm).trans c)
      · have : k.head = q₂ := by rw [← k2]; exact localOfKey d₂ q₂ c
        exact hne (s1.symm.trans this)
  · have ht1 : d₁.tr = k.tr := by rw [← k1]; rfl
    rw [hn₁] at c1
    rcases shape q₂ k hn₂ r₂ hk₂ with ⟨t2, s2, _⟩ | ⟨d₂, _, k2, a2, b2, c2⟩
    · rcases c1 with c | c
      · exact hne ((c.symm.trans ht1).trans t2)
      · have : k.head = q₁ := by rw [← k1]; exact localOfKey d₁ q₁ c
        exact hne (this.symm.trans s2)
    · have ht2 : d₂.tr = k.tr := by rw [← k2]; rfl
      rw [hn₂] at c2
      have hhead : d₁.head = d₂.head := by
        have e1 : d₁.key.head = k.head := by rw [k1]
        have e2 : d₂.key.head = k.head := by rw [k2]
        exact e1.trans e2.symm
      have hshape : d₁.shape = d₂.shape := by
        have e1 : d₁.key.shape = k.shape := by rw [k1]
        have e2 : d₂.key.shape = k.shape := by rw [k2]
        exact e1.trans e2.symm
      rcases c1 with c1 | c1
      · -- the trait belongs to q₁
        rcases c2 with c2 | c2
        · exact hne ((c1.symm.trans ht1).trans (ht2.symm.trans c2))
        · -- the type belongs to q₂: q₁ names q₂ (type head), q₂ names q₁ (trait)
          obtain ⟨hh2, hs2⟩ := headOf d₂ q₂ c2
          have hm1 : d₁.head ∈ d₁.tyNames := headMem d₁ (hshape ▸ hs2)
          have e12 : Edge g q₁ q₂ := by
            have : d₁.head = q₂ := hhead.trans hh2
            exact edge q₁ q₂ d₁.file h₁ hn₁ hi₁ h₂ hne.symm (this ▸ b1 d₁.head hm1)
          have e21 : Edge g q₂ q₁ := by
            have : d₂.tr = q₁ := (ht2.trans ht1.symm).trans c1
            exact edge q₂ q₁ d₂.file h₂ hn₂ hi₂ h₁ hne (this ▸ a2)
          exact hac q₁ (.step e12 (.one e21))
      · -- the type belongs to q₁
        obtain ⟨hh1, hs1⟩ := headOf d₁ q₁ c1
        rcases c2 with c2 | c2
        · have hm2 : d₂.head ∈ d₂.tyNames := headMem d₂ (hshape ▸ hs1)
          have e21 : Edge g q₂ q₁ := by
            have : d₂.head = q₁ := hhead.symm.trans hh1
            exact edge q₂ q₁ d₂.file h₂ hn₂ hi₂ h₁ hne (this ▸ b2 d₂.head hm2)
          have e12 : Edge g q₁ q₂ := by
            have : d₁.tr = q₂ := (ht1.trans ht2.symm).trans c2
            exact edge q₁ q₂ d₁.file h₁ hn₁ hi₁ h₂ hne.symm (this ▸ a1)
          exact hac q₁ (.step e12 (.one e21))
        · obtain ⟨hh2, _⟩ := headOf d₂ q₂ c2
          exact hne ((hh1.symm.trans hhead).trans hh2)

/-! ## ownership is decided by package identity -/

/-- the regenerated anchor of `is_local_name` / `is_local_nominal_type` (typer/toplevel.rs): a
    qualified name is local iff its package segment equals the current package; unqualified names
    are local to `Main` and `Builtin` only -/
theorem local_name_anchor :
    localByPackageSegmentEquality = true ∧ unqualifiedLocalTo = [mainName, builtinName] := by decide

/-- a target type is local to `q` iff it is a struct / generic application whose head package **is** `q` -/
theorem typeLocalTo_iff (d : ImplD) (q : Pkg) :
    d.typeLocalTo q = true ↔ (d.shape = .nom ∨ d.shape = .gen) ∧ d.head = q := by
  simp [ImplD.typeLocalTo]

/-- **a package whose name is a proper prefix of (or otherwise merely resembles) the owner's name
    owns nothing of it**: for any other package — `Net` vs `NetTypes`, `Main` vs `MainLib`, `Lib` vs
    `lib` — the type is not local -/
theorem typeLocalTo_other_package (d : ImplD) (q : Pkg) (h : q ≠ d.head) : d.typeLocalTo q = false := by
  cases hl : d.typeLocalTo q with
  | false => rfl
  | true => exact absurd ((typeLocalTo_iff d q).1 hl).2.symm h

example : ("Net".toList.isPrefixOf "NetTypes".toList = true) ∧
    (⟨0, false, "Fmt", .nom, "NetTypes", "", "S"⟩ : ImplD).typeLocalTo "Net" = false ∧
    (⟨0, true, "", .gen, "MainLib", "int32", "S"⟩ : ImplD).typeLocalTo "Main" = false ∧
    (⟨0, false, "Fmt", .nom, "lib", "", "S"⟩ : ImplD).typeLocalTo "Lib" = false := by decide

/-- `Net` imports `Fmt` and `NetTypes` and implements `Fmt`'s trait for `NetTypes`'s struct, `Fm`
    implements `Fmt`'s trait for `int32`, `Net` writes an inherent impl for `NetTypes`'s struct: two
    orphans and a non-local inherent impl, whatever the names look like -/
def prefixWorld : World :=
  { disk := [("Main", .unit "Main" ["Net", "Fm"]), ("Net", .unit "Net" ["Fmt", "NetTypes"]), ("Fm", .unit "Fm" ["Fmt"]),
             ("Fmt", .unit "Fmt" []), ("NetTypes", .unit "NetTypes" [])]
    srcs := [
      { name := "Main", imports := ["Net", "Fm"], uses := [], impls := [] },
      { name := "Net", imports := ["Fmt", "NetTypes"], uses := [],
        impls := [⟨0, false, "Fmt", .nom, "NetTypes", "", "S"⟩, ⟨0, true, "", .nom, "NetTypes", "", "S"⟩] },
      { name := "Fm", imports := ["Fmt"], uses := [], impls := [⟨0, false, "Fmt", .prim, "", "", "S"⟩] },
      { name := "Fmt", imports := [], uses := [], impls := [] },
      { name := "NetTypes", imports := [], uses := [], impls := [] }] }

example : check prefixWorld (btreeIter prefixWorld.disk.importsOf) id =
    .ok [.orphan, .orphan, .inherentNonLocal] := by decide

/-- a package named like a trait of the importing package takes over the two-segment path: in `Aa`,
    which imports the package `TAa`, the own trait's method `TAa::m(true)` is looked up in that package
    and not found (a rejection, observed on the real compiler; qualified or not imported it resolves) -/
example :
    useClasses { name := "Aa", imports := ["TAa"], uses := [], impls := [] } ⟨0, .tmeth, "Aa", false, ""⟩ = [.unresolved] ∧
    useClasses { name := "Aa", imports := ["Bb"], uses := [], impls := [] } ⟨0, .tmeth, "Aa", false, ""⟩ = [] := by decide

/-! ## non-vacuity -/

/-- `Aa` owns a trait, `Bb` a type and the impl (allowed: the type is local), `Main` uses both -/
def okWorld : World :=
  { disk := [("Main", .unit "Main" ["Aa", "Bb"]), ("Aa", .unit "Aa" []), ("Bb", .unit "Bb" ["Aa"])]
    srcs := [
      { name := "Main", imports := ["Aa", "Bb"],
        uses := [⟨0, .fn, "Aa", false, ""⟩, ⟨0, .ty, "Bb", false, ""⟩, ⟨0, .ctor, "Bb", false, ""⟩,
                 ⟨0, .smeth, "Bb", false, ""⟩, ⟨0, .sself, "Aa", false, "Bb"⟩, ⟨0, .tmeth, "Aa", false, ""⟩,
                 ⟨0, .flow, "Aa", false, "Bb"⟩],
        impls := [⟨0, false, "Main", .nom, "Bb", "", "R"⟩, ⟨0, false, "Main", .vec, "", "Bb", "S"⟩,
                  ⟨0, true, "", .gen, "Main", "Aa", "S"⟩, ⟨0, false, "Aa", .gen, "Main", "Bb", "S"⟩] },
      { name := "Aa", imports := [], uses := [⟨0, .fn, "Aa", true, ""⟩], impls := [⟨0, false, "Aa", .prim, "", "", "S"⟩, ⟨0, false, "Aa", .dynT, "Aa", "", "S"⟩] },
      { name := "Bb", imports := ["Aa"], uses := [⟨0, .bound, "Aa", false, ""⟩], impls := [⟨0, false, "Aa", .nom, "Bb", "", "S"⟩, ⟨0, false, "Bb", .ref, "", "Aa", "S"⟩] }] }

example : check okWorld (btreeIter okWorld.disk.importsOf) id = .ok [] := by decide

/-- the same program with references to a package that is only transitively imported (`Aa::f`,
    `x: Aa::SAa`, and the three-segment paths `Aa::SAa::mk`, `Aa::SAa::get`, `Aa::TAa::m`, plus the
    field access on a value of `Aa::SAa` obtained from `Bb`), an orphan
    impl, a duplicate impl, orphan impls of a foreign trait for `Vec[int32]` and `Ref[Bb::SBb]` in the
    root package, and inherent impls for `Vec[int32]` and for a foreign generic type -/
def badWorld : World :=
  { srcs := [
      { name := "Main", imports := ["Bb"],
        uses := [⟨0, .fn, "Aa", false, ""⟩, ⟨0, .ty, "Aa", false, ""⟩,
                 ⟨0, .smeth, "Aa", false, ""⟩, ⟨0, .sself, "Aa", false, "Bb"⟩, ⟨0, .tmeth, "Aa", false, ""⟩,
                 ⟨0, .flow, "Aa", false, "Bb"⟩],
        impls := [⟨0, false, "Bb", .nom, "Bb", "", "S"⟩, ⟨0, false, "Main", .nom, "Main", "", "S"⟩,
                  ⟨0, false, "Bb", .vec, "", "int32", "S"⟩, ⟨0, false, "Bb", .ref, "", "Bb", "S"⟩,
                  ⟨0, true, "", .vec, "", "int32", "S"⟩, ⟨0, true, "", .gen, "Bb", "Main", "S"⟩] },
      { name := "Aa", imports := [], uses := [], impls := [] },
      { name := "Bb", imports := ["Aa"], uses := [], impls := [] }],
    disk := [("Main", .unit "Main" ["Bb"]), ("Aa", .unit "Aa" []), ("Bb", .unit "Bb" ["Aa"])] }

example : check badWorld (btreeIter badWorld.disk.importsOf) id =
    .ok [.unresolved, .notImported, .unresolved, .unresolved, .unresolved, .unresolved, .unresolved,
         .orphan, .dupLocal, .orphan, .orphan, .inherentNonLocal, .inherentNonLocal] := by decide

example : check { disk := [("Main", .unit "Main" ["Aa", "Zz"]), ("Aa", .unit "Aa" [])], srcs := [] }
    (btreeIter fun p => if p = "Main" then ["Aa", "Zz"] else []) id = .error (.load "Zz" .unreadable) := by decide

/-- the hypotheses of `visible_iff` hold for an imported package, and the item resolves -/
example :
    let c : Ctx := { current := "Main", imports := ["Aa"], defNames := ["fMain"], deps := [("Aa", ["Aa::fAa"])] }
    c.WF ∧ ItemExists c "Aa" "Aa::fAa" ∧ (resolveQualified c "Aa" "Aa::fAa").res = .defn ∧
    (resolveQualified { c with imports := [] } "Aa" "Aa::fAa") = ⟨.unresolved, true⟩ := by
  refine ⟨?_, ?_, by decide, by decide⟩
  · intro p hp
    have : p = "Aa" := by simpa using hp
    subst this
    decide
  · unfold ItemExists
    rw [if_neg (by decide)]
    intro ex hex
    have : ex = ["Aa::fAa"] := by
      have h : (some ["Aa::fAa"] : Option (List String)) = some ex := by
        rw [← hex]; decide
      exact (Option.some.inj h).symm
    subst this
    simp

end Goml.Vis
