import GomlVerif.Props.C19
import GomlVerif.Gen.Dispatch
import GomlVerif.Model.MethodEnv
/-!
# C17 — all call forms of a method agree

Property theorems only, over the dispatch part of `Model/Mangle.lean`.  A trait method
`impl Tr for T { fn m }` becomes ONE Core function, named at the definition site
(`implDefName`).  The three call forms reach it through three different pieces of code, each of
which re-computes that name:

* static  `Tr::m(x, a)`, `x : T` concrete        — `coreCallTarget` (`compile_match.rs:1617-1642`)
* bounded `Tr::m(x, a)`, `x : P`, `P : Tr`, in an instance with `σ P = T` — `monoCallee` (`mono.rs:775-808`)
* dyn     `Tr::m(d, a)`, `d = x as dyn Tr`       — `dynWrapperCallee` (`go/compile.rs:895-916`),
  computed from the `EToDyn` type *after* mono's phase 2 (`collapseTy`)

`call_forms_agree` proves that all three name the function of the definition site for every
trait, method, substitution and every receiver type without generic applications;
`call_forms_static_bounded_agree` covers the first two for **all** receiver types.  For a
receiver that is an instance of a generic type (`impl Tr for Opt[int32]`) the dyn form is FALSE —
`dyn_generic_instance_mismatch` — which is the known finding of C17 (replayed by the check).
`inherent_forms_agree`, `inherent_generic_lookup`, `dyn_requires_impl`, `no_impl_no_dyn`
are the remaining clauses of the property.
-/
namespace Goml.Mangle
open Goml.Gen

/-! ## helper lemmas -/

theorem substTy_noTParam (σ : List (Name × Ty)) (t : Ty) : hasTParam t = false → substTy σ t = t := by
  apply Ty.rec
    (motive_1 := fun t => hasTParam t = false → substTy σ t = t)
    (motive_2 := fun ts => hasTParams ts = false → substTys σ ts = ts)
  · intro n _; simp [substTy]
  · intro p _; simp [substTy]
  · intro ts ih h; simp only [hasTParam] at h; simp [substTy, ih h]
  · intro n _; simp [substTy]
  · intro n _; simp [substTy]
  · intro n _; simp [substTy]
  · intro t args iht iha h
    simp only [hasTParam, Bool.or_eq_false_iff] at h
    simp [substTy, iht h.1, iha h.2]
  · intro len e ih h; simp only [hasTParam] at h; simp [substTy, ih h]
  · intro e ih h; simp only [hasTParam] at h; simp [substTy, ih h]
  · intro e ih h; simp only [hasTParam] at h; simp [substTy, ih h]
  · intro n h; simp [hasTParam] at h
  · intro ps r ihp ihr h
    simp only [hasTParam, Bool.or_eq_false_iff] at h
    simp [substTy, ihp h.1, ihr h.2]
  · intro _; simp [substTys]
  · intro t ts iht ihts h
    simp only [hasTParams, Bool.or_eq_false_iff] at h
    simp [substTys, iht h.1, ihts h.2]

theorem collapseTy_appFree (en st : Name → Bool) (t : Ty) : appFree t = true → collapseTy en st t = t := by
  apply Ty.rec
    (motive_1 := fun t => appFree t = true → collapseTy en st t = t)
    (motive_2 := fun ts => appFrees ts = true → collapseTys en st ts = ts)
  · intro n _; simp [collapseTy]
  · intro p _; simp [collapseTy]
  · intro ts ih h; simp only [appFree] at h; simp [collapseTy, ih h]
  · intro n _; simp [collapseTy]
  · intro n _; simp [collapseTy]
  · intro n _; simp [collapseTy]
  · intro t args _ _ h; simp [appFree] at h
  · intro len e ih h; simp only [appFree] at h; simp [collapseTy, ih h]
  · intro e ih h; simp only [appFree] at h; simp [collapseTy, ih h]
  · intro e ih h; simp only [appFree] at h; simp [collapseTy, ih h]
  · intro n _; simp [collapseTy]
  · intro ps r ihp ihr h
    simp only [appFree, Bool.and_eq_true] at h
    simp [collapseTy, ihp h.1, ihr h.2]
  · intro _; simp [collapseTys]
  · intro t ts iht ihts h
    simp only [appFrees, Bool.and_eq_true] at h
    simp [collapseTys, iht h.1, ihts h.2]

/-! ## trait methods -/

/-- **static and bounded-generic forms agree, for every receiver type**: if the instance's
substitution turns the receiver's (possibly parametric) type into the concrete `ty`, the callee
mono computes is the function the impl for `ty` was compiled to — which is also what a static call
on a receiver of type `ty` names. -/
theorem call_forms_static_bounded_agree (σ : List (Name × Ty)) (tr m : Name) (recvTy ty : Ty)
    (hσ : substTy σ recvTy = ty) (hty : hasTParam ty = false) :
    monoCallee σ tr recvTy m = implDefName tr ty m ∧ coreCallTarget tr ty m = .direct (implDefName tr ty m) := by
  constructor
  · unfold monoCallee coreCallTarget implDefName
    by_cases hp : hasTParam recvTy = true
    · simp [hp, hσ]
    · have hp' : hasTParam recvTy = false := by simpa using hp
      have : recvTy = ty := by rw [← hσ, substTy_noTParam σ recvTy hp']
      subst this
      simp [hty]
  · simp [coreCallTarget, hty, implDefName]

/-- the bound `T: Tr` with `σ T = ty` — the special case in the property text -/
theorem call_forms_bound_param (σ : List (Name × Ty)) (tr m T : Name) (ty : Ty)
    (hσ : lookupSubst σ T = some ty) (hty : hasTParam ty = false) :
    monoCallee σ tr (.tparam T) m = implDefName tr ty m :=
  (call_forms_static_bounded_agree σ tr m (.tparam T) ty (by simp [substTy, hσ]) hty).1

/-- a pattern containing a character `d` that does not occur before the separator `c`, and not
containing `c`, is not a prefix of `a ++ c :: b` -/
theorem not_prefix_of_sep {p a b : Name} {c d : Char} (hd : d ∈ p) (hda : d ∉ a) (hc : c ∉ p) :
    p.isPrefixOf (a ++ c :: b) = false := by
  induction a generalizing p with
  | nil =>
    cases p with
    | nil => simp at hd
    | cons x p' =>
      have hx : x ≠ c := fun h => hc (by simp [h])
      simp [List.isPrefixOf, hx]
  | cons y a' ih =>
    cases p with
    | nil => simp at hd
    | cons x p' =>
      simp only [List.cons_append, List.isPrefixOf, Bool.and_eq_false_iff]
      by_cases hx : x = y
      · right
        subst hx
        have hxa : d ≠ x := fun h => hda (by simp [h])
        rcases List.mem_cons.mp hd with h | h
        · exact absurd h hxa
        · exact ih h (fun h' => hda (List.mem_cons_of_mem _ h')) (fun h' => hc (List.mem_cons_of_mem _ h'))
      · left; simpa using hx

def colonFree (n : Name) : Bool := n.all (fun c => c != ':')

/-- the Go function an impl method is emitted as is `go_ident` of its Core name (it is never the
entry point), for method names without `:` — every identifier of the lexer -/
theorem implFn_goName (tr m : Name) (ty : Ty) (hm : colonFree m = true) :
    compileFnName (implDefName tr ty m) = goIdent (implDefName tr ty m) := by
  unfold compileFnName
  have h1 : (implDefName tr ty m == entrySrc) = false := by
    unfold implDefName traitImplFnName
    have : entrySrc = ['m', 'a', 'i', 'n'] := by decide
    rw [this]
    simp
  have h2 : endsWith (implDefName tr ty m) ([':', ':'] ++ entrySrc) = false := by
    unfold endsWith implDefName traitImplFnName
    have : ([':', ':'] ++ entrySrc).reverse = ['n', 'i', 'a', 'm', ':', ':'] := by decide
    rw [this]
    simp only [List.reverse_append, List.reverse_cons, List.nil_append, List.append_assoc,
      List.cons_append]
    apply not_prefix_of_sep (d := ':') (by simp)
    · simp only [colonFree, List.all_eq_true, bne_iff_ne, ne_eq] at hm
      intro h
      exact hm ':' (by simpa using h) rfl
    · decide
  have h2' : endsWith (implDefName tr ty m) (':' :: ':' :: entrySrc) = false := h2
  simp [h1, h2']

/-- **all call forms of a trait method agree** — for every trait `tr`, method `m`, substitution `σ`
and receiver type `ty` free of generic applications (`appFree`: primitives, structs, enums, tuples,
arrays, `Vec`, `Ref`, function types; `hasTParam ty = false` says it is concrete):

1. the static form names the function of the definition site,
2. so does the bounded-generic form in any instance whose substitution maps the receiver's type to `ty`,
3. the dyn wrapper calls exactly the Go function that definition is emitted as. -/
theorem call_forms_agree (σ : List (Name × Ty)) (en st : Name → Bool) (tr m : Name) (recvTy ty : Ty)
    (hσ : substTy σ recvTy = ty) (hty : hasTParam ty = false) (happ : appFree ty = true) (hm : colonFree m = true) :
    coreCallTarget tr ty m = .direct (implDefName tr ty m) ∧
    monoCallee σ tr recvTy m = implDefName tr ty m ∧
    dynWrapperCallee en st tr ty m = compileFnName (implDefName tr ty m) := by
  obtain ⟨h1, h2⟩ := call_forms_static_bounded_agree σ tr m recvTy ty hσ hty
  refine ⟨h2, h1, ?_⟩
  rw [implFn_goName tr m ty hm]
  simp [dynWrapperCallee, implDefName, collapseTy_appFree en st ty happ]

/-- non-vacuity: a bound `T: Show` instantiated at a struct, and at a tuple of a primitive and a `Ref` -/
example : substTy [(['T'], .tstruct ['P'])] (.tparam ['T']) = .tstruct ['P'] ∧ hasTParam (.tstruct ['P']) = false ∧
    appFree (.ttuple [.prim .int32, .tref (.tstruct ['P'])]) = true ∧ colonFree "show".toList = true :=
  ⟨rfl, by decide, by decide, by decide⟩

/-- KNOWN FINDING (negative witness): for a receiver that is an instance of a generic type the dyn
wrapper names a function that does not exist — `impl Show for Opt[int32]` is compiled to
`trait_impl#Show#Opt[int32]#show`, the wrapper calls `trait_impl#Show#Opt__int32#show` -/
theorem dyn_generic_instance_mismatch :
    let en : Name → Bool := fun n => n == "Opt".toList
    let ty : Ty := .tapp (.tenum "Opt".toList) [.prim .int32]
    dynWrapperCallee en (fun _ => false) "Show".toList ty "show".toList ≠
      compileFnName (implDefName "Show".toList ty "show".toList) ∧
    monoCallee [] "Show".toList ty "show".toList = implDefName "Show".toList ty "show".toList := by decide

/-! ## inherent methods -/

/-- `x.m(a)` and `T::m(x, a)` are one typed node (`EInherentMethod { receiver_ty, method_name }`);
`compile_match.rs:1645-1653` names the callee from these two fields only -/
def inherentCallee (recvTy : Ty) (m : Name) : Name := inherentMethodFnName recvTy m
/-- definition site `compile_match.rs:1193-1196` for `impl T { fn m }` -/
def inherentDefName (forTy : Ty) (m : Name) : Name := inherentMethodFnName forTy m

/-- both call forms of an inherent method name the function the impl block was compiled to -/
theorem inherent_forms_agree (ty : Ty) (m : Name) : inherentCallee ty m = inherentDefName ty m := rfl

theorem splitOn_no_sep {sep : Char} {a : Name} (h : a.all (fun c => c != sep) = true) : splitOn sep a = [a] := by
  induction a with
  | nil => rfl
  | cons c r ih =>
    simp only [List.all_cons, Bool.and_eq_true, bne_iff_ne, ne_eq] at h
    have hc : (c == sep) = false := by simpa using h.1
    simp [splitOn, ih h.2, hc]

theorem splitOn_append_sep {sep : Char} {a b : Name} (h : a.all (fun c => c != sep) = true) :
    splitOn sep (a ++ sep :: b) = a :: splitOn sep b := by
  induction a with
  | nil =>
    simp only [List.nil_append, splitOn]
    cases hb : splitOn sep b with
    | nil =>
      exfalso
      cases b with
      | nil => simp [splitOn] at hb
      | cons x xs =>
        simp only [splitOn] at hb
        split at hb <;> (try split at hb) <;> simp at hb
    | cons p ps => simp
  | cons c r ih =>
    simp only [List.all_cons, Bool.and_eq_true, bne_iff_ne, ne_eq] at h
    have hc : (c == sep) = false := by simpa using h.1
    simp only [List.cons_append, splitOn, ih h.2, hc]
    simp

/-- for a generic inherent impl mono finds the callee through `(base, method)` parsed back from the
call-site name: the parse recovers exactly the base and the method (names without `#`), so the
instance `Opt[int32]` and the definition for `Opt[T]` meet in the index -/
theorem inherent_generic_lookup (recv : Ty) (m : Name) (hp : isPrimitive recv = false)
    (hb : hashFree (inherentBase recv) = true) (ht : hashFree (tyCompact recv) = true) (hm : hashFree m = true) :
    parseInherent (inherentMethodFnName recv m) = some (inherentBase recv, m) := by
  unfold parseInherent inherentMethodFnName
  rw [if_neg (by simp [hp])]
  have e : (['i', 'n', 'h', 'e', 'r', 'e', 'n', 't', '#'] ++ inherentBase recv ++ ['#'] ++ tyCompact recv ++ ['#'] ++ m) =
      ['i', 'n', 'h', 'e', 'r', 'e', 'n', 't'] ++ '#' :: (inherentBase recv ++ '#' :: (tyCompact recv ++ '#' :: m)) := by simp
  have h0 : ['i', 'n', 'h', 'e', 'r', 'e', 'n', 't'].all (fun c => c != '#') = true := by decide
  rw [e, splitOn_append_sep h0, splitOn_append_sep hb, splitOn_append_sep ht, splitOn_no_sep hm]
  simp

example : parseInherent (inherentMethodFnName (.tapp (.tenum "Opt".toList) [.prim .int32]) "has".toList) = some ("Opt".toList, "has".toList) ∧
    parseInherent (inherentMethodFnName (.tapp (.tenum "Opt".toList) [.tparam ['T']]) "has".toList) = some ("Opt".toList, "has".toList) := by decide

/-! ## coercion to `dyn` -/

/-- **a value is coerced to `dyn Tr` only if an implementation for its type is visible** (and the
trait resolves, and the type is concrete) -/
theorem dyn_requires_impl (resolve : Name → Option Name) (concrete : Ty → Bool) (visible : Name → Ty → Bool)
    (exprTy expected : Ty) (r : Name) (forTy : Ty)
    (h : coerceToExpectedDyn resolve concrete visible exprTy expected = .toDyn r forTy) :
    visible r forTy = true ∧ concrete forTy = true ∧ forTy = exprTy ∧ ∃ tr, expected = .tdyn tr ∧ resolve tr = some r := by
  unfold coerceToExpectedDyn at h
  split at h
  · rename_i tr
    split at h
    · exact Coerce.noConfusion h
    · split at h
      · exact Coerce.noConfusion h
      · rename_i r' hr
        by_cases hc : concrete exprTy = true
        · by_cases hv : visible r' exprTy = true
          · simp only [hc, hv, Bool.not_true, Bool.false_eq_true, if_false, Coerce.toDyn.injEq] at h
            obtain ⟨e1, e2⟩ := h
            subst e1; subst e2
            exact ⟨hv, hc, rfl, tr, rfl, hr⟩
          · have hv' : visible r' exprTy = false := by simpa using hv
            simp [hc, hv'] at h
        · have hc' : concrete exprTy = false := by simpa using hc
          simp [hc'] at h
  · exact Coerce.noConfusion h

/-- contrapositive, as the check tests it: without a visible impl the result is never a coercion -/
theorem no_impl_no_dyn (resolve : Name → Option Name) (concrete : Ty → Bool) (visible : Name → Ty → Bool)
    (exprTy : Ty) (tr : Name) (hv : ∀ r, visible r exprTy = false) :
    ∀ r t, coerceToExpectedDyn resolve concrete visible exprTy (.tdyn tr) ≠ .toDyn r t := by
  intro r t h
  have := (dyn_requires_impl resolve concrete visible exprTy (.tdyn tr) r t h)
  rw [this.2.2.1, hv r] at this
  exact Bool.noConfusion this.1

/-- non-vacuity of `dyn_requires_impl`: a struct with an impl is coerced, one without gets `noImpl` -/
example :
    coerceToExpectedDyn (fun n => some n) isConcreteDynTarget (fun _ t => match t with | .tstruct n => n == ['P'] | _ => false)
      (.tstruct ['P']) (.tdyn ['A']) = .toDyn ['A'] (.tstruct ['P']) := by rfl

/-- an implementation in a dependency counts, one nowhere does not -/
theorem hasVisible_iff {K} (hasKey : K → Bool) (cur : K) (deps : List K) :
    hasVisibleTraitImpl hasKey cur deps = true ↔ hasKey cur = true ∨ ∃ d ∈ deps, hasKey d = true := by
  simp [hasVisibleTraitImpl]

/-! ## UFCS calls on trait objects, calls in statement position -/

/-- the dynamic path is taken only for a trait object of the trait the call names -/
theorem dyn_call_only_for_own_trait (tr m tr' m' : Name) (recvTy : Ty)
    (h : staticMemberCallPath tr recvTy m = .dynCall tr' m') : recvTy = .tdyn tr ∧ tr' = tr ∧ m' = m := by
  unfold staticMemberCallPath at h
  split at h
  · rename_i a
    by_cases ha : (a == tr) = true
    · simp only [ha, if_true, MemberCallPath.dynCall.injEq] at h
      have : a = tr := by simpa using ha
      exact ⟨by rw [this], h.1.symm, h.2.symm⟩
    · simp [ha] at h
  · exact MemberCallPath.noConfusion h

/-- `B::m(d)` on `d : dyn A`, `A ≠ B`, is an ordinary static call: it needs `impl B for dyn A`, and by
`call_forms_static_bounded_agree` it names the same function as the `T: B` forms instantiated at `dyn A` -/
theorem other_trait_on_dyn_is_static (a tr m : Name) (h : a ≠ tr) (σ : List (Name × Ty)) (recvTy : Ty)
    (hσ : substTy σ recvTy = .tdyn a) :
    staticMemberCallPath tr (.tdyn a) m = .overloaded tr (.tdyn a) m ∧
    coreCallTarget tr (.tdyn a) m = .direct (implDefName tr (.tdyn a) m) ∧
    monoCallee σ tr recvTy m = implDefName tr (.tdyn a) m := by
  have hb : (a == tr) = false := by simpa using h
  refine ⟨by simp [staticMemberCallPath, hb], ?_, ?_⟩
  · exact (call_forms_static_bounded_agree σ tr m recvTy (.tdyn a) hσ (by simp [hasTParam])).2
  · exact (call_forms_static_bounded_agree σ tr m recvTy (.tdyn a) hσ (by simp [hasTParam])).1

example : staticMemberCallPath "Quiet".toList (.tdyn "Loud".toList) "name".toList =
    .overloaded "Quiet".toList (.tdyn "Loud".toList) "name".toList := by rfl

/-- a method call compiled for its effect always emits a statement, whatever the call form -/
theorem call_forms_emit_statement : effectEmitsStatement .call = true ∧ effectEmitsStatement .dynCall = true := ⟨rfl, rfl⟩

/-! ## overlapping inherent impls: `x.m()` and `Base::m(x)` -/

/-- **both inherent call forms pick the same impl block** whenever an impl of a single instantiation
of `Base` defines the method (the only situation in which the two lookups can differ): for every
impl table, receiver type of constructor `Base` and method the dot form finds. -/
theorem inherent_overlap_forms_agree (E : InhEnv) (base m : Name) (t : Ty) (f : InhFound)
    (hb : constrName t = some base) (hov : instantiationImplDefines E base m = true)
    (hdot : dotFormLookup E t m = some f) : pathFormLookup E base (some t) m = some f := by
  unfold dotFormLookup at hdot
  simp [pathFormLookup, hov, hb, hdot]

/-- without such an impl the path form is the lookup under the bare constructor, as it always was -/
theorem path_form_without_overlap (E : InhEnv) (base m : Name) (a : Option Ty)
    (hov : instantiationImplDefines E base m = false) :
    pathFormLookup E base a m = lookupInherentMethod E (.tstruct base) m := by
  simp [pathFormLookup, hov]

/-- the exact impl wins over the generic one (dot form, hence also path form) -/
theorem exact_instantiation_wins (E : InhEnv) (t : Ty) (m : Name)
    (h : E.exact.any (fun r => tyCompact r.1 == tyCompact t && r.2.contains m) = true) :
    dotFormLookup E t m = some (.exact (tyCompact t)) := by
  simp only [dotFormLookup, lookupInherentMethod]
  rw [if_pos h]

/-- non-vacuity and the former defect: `impl[T] Cell[T] { describe }` + `impl Cell[int32] { describe }`,
receiver `Cell[int32]` — the dot form finds the instantiation's impl, the bare lookup (the path form
before the fix) the generic one -/
example :
    let cellInt : Ty := .tapp (.tstruct "Cell".toList) [.prim .int32]
    let E : InhEnv := { exact := [(cellInt, ["describe".toList, "only".toList])], constr := [("Cell".toList, ["describe".toList])] }
    dotFormLookup E cellInt "describe".toList = some (.exact "Cell[int32]".toList) ∧
    pathFormLookup E "Cell".toList (some cellInt) "describe".toList = some (.exact "Cell[int32]".toList) ∧
    lookupInherentMethod E (.tstruct "Cell".toList) "describe".toList = some (.constr "Cell".toList) ∧
    pathFormLookup E "Cell".toList (some cellInt) "only".toList = some (.exact "Cell[int32]".toList) ∧
    pathFormLookup E "Cell".toList (some (.tapp (.tstruct "Cell".toList) [.prim .bool])) "describe".toList = some (.constr "Cell".toList) := by
  decide

/-- the constructor name of a type is its RESOLVED name: inside package `Lib` the path written `Cell`
denotes `Lib::Cell`.  `pathFormLookup` must be given the resolved name — with the written one the
receiver is not recognised and the lookup falls back to the bare constructor (here: nothing at all),
which is the seeded change `C17-path-form-written-name` -/
example :
    let cellInt : Ty := .tapp (.tstruct "Lib::Cell".toList) [.prim .int32]
    let E : InhEnv := { exact := [(cellInt, ["describe".toList])], constr := [("Lib::Cell".toList, ["describe".toList])] }
    pathFormLookup E "Lib::Cell".toList (some cellInt) "describe".toList = dotFormLookup E cellInt "describe".toList ∧
    pathFormLookup E "Cell".toList (some cellInt) "describe".toList ≠ dotFormLookup E cellInt "describe".toList := by
  decide

/-! ## the two inherent call forms across package boundaries (`Model/MethodEnv.lean`)

In a multi-package program every site chooses WHICH package's impl table it asks.  The dot form asks
the table of the package that defines the receiver's type (`env_for_receiver_ty`); the path form
resolves the written path (`resolve_type_name`) and must put both the guard and the lookups to the
table that comes with the resolved name — not to the table of the package being checked. -/

/-- with guard and lookups on one table the guarded lookup is `pathFormLookup` -/
theorem pathFormLookupGuard_self (E : InhEnv) (base : Name) (a : Option Ty) (m : Name) :
    pathFormLookupGuard E E base a m = pathFormLookup E base a m := rfl

/-- a name that resolution leaves unchanged (a qualified name of a dependency or of the package
itself, any unqualified name inside `Main`) resolves to the same environment again -/
theorem resolve_env_idem_of_fixed (G : PkgInhEnvs) (w : Name) (h : (resolveTypeName G w).1 = w) :
    (resolveTypeName G (resolveTypeName G w).1).2 = (resolveTypeName G w).2 := by rw [h]

/-- `env_for_receiver_ty` of a nominal receiver is the environment its constructor name resolves to -/
theorem envForReceiverTy_nominal (G : PkgInhEnvs) (b : Name) (args : List Ty) :
    envForReceiverTy G (.tstruct b) = (resolveTypeName G b).2 ∧
    envForReceiverTy G (.tenum b) = (resolveTypeName G b).2 ∧
    envForReceiverTy G (.tapp (.tstruct b) args) = (resolveTypeName G b).2 ∧
    envForReceiverTy G (.tapp (.tenum b) args) = (resolveTypeName G b).2 := by
  simp [envForReceiverTy]

/-- **both inherent call forms agree across package boundaries**: for every package environment,
written type path, method and receiver whose type the dot form looks up in the environment the
written path resolves to (`henv`; by `envForReceiverTy_nominal` and `resolve_env_idem_of_fixed` that
is every receiver `Base[..]` / `Base` of the named type), whenever an impl of a single instantiation
defines the method, the path form finds what the dot form finds. -/
theorem inherent_forms_agree_across_packages (G : PkgInhEnvs) (written m : Name) (t : Ty) (f : InhFound)
    (hb : constrName t = some (resolveTypeName G written).1)
    (henv : envForReceiverTy G t = (resolveTypeName G written).2)
    (hov : instantiationImplDefines (resolveTypeName G written).2 (resolveTypeName G written).1 m = true)
    (hdot : dotFormLookupPkg G t m = some f) :
    pathFormLookupPkg G written (some t) m = some f := by
  unfold dotFormLookupPkg at hdot
  rw [henv] at hdot
  show pathFormLookupGuard (resolveTypeName G written).2 (resolveTypeName G written).2 (resolveTypeName G written).1 (some t) m = some f
  rw [pathFormLookupGuard_self]
  exact inherent_overlap_forms_agree _ _ _ _ _ hb hov hdot

/-- the guard decides: put to a table that does not hold the impls of the type (the table of the
package being CHECKED, for a type of another package) it is false, and the path form degrades to the
lookup under the bare constructor — the generic impl, or nothing — whatever the defining package holds -/
theorem path_form_guard_on_other_table (Eg E : InhEnv) (base m : Name) (a : Option Ty)
    (h : instantiationImplDefines Eg base m = false) :
    pathFormLookupGuard Eg E base a m = lookupInherentMethod E (.tstruct base) m := by
  simp [pathFormLookupGuard, h]

/-- non-vacuity, and the seeded change `C17-path-form-current-package-env`: package `Main` calls
methods of `Lib::Cell` (both impls live in `Lib`).  Dot and path form agree on the instantiation's
impl; with the guard read off `Main`'s own (empty) table the path form runs the generic impl and does
not find a method that only the instantiation's impl defines. -/
example :
    let cellInt : Ty := .tapp (.tstruct "Lib::Cell".toList) [.prim .int32]
    let E : InhEnv := { exact := [(cellInt, ["describe".toList, "only".toList])], constr := [("Lib::Cell".toList, ["describe".toList])] }
    let G : PkgInhEnvs := { package := "Main".toList, current := { exact := [], constr := [] }, deps := [("Lib".toList, E)] }
    dotFormLookupPkg G cellInt "describe".toList = some (.exact "Lib::Cell[int32]".toList) ∧
    pathFormLookupPkg G "Lib::Cell".toList (some cellInt) "describe".toList = some (.exact "Lib::Cell[int32]".toList) ∧
    pathFormLookupPkg G "Lib::Cell".toList (some cellInt) "only".toList = dotFormLookupPkg G cellInt "only".toList ∧
    dotFormLookupPkg G cellInt "only".toList = some (.exact "Lib::Cell[int32]".toList) ∧
    pathFormLookupGuard G.current E "Lib::Cell".toList (some cellInt) "describe".toList = some (.constr "Lib::Cell".toList) ∧
    pathFormLookupGuard G.current E "Lib::Cell".toList (some cellInt) "only".toList = none := by
  decide

/-- the same from inside a library: package `Lib` (which also has a `Cell` of its own, with other
impls) calls methods of `Base::Cell`; the unqualified `Cell` is `Lib::Cell` and goes to `Lib`'s table -/
example :
    let baseCell : Ty := .tapp (.tstruct "Base::Cell".toList) [.prim .int32]
    let libCell : Ty := .tapp (.tstruct "Lib::Cell".toList) [.prim .int32]
    let EB : InhEnv := { exact := [(baseCell, ["describe".toList])], constr := [("Base::Cell".toList, ["describe".toList])] }
    let EL : InhEnv := { exact := [], constr := [("Lib::Cell".toList, ["describe".toList])] }
    let G : PkgInhEnvs := { package := "Lib".toList, current := EL, deps := [("Base".toList, EB)] }
    pathFormLookupPkg G "Base::Cell".toList (some baseCell) "describe".toList = some (.exact "Base::Cell[int32]".toList) ∧
    dotFormLookupPkg G baseCell "describe".toList = some (.exact "Base::Cell[int32]".toList) ∧
    (resolveTypeName G "Cell".toList).1 = "Lib::Cell".toList ∧
    pathFormLookupPkg G "Cell".toList (some libCell) "describe".toList = some (.constr "Lib::Cell".toList) ∧
    dotFormLookupPkg G libCell "describe".toList = some (.constr "Lib::Cell".toList) := by
  decide

/-- `split_once("::")` of `p::w` for a package name without a colon is `(p, w)` -/
theorem splitOnceColons_append (p w : Name) (hp : colonFree p = true) :
    splitOnceColons (p ++ ':' :: ':' :: w) = some (p, w) := by
  induction p with
  | nil => simp [splitOnceColons]
  | cons c p ih =>
    simp only [colonFree, List.all_cons, Bool.and_eq_true, bne_iff_ne, ne_eq] at hp
    obtain ⟨hc, hp'⟩ := hp
    have ih' := ih (by simpa [colonFree] using hp')
    rw [List.cons_append, splitOnceColons]
    · simp [ih']
    · intro tail h1; exact absurd h1 hc

/-- inside a library package `P` an unqualified name `w` resolves to `P::w` in `P`'s own environment,
and so does `P::w` itself (the name a receiver's type carries) -/
theorem resolve_unqualified_in_library (G : PkgInhEnvs) (w : Name) (hp : colonFree G.package = true)
    (hm : G.package ≠ pkgMain) (hb : G.package ≠ pkgBuiltin) (hs : w ≠ ['S', 'e', 'l', 'f'])
    (hw : splitOnceColons w = none) :
    resolveTypeName G w = (G.package ++ [':', ':'] ++ w, G.current) ∧
    resolveTypeName G (G.package ++ [':', ':'] ++ w) = (G.package ++ [':', ':'] ++ w, G.current) := by
  constructor
  · simp [resolveTypeName, hs, hw, hm, hb]
  · have hne : (G.package ++ [':', ':'] ++ w == ['S', 'e', 'l', 'f']) = false := by
      apply beq_false_of_ne
      intro h
      have : ':' ∈ G.package ++ [':', ':'] ++ w := by simp
      rw [h] at this
      simp at this
    have hsp : splitOnceColons (G.package ++ ':' :: ':' :: w) = some (G.package, w) :=
      splitOnceColons_append G.package w hp
    have hne' : ¬ (G.package ++ ':' :: ':' :: w = ['S', 'e', 'l', 'f']) := by simpa using hne
    simp [resolveTypeName, hne', hsp, hm, hb]

/-- hence the hypothesis `henv` of `inherent_forms_agree_across_packages` also holds for a type written
unqualified inside a library package (the case of seeded change `C17-path-form-written-name`) -/
theorem resolve_env_idem_unqualified_in_library (G : PkgInhEnvs) (w : Name) (hp : colonFree G.package = true)
    (hm : G.package ≠ pkgMain) (hb : G.package ≠ pkgBuiltin) (hs : w ≠ ['S', 'e', 'l', 'f'])
    (hw : splitOnceColons w = none) :
    (resolveTypeName G (resolveTypeName G w).1).2 = (resolveTypeName G w).2 := by
  obtain ⟨h1, h2⟩ := resolve_unqualified_in_library G w hp hm hb hs hw
  rw [h1]
  show (resolveTypeName G (G.package ++ [':', ':'] ++ w)).2 = G.current
  rw [h2]

end Goml.Mangle
