import GomlVerif.Lemmas.C18Json
import GomlVerif.Lemmas.C18Render
import GomlVerif.Lemmas.C18Scope
import GomlVerif.Lemmas.C18Escape
import GomlVerif.Lemmas.C18Decode
import GomlVerif.Lemmas.C18Eval
/-!
C18 — derived `ToString` / `ToJson` are total and faithful.

Model: `Model/Derive.lean` (`toJson`, `toString` follow the bodies `derive.rs` generates;
`jsonQuote` is the runtime's `json_escape_string`; `jsonRead` is an RFC 8259 reader; `encode` is
the structure the property asks for; `genJson`/`genString` are the generated bodies with the
binders the derive chooses).  The tie to the Rust is the correspondence run of `./check C18`.
-/
namespace Goml.C18
open Goml.Derive

/-- **to_json returns well-formed JSON with the required structure.**  For every set of
    definitions with identifier names, every value of a type of them (any nesting, recursion through
    enums) and *every* string in it, reading `to_json`'s text as JSON succeeds and yields an object per
    struct (members in field order), `{"tag": V}` / `{"tag": V, "fields": […]}` per variant, and the
    leaves themselves.

    `_partial`: a float leaf carries its `%g` rendering as text, and the theorem assumes it is a JSON
    number (`floatsOk`); `+Inf`, `-Inf`, `NaN` are not (see `nonfinite_float_not_json`), and Go's
    shortest-digit formatting is outside the model. -/
theorem toJson_wellformed_partial (Δ : Defs) (t : FTy) (v : Val) (hΔ : defsOk Δ = true)
    (hty : hasTy Δ t v = true) (hfl : floatsOk v = true) :
    jsonRead (toJson Δ v) = some (encode Δ v) :=
  jsonRead_toJson hΔ hty hfl

/-- **… whose structure and leaves decode back to the value**: reading `to_json`'s text and
    interpreting the structure at the value's type (`decode`: members in field order, the variant
    found by its `tag`, integers by their decimal digits, strings as they are) gives the value back.
    `_partial` for the same reason as above (floats are compared as their rendering). -/
theorem toJson_roundtrip_partial (Δ : Defs) (t : FTy) (v : Val) (hΔ : defsOk Δ = true)
    (hdist : variantsDistinct Δ = true) (hty : hasTy Δ t v = true) (hfl : floatsOk v = true) :
    (jsonRead (toJson Δ v)).bind (decode Δ t) = some v := by
  rw [jsonRead_toJson hΔ hty hfl]
  exact decode_encode hdist v t hty

/-- strings are correctly escaped — all of them: `json_escape_string` followed by a JSON reader is
    the identity -/
theorem json_escape_total (s : List Char) : jsonRead (jsonQuote s) = some (.str s) := by
  have := readValue_str (jsonQuote s).length s []
  simp only [List.append_nil] at this
  simp [jsonRead, this, skipWs]

/-- the character-wise `jsonQuote` of the model is the chain of `strings.ReplaceAll` calls that
    `go/runtime.rs` builds (table regenerated from the Rust source on every run) -/
theorem json_escape_is_runtime_table (s : List Char) :
    jsonQuote s = '"' :: (applyReplacements Gen.Derive.jsonReplacements s ++ ['"']) := by
  rw [jsonEscBody_eq_replacements]; rfl

/-- what `json_escape_string` used to be (`fmt.Sprintf("%q", s)`) is JSON exactly on the runes of
    `goQuoteJsonSafe`: for every `unicode.IsPrint` -/
theorem goQuote_json_safe_partial (isPrint : Char → Bool) (s : List Char)
    (h : s.all (goQuoteJsonSafe isPrint) = true) : jsonRead (goQuote isPrint s) = some (.str s) := by
  have hr := readStr_goQuoteBody isPrint s [] h
  have : readValue ((goQuote isPrint s).length + 1) (goQuote isPrint s) = some (.str s, []) := by
    simp [readValue, goQuote, skipWs, isWs, hr]
  simp [jsonRead, this, skipWs]

/-- `to_string` is the `Name { f: v, … }` / `Enum::Variant(v, …)` rendering (`render` is written
    with `intercalate`; `toString` follows the generated code's part list) -/
theorem toString_shape (Δ : Defs) (t : FTy) (v : Val) (hty : hasTy Δ t v = true) :
    Derive.toString Δ v = render Δ v :=
  toString_render v t hty

/-- **the derive is total on what it accepts**: for every definition (any field, variant and type
    names), the generated `to_json` and `to_string` bodies are well-scoped — the binders of an arm are
    pairwise distinct, every variable is one of them, and no helper the body calls by name
    (`json_escape_string`, `bool_to_json`, `<prim>_to_string`: the generated tables) is shadowed by a
    binder or by `self` -/
theorem derive_total (d : Def) :
    (genJson bindFresh d).scoped = true ∧ (genString bindFresh d).scoped = true :=
  ⟨genJson_scoped d, genString_scoped d⟩

/-- **hygiene against the package, partial**: the calls of the generated bodies keep meaning the runtime helpers
    PROVIDED no top-level function of the package the type is defined in is spelled like a helper
    (`HelperFree tops`).  Partial because the hypothesis is needed: `name_resolution.rs` resolves the bare name the
    derive emits to a definition of the current package before it looks at the builtins, and nothing rejects such
    a definition — the examples below are the capture (known finding `helper-captured-by-package-function`). -/
theorem derive_hygienic_partial (d : Def) (tops : List String) (h : ∀ f ∈ helperNames, f ∉ tops) :
    (genJson bindFresh d).hygienic tops = true ∧ (genString bindFresh d).hygienic tops = true :=
  ⟨genJson_hygienic d tops h, genString_hygienic d tops h⟩

example : (genJson bindFresh (.struct "S" 0 [("b", .bool), ("n", .int 32 true)])).hygienic ["bool_to_json"] = false ∧
    (genJson bindFresh (.enum "E" 0 [("A", [.string])])).hygienic ["show", "json_escape_string"] = false ∧
    (genString bindFresh (.struct "S" 0 [("n", .int 8 false)])).hygienic ["uint8_to_string"] = false ∧
    (genJson bindFresh (.struct "S" 0 [("b", .bool), ("n", .int 32 true)])).hygienic ["bool_to_json_of", "show"] = true := by
  decide +kernel

/-- **the generated code computes the value functions**: the body of the arm the derive generates
    for a struct (resp. for the value's variant), evaluated under that arm's bindings — literals,
    `+`, the runtime helpers by their meaning (`helperSem`), the field types' own derived methods —
    is `toJson` / `toString` of the value.  With the AST tie of the check (`genJson`/`genString` =
    what `derive::expand` appends) this connects the theorems above to the generated code itself. -/
theorem generated_code_computes (Δ : Defs) (n : String) (g : Nat) :
    (∀ (fs : List (String × FTy)) (vals : List Val), lookupStruct Δ n = some fs → hasTys Δ (fs.map (·.2)) vals = true →
      (∀ arm ∈ (genJson bindFresh (.struct n g fs)).arms,
        evalG Δ (armEnv arm.binders vals) arm.body = some (toJson Δ (.struct n vals))) ∧
      (∀ arm ∈ (genString bindFresh (.struct n g fs)).arms,
        evalG Δ (armEnv arm.binders vals) arm.body = some (Derive.toString Δ (.struct n vals)))) ∧
    (∀ (vs : List (String × List FTy)) (idx : Nat) (vn : String) (tys : List FTy) (args : List Val),
      lookupVariant Δ n idx = some (vn, tys) → vs[idx]? = some (vn, tys) → hasTys Δ tys args = true →
      ((genJson bindFresh (.enum n g vs)).arms[idx]?).bind (fun arm => evalG Δ (armEnv arm.binders args) arm.body)
        = some (toJson Δ (.enum n idx args)) ∧
      ((genString bindFresh (.enum n g vs)).arms[idx]?).bind (fun arm => evalG Δ (armEnv arm.binders args) arm.body)
        = some (Derive.toString Δ (.enum n idx args))) :=
  ⟨fun _ _ hl hty => ⟨genJson_struct_eval hl hty, genString_struct_eval hl hty⟩,
   fun _ _ _ _ _ hl hv hty => ⟨genJson_enum_eval hl hv hty, genString_enum_eval hl hv hty⟩⟩

/-- **which traits an item derives depends only on the set of its derive attributes**: a trait is
    derived iff some attribute is a derive that lists it, so stacking, splitting, repeating and
    reordering attributes, and putting other attributes (or derives of unknown targets only)
    before, between or after them changes nothing (`derivesTrait` mirrors `find_derive_attr` /
    `parse_derive_targets`; the check compares it with what `derive::expand` appends) -/
theorem derive_attrs_union (as bs : List (List Char)) (tr : List Char) :
    derivesTrait (as ++ bs) tr = (derivesTrait as tr || derivesTrait bs tr) := by
  simp [derivesTrait, List.any_append]

theorem derive_attrs_perm (as bs : List (List Char)) (tr : List Char) (h : as.Perm bs) :
    derivesTrait as tr = derivesTrait bs tr := by
  induction h with
  | nil => rfl
  | cons x _ ih => simp only [derivesTrait, List.any_cons] at ih ⊢; rw [ih]
  | swap x y l =>
    simp only [derivesTrait, List.any_cons]
    cases listsTrait y tr <;> cases listsTrait x tr <;> rfl
  | trans _ _ ih1 ih2 => exact ih1.trans ih2

theorem derive_attrs_skip (a : List Char) (as : List (List Char)) (tr : List Char)
    (h : parseDeriveTargets a = none ∨ ∃ ts, parseDeriveTargets a = some ts ∧ ts.contains tr = false) :
    derivesTrait (a :: as) tr = derivesTrait as tr := by
  have hl : listsTrait a tr = false := by
    rcases h with h | ⟨ts, h, hc⟩
    · simp [listsTrait, h]
    · simp only [listsTrait, h]; exact hc
  simp only [derivesTrait, List.any_cons, hl, Bool.false_or]

theorem derive_attrs_dup (a : List Char) (as : List (List Char)) (tr : List Char) :
    derivesTrait (a :: a :: as) tr = derivesTrait (a :: as) tr := by
  simp only [derivesTrait, List.any_cons]
  cases listsTrait a tr <;> rfl

example : derivesTrait ["#[derive(ToString)]".toList, "#[foo]".toList, "#[ derive ( Debug , ToJson, ) ]".toList] "ToJson".toList = true ∧
    derivesTrait ["#[derive(ToString)]".toList] "ToJson".toList = false ∧
    derivesTrait ["#![derive(ToJson)]".toList, "#[derive()]".toList, "#[derive]".toList, "#[derived(ToJson)]".toList,
      "#[derive(ToJson)(ToString)]".toList, "#[derive(tojson)]".toList] "ToJson".toList = false := by decide

/-! ### comments in and after an attribute

`attrText` mirrors `lower_attributes` (the text of the attribute's syntax node without its comment tokens);
the node holds every trivia token up to the next token of the file, so a comment written after the
attribute on its line, or on the lines between the attribute and the item, is inside it. -/

/-- code without string literals and without `/` is copied unchanged, whatever follows -/
theorem strip_code_plain_append (a r : List Char) (h : ∀ c ∈ a, c ≠ '"' ∧ c ≠ '/') :
    stripComments .code (a ++ r) = a ++ stripComments .code r := by
  induction a with
  | nil => rfl
  | cons c cs ih =>
    have h12 := h c (by simp)
    have ih' := ih (fun d hd => h d (by simp [hd]))
    simp only [List.cons_append, stripComments, h12.1, h12.2, if_false, ih']

theorem strip_comment_line (c b : List Char) (h : ∀ x ∈ c, x ≠ '\n') :
    stripComments .comment (c ++ '\n' :: b) = '\n' :: stripComments .code b := by
  induction c with
  | nil => simp [stripComments]
  | cons x xs ih =>
    have hx := h x (by simp)
    have ih' := ih (fun d hd => h d (by simp [hd]))
    simp only [List.cons_append, stripComments, hx, if_false, ih']

theorem strip_comment_end (c : List Char) (h : ∀ x ∈ c, x ≠ '\n') : stripComments .comment c = [] := by
  induction c with
  | nil => rfl
  | cons x xs ih =>
    have hx := h x (by simp)
    have ih' := ih (fun d hd => h d (by simp [hd]))
    simp only [stripComments, hx, if_false, ih']

/-- **a comment is not part of the attribute**: the text `derive.rs` reads is the same with and without a
    `// …` comment anywhere after string-free code `a` (in particular after the closing `]`, or between two
    targets); what follows the comment's line (`b`) is arbitrary -/
theorem attr_comment_invisible (a c b : List Char) (ha : ∀ x ∈ a, x ≠ '"' ∧ x ≠ '/') (hc : ∀ x ∈ c, x ≠ '\n') :
    attrText (a ++ '/' :: '/' :: c ++ '\n' :: b) = attrText (a ++ '\n' :: b) := by
  unfold attrText
  rw [show a ++ '/' :: '/' :: c ++ '\n' :: b = a ++ ('/' :: '/' :: (c ++ '\n' :: b)) by simp]
  rw [strip_code_plain_append a _ ha, strip_code_plain_append a _ ha]
  simp only [stripComments, if_true, if_false, show ('/' : Char) ≠ '"' by decide, show ('\n' : Char) ≠ '"' by decide,
    show ('\n' : Char) ≠ '/' by decide]
  rw [strip_comment_line c b hc]

/-- … also when the node ends inside the comment (end of file) -/
theorem attr_comment_at_end (a c : List Char) (ha : ∀ x ∈ a, x ≠ '"' ∧ x ≠ '/') (hc : ∀ x ∈ c, x ≠ '\n') :
    attrText (a ++ '/' :: '/' :: c) = a := by
  unfold attrText
  rw [strip_code_plain_append a _ ha]
  simp only [stripComments, if_true, if_false, show ('/' : Char) ≠ '"' by decide]
  rw [strip_comment_end c hc]; simp

theorem attr_plain (a : List Char) (ha : ∀ x ∈ a, x ≠ '"' ∧ x ≠ '/') : attrText a = a := by
  have := strip_code_plain_append a [] ha
  simpa [attrText, stripComments] using this

/-- which traits an item derives does not depend on the comments written in or after its attributes -/
theorem derive_attrs_comment (a c b : List Char) (as : List (List Char)) (tr : List Char)
    (ha : ∀ x ∈ a, x ≠ '"' ∧ x ≠ '/') (hc : ∀ x ∈ c, x ≠ '\n') :
    derivesTraitSrc ((a ++ '/' :: '/' :: c ++ '\n' :: b) :: as) tr = derivesTraitSrc ((a ++ '\n' :: b) :: as) tr := by
  simp only [derivesTraitSrc, List.map_cons, attr_comment_invisible a c b ha hc]

theorem derive_attrs_union_src (as bs : List (List Char)) (tr : List Char) :
    derivesTraitSrc (as ++ bs) tr = (derivesTraitSrc as tr || derivesTraitSrc bs tr) := by
  simp only [derivesTraitSrc, List.map_append, derive_attrs_union]

example : derivesTraitSrc ["#[derive(ToJson)] // serialise me\n".toList] "ToJson".toList = true ∧
    derivesTraitSrc ["#[derive(ToJson)]\n// A point.\n".toList] "ToJson".toList = true ∧
    derivesTraitSrc ["#[derive(ToJson)] // #[derive(ToString)]\n".toList] "ToString".toList = false ∧
    derivesTraitSrc ["#[derive(ToJson, // json\n    ToString)]\n".toList] "ToString".toList = true ∧
    derivesTraitSrc ["#[derive(ToJson // , ToString\n)]\n".toList] "ToString".toList = false ∧
    derivesTraitSrc ["#[doc = \"// no comment\"] ".toList, "#[derive(ToJson)]\n".toList] "ToJson".toList = true ∧
    -- what `derive.rs` made of the node text before `lower_attributes` dropped the comments
    derivesTrait ["#[derive(ToJson)] // serialise me\n".toList] "ToJson".toList = false := by decide

/-! ### the defects the proofs point at, as examples -/

/-- before the fix a struct field was bound to a local of its own name: a field spelled like a
    helper captured it (replayed on the real pipeline: the `capture` stream of the check) -/
example : (genJson bindFieldName (.struct "S" 0 [("json_escape_string", .string)])).scoped = false := by decide
example : (genJson bindFieldName (.struct "S" 0 [("n", .int 32 true), ("bool_to_json", .bool)])).scoped = false := by decide

/-- `%q` is not JSON: `\a`, `\v`, `\x00`, `\x7f`, `\U000e0001` -/
example : (jsonRead (goQuote (fun _ => true) [Char.ofNat 7])).isNone = true := by decide +kernel
example : (jsonRead (goQuote (fun _ => true) [Char.ofNat 11])).isNone = true := by decide +kernel
example : (jsonRead (goQuote (fun _ => true) [Char.ofNat 0])).isNone = true := by decide +kernel
example : (jsonRead (goQuote (fun _ => true) [Char.ofNat 127])).isNone = true := by decide +kernel
example : goQuote (fun _ => false) [Char.ofNat 0xE0001] = "\"\\U000e0001\"".toList := by decide
example : (jsonRead (goQuote (fun _ => false) [Char.ofNat 0xE0001])).isNone = true := by decide +kernel
/-- … while an unprintable rune of the BMP is written `\u0080`, which JSON reads back -/
example : goQuote (fun _ => false) [Char.ofNat 0x80] = "\"\\u0080\"".toList := by decide

/-- a non-finite float is not a JSON number (`%g` writes `+Inf`, `-Inf`, `NaN`) -/
theorem nonfinite_float_not_json :
    validNumber "+Inf".toList = false ∧ validNumber "-Inf".toList = false ∧ validNumber "NaN".toList = false ∧
    (jsonRead "{\"x\":+Inf}".toList).isNone = true := by decide +kernel +kernel

/-! ### non-vacuity: a recursive enum inside a struct, every escape class in a string -/

def exΔ : Defs :=
  [.enum "List" 0 [("Nil", []), ("Cons", [.int 32 true, .named "List"])],
   .struct "Person" 0 [("name", .string), ("tag", .bool), ("self", .named "List"), ("u", .unit)]]

def exV : Val :=
  .struct "Person" [.str ['a', '"', '\\', '\n', Char.ofNat 7, Char.ofNat 127, 'é', Char.ofNat 0x1F600],
    .bool true, .enum "List" 1 [.int (-3), .enum "List" 0 []], .unit]

example : defsOk exΔ = true ∧ variantsDistinct exΔ = true ∧ hasTy exΔ (.named "Person") exV = true ∧ floatsOk exV = true := by decide

example : toJson exΔ exV =
    "{\"name\":\"a\\\"\\\\\\u000a\\u0007\u007fé😀\",\"tag\":true,\"self\":{\"tag\":\"Cons\",\"fields\":[-3,{\"tag\":\"Nil\"}]},\"u\":null}".toList := by
  decide +kernel

example : Derive.toString exΔ exV =
    ("Person { name: a\"\\\n" ++ String.ofList [Char.ofNat 7, Char.ofNat 127] ++ "é😀, tag: true, self: List::Cons(-3, List::Nil), u: () }").toList := by
  decide +kernel

example : (genJson bindFresh (.struct "S" 0 [("json_escape_string", .string), ("x", .int 8 true)])).arms.map (·.binders)
    = [["__field0", "__field1"]] := by decide +kernel

end Goml.C18
