import GomlVerif.Model.Mangle
/-!
# C19 — generated names are unique and never capture Go or runtime names

Property theorems only, over `Model/Mangle.lean` (tied to the Rust by the exhaustive
encoder diff and the whole-program oracle of `./check C19`).

What is proved (for *all* strings / types / indices, no bound):

* `goIdent_legal` — every output of `go_ident` is a legal Go identifier and not a keyword
  (neither of the table extracted from `is_go_keyword` nor of the Go specification's list,
  `keywords_cover_spec`).
* `goIdent_injective_on_source_idents` — on identifiers the goml lexer can produce `go_ident`
  is injective (so two source names never merge by escaping alone).
* `local_vs_temp_disjoint`, `goLocal_ne_goTemp` — a renamed local `hint__idx` is never a
  compiler temporary `prefix ++ digits`, for every prefix passed to `Gensym::gensym`.
* `local_rename_injective`, `gensym_injective` — locals of one package and temporaries of one
  compilation get pairwise distinct Go names.
* `traitImplFnName_injective_partial`, `goTypeNameFor_injective_partial` — the compound encoders
  are injective when component names avoid the separator (`#`, resp. `_`).
* `variant_eq_type_only_if_qualified_partial` — after the fix, a variant struct can share a name
  with a type only through the `Enum_Variant` form.

What is *false* and shown false by `example`s (each replayed on the real compiler by the
check): the full-strength statements `goIdent` injective, `encodeTy` injective,
`goTypeNameFor` injective, `refStructName` injective, `goIdent ∘ traitImplFnName`
injective, "no top-level function is spelled like a temporary / a runtime helper / a
predeclared identifier / `main0`".  They are the known findings of C19.
-/
namespace Goml.Mangle
open Goml.Gen

/-! ## helper lemmas (none weakens a property statement) -/

theorem all_append_iff {α} (p : α → Bool) (a b : List α) :
    (a ++ b).all p = true ↔ a.all p = true ∧ b.all p = true := by
  simp [List.all_append]

theorem alnum_identChar {c : Char} (h : isAsciiAlnum c = true) : isIdentChar c = true := by
  simp [isIdentChar, h]

theorem hexDigit_identChar (n : Nat) : isIdentChar (hexDigit n) = true := by
  have h : n % 16 < 16 := Nat.mod_lt _ (by decide)
  unfold hexDigit
  generalize n % 16 = k at h
  have : ∀ k : Fin 16, isIdentChar (hexChars.getD k.val '0') = true := by decide
  exact this ⟨k, h⟩

theorem hex2_all (b : Nat) : (hex2 b).all isIdentChar = true := by
  simp [hex2, hexDigit_identChar]

theorem escChar_all (c : Char) : (escChar c).all isIdentChar = true := by
  unfold escChar
  split
  · rename_i h; simp [alnum_identChar h]
  · split
    · decide
    · have h1 : escHexOpen.all isIdentChar = true := by decide
      have h2 : isIdentChar escHexClose = true := by decide
      simp only [List.all_append, List.all_flatMap, h1, Bool.true_and, List.all_cons, h2, List.all_nil,
        Bool.and_true]
      simp [hex2_all]

theorem escapeBody_all (s : Name) : (s.flatMap escChar).all isIdentChar = true := by
  simp [List.all_flatMap, escChar_all]

theorem escape_valid (s : Name) : isValidGoIdent (escape s) = true := by
  have hp : escPrefix = '_' :: "goml_".toList := by decide
  unfold escape
  rw [hp]
  show isValidGoIdent ('_' :: ("goml_".toList ++ s.flatMap escChar)) = true
  simp only [isValidGoIdent, List.all_append, Bool.and_eq_true]
  exact ⟨by decide, by decide, escapeBody_all s⟩

theorem escape_head (s : Name) : (escape s).head? = some '_' := by
  have hp : escPrefix = '_' :: "goml_".toList := by decide
  simp [escape, hp]

theorem keyword_head_ne_underscore : ∀ k ∈ keywordNames, k.head? ≠ some '_' := by decide

/-- the 25 keywords of the Go specification (written out here, not extracted) -/
def goSpecKeywords : List Name :=
  ["break", "case", "chan", "const", "continue", "default", "defer", "else", "fallthrough", "for", "func",
   "go", "goto", "if", "import", "interface", "map", "package", "range", "return", "select", "struct",
   "switch", "type", "var"].map String.toList

/-- `is_go_keyword` knows every keyword of the Go specification -/
theorem keywords_cover_spec : ∀ k ∈ goSpecKeywords, isGoKeyword k = true := by decide

theorem escape_not_keyword (s : Name) : isGoKeyword (escape s) = false := by
  cases h : isGoKeyword (escape s) with
  | false => rfl
  | true =>
    have hm : escape s ∈ keywordNames := by simpa [isGoKeyword] using h
    exact absurd (escape_head s) (keyword_head_ne_underscore _ hm)

/-! ## C19.1 legality -/

/-- for **every** string, `go_ident` yields a legal Go identifier that is not a keyword -/
theorem goIdent_legal (s : Name) :
    isValidGoIdent (goIdent s) = true ∧ isGoKeyword (goIdent s) = false ∧ goIdent s ∉ goSpecKeywords := by
  have key : isValidGoIdent (goIdent s) = true ∧ isGoKeyword (goIdent s) = false := by
    unfold goIdent
    split
    · rename_i h
      simp only [Bool.and_eq_true, Bool.not_eq_true'] at h
      exact h
    · exact ⟨escape_valid s, escape_not_keyword s⟩
  refine ⟨key.1, key.2, fun hmem => ?_⟩
  have := keywords_cover_spec _ hmem
  rw [key.2] at this
  exact Bool.noConfusion this

/-- non-vacuity: the escaping branch is taken for keywords and for non-identifiers -/
example : goIdent "type".toList = "_goml_type".toList ∧ goIdent "a/b é".toList = "_goml_a_x2f_b_x20__xc3a9_".toList := by decide

/-- a legal non-keyword name is left alone -/
theorem goIdent_id {s : Name} (h1 : isValidGoIdent s = true) (h2 : isGoKeyword s = false) : goIdent s = s := by
  simp [goIdent, h1, h2]

/-! ## C19.2 source identifiers -/

/-- identifiers of the goml lexer: `[A-Za-z][A-Za-z_0-9]*` -/
def isSrcIdent : Name → Bool
  | [] => false
  | c :: rest => isAsciiAlpha c && rest.all isIdentChar

theorem srcIdent_valid {s : Name} (h : isSrcIdent s = true) : isValidGoIdent s = true := by
  cases s with
  | nil => simp [isSrcIdent] at h
  | cons c rest =>
    simp only [isSrcIdent, Bool.and_eq_true] at h
    simp [isValidGoIdent, isIdentStart, h.1, h.2]

theorem escChar_identChar {c : Char} (h : isIdentChar c = true) : escChar c = [c] := by
  unfold escChar
  split
  · rfl
  · rename_i hn
    have hc : c = '_' := by
      simp only [isIdentChar, Bool.or_eq_true, beq_iff_eq] at h
      rcases h with h | h
      · exact absurd h hn
      · exact h
    subst hc
    decide

theorem escapeBody_id {s : Name} (h : s.all isIdentChar = true) : s.flatMap escChar = s := by
  induction s with
  | nil => rfl
  | cons c rest ih =>
    simp only [List.all_cons, Bool.and_eq_true] at h
    simp [List.flatMap_cons, escChar_identChar h.1, ih h.2]

theorem valid_all {s : Name} (h : isValidGoIdent s = true) : s.all isIdentChar = true := by
  cases s with
  | nil => simp [isValidGoIdent] at h
  | cons c rest =>
    simp only [isValidGoIdent, Bool.and_eq_true] at h
    have : isIdentChar c = true := by
      have := h.1
      simp only [isIdentStart, Bool.or_eq_true] at this
      simp only [isIdentChar, isAsciiAlnum, Bool.or_eq_true]
      rcases this with h' | h'
      · exact Or.inl (Or.inl h')
      · exact Or.inr h'
    simp [this, h.2]

/-- on a legal name the escape is just the prefix -/
theorem goIdent_valid_eq {s : Name} (h : isValidGoIdent s = true) :
    goIdent s = if isGoKeyword s then escPrefix ++ s else s := by
  unfold goIdent escape
  rw [escapeBody_id (valid_all h)]
  cases isGoKeyword s <;> simp [h]

/-- two different identifiers of the source language never get the same Go identifier -/
theorem goIdent_injective_on_source_idents {s t : Name} (hs : isSrcIdent s = true) (ht : isSrcIdent t = true)
    (h : goIdent s = goIdent t) : s = t := by
  have hp : escPrefix = '_' :: "goml_".toList := by decide
  have alpha_ne : ∀ {c : Char} {r : Name} {x : Name}, isSrcIdent (c :: r) = true → (c :: r) = escPrefix ++ x → False := by
    intro c r x hsrc heq
    rw [hp] at heq
    simp only [List.cons_append, List.cons.injEq] at heq
    simp only [isSrcIdent, Bool.and_eq_true] at hsrc
    rw [heq.1] at hsrc
    exact absurd hsrc.1 (by decide)
  rw [goIdent_valid_eq (srcIdent_valid hs), goIdent_valid_eq (srcIdent_valid ht)] at h
  by_cases ks : isGoKeyword s = true <;> by_cases kt : isGoKeyword t = true
  · simp only [ks, kt, if_true] at h
    exact List.append_cancel_left h
  · simp only [ks, kt, if_true] at h
    cases t with
    | nil => simp [isSrcIdent] at ht
    | cons c r => exact (alpha_ne ht h.symm).elim
  · simp only [ks, kt, if_true] at h
    cases s with
    | nil => simp [isSrcIdent] at hs
    | cons c r => exact (alpha_ne hs h).elim
  · simpa [ks, kt] using h

/-- non-vacuity: a keyword and an ordinary identifier, both lexable -/
example : isSrcIdent "range".toList = true ∧ isSrcIdent "a_1".toList = true ∧
    goIdent "range".toList ≠ goIdent "a_1".toList := by decide

/-! ### the hypothesis `isSrcIdent` is the lexer's identifier rule, and the escape prefix is outside it -/

def inRanges (rs : List (Nat × Nat)) (c : Char) : Bool := rs.any fun r => decide (r.1 ≤ c.toNat) && decide (c.toNat ≤ r.2)

theorem char_underscore (c : Char) : (c == '_') = decide (c.toNat = 95) := by
  by_cases h : c = '_'
  · subst h; decide
  · have : c.toNat ≠ 95 := by
      intro hn
      apply h
      apply Char.ext
      apply UInt32.toNat_inj.mp
      exact hn
    rw [decide_eq_false this]
    simpa using h

/-- `isSrcIdent` is exactly the token rule extracted from the lexer on this run: first character in
`lexerIdentFirst`, every following character in `lexerIdentRest` -/
theorem srcIdent_is_lexer_rule :
    (∀ c : Char, isAsciiAlpha c = inRanges lexerIdentFirst c) ∧ (∀ c : Char, isIdentChar c = inRanges lexerIdentRest c) := by
  constructor
  · intro c
    simp only [isAsciiAlpha, isAsciiLower, isAsciiUpper, inRanges, lexerIdentFirst, List.any_cons, List.any_nil, Bool.or_false]
    rw [Bool.eq_iff_iff]
    simp only [Bool.or_eq_true, Bool.and_eq_true, decide_eq_true_eq]
    omega
  · intro c
    simp only [isIdentChar, isAsciiAlnum, isAsciiAlpha, isAsciiLower, isAsciiUpper, isAsciiDigit, inRanges, lexerIdentRest,
      List.any_cons, List.any_nil, Bool.or_false, char_underscore]
    rw [Bool.eq_iff_iff]
    simp only [Bool.or_eq_true, Bool.and_eq_true, decide_eq_true_eq]
    omega

/-- first character of the escape prefix -/
def escPrefixHeadOutsideLexer : Bool :=
  match escPrefix with
  | c :: _ => !inRanges lexerIdentFirst c
  | [] => false

/-- the prefix `go_ident` puts before an escaped name starts with a character no identifier of the
language can start with (checked on the two extracted tables: a prefix such as `goml_`, or an empty
one, fails here) -/
theorem escape_prefix_outside_lexer : escPrefixHeadOutsideLexer = true := by decide

/-- hence no source identifier begins with the escape prefix: an escaped name (keyword or not) can never
be spelled by the user, which is what `goIdent_injective_on_source_idents` rests on -/
theorem escape_prefix_unspellable {s : Name} (h : isSrcIdent s = true) : escPrefix.isPrefixOf s = false := by
  have hp := escape_prefix_outside_lexer
  unfold escPrefixHeadOutsideLexer at hp
  cases hE : escPrefix with
  | nil => rw [hE] at hp; exact Bool.noConfusion hp
  | cons c rest =>
    rw [hE] at hp
    cases s with
    | nil => simp [isSrcIdent] at h
    | cons d r =>
      simp only [isSrcIdent, Bool.and_eq_true] at h
      simp only [List.isPrefixOf, Bool.and_eq_false_iff]
      left
      cases hcd : (c == d) with
      | false => rfl
      | true =>
        have : c = d := by simpa using hcd
        subst this
        have hp' : (!inRanges lexerIdentFirst c) = true := hp
        rw [← srcIdent_is_lexer_rule.1 c, h.1] at hp'
        exact Bool.noConfusion hp'

/-- every escaped name is outside the source language (so it cannot coincide with an unescaped one) -/
theorem escape_not_source_ident (s : Name) : isSrcIdent (escape s) = false := by
  cases h : isSrcIdent (escape s) with
  | false => rfl
  | true =>
    have h1 := escape_prefix_unspellable h
    have h2 : escPrefix.isPrefixOf (escape s) = true := by
      unfold escape
      exact List.isPrefixOf_iff_prefix.mpr (List.prefix_append _ _)
    rw [h2] at h1
    exact Bool.noConfusion h1

/-! ## C19.3 locals and temporaries -/

/-- the digits of a rendered number and what precedes them are determined by the whole string:
`x`, `y` digit strings, followed by a non-digit -/
theorem digit_run_unique {x y r r' : Name} {c c' : Char} (hx : x.all isAsciiDigit = true) (hy : y.all isAsciiDigit = true)
    (hc : isAsciiDigit c = false) (hc' : isAsciiDigit c' = false) (h : x ++ c :: r = y ++ c' :: r') :
    x = y ∧ c :: r = c' :: r' := by
  induction x generalizing y with
  | nil =>
    cases y with
    | nil => exact ⟨rfl, h⟩
    | cons d y' =>
      simp only [List.nil_append, List.cons_append, List.cons.injEq] at h
      simp only [List.all_cons, Bool.and_eq_true] at hy
      rw [← h.1, hc] at hy
      exact absurd hy.1 (by decide)
  | cons d x' ih =>
    cases y with
    | nil =>
      simp only [List.nil_append, List.cons_append, List.cons.injEq] at h
      simp only [List.all_cons, Bool.and_eq_true] at hx
      rw [h.1, hc'] at hx
      exact absurd hx.1 (by decide)
    | cons e y' =>
      simp only [List.cons_append, List.cons.injEq] at h
      simp only [List.all_cons, Bool.and_eq_true] at hx hy
      obtain ⟨h1, h2⟩ := ih hx.2 hy.2 h.2
      exact ⟨by rw [h.1, h1], h2⟩

theorem digits_all (n : Nat) : (digits n).all isAsciiDigit = true := by
  simp only [List.all_eq_true]
  intro c hc
  have := Nat.isDigit_of_mem_toDigits (b := 10) (by decide) (by decide) hc
  simp only [Char.isDigit, Bool.and_eq_true, decide_eq_true_eq] at this
  have h1 : (48 : UInt32).toNat ≤ c.val.toNat := UInt32.le_iff_toNat_le.mp this.1
  have h2 : c.val.toNat ≤ (57 : UInt32).toNat := UInt32.le_iff_toNat_le.mp this.2
  simp only [isAsciiDigit, Bool.and_eq_true, decide_eq_true_eq]
  exact ⟨h1, h2⟩

theorem digits_ne_nil (n : Nat) : digits n ≠ [] := Nat.toDigits_ne_nil

theorem digits_injective {n m : Nat} (h : digits n = digits m) : n = m := by
  have := congrArg (fun l => Nat.ofDigitChars 10 l 0) h
  simpa [digits, Nat.ofDigitChars_ten_toDigits] using this

theorem reverse_all {α} (p : α → Bool) (l : List α) : l.reverse.all p = l.all p := by
  simp [List.all_reverse]

/-- `anf_renamer` leaves a `/`-free name alone -/
theorem renameLocal_id {n : Name} (h : n.all (fun c => c != '/') = true) : renameLocal n = n := by
  induction n with
  | nil => rfl
  | cons c r ih =>
    simp only [List.all_cons, Bool.and_eq_true, bne_iff_ne, ne_eq] at h
    have hc : (c == '/') = false := by simpa using h.1
    have ih' := ih h.2
    unfold renameLocal at ih' ⊢
    rw [List.flatMap_cons, ih', hc]
    rfl

theorem renameLocal_append (a b : Name) : renameLocal (a ++ b) = renameLocal a ++ renameLocal b := by
  simp [renameLocal, List.flatMap_append]

theorem digit_ne_slash {n : Name} (h : n.all isAsciiDigit = true) : n.all (fun c => c != '/') = true := by
  simp only [List.all_eq_true] at h ⊢
  intro c hc
  have := h c hc
  simp only [bne_iff_ne, ne_eq]
  intro heq
  subst heq
  exact absurd this (by decide)

/-- shape of a renamed local: the renamed hint, two underscores, the index digits -/
theorem renameLocal_localName (hint : Name) (idx : Nat) :
    renameLocal (localName hint idx) = renameLocal hint ++ '_' :: '_' :: digits idx := by
  simp only [localName, renameLocal_append, List.append_assoc]
  rw [renameLocal_id (digit_ne_slash (digits_all idx))]
  simp [renameLocal]

/-- last character of a gensym prefix: neither a digit nor `_` -/
def lastOk (p : Name) : Bool :=
  match p.reverse with
  | c :: _ => !isAsciiDigit c && c != '_'
  | [] => false

theorem prefix_lastOk : ∀ p ∈ gensymPrefixNames, lastOk p = true := by decide

theorem prefix_last_not_digit_or_underscore (p : Name) (hp : p ∈ gensymPrefixNames) :
    ∃ c r, p.reverse = c :: r ∧ isAsciiDigit c = false ∧ c ≠ '_' := by
  have h := prefix_lastOk p hp
  unfold lastOk at h
  split at h
  · rename_i c r heq
    simp only [Bool.and_eq_true, Bool.not_eq_true', bne_iff_ne, ne_eq] at h
    exact ⟨c, r, heq, h.1, h.2⟩
  · exact Bool.noConfusion h

/-- **locals vs temporaries**: for every hint (any string at all), every index, every prefix passed
to `Gensym::gensym` anywhere in the compiler and every counter value, the renamed local
`hint__idx` differs from the temporary `prefix ++ counter` -/
theorem local_vs_temp_disjoint (hint : Name) (idx : Nat) (pfx : Name) (n : Nat) (hp : pfx ∈ gensymPrefixNames) :
    renameLocal (localName hint idx) ≠ gensymName pfx n := by
  intro h
  rw [renameLocal_localName] at h
  obtain ⟨c, r, hrev, hd, hu⟩ := prefix_last_not_digit_or_underscore pfx hp
  have h' := congrArg List.reverse h
  simp only [gensymName, List.reverse_append, List.reverse_cons, List.append_assoc, List.cons_append,
    List.nil_append, hrev] at h'
  have := digit_run_unique (x := (digits idx).reverse) (y := (digits n).reverse) (c := '_') (c' := c)
    (by rw [reverse_all]; exact digits_all idx) (by rw [reverse_all]; exact digits_all n) (by decide) hd h'
  simp only [List.cons.injEq] at this
  exact hu this.2.1.symm

/-- non-vacuity / sharpness: the statement is about the separator, not about the hint — a hint that
itself looks like a temporary is still kept apart -/
example : renameLocal (localName "t".toList 2) = "t__2".toList ∧ gensymName "t".toList 2 = "t2".toList := by decide

theorem keyword_no_underscore_no_digit : ∀ k ∈ keywordNames, k.all (fun c => c != '_' && !isAsciiDigit c) = true := by decide

theorem not_keyword_of_mem {s : Name} {c : Char} (hc : c ∈ s) (h : c = '_' ∨ isAsciiDigit c = true) :
    isGoKeyword s = false := by
  cases hk : isGoKeyword s with
  | false => rfl
  | true =>
    have hm : s ∈ keywordNames := by simpa [isGoKeyword] using hk
    have := keyword_no_underscore_no_digit s hm
    simp only [List.all_eq_true, Bool.and_eq_true, bne_iff_ne, ne_eq, Bool.not_eq_true'] at this
    have hh := this c hc
    rcases h with h | h
    · exact absurd h hh.1
    · rw [hh.2] at h; exact Bool.noConfusion h

theorem valid_append {a b : Name} (ha : isValidGoIdent a = true) (hb : b.all isIdentChar = true) :
    isValidGoIdent (a ++ b) = true := by
  cases a with
  | nil => simp [isValidGoIdent] at ha
  | cons c r =>
    simp only [isValidGoIdent, Bool.and_eq_true] at ha
    simp [isValidGoIdent, ha.1, ha.2, List.all_append, hb]

theorem digit_identChar_all {n : Name} (h : n.all isAsciiDigit = true) : n.all isIdentChar = true := by
  simp only [List.all_eq_true] at h ⊢
  intro c hc
  simp [isIdentChar, isAsciiAlnum, h c hc]

theorem srcIdent_no_slash {s : Name} (h : isSrcIdent s = true) : s.all (fun c => c != '/') = true := by
  have := valid_all (srcIdent_valid h)
  simp only [List.all_eq_true] at this ⊢
  intro c hc
  simp only [bne_iff_ne, ne_eq]
  intro heq
  subst heq
  exact absurd (this _ hc) (by decide)

/-- the Go name of a local whose hint is a source identifier is `hint__idx` itself -/
theorem goLocal_eq {hint : Name} (h : isSrcIdent hint = true) (idx : Nat) :
    goLocal hint idx = hint ++ '_' :: '_' :: digits idx := by
  unfold goLocal
  rw [renameLocal_localName, renameLocal_id (srcIdent_no_slash h)]
  apply goIdent_id
  · apply valid_append (srcIdent_valid h)
    simp [List.all_cons, digit_identChar_all (digits_all idx)]
    decide
  · exact not_keyword_of_mem (c := '_') (by simp) (Or.inl rfl)

theorem prefix_valid : ∀ p ∈ gensymPrefixNames, isValidGoIdent p = true := by decide

/-- the Go name of a temporary is `prefix ++ counter` itself -/
theorem goTemp_eq {pfx : Name} (hp : pfx ∈ gensymPrefixNames) (n : Nat) : goTemp pfx n = pfx ++ digits n := by
  unfold goTemp gensymName
  apply goIdent_id
  · exact valid_append (prefix_valid pfx hp) (digit_identChar_all (digits_all n))
  · cases hd : digits n with
    | nil => exact absurd hd (digits_ne_nil n)
    | cons d r =>
      have hdig : isAsciiDigit d = true := by
        have := digits_all n
        rw [hd] at this
        simp only [List.all_cons, Bool.and_eq_true] at this
        exact this.1
      exact not_keyword_of_mem (c := d) (by simp) (Or.inr hdig)

/-- the same on the identifiers that reach the Go file (after `go_ident`) -/
theorem goLocal_ne_goTemp {hint : Name} (h : isSrcIdent hint = true) (idx : Nat) {pfx : Name}
    (hp : pfx ∈ gensymPrefixNames) (n : Nat) : goLocal hint idx ≠ goTemp pfx n := by
  rw [goLocal_eq h, goTemp_eq hp]
  have := local_vs_temp_disjoint hint idx pfx n hp
  rw [renameLocal_localName, renameLocal_id (srcIdent_no_slash h)] at this
  exact this

/-- two locals of one package (distinct `idx`, or distinct hints) get distinct Go names -/
theorem local_rename_injective {h₁ h₂ : Name} (s₁ : isSrcIdent h₁ = true) (s₂ : isSrcIdent h₂ = true) {i₁ i₂ : Nat}
    (h : goLocal h₁ i₁ = goLocal h₂ i₂) : h₁ = h₂ ∧ i₁ = i₂ := by
  rw [goLocal_eq s₁, goLocal_eq s₂] at h
  have h' := congrArg List.reverse h
  simp only [List.reverse_append, List.reverse_cons, List.append_assoc, List.cons_append, List.nil_append] at h'
  have := digit_run_unique (x := (digits i₁).reverse) (y := (digits i₂).reverse) (c := '_') (c' := '_')
    (by rw [reverse_all]; exact digits_all i₁) (by rw [reverse_all]; exact digits_all i₂) (by decide) (by decide) h'
  have hd : digits i₁ = digits i₂ := List.reverse_inj.mp this.1
  have hr : h₁.reverse = h₂.reverse := by
    have := this.2
    simp only [List.cons.injEq, true_and] at this
    exact this
  exact ⟨List.reverse_inj.mp hr, digits_injective hd⟩

/-- two temporaries drawn from the one shared counter get distinct names (whatever their prefixes) -/
theorem gensym_injective {p q : Name} (hp : p ∈ gensymPrefixNames) (hq : q ∈ gensymPrefixNames) {n m : Nat}
    (h : gensymName p n = gensymName q m) : p = q ∧ n = m := by
  obtain ⟨c, r, hrev, hd, _⟩ := prefix_last_not_digit_or_underscore p hp
  obtain ⟨c', r', hrev', hd', _⟩ := prefix_last_not_digit_or_underscore q hq
  have h' := congrArg List.reverse h
  simp only [gensymName, List.reverse_append, hrev, hrev'] at h'
  have := digit_run_unique (x := (digits n).reverse) (y := (digits m).reverse)
    (by rw [reverse_all]; exact digits_all n) (by rw [reverse_all]; exact digits_all m) hd hd' h'
  refine ⟨?_, digits_injective (List.reverse_inj.mp this.1)⟩
  have : p.reverse = q.reverse := by rw [hrev, hrev']; exact this.2
  exact List.reverse_inj.mp this

/-- non-vacuity: the table is not empty and contains the prefixes ANF and the match compiler use -/
example : "t".toList ∈ gensymPrefixNames ∧ "mtmp".toList ∈ gensymPrefixNames ∧ "_wild".toList ∈ gensymPrefixNames := by decide

/-! ## C19.4 compound names -/

theorem sep_split_unique {sep : Char} {a a' b b' : Name} (ha : a.all (fun c => c != sep) = true)
    (ha' : a'.all (fun c => c != sep) = true) (h : a ++ sep :: b = a' ++ sep :: b') : a = a' ∧ b = b' := by
  induction a generalizing a' with
  | nil =>
    cases a' with
    | nil => simpa using h
    | cons c r =>
      simp only [List.nil_append, List.cons_append, List.cons.injEq] at h
      simp only [List.all_cons, Bool.and_eq_true, bne_iff_ne, ne_eq] at ha'
      exact absurd h.1.symm ha'.1
  | cons c r ih =>
    cases a' with
    | nil =>
      simp only [List.nil_append, List.cons_append, List.cons.injEq] at h
      simp only [List.all_cons, Bool.and_eq_true, bne_iff_ne, ne_eq] at ha
      exact absurd h.1 ha.1
    | cons c' r' =>
      simp only [List.cons_append, List.cons.injEq] at h
      simp only [List.all_cons, Bool.and_eq_true] at ha ha'
      obtain ⟨h1, h2⟩ := ih ha.2 ha'.2 h.2
      exact ⟨by rw [h.1, h1], h2⟩

def hashFree (n : Name) : Bool := n.all (fun c => c != '#')

/-- `trait_impl#Tr#ty#m` determines `(Tr, ty_compact ty, m)` as long as the trait name and the
compact type text contain no `#` (true of everything the lexer accepts).  PARTIAL: injectivity in
the *type* needs `tyCompact` injective, which fails only for an enum and a struct of one name and
for names containing white space (`example`s below); and the statement is about the name *before*
`go_ident`, which merges `#` with `_` (negative witness `traitImpl_goIdent_collision`). -/
theorem traitImplFnName_injective_partial {tr tr' m m' : Name} {t t' : Ty} (h1 : hashFree tr = true) (h1' : hashFree tr' = true)
    (h2 : hashFree (tyCompact t) = true) (h2' : hashFree (tyCompact t') = true)
    (h : traitImplFnName tr t m = traitImplFnName tr' t' m') : tr = tr' ∧ tyCompact t = tyCompact t' ∧ m = m' := by
  unfold traitImplFnName at h
  simp only [List.append_assoc, List.cons_append, List.nil_append, List.cons.injEq, true_and] at h
  obtain ⟨e1, h⟩ := sep_split_unique h1 h1' h
  obtain ⟨e2, e3⟩ := sep_split_unique h2 h2' h
  exact ⟨e1, e2, e3⟩

example : hashFree "Show".toList = true ∧ hashFree (tyCompact (.tapp (.tstruct "P".toList) [.prim .int32])) = true := by decide

/-! ## C19.5 `go_type_name_for` on the `_`-free fragment -/

/-- first token of a composite name: `Tuple…`, `Array…`, `Vec` -/
def isHeadTok : Name → Bool
  | 'T' :: 'u' :: 'p' :: 'l' :: 'e' :: _ => true
  | 'A' :: 'r' :: 'r' :: 'a' :: 'y' :: _ => true
  | ['V', 'e', 'c'] => true
  | _ => false

def primSpellings : List Name := Prim.all.map goTypeNamePrim

/-- side condition on struct/enum names: a lexer identifier without `_`, not a Go keyword, not the
spelling of a primitive and not shaped like the head of a composite name -/
def atomOk (n : Name) : Bool :=
  isSrcIdent n && n.all (fun c => c != '_') && !isGoKeyword n && !primSpellings.contains n && !isHeadTok n

mutual
/-- the fragment: primitives, structs with `atomOk` names, tuples, `Vec`, arrays -/
def simple : Ty → Bool
  | .prim _ => true
  | .tstruct n => atomOk n
  | .ttuple ts => simples ts
  | .tvec e => simple e
  | .tarray _ e => simple e
  | _ => false
def simples : List Ty → Bool
  | [] => true
  | t :: ts => simple t && simples ts
end

mutual
/-- prefix serialisation of a fragment type into `_`-free tokens -/
def toks : Ty → List Name
  | .prim p => [goTypeNamePrim p]
  | .tstruct n => [n]
  | .ttuple ts => (['T', 'u', 'p', 'l', 'e'] ++ digits ts.length) :: toksList ts
  | .tvec e => ['V', 'e', 'c'] :: toks e
  | .tarray len e => (['A', 'r', 'r', 'a', 'y'] ++ digits len) :: toks e
  | _ => []
def toksList : List Ty → List Name
  | [] => []
  | t :: ts => toks t ++ toksList ts
end

/-- every token preceded by `_` -/
def pre (xs : List Name) : Name := xs.flatMap fun x => '_' :: x

def tokOk (x : Name) : Bool := !x.isEmpty && x.all isAsciiAlnum

theorem pre_append (a b : List Name) : pre (a ++ b) = pre a ++ pre b := by simp [pre, List.flatMap_append]

theorem alnum_ne_underscore {x : Name} (h : x.all isAsciiAlnum = true) : x.all (fun c => c != '_') = true := by
  simp only [List.all_eq_true] at h ⊢
  intro c hc
  simp only [bne_iff_ne, ne_eq]
  intro heq; subst heq
  exact absurd (h _ hc) (by decide)

theorem pre_nil : pre [] = [] := rfl
theorem pre_cons2 (x : Name) (xs : List Name) : pre (x :: xs) = '_' :: (x ++ pre xs) := by simp [pre, List.flatMap_cons]

theorem pre_injective {xs ys : List Name} (hx : xs.all tokOk = true) (hy : ys.all tokOk = true) (h : pre xs = pre ys) : xs = ys := by
  induction xs generalizing ys with
  | nil =>
    cases ys with
    | nil => rfl
    | cons y ys => rw [pre_nil, pre_cons2] at h; exact absurd h (by simp)
  | cons x xs ih =>
    cases ys with
    | nil => rw [pre_nil, pre_cons2] at h; exact absurd h (by simp)
    | cons y ys =>
      simp only [List.all_cons, Bool.and_eq_true, tokOk] at hx hy
      have hxu := alnum_ne_underscore hx.1.2
      have hyu := alnum_ne_underscore hy.1.2
      rw [pre_cons2, pre_cons2] at h
      simp only [List.cons.injEq, true_and] at h
      cases xs with
      | nil =>
        cases ys with
        | nil => rw [pre_nil, List.append_nil, List.append_nil] at h; rw [h]
        | cons y' ys' =>
          exfalso
          rw [pre_nil, List.append_nil, pre_cons2] at h
          have : '_' ∈ x := by rw [h]; simp
          simp only [List.all_eq_true, bne_iff_ne, ne_eq] at hxu
          exact hxu _ this rfl
      | cons x' xs' =>
        cases ys with
        | nil =>
          exfalso
          rw [pre_nil, List.append_nil, pre_cons2] at h
          have : '_' ∈ y := by rw [← h]; simp
          simp only [List.all_eq_true, bne_iff_ne, ne_eq] at hyu
          exact hyu _ this rfl
        | cons y' ys' =>
          have h' := h
          rw [pre_cons2 x', pre_cons2 y'] at h'
          obtain ⟨e1, e2⟩ := sep_split_unique hxu hyu h'
          have e3 : pre (x' :: xs') = pre (y' :: ys') := by rw [pre_cons2, pre_cons2, e2]
          have := ih (ys := y' :: ys') hx.2 hy.2 e3
          rw [e1, this]

theorem primSpelling_tokOk : ∀ p : Prim, tokOk (goTypeNamePrim p) = true := by
  intro p; cases p <;> decide

theorem primSpelling_not_head : ∀ p : Prim, isHeadTok (goTypeNamePrim p) = false := by
  intro p; cases p <;> decide

theorem primSpelling_injective : ∀ p q : Prim, goTypeNamePrim p = goTypeNamePrim q → p = q := by
  intro p q; cases p <;> cases q <;> first | (intro _; rfl) | (intro h; exact absurd h (by decide))


theorem digits_alnum (n : Nat) : (digits n).all isAsciiAlnum = true := by
  have := digits_all n
  simp only [List.all_eq_true] at this ⊢
  intro c hc
  simp [isAsciiAlnum, this c hc]

theorem atomOk_tokOk {n : Name} (h : atomOk n = true) : tokOk n = true := by
  simp only [atomOk, Bool.and_eq_true] at h
  obtain ⟨⟨⟨⟨hs, hu⟩, _⟩, _⟩, _⟩ := h
  cases n with
  | nil => simp [isSrcIdent] at hs
  | cons c r =>
    simp only [isSrcIdent, Bool.and_eq_true] at hs
    simp only [tokOk, List.isEmpty_cons, Bool.not_false, Bool.true_and, List.all_cons, Bool.and_eq_true]
    constructor
    · simp [isAsciiAlnum, hs.1]
    · simp only [List.all_cons, Bool.and_eq_true] at hu
      have hr := hs.2
      have hu2 := hu.2
      simp only [List.all_eq_true] at hr hu2 ⊢
      intro d hd
      have h1 := hr d hd
      have h2 := hu2 d hd
      simp only [isIdentChar, Bool.or_eq_true, beq_iff_eq] at h1
      simp only [bne_iff_ne, ne_eq] at h2
      rcases h1 with h1 | h1
      · exact h1
      · exact absurd h1 h2

theorem atomOk_goIdent {n : Name} (h : atomOk n = true) : goIdent n = n := by
  simp only [atomOk, Bool.and_eq_true, Bool.not_eq_true'] at h
  exact goIdent_id (srcIdent_valid h.1.1.1.1) h.1.1.2

/-- all tokens of a fragment type are non-empty and alphanumeric, and there is at least one -/
theorem toks_ok (t : Ty) : simple t = true → (toks t).all tokOk = true ∧ toks t ≠ [] := by
  apply Ty.rec
    (motive_1 := fun t => simple t = true → (toks t).all tokOk = true ∧ toks t ≠ [])
    (motive_2 := fun ts => simples ts = true → (toksList ts).all tokOk = true)
  · intro n h; simp [simple] at h
  · intro p _; simp [toks, primSpelling_tokOk]
  · intro ts ih h
    simp only [simple] at h
    simp only [toks, List.all_cons, Bool.and_eq_true, ne_eq, reduceCtorEq, not_false_eq_true, and_true]
    refine ⟨?_, ih h⟩
    simp only [tokOk, Bool.and_eq_true, Bool.not_eq_true', List.all_append, digits_alnum]
    simp; decide
  · intro n h; simp [simple] at h
  · intro n h
    simp only [simple] at h
    simp [toks, atomOk_tokOk h]
  · intro n h; simp [simple] at h
  · intro t args _ _ h; simp [simple] at h
  · intro len e ih h
    simp only [simple] at h
    simp only [toks, List.all_cons, Bool.and_eq_true, ne_eq, reduceCtorEq, not_false_eq_true, and_true]
    refine ⟨?_, (ih h).1⟩
    simp only [tokOk, Bool.and_eq_true, Bool.not_eq_true', List.all_append, digits_alnum]
    simp; decide
  · intro e ih h
    simp only [simple] at h
    simp only [toks, List.all_cons, Bool.and_eq_true, ne_eq, reduceCtorEq, not_false_eq_true, and_true]
    exact ⟨by decide, (ih h).1⟩
  · intro e _ h; simp [simple] at h
  · intro n h; simp [simple] at h
  · intro ps r _ _ h; simp [simple] at h
  · intro _; simp [toksList]
  · intro t ts iht ihts h
    simp only [simples, Bool.and_eq_true] at h
    simp only [toksList, List.all_append, Bool.and_eq_true]
    exact ⟨(iht h.1).1, ihts h.2⟩

theorem pre_all_identChar {xs : List Name} (h : xs.all tokOk = true) : (pre xs).all isIdentChar = true := by
  induction xs with
  | nil => rfl
  | cons x xs ih =>
    simp only [List.all_cons, Bool.and_eq_true, tokOk] at h
    rw [pre_cons2]
    simp only [List.all_cons, List.all_append, Bool.and_eq_true]
    refine ⟨by decide, ?_, ih h.2⟩
    have := h.1.2
    simp only [List.all_eq_true] at this ⊢
    intro c hc
    exact alnum_identChar (this c hc)

theorem replaced_not_identChar : ∀ c ∈ typeNameReplaced, isIdentChar c = false := by decide

theorem replaceChars_id {n : Name} (h : n.all isIdentChar = true) : replaceChars typeNameReplaced n = n := by
  unfold replaceChars
  induction n with
  | nil => rfl
  | cons c r ih =>
    simp only [List.all_cons, Bool.and_eq_true] at h
    have : typeNameReplaced.contains c = false := by
      cases hc : typeNameReplaced.contains c with
      | false => rfl
      | true =>
        have := replaced_not_identChar c (by simpa using hc)
        rw [h.1] at this
        exact Bool.noConfusion this
    simp only [List.map_cons, this]
    rw [ih h.2]
    rfl

theorem name_all_of_pre {n : Name} {xs : List Name} (h : '_' :: n = pre xs) (hx : xs.all tokOk = true) : n.all isIdentChar = true := by
  have := pre_all_identChar hx
  rw [← h] at this
  simp only [List.all_cons, Bool.and_eq_true] at this
  exact this.2

/-- on the fragment the type name is the `_`-joined token list -/
theorem name_eq_pre (t : Ty) : simple t = true → '_' :: goTypeNameFor t = pre (toks t) := by
  apply Ty.rec
    (motive_1 := fun t => simple t = true → '_' :: goTypeNameFor t = pre (toks t))
    (motive_2 := fun ts => simples ts = true → goTypeNameComps ts = pre (toksList ts))
  · intro n h; simp [simple] at h
  · intro p _
    simp only [goTypeNameFor, toks]
    rw [pre_cons2, pre_nil, List.append_nil]
  · intro ts ih h
    simp only [simple] at h
    simp only [goTypeNameFor, toks]
    rw [pre_cons2, ih h, List.append_assoc]
  · intro n h; simp [simple] at h
  · intro n h
    simp only [simple] at h
    simp only [goTypeNameFor, toks]
    rw [pre_cons2, pre_nil, List.append_nil, atomOk_goIdent h]
  · intro n h; simp [simple] at h
  · intro t args _ _ h; simp [simple] at h
  · intro len e ih h
    simp only [simple] at h
    have hn := name_all_of_pre (ih h) (toks_ok e h).1
    simp only [goTypeNameFor, toks]
    rw [pre_cons2, ← ih h, replaceChars_id hn]
    simp
  · intro e ih h
    simp only [simple] at h
    have hn := name_all_of_pre (ih h) (toks_ok e h).1
    simp only [goTypeNameFor, toks]
    rw [pre_cons2, ← ih h, replaceChars_id hn]
    simp
  · intro e _ h; simp [simple] at h
  · intro n h; simp [simple] at h
  · intro ps r _ _ h; simp [simple] at h
  · intro _; simp [goTypeNameComps, toksList, pre_nil]
  · intro t ts iht ihts h
    simp only [simples, Bool.and_eq_true] at h
    have hn := name_all_of_pre (iht h.1) (toks_ok t h.1).1
    simp only [goTypeNameComps, toksList]
    rw [pre_append, ← iht h.1, ← ihts h.2, replaceChars_id hn]
    simp

theorem prim_mem_all : ∀ p : Prim, p ∈ Prim.all := by intro p; cases p <;> decide

theorem atom_ne_prim {n : Name} (h : atomOk n = true) (p : Prim) : goTypeNamePrim p ≠ n := by
  intro heq
  simp only [atomOk, Bool.and_eq_true, Bool.not_eq_true'] at h
  have hc := h.1.2
  have : n ∈ primSpellings := by
    rw [← heq]; exact List.mem_map.mpr ⟨p, prim_mem_all p, rfl⟩
  have : primSpellings.contains n = true := by simpa using this
  rw [hc] at this
  exact Bool.noConfusion this

theorem atom_not_head {n : Name} (h : atomOk n = true) : isHeadTok n = false := by
  simp only [atomOk, Bool.and_eq_true, Bool.not_eq_true'] at h
  exact h.2

theorem head_tuple (ds : Name) : isHeadTok (['T', 'u', 'p', 'l', 'e'] ++ ds) = true := rfl
theorem head_array (ds : Name) : isHeadTok (['A', 'r', 'r', 'a', 'y'] ++ ds) = true := rfl
theorem head_vec : isHeadTok ['V', 'e', 'c'] = true := rfl

theorem not_head_of_eq {x y : Name} (hx : isHeadTok x = false) (hy : isHeadTok y = true) : x ≠ y := by
  intro h; rw [h, hy] at hx; exact Bool.noConfusion hx

/-- the token stream parses in exactly one way -/
theorem toks_unique (t : Ty) : ∀ u r r', simple t = true → simple u = true → toks t ++ r = toks u ++ r' → t = u ∧ r = r' := by
  apply Ty.rec
    (motive_1 := fun t => ∀ u r r', simple t = true → simple u = true → toks t ++ r = toks u ++ r' → t = u ∧ r = r')
    (motive_2 := fun ts => ∀ us r r', simples ts = true → simples us = true → ts.length = us.length →
      toksList ts ++ r = toksList us ++ r' → ts = us ∧ r = r')
  · intro n u r r' h; simp [simple] at h
  · -- prim
    intro p u r r' _ hu h
    cases u with
    | prim q =>
      simp only [toks, List.cons_append, List.nil_append, List.cons.injEq] at h
      exact ⟨by rw [primSpelling_injective p q h.1], h.2⟩
    | tstruct n =>
      simp only [simple] at hu
      simp only [toks, List.cons_append, List.nil_append, List.cons.injEq] at h
      exact absurd h.1 (atom_ne_prim hu p)
    | ttuple us =>
      simp only [toks, List.cons_append, List.nil_append, List.cons.injEq] at h
      exact absurd h.1 (not_head_of_eq (primSpelling_not_head p) (head_tuple _))
    | tvec e =>
      simp only [toks, List.cons_append, List.nil_append, List.cons.injEq] at h
      exact absurd h.1 (not_head_of_eq (primSpelling_not_head p) head_vec)
    | tarray len e =>
      simp only [toks, List.cons_append, List.nil_append, List.cons.injEq] at h
      exact absurd h.1 (not_head_of_eq (primSpelling_not_head p) (head_array _))
    | _ => simp [simple] at hu
  · -- tuple
    intro ts ih u r r' ht hu h
    simp only [simple] at ht
    cases u with
    | prim q =>
      simp only [toks, List.cons_append, List.nil_append, List.cons.injEq] at h
      exact absurd h.1.symm (not_head_of_eq (primSpelling_not_head q) (head_tuple _))
    | tstruct n =>
      simp only [simple] at hu
      simp only [toks, List.cons_append, List.nil_append, List.cons.injEq] at h
      exact absurd h.1.symm (not_head_of_eq (atom_not_head hu) (head_tuple _))
    | ttuple us =>
      simp only [simple] at hu
      simp only [toks, List.cons_append, List.cons.injEq, List.nil_append, true_and] at h
      have hl : ts.length = us.length := digits_injective h.1
      obtain ⟨e1, e2⟩ := ih us r r' ht hu hl h.2
      exact ⟨by rw [e1], e2⟩
    | tvec e =>
      simp only [toks, List.cons_append, List.cons.injEq] at h
      exact absurd h.1 (by simp)
    | tarray len e =>
      simp only [toks, List.cons_append, List.cons.injEq] at h
      exact absurd h.1 (by simp)
    | _ => simp [simple] at hu
  · intro n u r r' h; simp [simple] at h
  · -- struct
    intro n u r r' ht hu h
    simp only [simple] at ht
    cases u with
    | prim q =>
      simp only [toks, List.cons_append, List.nil_append, List.cons.injEq] at h
      exact absurd h.1.symm (atom_ne_prim ht q)
    | tstruct m =>
      simp only [toks, List.cons_append, List.nil_append, List.cons.injEq] at h
      exact ⟨by rw [h.1], h.2⟩
    | ttuple us =>
      simp only [toks, List.cons_append, List.nil_append, List.cons.injEq] at h
      exact absurd h.1 (not_head_of_eq (atom_not_head ht) (head_tuple _))
    | tvec e =>
      simp only [toks, List.cons_append, List.nil_append, List.cons.injEq] at h
      exact absurd h.1 (not_head_of_eq (atom_not_head ht) head_vec)
    | tarray len e =>
      simp only [toks, List.cons_append, List.nil_append, List.cons.injEq] at h
      exact absurd h.1 (not_head_of_eq (atom_not_head ht) (head_array _))
    | _ => simp [simple] at hu
  · intro n u r r' h; simp [simple] at h
  · intro t args _ _ u r r' h; simp [simple] at h
  · -- array
    intro len e ih u r r' ht hu h
    simp only [simple] at ht
    cases u with
    | prim q =>
      simp only [toks, List.cons_append, List.nil_append, List.cons.injEq] at h
      exact absurd h.1.symm (not_head_of_eq (primSpelling_not_head q) (head_array _))
    | tstruct n =>
      simp only [simple] at hu
      simp only [toks, List.cons_append, List.nil_append, List.cons.injEq] at h
      exact absurd h.1.symm (not_head_of_eq (atom_not_head hu) (head_array _))
    | ttuple us =>
      simp only [toks, List.cons_append, List.cons.injEq] at h
      exact absurd h.1 (by simp)
    | tvec e' =>
      simp only [toks, List.cons_append, List.cons.injEq] at h
      exact absurd h.1 (by simp)
    | tarray len' e' =>
      simp only [simple] at hu
      simp only [toks, List.cons_append, List.cons.injEq, List.nil_append, true_and] at h
      have hl : len = len' := digits_injective h.1
      obtain ⟨e1, e2⟩ := ih e' r r' ht hu h.2
      exact ⟨by rw [hl, e1], e2⟩
    | _ => simp [simple] at hu
  · -- vec
    intro e ih u r r' ht hu h
    simp only [simple] at ht
    cases u with
    | prim q =>
      simp only [toks, List.cons_append, List.nil_append, List.cons.injEq] at h
      exact absurd h.1.symm (not_head_of_eq (primSpelling_not_head q) head_vec)
    | tstruct n =>
      simp only [simple] at hu
      simp only [toks, List.cons_append, List.nil_append, List.cons.injEq] at h
      exact absurd h.1.symm (not_head_of_eq (atom_not_head hu) head_vec)
    | ttuple us =>
      simp only [toks, List.cons_append, List.cons.injEq] at h
      exact absurd h.1 (by simp)
    | tvec e' =>
      simp only [simple] at hu
      simp only [toks, List.cons_append, List.cons.injEq, true_and] at h
      obtain ⟨e1, e2⟩ := ih e' r r' ht hu h
      exact ⟨by rw [e1], e2⟩
    | tarray len' e' =>
      simp only [toks, List.cons_append, List.cons.injEq] at h
      exact absurd h.1 (by simp)
    | _ => simp [simple] at hu
  · intro e _ u r r' h; simp [simple] at h
  · intro n u r r' h; simp [simple] at h
  · intro ps r _ _ u r0 r' h; simp [simple] at h
  · -- nil
    intro us r r' _ _ hl h
    cases us with
    | nil => exact ⟨rfl, by simpa [toksList] using h⟩
    | cons u us => simp at hl
  · -- cons
    intro t ts iht ihts us r r' ht hu hl h
    cases us with
    | nil => simp at hl
    | cons u us =>
      simp only [simples, Bool.and_eq_true] at ht hu
      simp only [toksList, List.append_assoc] at h
      obtain ⟨e1, e2⟩ := iht u _ _ ht.1 hu.1 h
      obtain ⟨e3, e4⟩ := ihts us r r' ht.2 hu.2 (by simpa using hl) e2
      exact ⟨by rw [e1, e3], e4⟩

/-- **`go_type_name_for` is injective on the `_`-free fragment** (primitives, structs whose names
satisfy `atomOk`, tuples, `Vec`, arrays, nested arbitrarily): the arity/length prefix makes the
serialisation prefix-free.  PARTIAL — missing from the full statement: names containing `_`
(collision `Tuple2_A_B_C`), `Ref` (lower-casing), function types (`TFunc_unit_…`), enum vs struct of
one name, generic applications (the arguments are dropped: only reachable before monomorphisation). -/
theorem goTypeNameFor_injective_partial {t u : Ty} (ht : simple t = true) (hu : simple u = true)
    (h : goTypeNameFor t = goTypeNameFor u) : t = u := by
  have h1 : pre (toks t) = pre (toks u) := by rw [← name_eq_pre t ht, ← name_eq_pre u hu, h]
  have h2 := pre_injective (toks_ok t ht).1 (toks_ok u hu).1 h1
  have := toks_unique t u [] [] ht hu (by rw [h2])
  exact this.1

/-- non-vacuity: nested tuples with arrays and vectors are in the fragment, and the arity prefix is
what separates `((a,b),c)` from `(a,(b,c))` -/
example : simple (.ttuple [.ttuple [.tstruct ['a'], .tstruct ['b']], .tarray 3 (.tvec (.prim .int32))]) = true := by decide
example : goTypeNameFor (.ttuple [.ttuple [.tstruct ['a'], .tstruct ['b']], .tstruct ['c']]) = "Tuple2_Tuple2_a_b_c".toList ∧
    goTypeNameFor (.ttuple [.tstruct ['a'], .ttuple [.tstruct ['b'], .tstruct ['c']]]) = "Tuple2_a_Tuple2_b_c".toList := by decide

/-! ## C19.6 `ty_compact` — the spelling `ensure_instance` and `spec_name_for` use for type arguments -/

def tyCompacts (ts : List Ty) : List Name := ts.map tyCompact
/-- comma-joined compact spellings -/
def joinC (ts : List Ty) : Name := join [','] (tyCompacts ts)

theorem tyPrettys_eq_map (ts : List Ty) : tyPrettys ts = ts.map tyPretty := by
  induction ts with
  | nil => simp [tyPrettys]
  | cons t ts ih => simp [tyPrettys, ih]

theorem filter_join (p : Char → Bool) (sep : Name) (xs : List Name) :
    (join sep xs).filter p = join (sep.filter p) (xs.map (List.filter p)) := by
  induction xs with
  | nil => simp [join]
  | cons x rest ih =>
    cases rest with
    | nil => simp [join]
    | cons y rest' =>
      simp only [join, List.filter_append, List.map_cons] at ih ⊢
      rw [ih]

theorem compact_sep : (", ".toList).filter (fun c => !isWhitespace c) = [','] := by decide

theorem compact_join (ts : List Ty) :
    (join ", ".toList (tyPrettys ts)).filter (fun c => !isWhitespace c) = joinC ts := by
  rw [filter_join, compact_sep, tyPrettys_eq_map]
  simp only [joinC, tyCompacts, List.map_map]
  rfl

theorem tyCompact_tuple (ts : List Ty) : tyCompact (.ttuple ts) = '(' :: joinC ts ++ [')'] := by
  have h := compact_join ts
  have e : [',', ' '] = ", ".toList := by decide
  simp only [tyCompact, tyPretty, List.filter_append, List.cons_append, List.nil_append, List.filter_cons]
  rw [e, h]
  have h1 : isWhitespace '(' = false := by decide
  have h2 : isWhitespace ')' = false := by decide
  simp [h1, h2]

theorem tyCompact_app (t : Ty) (a : Ty) (as : List Ty) :
    tyCompact (.tapp t (a :: as)) = tyCompact t ++ '[' :: joinC (a :: as) ++ [']'] := by
  have h := compact_join (a :: as)
  have e : [',', ' '] = ", ".toList := by decide
  simp only [tyCompact, tyPretty, List.filter_append, List.cons_append, List.nil_append, List.filter_cons]
  rw [e, h]
  have h1 : isWhitespace '[' = false := by decide
  have h2 : isWhitespace ']' = false := by decide
  simp [h1, h2, tyCompact]

def primDocSpellings : List Name := Prim.all.map toDocPrim

/-- side condition on struct names: non-empty, identifier characters only, not the spelling of a primitive -/
def identOk (n : Name) : Bool := !n.isEmpty && n.all isIdentChar && !primDocSpellings.contains n

mutual
/-- the fragment: primitives, structs with `identOk` names, tuples (any arity, `()` and `(a)` included),
applications `S[a, …]` of such a struct to at least one argument — nested arbitrarily -/
def cfrag : Ty → Bool
  | .prim _ => true
  | .tstruct n => identOk n
  | .ttuple ts => cfrags ts
  | .tapp t args => (match t with | .tstruct n => identOk n | _ => false) && !args.isEmpty && cfrags args
  | _ => false
def cfrags : List Ty → Bool
  | [] => true
  | t :: ts => cfrag t && cfrags ts
end

/-- what may follow a complete type spelling inside a larger one -/
def stopOk : Name → Bool
  | [] => true
  | c :: _ => c == ',' || c == ')' || c == ']'

def headNot (p : Char → Bool) : Name → Bool
  | [] => true
  | c :: _ => !p c

theorem run_unique (p : Char → Bool) {x y r r' : Name} (hx : x.all p = true) (hy : y.all p = true)
    (hr : headNot p r = true) (hr' : headNot p r' = true) (h : x ++ r = y ++ r') : x = y ∧ r = r' := by
  induction x generalizing y with
  | nil =>
    cases y with
    | nil => exact ⟨rfl, h⟩
    | cons d y' =>
      simp only [List.nil_append, List.cons_append] at h
      simp only [List.all_cons, Bool.and_eq_true] at hy
      rw [h] at hr
      simp [headNot, hy.1] at hr
  | cons c x' ih =>
    cases y with
    | nil =>
      simp only [List.nil_append, List.cons_append] at h
      simp only [List.all_cons, Bool.and_eq_true] at hx
      rw [← h] at hr'
      simp [headNot, hx.1] at hr'
    | cons d y' =>
      simp only [List.cons_append, List.cons.injEq] at h
      simp only [List.all_cons, Bool.and_eq_true] at hx hy
      obtain ⟨e1, e2⟩ := ih hx.2 hy.2 h.2
      exact ⟨by rw [h.1, e1], e2⟩

theorem stop_headNot {r : Name} (h : stopOk r = true) : headNot isIdentChar r = true := by
  cases r with
  | nil => rfl
  | cons c r' =>
    simp only [stopOk, Bool.or_eq_true, beq_iff_eq] at h
    have : isIdentChar c = false := by
      rcases h with (h | h) | h <;> (rw [h]; decide)
    simp [headNot, this]

theorem primDoc_ident : ∀ p : Prim, (toDocPrim p).all isIdentChar = true ∧ toDocPrim p ≠ [] := by
  intro p; cases p <;> decide

theorem primDoc_injective : ∀ p q : Prim, toDocPrim p = toDocPrim q → p = q := by
  intro p q; cases p <;> cases q <;> first | (intro _; rfl) | (intro h; exact absurd h (by decide))

theorem tyCompact_prim (p : Prim) : tyCompact (.prim p) = toDocPrim p := by cases p <;> decide

theorem identChar_not_ws {c : Char} (h : isIdentChar c = true) : isWhitespace c = false := by
  cases hw : isWhitespace c with
  | false => rfl
  | true =>
    exfalso
    simp only [isWhitespace, Bool.or_eq_true, Bool.and_eq_true, decide_eq_true_eq, beq_iff_eq] at hw
    simp only [isIdentChar, isAsciiAlnum, isAsciiAlpha, isAsciiLower, isAsciiUpper, isAsciiDigit, Bool.or_eq_true,
      Bool.and_eq_true, decide_eq_true_eq, beq_iff_eq] at h
    have h95 : c = '_' → c.toNat = 95 := fun e => by rw [e]; rfl
    rcases h with ((h | h) | h) | h
    · omega
    · omega
    · omega
    · have := h95 h; omega

theorem tyCompact_struct {n : Name} (h : n.all isIdentChar = true) : tyCompact (.tstruct n) = n := by
  simp only [tyCompact, tyPretty]
  induction n with
  | nil => rfl
  | cons c r ih =>
    simp only [List.all_cons, Bool.and_eq_true] at h
    simp [identChar_not_ws h.1, ih h.2]

theorem identOk_parts {n : Name} (h : identOk n = true) :
    n.all isIdentChar = true ∧ n ≠ [] ∧ ∀ p : Prim, toDocPrim p ≠ n := by
  simp only [identOk, Bool.and_eq_true, Bool.not_eq_true', List.isEmpty_eq_false_iff] at h
  refine ⟨h.1.2, h.1.1, fun p heq => ?_⟩
  have hm : n ∈ primDocSpellings := by rw [← heq]; exact List.mem_map.mpr ⟨p, prim_mem_all p, rfl⟩
  have : primDocSpellings.contains n = true := by simpa using hm
  rw [h.2] at this
  exact Bool.noConfusion this

def isAtom : Ty → Bool
  | .prim _ => true
  | .tstruct _ => true
  | _ => false

/-- the three shapes of a fragment type -/
theorem cfrag_cases (u : Ty) (hu : cfrag u = true) :
    (isAtom u = true) ∨ (∃ us, u = .ttuple us ∧ cfrags us = true) ∨
    (∃ n a as, u = .tapp (.tstruct n) (a :: as) ∧ identOk n = true ∧ cfrags (a :: as) = true) := by
  cases u with
  | prim p => exact Or.inl rfl
  | tstruct n => exact Or.inl rfl
  | ttuple us => simp only [cfrag] at hu; exact Or.inr (Or.inl ⟨us, rfl, hu⟩)
  | tapp t args =>
    simp only [cfrag, Bool.and_eq_true] at hu
    cases t with
    | tstruct n =>
      cases args with
      | nil => simp at hu
      | cons a as => exact Or.inr (Or.inr ⟨n, a, as, rfl, hu.1.1, hu.2⟩)
    | _ => simp at hu
  | _ => simp [cfrag] at hu

theorem atom_spelling {t : Ty} (ha : isAtom t = true) (ht : cfrag t = true) :
    (tyCompact t).all isIdentChar = true ∧ tyCompact t ≠ [] := by
  cases t with
  | prim p => rw [tyCompact_prim]; exact primDoc_ident p
  | tstruct n =>
    simp only [cfrag] at ht
    obtain ⟨h1, h2, _⟩ := identOk_parts ht
    rw [tyCompact_struct h1]; exact ⟨h1, h2⟩
  | _ => simp [isAtom] at ha

theorem atom_eq {t u : Ty} (ha : isAtom t = true) (hb : isAtom u = true) (ht : cfrag t = true) (hu : cfrag u = true)
    (h : tyCompact t = tyCompact u) : t = u := by
  cases t with
  | prim p =>
    cases u with
    | prim q => rw [tyCompact_prim, tyCompact_prim] at h; rw [primDoc_injective p q h]
    | tstruct n =>
      simp only [cfrag] at hu
      obtain ⟨h1, _, h3⟩ := identOk_parts hu
      rw [tyCompact_prim, tyCompact_struct h1] at h
      exact absurd h (h3 p)
    | _ => simp [isAtom] at hb
  | tstruct n =>
    simp only [cfrag] at ht
    obtain ⟨h1, _, h3⟩ := identOk_parts ht
    cases u with
    | prim q =>
      rw [tyCompact_prim, tyCompact_struct h1] at h
      exact absurd h.symm (h3 q)
    | tstruct m =>
      simp only [cfrag] at hu
      obtain ⟨g1, _, _⟩ := identOk_parts hu
      rw [tyCompact_struct h1, tyCompact_struct g1] at h
      rw [h]
    | _ => simp [isAtom] at hb
  | _ => simp [isAtom] at ha

/-- an identifier run never starts like a parenthesised spelling -/
theorem ident_ne_paren {a r x : Name} (h1 : a.all isIdentChar = true) (h2 : a ≠ []) : a ++ r ≠ '(' :: x := by
  cases a with
  | nil => exact absurd rfl h2
  | cons c a' =>
    simp only [List.all_cons, Bool.and_eq_true] at h1
    intro h
    simp only [List.cons_append, List.cons.injEq] at h
    rw [h.1] at h1
    exact absurd h1.1 (by decide)

theorem bracket_headNot (x : Name) : headNot isIdentChar ('[' :: x) = true := by
  have : isIdentChar '[' = false := by decide
  simp [headNot, this]

theorem stop_not_bracket {x : Name} : stopOk ('[' :: x) = false := by
  have h1 : ('[' == ',') = false := by decide
  have h2 : ('[' == ')') = false := by decide
  have h3 : ('[' == ']') = false := by decide
  simp [stopOk, h1, h2, h3]

/-- first character of a fragment spelling: `(` or an identifier character -/
def headOk : Name → Bool
  | c :: _ => c == '(' || isIdentChar c
  | [] => false

theorem headOk_of_ident {n r : Name} (h1 : n.all isIdentChar = true) (h2 : n ≠ []) : headOk (n ++ r) = true := by
  cases n with
  | nil => exact absurd rfl h2
  | cons c n' =>
    simp only [List.all_cons, Bool.and_eq_true] at h1
    simp [headOk, h1.1]

theorem tuple_append (ts : List Ty) (r : Name) : tyCompact (.ttuple ts) ++ r = '(' :: (joinC ts ++ ')' :: r) := by
  rw [tyCompact_tuple]; simp

theorem app_append {n : Name} (h : n.all isIdentChar = true) (a : Ty) (as : List Ty) (r : Name) :
    tyCompact (.tapp (.tstruct n) (a :: as)) ++ r = n ++ '[' :: (joinC (a :: as) ++ ']' :: r) := by
  rw [tyCompact_app, tyCompact_struct h]; simp

theorem cfrag_head (t : Ty) (r : Name) (h : cfrag t = true) : headOk (tyCompact t ++ r) = true := by
  rcases cfrag_cases t h with ha | ⟨us, rfl, _⟩ | ⟨n, a, as, rfl, hn, _⟩
  · obtain ⟨h1, h2⟩ := atom_spelling ha h
    exact headOk_of_ident h1 h2
  · rw [tuple_append]; rfl
  · obtain ⟨h1, h2, _⟩ := identOk_parts hn
    rw [app_append h1]
    exact headOk_of_ident h1 h2

theorem closer_not_head {c : Char} {r : Name} (hc : c = ')' ∨ c = ']') : headOk (c :: r) = false := by
  rcases hc with h | h <;> subst h <;> (simp only [headOk]; decide)

theorem closer_stop {c : Char} {r : Name} (hc : c = ')' ∨ c = ']') : stopOk (c :: r) = true := by
  rcases hc with h | h <;> subst h <;> simp [stopOk]

theorem joinC_cons_cons (t u : Ty) (rest : List Ty) : joinC (t :: u :: rest) = tyCompact t ++ ',' :: joinC (u :: rest) := by
  simp [joinC, tyCompacts, join]

theorem joinC_single (t : Ty) : joinC [t] = tyCompact t := by simp [joinC, tyCompacts, join]

theorem joinC_nil : joinC [] = [] := by simp [joinC, tyCompacts, join]

/-- a fragment spelling followed by a stop is parsed in exactly one way -/
theorem tyCompact_unique (t : Ty) : ∀ u r r', cfrag t = true → cfrag u = true → stopOk r = true → stopOk r' = true →
    tyCompact t ++ r = tyCompact u ++ r' → t = u ∧ r = r' := by
  apply Ty.rec
    (motive_1 := fun t => ∀ u r r', cfrag t = true → cfrag u = true → stopOk r = true → stopOk r' = true →
      tyCompact t ++ r = tyCompact u ++ r' → t = u ∧ r = r')
    (motive_2 := fun ts => ∀ us c r c' r', cfrags ts = true → cfrags us = true → (c = ')' ∨ c = ']') → (c' = ')' ∨ c' = ']') →
      joinC ts ++ c :: r = joinC us ++ c' :: r' → ts = us ∧ c :: r = c' :: r')
  case tvar => intro n u r r' h; simp [cfrag] at h
  case tenum => intro n u r r' h; simp [cfrag] at h
  case tdyn => intro n u r r' h; simp [cfrag] at h
  case tarray => intro len e _ u r r' h; simp [cfrag] at h
  case tvec => intro e _ u r r' h; simp [cfrag] at h
  case tref => intro e _ u r r' h; simp [cfrag] at h
  case tparam => intro n u r r' h; simp [cfrag] at h
  case tfunc => intro ps r _ _ u r0 r' h; simp [cfrag] at h
  case prim =>
    intro p u r r' ht hu hr hr' h
    have ha : isAtom (.prim p) = true := rfl
    obtain ⟨a1, a2⟩ := atom_spelling ha ht
    rcases cfrag_cases u hu with hb | ⟨us, rfl, _⟩ | ⟨n, a, as, rfl, hn, _⟩
    · obtain ⟨b1, _⟩ := atom_spelling hb hu
      obtain ⟨e1, e2⟩ := run_unique isIdentChar a1 b1 (stop_headNot hr) (stop_headNot hr') h
      exact ⟨atom_eq ha hb ht hu e1, e2⟩
    · rw [tuple_append] at h; exact absurd h (ident_ne_paren a1 a2)
    · obtain ⟨h1, _, _⟩ := identOk_parts hn
      rw [app_append h1] at h
      obtain ⟨_, e2⟩ := run_unique isIdentChar a1 h1 (stop_headNot hr) (bracket_headNot _) h
      rw [e2, stop_not_bracket] at hr; exact Bool.noConfusion hr
  case tstruct =>
    intro n0 u r r' ht hu hr hr' h
    have ha : isAtom (.tstruct n0) = true := rfl
    obtain ⟨a1, a2⟩ := atom_spelling ha ht
    rcases cfrag_cases u hu with hb | ⟨us, rfl, _⟩ | ⟨n, a, as, rfl, hn, _⟩
    · obtain ⟨b1, _⟩ := atom_spelling hb hu
      obtain ⟨e1, e2⟩ := run_unique isIdentChar a1 b1 (stop_headNot hr) (stop_headNot hr') h
      exact ⟨atom_eq ha hb ht hu e1, e2⟩
    · rw [tuple_append] at h; exact absurd h (ident_ne_paren a1 a2)
    · obtain ⟨h1, _, _⟩ := identOk_parts hn
      rw [app_append h1] at h
      obtain ⟨_, e2⟩ := run_unique isIdentChar a1 h1 (stop_headNot hr) (bracket_headNot _) h
      rw [e2, stop_not_bracket] at hr; exact Bool.noConfusion hr
  case ttuple =>
    intro ts ih u r r' ht hu hr hr' h
    simp only [cfrag] at ht
    rw [tuple_append] at h
    rcases cfrag_cases u hu with hb | ⟨us, rfl, hus⟩ | ⟨n, a, as, rfl, hn, _⟩
    · obtain ⟨b1, b2⟩ := atom_spelling hb hu
      exact absurd h.symm (ident_ne_paren b1 b2)
    · rw [tuple_append] at h
      simp only [List.cons.injEq, true_and] at h
      obtain ⟨e1, e2⟩ := ih us ')' r ')' r' ht hus (Or.inl rfl) (Or.inl rfl) h
      simp only [List.cons.injEq, true_and] at e2
      exact ⟨by rw [e1], e2⟩
    · obtain ⟨h1, h2, _⟩ := identOk_parts hn
      rw [app_append h1] at h
      exact absurd h.symm (ident_ne_paren h1 h2)
  case tapp =>
    intro t0 args _ ih u r r' ht hu hr hr' h
    rcases cfrag_cases _ ht with ha | ⟨us, hcontra, _⟩ | ⟨n0, a0, as0, heq, hn0, hargs⟩
    · simp [isAtom] at ha
    · exact Ty.noConfusion hcontra
    · have hinj := heq
      simp only [Ty.tapp.injEq] at hinj
      obtain ⟨ht0, hargs0⟩ := hinj
      subst ht0; subst hargs0
      obtain ⟨g1, g2, _⟩ := identOk_parts hn0
      rw [app_append g1] at h
      rcases cfrag_cases u hu with hb | ⟨us, rfl, _⟩ | ⟨n, a, as, rfl, hn, has⟩
      · obtain ⟨b1, _⟩ := atom_spelling hb hu
        obtain ⟨_, e2⟩ := run_unique isIdentChar g1 b1 (bracket_headNot _) (stop_headNot hr') h
        rw [← e2, stop_not_bracket] at hr'; exact Bool.noConfusion hr'
      · rw [tuple_append] at h
        exact absurd h (ident_ne_paren g1 g2)
      · obtain ⟨h1, _, _⟩ := identOk_parts hn
        rw [app_append h1] at h
        obtain ⟨e1, e2⟩ := run_unique isIdentChar g1 h1 (bracket_headNot _) (bracket_headNot _) h
        simp only [List.cons.injEq, true_and] at e2
        obtain ⟨e3, e4⟩ := ih (a :: as) ']' r ']' r' hargs has (Or.inr rfl) (Or.inr rfl) e2
        simp only [List.cons.injEq, true_and] at e4
        exact ⟨by rw [e1, e3], e4⟩
  case nil =>
    intro us c r c' r' _ hus hc hc' h
    cases us with
    | nil => rw [joinC_nil] at h; exact ⟨rfl, by simpa using h⟩
    | cons u us' =>
      exfalso
      simp only [cfrags, Bool.and_eq_true] at hus
      rw [joinC_nil, List.nil_append] at h
      have hh : headOk (joinC (u :: us') ++ c' :: r') = true := by
        cases us' with
        | nil => rw [joinC_single]; exact cfrag_head u _ hus.1
        | cons v rest => rw [joinC_cons_cons, List.append_assoc]; exact cfrag_head u _ hus.1
      rw [← h, closer_not_head hc] at hh
      exact Bool.noConfusion hh
  case cons =>
    intro t ts iht ihts us c r c' r' hts hus hc hc' h
    simp only [cfrags, Bool.and_eq_true] at hts
    cases us with
    | nil =>
      exfalso
      rw [joinC_nil, List.nil_append] at h
      have hh : headOk (joinC (t :: ts) ++ c :: r) = true := by
        cases ts with
        | nil => rw [joinC_single]; exact cfrag_head t _ hts.1
        | cons v rest => rw [joinC_cons_cons, List.append_assoc]; exact cfrag_head t _ hts.1
      rw [h, closer_not_head hc'] at hh
      exact Bool.noConfusion hh
    | cons u us' =>
      simp only [cfrags, Bool.and_eq_true] at hus
      cases ts with
      | nil =>
        cases us' with
        | nil =>
          rw [joinC_single, joinC_single] at h
          obtain ⟨e1, e2⟩ := iht u _ _ hts.1 hus.1 (closer_stop hc) (closer_stop hc') h
          exact ⟨by rw [e1], e2⟩
        | cons v rest =>
          exfalso
          rw [joinC_single, joinC_cons_cons, List.append_assoc] at h
          obtain ⟨_, e2⟩ := iht u _ _ hts.1 hus.1 (closer_stop hc) (by simp [stopOk]) h
          simp only [List.cons_append, List.cons.injEq] at e2
          rcases hc with hc | hc <;> (rw [hc] at e2; exact absurd e2.1 (by decide))
      | cons w ts' =>
        cases us' with
        | nil =>
          exfalso
          rw [joinC_single, joinC_cons_cons, List.append_assoc] at h
          obtain ⟨_, e2⟩ := iht u _ _ hts.1 hus.1 (by simp [stopOk]) (closer_stop hc') h
          simp only [List.cons_append, List.cons.injEq] at e2
          rcases hc' with hc' | hc' <;> (rw [hc'] at e2; exact absurd e2.1.symm (by decide))
        | cons v rest =>
          rw [joinC_cons_cons, joinC_cons_cons, List.append_assoc, List.append_assoc] at h
          obtain ⟨e1, e2⟩ := iht u _ _ hts.1 hus.1 (by simp [stopOk]) (by simp [stopOk]) h
          simp only [List.cons_append, List.cons.injEq, true_and] at e2
          obtain ⟨e3, e4⟩ := ihts (v :: rest) c r c' r' hts.2 hus.2 hc hc' e2
          exact ⟨by rw [e1, e3], e4⟩

/-- **`ty_compact` is injective on the fragment** (primitives, structs with identifier names, tuples of any
arity and nesting, applications `S[…]`) — the spelling `TypeMono::ensure_instance` and `spec_name_for` use
for type arguments keeps brackets, commas and parentheses, so regrouping a tuple, nesting an application or
a `_` inside a name never merges two types.  PARTIAL: enums (same text as a struct of that name), `Vec`,
`Ref`, arrays, function types, `dyn` are outside the fragment. -/
theorem tyCompact_injective_partial {t u : Ty} (ht : cfrag t = true) (hu : cfrag u = true)
    (h : tyCompact t = tyCompact u) : t = u :=
  (tyCompact_unique t u [] [] ht hu rfl rfl (by rw [List.append_nil, List.append_nil, h])).1

/-- a generic type with ONE parameter: distinct fragment arguments give distinct instance names -/
theorem monoTypeName_injective_one_param_partial (base : Name) {t u : Ty} (ht : cfrag t = true) (hu : cfrag u = true)
    (h : monoTypeName base [t] = monoTypeName base [u]) : t = u := by
  simp only [monoTypeName, join, List.map_cons, List.map_nil] at h
  exact tyCompact_injective_partial ht hu (List.append_cancel_left h)

/-- non-vacuity: the pairs the lossy spelling `encode_ty` merges are in the fragment and stay apart -/
example :
    let i := Ty.prim .int32
    let a := Ty.ttuple [.ttuple [i, i], i, i]
    let b := Ty.ttuple [.ttuple [i, i, i], i]
    cfrag a = true ∧ cfrag b = true ∧ encodeTy a = encodeTy b ∧ tyCompact a ≠ tyCompact b := by decide
example :
    let a := Ty.tapp (.tstruct "Pair".toList) [.prim .int32]
    let b := Ty.tstruct "Pair_int32".toList
    cfrag a = true ∧ cfrag b = true ∧ encodeTy a = encodeTy b ∧ tyCompact a ≠ tyCompact b := by decide

/-- KNOWN FINDING (negative witness): with TWO parameters the `__` that joins the arguments can also occur
inside a name — `Duo[A__B, C]` and `Duo[A, B__C]`; the same for `spec_name_for` -/
example : monoTypeName "Duo".toList [.tstruct "A__B".toList, .tstruct ['C']] = monoTypeName "Duo".toList [.tstruct ['A'], .tstruct "B__C".toList] := by decide
example :
    specNameFor "duo".toList [(['T'], .tstruct "A__U_B".toList), (['U'], .tstruct ['C'])] =
    specNameFor "duo".toList [(['T'], .tstruct ['A']), (['U'], .tstruct "B__U_C".toList)] := by decide

/-- the spelling functions mono.rs calls for type arguments, read off the source on every run -/
theorem instance_names_use_tyCompact : Goml.Gen.instanceArgSpelling = "ty_compact" ∧ Goml.Gen.specArgSpelling = "ty_compact" := by decide

/-! ## negative witnesses — each is a collision of the CURRENT encoders; `./check C19` replays every
one on the real functions (PAIR lines) and on the real pipeline (WITNESS programs) -/

/-- `go_ident` is not injective: `#` and `_` both become `_`, and escaped names live in the same
space as ordinary ones -/
example : goIdent "a#b".toList = goIdent "_goml_a_b".toList ∧ "a#b".toList ≠ "_goml_a_b".toList := by decide
example : goIdent "a#b_c".toList = goIdent "a_b#c".toList := by decide
example : goIdent "é".toList = goIdent "#xc3a9#".toList := by decide +kernel

/-- `encode_ty` forgets tuple nesting: `((a,b),c,d)` and `((a,b,c),d)` -/
example :
    encodeTy (.ttuple [.ttuple [.tstruct ['a'], .tstruct ['b']], .tstruct ['c'], .tstruct ['d']]) =
    encodeTy (.ttuple [.ttuple [.tstruct ['a'], .tstruct ['b'], .tstruct ['c']], .tstruct ['d']]) := by decide

/-- … and cannot tell `_` inside a name from its own separator -/
example : encodeTy (.ttuple [.tstruct "a_b".toList, .tstruct ['c']]) = encodeTy (.ttuple [.tstruct ['a'], .tstruct "b_c".toList]) := by decide

/-- `ref_struct_name` lower-cases: `Ref[Foo]` and `Ref[foo]` share one struct -/
example : refStructName (.tstruct "Foo".toList) = refStructName (.tstruct "foo".toList) := by decide

/-- `go_type_name_for`: the arity prefix does not help once a component name contains `_` -/
example : goTypeNameFor (.ttuple [.tstruct "A_B".toList, .tstruct ['C']]) = goTypeNameFor (.ttuple [.tstruct ['A'], .tstruct "B_C".toList]) := by decide

/-- `go_type_name_for`: `() -> int32` and `(unit) -> int32` -/
example : goTypeNameFor (.tfunc [] (.prim .int32)) = goTypeNameFor (.tfunc [.prim .unit] (.prim .int32)) := by decide

/-- `ty_compact` (hence method and instance names) identifies an enum and a struct of one name, and
drops white space inside names -/
example : tyCompact (.tenum ['a']) = tyCompact (.tstruct ['a']) ∧ tyCompact (.tstruct "a b".toList) = tyCompact (.tstruct "ab".toList) := by decide

/-- after `go_ident` two different impl functions coincide: `impl A_B for C` and `impl A for B_C` -/
theorem traitImpl_goIdent_collision :
    goIdent (traitImplFnName "A_B".toList (.tstruct ['C']) ['m']) = goIdent (traitImplFnName ['A'] (.tstruct "B_C".toList) ['m']) ∧
    traitImplFnName "A_B".toList (.tstruct ['C']) ['m'] ≠ traitImplFnName ['A'] (.tstruct "B_C".toList) ['m'] := by decide

/-- inherent methods likewise: `impl a { fn a_a_a_m }` and `impl a_a { fn a_m }` -/
example : goIdent (inherentMethodFnName (.tstruct ['a']) "a_a_a_m".toList) = goIdent (inherentMethodFnName (.tstruct "a_a".toList) "a_m".toList) := by decide

/-- a monomorphic instance and a user function: `id[T := int32]` vs `fn id__T_int32` -/
example : compileFnName (specNameFor "id".toList [(['T'], .prim .int32)]) = compileFnName "id__T_int32".toList := by decide

/-- an instance type and a user type: `Opt[int32]` vs `enum Opt__int32` -/
example : goIdent (monoTypeName "Opt".toList [.prim .int32]) = goIdent "Opt__int32".toList := by decide

/-- FIXED (was a collision): a variant spelled like an enum or struct type is now qualified, so
`enum Foo { Foo }` declares `Foo` and `Foo_Foo` -/
example : variantStructName [("Foo".toList, ["Foo".toList, "Bar".toList])] [] "Foo".toList "Foo".toList = "Foo_Foo".toList := by decide

/-- a variant struct can be spelled like an enum or struct type of the program only through the
qualified form `Enum_Variant` (names the lexer accepts).  PARTIAL: the qualified form itself can
still coincide with a type called `Enum_Variant` — next `example`s. -/
theorem variant_eq_type_only_if_qualified_partial (enums : List (Name × List Name)) (structs : List Name) (e v ty : Name)
    (hv : isSrcIdent v = true) (hty : isSrcIdent ty = true) (hmem : ty ∈ enums.map (·.1) ∨ ty ∈ structs)
    (h : variantStructName enums structs e v = goIdent ty) :
    variantStructName enums structs e v = goIdent e ++ ['_'] ++ goIdent v := by
  unfold variantStructName at h ⊢
  split
  · rfl
  · rename_i hc
    rw [if_neg hc] at h
    have hvt : v = ty := goIdent_injective_on_source_idents hv hty h
    subst hvt
    exfalso
    apply hc
    simp only [Bool.or_eq_true, List.any_eq_true, beq_iff_eq, List.contains_iff_mem]
    rcases hmem with h' | h'
    · obtain ⟨p, hp, rfl⟩ := List.mem_map.mp h'
      exact Or.inl (Or.inr ⟨p, hp, rfl⟩)
    · exact Or.inr h'

/-- non-vacuity: the hypothesis is met by `enum Foo { Foo }` with `struct Foo_Foo` -/
example : variantStructName [("Foo".toList, ["Foo".toList])] ["Foo_Foo".toList] "Foo".toList "Foo".toList = goIdent "Foo_Foo".toList ∧
    "Foo_Foo".toList ∈ ["Foo_Foo".toList] := by decide

/-- qualified variant names collide through `_`: `A::B_C` and `A_B::C` (both variant names shared) -/
example :
    let enums := [(['A'], ["B_C".toList, ['C']]), ("A_B".toList, [['C'], "B_C".toList])]
    variantStructName enums [] ['A'] "B_C".toList = variantStructName enums [] "A_B".toList ['C'] := by decide

/-- … and a qualified variant can still be spelled like a third type: `Foo::Foo` vs `struct Foo_Foo` -/
example : variantStructName [("Foo".toList, ["Foo".toList])] ["Foo_Foo".toList] "Foo".toList "Foo".toList = goIdent "Foo_Foo".toList := by decide

/-- user types spelled like generated ones -/
example : goTypeNameFor (.ttuple [.prim .int32, .prim .int32]) = goIdent "Tuple2_int32_int32".toList := by decide
example : refStructName (.prim .int32) = goIdent "ref_int32_x".toList := by decide
example : closureEnvName (sanitizeEnvName "f/3".toList) 0 = goIdent "closure_env_f_0".toList := by decide
example : dynStructName "Show".toList = goIdent "dyn__Show".toList := by decide
example : helperFnName "ref_get".toList (.tref (.prim .int32)) = compileFnName "ref_get__Ref_int32".toList := by decide

/-- the hypothesis the pass models make ("no source entity is spelled like a temporary") is TRUE
for locals (`goLocal_ne_goTemp`) and FALSE for top-level functions: `fn t2` -/
example : compileFnName "t2".toList = goTemp ['t'] 2 := by decide

/-- a user function may be called `main0`, like the renamed entry point -/
example : compileFnName "main0".toList = compileFnName "main".toList := by decide

/-- user functions named like a runtime helper, a predeclared identifier the runtime calls, or the
imported package keep their spelling -/
example : ∀ h ∈ runtimeHelpers, compileFnName h = h := by decide
example : ∀ h ∈ reliedPredeclared, compileFnName h = h := by decide
example : ∀ h ∈ runtimeImports, compileFnName h = h := by decide

end Goml.Mangle
