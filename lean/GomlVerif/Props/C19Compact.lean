import GomlVerif.Props.C19
/-!
# C19.6 (full) — `ty_compact` is injective on every monomorphic source type

`GomlVerif/Props/C19.lean` proves `tyCompact_injective_partial` on primitives, structs, tuples and
struct applications.  This file extends the fragment to **all** constructors that survive
monomorphisation: `.tenum`, `.tdyn`, `.tapp (.tenum n) _`, `.tarray`, `.tvec`, `.tref`, `.tfunc`
(`.tvar` / `.tparam` do not occur after mono).

The statement has to step around four genuine non-injectivities of the compiler's spelling, each
shown necessary by a negative witness (`example … := by decide`) at the end of the file:

1. an enum and a struct of one name have the same text → the result is stated modulo `eraseKind`
   (and, `tyCompact_injective_of_kinds`, as plain equality when one classifier says which names are enums);
2. `dyn Show` is spelled `dynShow` (the blank is filtered out), like a struct called `dynShow`
   → nominal names must not start with `dyn`;  **this is a defect of the compiler**
   (`Opt[dyn Show]` and `Opt[dynShow]` are both the instance `Opt__dynShow`);
3. `Vec[e]` / `Ref[e]` are spelled like applications of a struct called `Vec` / `Ref`;
4. a nominal name equal to the spelling of a primitive (already in `identOk`).
-/
namespace Goml.Mangle
open Goml.Gen

/-! ## the fragment -/

/-- side condition on struct / enum names: `identOk` (non-empty, identifier characters, not a primitive's
spelling), not `Vec`, not `Ref`, not starting with `dyn` -/
def nameOk (n : Name) : Bool :=
  identOk n && n != "Vec".toList && n != "Ref".toList && !("dyn".toList).isPrefixOf n

/-- side condition on trait names inside `dyn Tr`: a non-empty run of identifier characters -/
def traitOk (n : Name) : Bool := !n.isEmpty && n.all isIdentChar

mutual
/-- the full monomorphic fragment: everything but `.tvar` / `.tparam`; an application has a nominal head
and at least one argument (`tyPretty` prints `T[]` as `T`) -/
def ffrag : Ty → Bool
  | .prim _ => true
  | .tstruct n => nameOk n
  | .tenum n => nameOk n
  | .tdyn tr => traitOk tr
  | .ttuple ts => ffrags ts
  | .tapp t args => (match t with | .tstruct n => nameOk n | .tenum n => nameOk n | _ => false) && !args.isEmpty && ffrags args
  | .tarray _ e => ffrag e
  | .tvec e => ffrag e
  | .tref e => ffrag e
  | .tfunc ps r => ffrags ps && ffrag r
  | _ => false
def ffrags : List Ty → Bool
  | [] => true
  | t :: ts => ffrag t && ffrags ts
end

mutual
/-- forget whether a nominal type is an enum or a struct (everywhere, application heads included) -/
def eraseKind : Ty → Ty
  | .tenum n => .tstruct n
  | .ttuple ts => .ttuple (eraseKinds ts)
  | .tapp t args => .tapp (eraseKind t) (eraseKinds args)
  | .tarray len e => .tarray len (eraseKind e)
  | .tvec e => .tvec (eraseKind e)
  | .tref e => .tref (eraseKind e)
  | .tfunc ps r => .tfunc (eraseKinds ps) (eraseKind r)
  | t => t
def eraseKinds : List Ty → List Ty
  | [] => []
  | t :: ts => eraseKind t :: eraseKinds ts
end

mutual
/-- one classifier `k` tells for every nominal name inside the type whether it is an enum -/
def kindsBy (k : Name → Bool) : Ty → Bool
  | .tenum n => k n
  | .tstruct n => !k n
  | .ttuple ts => kindsBys k ts
  | .tapp t args => kindsBy k t && kindsBys k args
  | .tarray _ e => kindsBy k e
  | .tvec e => kindsBy k e
  | .tref e => kindsBy k e
  | .tfunc ps r => kindsBys k ps && kindsBy k r
  | _ => true
def kindsBys (k : Name → Bool) : List Ty → Bool
  | [] => true
  | t :: ts => kindsBy k t && kindsBys k ts
end

/-- what may follow a complete type spelling inside a larger one: nothing, `,` `)` `]`, or `;` (array element) -/
def stopOk' : Name → Bool
  | [] => true
  | c :: _ => c == ',' || c == ')' || c == ']' || c == ';'

/-! ## unfolding lemmas -/

theorem filter_ident {n : Name} (h : n.all isIdentChar = true) : n.filter (fun c => !isWhitespace c) = n :=
  tyCompact_struct h

theorem tyCompact_enum {n : Name} (h : n.all isIdentChar = true) : tyCompact (.tenum n) = n :=
  tyCompact_struct h

theorem tyCompact_dyn {tr : Name} (h : tr.all isIdentChar = true) : tyCompact (.tdyn tr) = 'd' :: 'y' :: 'n' :: tr := by
  have h1 : isWhitespace 'd' = false := by decide
  have h2 : isWhitespace 'y' = false := by decide
  have h3 : isWhitespace 'n' = false := by decide
  have h4 : isWhitespace ' ' = true := by decide
  simp only [tyCompact, tyPretty, List.cons_append, List.nil_append, List.filter_cons]
  rw [filter_ident h]
  simp [h1, h2, h3, h4]

theorem digits_ident (n : Nat) : (digits n).all isIdentChar = true := by
  have := digits_alnum n
  simp only [List.all_eq_true] at this ⊢
  intro c hc
  exact alnum_identChar (this c hc)

theorem tyCompact_vec (e : Ty) (r : Name) : tyCompact (.tvec e) ++ r = "Vec".toList ++ '[' :: (joinC [e] ++ ']' :: r) := by
  have h1 : isWhitespace 'V' = false := by decide
  have h2 : isWhitespace 'e' = false := by decide
  have h3 : isWhitespace 'c' = false := by decide
  have h4 : isWhitespace '[' = false := by decide
  have h5 : isWhitespace ']' = false := by decide
  rw [joinC_single]
  simp [tyCompact, tyPretty, List.filter_append, h1, h2, h3, h4, h5]

theorem tyCompact_ref (e : Ty) (r : Name) : tyCompact (.tref e) ++ r = "Ref".toList ++ '[' :: (joinC [e] ++ ']' :: r) := by
  have h1 : isWhitespace 'R' = false := by decide
  have h2 : isWhitespace 'e' = false := by decide
  have h3 : isWhitespace 'f' = false := by decide
  have h4 : isWhitespace '[' = false := by decide
  have h5 : isWhitespace ']' = false := by decide
  rw [joinC_single]
  simp [tyCompact, tyPretty, List.filter_append, h1, h2, h3, h4, h5]

theorem tyCompact_array (len : Nat) (e : Ty) (r : Name) :
    tyCompact (.tarray len e) ++ r = '[' :: (tyCompact e ++ ';' :: (digits len ++ ']' :: r)) := by
  have h1 : isWhitespace '[' = false := by decide
  have h2 : isWhitespace ';' = false := by decide
  have h3 : isWhitespace ' ' = true := by decide
  have h4 : isWhitespace ']' = false := by decide
  simp only [tyCompact, tyPretty, List.filter_append, List.cons_append, List.nil_append, List.filter_cons]
  rw [filter_ident (digits_ident len)]
  simp [h1, h2, h3, h4]

theorem tyCompact_func (ps : List Ty) (r0 : Ty) (r : Name) :
    tyCompact (.tfunc ps r0) ++ r = '(' :: (joinC ps ++ ')' :: '-' :: '>' :: (tyCompact r0 ++ r)) := by
  have h := compact_join ps
  have e : [',', ' '] = ", ".toList := by decide
  have h1 : isWhitespace '(' = false := by decide
  have h2 : isWhitespace ')' = false := by decide
  have h3 : isWhitespace ' ' = true := by decide
  have h4 : isWhitespace '-' = false := by decide
  have h5 : isWhitespace '>' = false := by decide
  simp only [tyCompact, tyPretty, List.filter_append, List.cons_append, List.nil_append, List.filter_cons]
  rw [e, h]
  simp [h1, h2, h3, h4, h5]

theorem app_append_full (t : Ty) {n : Name} (ht : tyCompact t = n) (a : Ty) (as : List Ty) (r : Name) :
    tyCompact (.tapp t (a :: as)) ++ r = n ++ '[' :: (joinC (a :: as) ++ ']' :: r) := by
  rw [tyCompact_app, ht]; simp

/-! ## shapes: the five ways a fragment type is spelled -/

/-- the shape of a spelling: an identifier run (`atom`), an identifier run followed by a bracketed
argument list (`brk`: `Name[..]`, `Vec[..]`, `Ref[..]`), a tuple, a function type, an array -/
inductive Shape where
  | atom (a : Name)
  | brk (h : Name) (args : List Ty)
  | tup (ts : List Ty)
  | fn (ps : List Ty) (r : Ty)
  | arr (len : Nat) (e : Ty)

def shapeOf : Ty → Shape
  | .prim p => .atom (toDocPrim p)
  | .tstruct n => .atom n
  | .tenum n => .atom n
  | .tdyn tr => .atom ('d' :: 'y' :: 'n' :: tr)
  | .ttuple ts => .tup ts
  | .tapp (.tstruct n) args => .brk n args
  | .tapp (.tenum n) args => .brk n args
  | .tarray len e => .arr len e
  | .tvec e => .brk "Vec".toList [e]
  | .tref e => .brk "Ref".toList [e]
  | .tfunc ps r => .fn ps r
  | _ => .atom []

/-- the spelling of a shape followed by `r` -/
def spell : Shape → Name → Name
  | .atom a, r => a ++ r
  | .brk h args, r => h ++ '[' :: (joinC args ++ ']' :: r)
  | .tup ts, r => '(' :: (joinC ts ++ ')' :: r)
  | .fn ps r0, r => '(' :: (joinC ps ++ ')' :: '-' :: '>' :: (tyCompact r0 ++ r))
  | .arr len e, r => '[' :: (tyCompact e ++ ';' :: (digits len ++ ']' :: r))

def shapeOk : Shape → Prop
  | .atom a => a.all isIdentChar = true ∧ a ≠ []
  | .brk h args => h.all isIdentChar = true ∧ h ≠ [] ∧ ffrags args = true
  | .tup ts => ffrags ts = true
  | .fn ps r => ffrags ps = true ∧ ffrag r = true
  | .arr _ e => ffrag e = true

def primOfName (a : Name) : Option Prim := Prim.all.find? (fun p => toDocPrim p == a)

/-- the (kind-erased) type an identifier run stands for -/
def atomTy (a : Name) : Ty :=
  match primOfName a with
  | some p => .prim p
  | none => if "dyn".toList.isPrefixOf a then .tdyn (a.drop 3) else .tstruct a

def brkTy (h : Name) (as : List Ty) : Ty :=
  if h = "Vec".toList then .tvec (as.headD (.prim .unit))
  else if h = "Ref".toList then .tref (as.headD (.prim .unit))
  else .tapp (.tstruct h) as

/-- the kind-erased type of a shape -/
def rebuild : Shape → Ty
  | .atom a => atomTy a
  | .brk h args => brkTy h (eraseKinds args)
  | .tup ts => .ttuple (eraseKinds ts)
  | .fn ps r => .tfunc (eraseKinds ps) (eraseKind r)
  | .arr len e => .tarray len (eraseKind e)

theorem nameOk_parts {n : Name} (h : nameOk n = true) :
    identOk n = true ∧ n ≠ "Vec".toList ∧ n ≠ "Ref".toList ∧ ("dyn".toList).isPrefixOf n = false := by
  simp only [nameOk, Bool.and_eq_true, bne_iff_ne, ne_eq, Bool.not_eq_true'] at h
  exact ⟨h.1.1.1, h.1.1.2, h.1.2, h.2⟩

theorem atomTy_prim (p : Prim) : atomTy (toDocPrim p) = .prim p := by cases p <;> rfl

theorem atomTy_name {n : Name} (h : nameOk n = true) : atomTy n = .tstruct n := by
  obtain ⟨h1, _, _, h4⟩ := nameOk_parts h
  obtain ⟨_, _, h3⟩ := identOk_parts h1
  have hp : primOfName n = none := by
    simp only [primOfName, List.find?_eq_none, beq_iff_eq]
    intro p _ heq
    exact h3 p heq
  simp only [atomTy, hp, h4]
  rfl

theorem dyn_not_prim (tr : Name) (p : Prim) : toDocPrim p ≠ 'd' :: 'y' :: 'n' :: tr := by
  intro h
  cases p <;> (simp only [toDocPrim, List.cons.injEq] at h; exact absurd h.1 (by decide))

theorem atomTy_dyn (tr : Name) : atomTy ('d' :: 'y' :: 'n' :: tr) = .tdyn tr := by
  have hp : primOfName ('d' :: 'y' :: 'n' :: tr) = none := by
    simp only [primOfName, List.find?_eq_none, beq_iff_eq]
    intro p _ heq
    exact dyn_not_prim tr p heq
  have hd : ("dyn".toList).isPrefixOf ('d' :: 'y' :: 'n' :: tr) = true := by
    show ['d', 'y', 'n'].isPrefixOf ('d' :: 'y' :: 'n' :: tr) = true
    simp [List.isPrefixOf]
  simp only [atomTy, hp, hd]
  rfl

theorem brkTy_name {n : Name} (h : nameOk n = true) (as : List Ty) : brkTy n as = .tapp (.tstruct n) as := by
  obtain ⟨_, h2, h3, _⟩ := nameOk_parts h
  unfold brkTy
  rw [if_neg h2, if_neg h3]

/-- every fragment type has a well-formed shape that determines its spelling and its kind-erased self -/
theorem shape_spec (t : Ty) (ht : ffrag t = true) :
    shapeOk (shapeOf t) ∧ (∀ r, tyCompact t ++ r = spell (shapeOf t) r) ∧ eraseKind t = rebuild (shapeOf t) := by
  cases t with
  | tvar n => simp [ffrag] at ht
  | tparam n => simp [ffrag] at ht
  | prim p =>
    refine ⟨primDoc_ident p, fun r => ?_, ?_⟩
    · rw [tyCompact_prim]; rfl
    · simp only [eraseKind, shapeOf, rebuild, atomTy_prim]
  | tstruct n =>
    simp only [ffrag] at ht
    obtain ⟨h1, h2, _⟩ := identOk_parts (nameOk_parts ht).1
    refine ⟨⟨h1, h2⟩, fun r => ?_, ?_⟩
    · rw [tyCompact_struct h1]; rfl
    · simp only [eraseKind, shapeOf, rebuild, atomTy_name ht]
  | tenum n =>
    simp only [ffrag] at ht
    obtain ⟨h1, h2, _⟩ := identOk_parts (nameOk_parts ht).1
    refine ⟨⟨h1, h2⟩, fun r => ?_, ?_⟩
    · rw [tyCompact_enum h1]; rfl
    · simp only [eraseKind, shapeOf, rebuild, atomTy_name ht]
  | tdyn tr =>
    simp only [ffrag, traitOk, Bool.and_eq_true] at ht
    have hall : ('d' :: 'y' :: 'n' :: tr).all isIdentChar = true := by
      have h1 : isIdentChar 'd' = true := by decide
      have h2 : isIdentChar 'y' = true := by decide
      have h3 : isIdentChar 'n' = true := by decide
      simp only [List.all_cons, h1, h2, h3, Bool.true_and]; exact ht.2
    refine ⟨⟨hall, by simp⟩, fun r => ?_, ?_⟩
    · rw [tyCompact_dyn ht.2]; rfl
    · simp only [eraseKind, shapeOf, rebuild, atomTy_dyn]
  | ttuple ts =>
    simp only [ffrag] at ht
    refine ⟨ht, fun r => ?_, ?_⟩
    · rw [tuple_append]; rfl
    · simp only [eraseKind, shapeOf, rebuild]
  | tapp t0 args =>
    simp only [ffrag, Bool.and_eq_true] at ht
    cases args with
    | nil => simp at ht
    | cons a as =>
      cases t0 with
      | tstruct n =>
        obtain ⟨h1, h2, _⟩ := identOk_parts (nameOk_parts ht.1.1).1
        refine ⟨⟨h1, h2, ht.2⟩, fun r => ?_, ?_⟩
        · rw [app_append_full _ (tyCompact_struct h1)]; rfl
        · simp only [eraseKind, shapeOf, rebuild, brkTy_name ht.1.1]
      | tenum n =>
        obtain ⟨h1, h2, _⟩ := identOk_parts (nameOk_parts ht.1.1).1
        refine ⟨⟨h1, h2, ht.2⟩, fun r => ?_, ?_⟩
        · rw [app_append_full _ (tyCompact_enum h1)]; rfl
        · simp only [eraseKind, shapeOf, rebuild, brkTy_name ht.1.1]
      | _ => simp at ht
  | tarray len e =>
    simp only [ffrag] at ht
    refine ⟨ht, fun r => ?_, ?_⟩
    · rw [tyCompact_array]; rfl
    · simp only [eraseKind, shapeOf, rebuild]
  | tvec e =>
    simp only [ffrag] at ht
    refine ⟨⟨by decide, by decide, by simp [ffrags, ht]⟩, fun r => ?_, ?_⟩
    · rw [tyCompact_vec]; rfl
    · simp only [eraseKind, shapeOf, rebuild, eraseKinds]; rfl
  | tref e =>
    simp only [ffrag] at ht
    refine ⟨⟨by decide, by decide, by simp [ffrags, ht]⟩, fun r => ?_, ?_⟩
    · rw [tyCompact_ref]; rfl
    · simp only [eraseKind, shapeOf, rebuild, eraseKinds]; rfl
  | tfunc ps r0 =>
    simp only [ffrag, Bool.and_eq_true] at ht
    refine ⟨ht, fun r => ?_, ?_⟩
    · rw [tyCompact_func]; rfl
    · simp only [eraseKind, shapeOf, rebuild]

/-! ## first characters -/

/-- class of a character: identifier character, `(`, `[`, anything else -/
def charCls (c : Char) : Nat := if isIdentChar c then 0 else if c = '(' then 1 else if c = '[' then 2 else 3
def headCls : Name → Nat
  | [] => 4
  | c :: _ => charCls c
def cls : Shape → Nat
  | .atom _ => 0
  | .brk _ _ => 0
  | .tup _ => 1
  | .fn _ _ => 1
  | .arr _ _ => 2

theorem headCls_ident {a r : Name} (h1 : a.all isIdentChar = true) (h2 : a ≠ []) : headCls (a ++ r) = 0 := by
  cases a with
  | nil => exact absurd rfl h2
  | cons c a' =>
    simp only [List.all_cons, Bool.and_eq_true] at h1
    simp [headCls, charCls, h1.1]

/-- the first character of a spelling tells the class of its shape -/
theorem spell_cls (s : Shape) (r : Name) (hs : shapeOk s) : headCls (spell s r) = cls s := by
  cases s with
  | atom a => exact headCls_ident hs.1 hs.2
  | brk h args => exact headCls_ident hs.1 hs.2.1
  | tup ts => show charCls '(' = 1; decide
  | fn ps r0 => show charCls '(' = 1; decide
  | arr len e => show charCls '[' = 2; decide

theorem cls_eq {s s' : Shape} {r r' : Name} (hs : shapeOk s) (hs' : shapeOk s') (h : spell s r = spell s' r') :
    cls s = cls s' := by
  rw [← spell_cls s r hs, ← spell_cls s' r' hs', h]

theorem ffrag_headCls (t : Ty) (r : Name) (ht : ffrag t = true) : headCls (tyCompact t ++ r) ≤ 2 := by
  obtain ⟨o, sp, _⟩ := shape_spec t ht
  rw [sp, spell_cls _ _ o]
  cases shapeOf t <;> simp [cls]

theorem closer_headCls {c : Char} {r : Name} (hc : c = ')' ∨ c = ']') : headCls (c :: r) = 3 := by
  rcases hc with h | h <;> subst h <;> (show charCls _ = 3; decide)

theorem joinC_headCls (u : Ty) (us : List Ty) (r : Name) (hu : ffrag u = true) : headCls (joinC (u :: us) ++ r) ≤ 2 := by
  cases us with
  | nil => rw [joinC_single]; exact ffrag_headCls u _ hu
  | cons v rest => rw [joinC_cons_cons, List.append_assoc]; exact ffrag_headCls u _ hu

theorem stop_headNot_full {r : Name} (h : stopOk' r = true) : headNot isIdentChar r = true := by
  cases r with
  | nil => rfl
  | cons c r' =>
    simp only [stopOk', Bool.or_eq_true, beq_iff_eq] at h
    have : isIdentChar c = false := by
      rcases h with ((h | h) | h) | h <;> (rw [h]; decide)
    simp [headNot, this]

theorem stop_not_bracket_full (x : Name) : stopOk' ('[' :: x) = false := rfl
theorem stop_not_dash (x : Name) : stopOk' ('-' :: x) = false := rfl
theorem closer_stop_full {c : Char} {r : Name} (hc : c = ')' ∨ c = ']') : stopOk' (c :: r) = true := by
  rcases hc with h | h <;> subst h <;> rfl
theorem comma_stop_full (r : Name) : stopOk' (',' :: r) = true := rfl
theorem semi_stop_full (r : Name) : stopOk' (';' :: r) = true := rfl

theorem rbracket_headNot_digit (x : Name) : headNot isAsciiDigit (']' :: x) = true := by
  have : isAsciiDigit ']' = false := by decide
  simp [headNot, this]

/-! ## uniqueness of the parse -/

/-- induction motive for a type -/
def M1 (t : Ty) : Prop := ∀ u r r', ffrag t = true → ffrag u = true → stopOk' r = true → stopOk' r' = true →
    tyCompact t ++ r = tyCompact u ++ r' → eraseKind t = eraseKind u ∧ r = r'
/-- induction motive for a comma-separated list followed by a closer -/
def M2 (ts : List Ty) : Prop := ∀ us c r c' r', ffrags ts = true → ffrags us = true → (c = ')' ∨ c = ']') → (c' = ')' ∨ c' = ']') →
    joinC ts ++ c :: r = joinC us ++ c' :: r' → eraseKinds ts = eraseKinds us ∧ c :: r = c' :: r'

/-- the induction hypotheses a shape needs -/
def shapeIH : Shape → Prop
  | .atom _ => True
  | .brk _ args => M2 args
  | .tup ts => M2 ts
  | .fn ps r => M2 ps ∧ M1 r
  | .arr _ e => M1 e

theorem shape_unique (s s' : Shape) (r r' : Name) (hs : shapeOk s) (hs' : shapeOk s') (ih : shapeIH s)
    (hr : stopOk' r = true) (hr' : stopOk' r' = true) (h : spell s r = spell s' r') :
    rebuild s = rebuild s' ∧ r = r' := by
  have hc := cls_eq hs hs' h
  cases s with
  | atom a =>
    cases s' with
    | atom a' =>
      obtain ⟨e1, e2⟩ := run_unique isIdentChar hs.1 hs'.1 (stop_headNot_full hr) (stop_headNot_full hr') h
      exact ⟨by rw [e1], e2⟩
    | brk h' args' =>
      exfalso
      obtain ⟨_, e2⟩ := run_unique isIdentChar hs.1 hs'.1 (stop_headNot_full hr) (bracket_headNot _) h
      rw [e2, stop_not_bracket_full] at hr; exact Bool.noConfusion hr
    | tup ts' => exact absurd hc (by simp [cls])
    | fn ps' r0' => exact absurd hc (by simp [cls])
    | arr len' e' => exact absurd hc (by simp [cls])
  | brk h0 args =>
    cases s' with
    | atom a' =>
      exfalso
      obtain ⟨_, e2⟩ := run_unique isIdentChar hs.1 hs'.1 (bracket_headNot _) (stop_headNot_full hr') h
      rw [← e2, stop_not_bracket_full] at hr'; exact Bool.noConfusion hr'
    | brk h' args' =>
      obtain ⟨e1, e2⟩ := run_unique isIdentChar hs.1 hs'.1 (bracket_headNot _) (bracket_headNot _) h
      simp only [List.cons.injEq, true_and] at e2
      obtain ⟨e3, e4⟩ := ih args' ']' r ']' r' hs.2.2 hs'.2.2 (Or.inr rfl) (Or.inr rfl) e2
      simp only [List.cons.injEq, true_and] at e4
      exact ⟨by simp only [rebuild, e1, e3], e4⟩
    | tup ts' => exact absurd hc (by simp [cls])
    | fn ps' r0' => exact absurd hc (by simp [cls])
    | arr len' e' => exact absurd hc (by simp [cls])
  | tup ts =>
    cases s' with
    | atom a' => exact absurd hc (by simp [cls])
    | brk h' args' => exact absurd hc (by simp [cls])
    | tup ts' =>
      simp only [spell, List.cons.injEq, true_and] at h
      obtain ⟨e1, e2⟩ := ih ts' ')' r ')' r' hs hs' (Or.inl rfl) (Or.inl rfl) h
      simp only [List.cons.injEq, true_and] at e2
      exact ⟨by simp only [rebuild, e1], e2⟩
    | fn ps' r0' =>
      exfalso
      simp only [spell, List.cons.injEq, true_and] at h
      obtain ⟨_, e2⟩ := ih ps' ')' r ')' _ hs hs'.1 (Or.inl rfl) (Or.inl rfl) h
      simp only [List.cons.injEq, true_and] at e2
      rw [e2, stop_not_dash] at hr; exact Bool.noConfusion hr
    | arr len' e' => exact absurd hc (by simp [cls])
  | fn ps r0 =>
    cases s' with
    | atom a' => exact absurd hc (by simp [cls])
    | brk h' args' => exact absurd hc (by simp [cls])
    | tup ts' =>
      exfalso
      simp only [spell, List.cons.injEq, true_and] at h
      obtain ⟨_, e2⟩ := ih.1 ts' ')' _ ')' r' hs.1 hs' (Or.inl rfl) (Or.inl rfl) h
      simp only [List.cons.injEq, true_and] at e2
      rw [← e2, stop_not_dash] at hr'; exact Bool.noConfusion hr'
    | fn ps' r0' =>
      simp only [spell, List.cons.injEq, true_and] at h
      obtain ⟨e1, e2⟩ := ih.1 ps' ')' _ ')' _ hs.1 hs'.1 (Or.inl rfl) (Or.inl rfl) h
      simp only [List.cons.injEq, true_and] at e2
      obtain ⟨e3, e4⟩ := ih.2 r0' r r' hs.2 hs'.2 hr hr' e2
      exact ⟨by simp only [rebuild, e1, e3], e4⟩
    | arr len' e' => exact absurd hc (by simp [cls])
  | arr len e =>
    cases s' with
    | atom a' => exact absurd hc (by simp [cls])
    | brk h' args' => exact absurd hc (by simp [cls])
    | tup ts' => exact absurd hc (by simp [cls])
    | fn ps' r0' => exact absurd hc (by simp [cls])
    | arr len' e' =>
      simp only [spell, List.cons.injEq, true_and] at h
      obtain ⟨e1, e2⟩ := ih e' _ _ hs hs' (semi_stop_full _) (semi_stop_full _) h
      simp only [List.cons.injEq, true_and] at e2
      obtain ⟨e3, e4⟩ := run_unique isAsciiDigit (digits_all len) (digits_all len') (rbracket_headNot_digit _)
        (rbracket_headNot_digit _) e2
      simp only [List.cons.injEq, true_and] at e4
      exact ⟨by simp only [rebuild, e1, digits_injective e3], e4⟩

theorem M1_of_shapeIH (t : Ty) (ih : ffrag t = true → shapeIH (shapeOf t)) : M1 t := by
  intro u r r' ht hu hr hr' h
  obtain ⟨o1, s1, e1⟩ := shape_spec t ht
  obtain ⟨o2, s2, e2⟩ := shape_spec u hu
  rw [s1, s2] at h
  rw [e1, e2]
  exact shape_unique _ _ r r' o1 o2 (ih ht) hr hr' h

theorem M2_nil : M2 [] := by
  intro us c r c' r' _ hus hc hc' h
  cases us with
  | nil => rw [joinC_nil] at h; exact ⟨rfl, by simpa using h⟩
  | cons u us' =>
    exfalso
    simp only [ffrags, Bool.and_eq_true] at hus
    rw [joinC_nil, List.nil_append] at h
    have hh := joinC_headCls u us' (c' :: r') hus.1
    rw [← h, closer_headCls hc] at hh
    omega

theorem M2_cons {t : Ty} {ts : List Ty} (iht : M1 t) (ihts : M2 ts) : M2 (t :: ts) := by
  intro us c r c' r' hts hus hc hc' h
  simp only [ffrags, Bool.and_eq_true] at hts
  cases us with
  | nil =>
    exfalso
    rw [joinC_nil, List.nil_append] at h
    have hh := joinC_headCls t ts (c :: r) hts.1
    rw [h, closer_headCls hc'] at hh
    omega
  | cons u us' =>
    simp only [ffrags, Bool.and_eq_true] at hus
    cases ts with
    | nil =>
      cases us' with
      | nil =>
        rw [joinC_single, joinC_single] at h
        obtain ⟨e1, e2⟩ := iht u _ _ hts.1 hus.1 (closer_stop_full hc) (closer_stop_full hc') h
        exact ⟨by simp only [eraseKinds, e1], e2⟩
      | cons v rest =>
        exfalso
        rw [joinC_single, joinC_cons_cons, List.append_assoc] at h
        obtain ⟨_, e2⟩ := iht u _ _ hts.1 hus.1 (closer_stop_full hc) (comma_stop_full _) h
        simp only [List.cons.injEq] at e2
        rcases hc with hc | hc <;> (rw [hc] at e2; exact absurd e2.1 (by decide))
    | cons w ts' =>
      cases us' with
      | nil =>
        exfalso
        rw [joinC_single, joinC_cons_cons, List.append_assoc] at h
        obtain ⟨_, e2⟩ := iht u _ _ hts.1 hus.1 (comma_stop_full _) (closer_stop_full hc') h
        simp only [List.cons.injEq] at e2
        rcases hc' with hc' | hc' <;> (rw [hc'] at e2; exact absurd e2.1.symm (by decide))
      | cons v rest =>
        rw [joinC_cons_cons, joinC_cons_cons, List.append_assoc, List.append_assoc] at h
        obtain ⟨e1, e2⟩ := iht u _ _ hts.1 hus.1 (comma_stop_full _) (comma_stop_full _) h
        simp only [List.cons.injEq, true_and] at e2
        obtain ⟨e3, e4⟩ := ihts (v :: rest) c r c' r' hts.2 hus.2 hc hc' e2
        exact ⟨by simp only [eraseKinds, e1] at e3 ⊢; rw [e3], e4⟩

/-- **a fragment spelling followed by a stop is parsed in exactly one way** (up to enum/struct kind) -/
theorem tyCompact_unique_full (t : Ty) : ∀ u r r', ffrag t = true → ffrag u = true → stopOk' r = true → stopOk' r' = true →
    tyCompact t ++ r = tyCompact u ++ r' → eraseKind t = eraseKind u ∧ r = r' := by
  apply Ty.rec (motive_1 := M1) (motive_2 := M2)
  case tvar => intro n; exact M1_of_shapeIH _ (fun h => by simp [ffrag] at h)
  case tparam => intro n; exact M1_of_shapeIH _ (fun h => by simp [ffrag] at h)
  case prim => intro p; exact M1_of_shapeIH _ (fun _ => trivial)
  case tstruct => intro n; exact M1_of_shapeIH _ (fun _ => trivial)
  case tenum => intro n; exact M1_of_shapeIH _ (fun _ => trivial)
  case tdyn => intro n; exact M1_of_shapeIH _ (fun _ => trivial)
  case ttuple => intro ts ih; exact M1_of_shapeIH _ (fun _ => ih)
  case tapp =>
    intro t0 args _ ih
    refine M1_of_shapeIH _ (fun h => ?_)
    cases t0 with
    | tstruct n => exact ih
    | tenum n => exact ih
    | _ => simp [ffrag] at h
  case tarray => intro len e ih; exact M1_of_shapeIH _ (fun _ => ih)
  case tvec => intro e ih; exact M1_of_shapeIH _ (fun _ => M2_cons ih M2_nil)
  case tref => intro e ih; exact M1_of_shapeIH _ (fun _ => M2_cons ih M2_nil)
  case tfunc => intro ps r ihps ihr; exact M1_of_shapeIH _ (fun _ => ⟨ihps, ihr⟩)
  case nil => exact M2_nil
  case cons => intro t ts iht ihts; exact M2_cons iht ihts

/-- **`ty_compact` is injective on the full monomorphic fragment, up to the enum/struct kind of a name** -/
theorem tyCompact_injective {t u : Ty} (ht : ffrag t = true) (hu : ffrag u = true) (h : tyCompact t = tyCompact u) :
    eraseKind t = eraseKind u :=
  (tyCompact_unique_full t u [] [] ht hu rfl rfl (by rw [List.append_nil, List.append_nil, h])).1

/-! ## from "equal up to kind" to "equal": a program declares a name once, as one kind -/

theorem eraseKind_injective_of_kinds (k : Name → Bool) (t : Ty) :
    ∀ u, kindsBy k t = true → kindsBy k u = true → eraseKind t = eraseKind u → t = u := by
  apply Ty.rec
    (motive_1 := fun t => ∀ u, kindsBy k t = true → kindsBy k u = true → eraseKind t = eraseKind u → t = u)
    (motive_2 := fun ts => ∀ us, kindsBys k ts = true → kindsBys k us = true → eraseKinds ts = eraseKinds us → ts = us)
  case tvar =>
    intro n u _ _ h
    cases u with
    | tvar m => simpa [eraseKind] using h
    | _ => simp [eraseKind] at h
  case tparam =>
    intro n u _ _ h
    cases u with
    | tparam m => simpa [eraseKind] using h
    | _ => simp [eraseKind] at h
  case prim =>
    intro p u _ _ h
    cases u with
    | prim q => simpa [eraseKind] using h
    | _ => simp [eraseKind] at h
  case tdyn =>
    intro n u _ _ h
    cases u with
    | tdyn m => simpa [eraseKind] using h
    | _ => simp [eraseKind] at h
  case tstruct =>
    intro n u kt ku h
    cases u with
    | tstruct m => simpa [eraseKind] using h
    | tenum m =>
      simp only [eraseKind, Ty.tstruct.injEq] at h
      simp only [kindsBy, Bool.not_eq_true'] at kt ku
      rw [h, ku] at kt; exact Bool.noConfusion kt
    | _ => simp [eraseKind] at h
  case tenum =>
    intro n u kt ku h
    cases u with
    | tenum m => simpa [eraseKind] using h
    | tstruct m =>
      simp only [eraseKind, Ty.tstruct.injEq] at h
      simp only [kindsBy, Bool.not_eq_true'] at kt ku
      rw [h, ku] at kt; exact Bool.noConfusion kt
    | _ => simp [eraseKind] at h
  case ttuple =>
    intro ts ih u kt ku h
    cases u with
    | ttuple us =>
      simp only [eraseKind, Ty.ttuple.injEq] at h
      simp only [kindsBy] at kt ku
      rw [ih us kt ku h]
    | _ => simp [eraseKind] at h
  case tapp =>
    intro t0 args ih0 ih u kt ku h
    cases u with
    | tapp u0 us =>
      simp only [eraseKind, Ty.tapp.injEq] at h
      simp only [kindsBy, Bool.and_eq_true] at kt ku
      rw [ih0 u0 kt.1 ku.1 h.1, ih us kt.2 ku.2 h.2]
    | _ => simp [eraseKind] at h
  case tarray =>
    intro len e ih u kt ku h
    cases u with
    | tarray len' e' =>
      simp only [eraseKind, Ty.tarray.injEq] at h
      simp only [kindsBy] at kt ku
      rw [h.1, ih e' kt ku h.2]
    | _ => simp [eraseKind] at h
  case tvec =>
    intro e ih u kt ku h
    cases u with
    | tvec e' =>
      simp only [eraseKind, Ty.tvec.injEq] at h
      simp only [kindsBy] at kt ku
      rw [ih e' kt ku h]
    | _ => simp [eraseKind] at h
  case tref =>
    intro e ih u kt ku h
    cases u with
    | tref e' =>
      simp only [eraseKind, Ty.tref.injEq] at h
      simp only [kindsBy] at kt ku
      rw [ih e' kt ku h]
    | _ => simp [eraseKind] at h
  case tfunc =>
    intro ps r ihps ihr u kt ku h
    cases u with
    | tfunc ps' r' =>
      simp only [eraseKind, Ty.tfunc.injEq] at h
      simp only [kindsBy, Bool.and_eq_true] at kt ku
      rw [ihps ps' kt.1 ku.1 h.1, ihr r' kt.2 ku.2 h.2]
    | _ => simp [eraseKind] at h
  case nil =>
    intro us _ _ h
    cases us with
    | nil => rfl
    | cons u us' => simp [eraseKinds] at h
  case cons =>
    intro t ts iht ihts us kt ku h
    cases us with
    | nil => simp [eraseKinds] at h
    | cons u us' =>
      simp only [eraseKinds, List.cons.injEq] at h
      simp only [kindsBys, Bool.and_eq_true] at kt ku
      rw [iht u kt.1 ku.1 h.1, ihts us' kt.2 ku.2 h.2]

/-- **`ty_compact` is injective on the full monomorphic fragment** once one classifier `k` says for every
nominal name of both types whether it is an enum or a struct -/
theorem tyCompact_injective_of_kinds (k : Name → Bool) {t u : Ty} (ht : ffrag t = true) (hu : ffrag u = true)
    (kt : kindsBy k t = true) (ku : kindsBy k u = true) (h : tyCompact t = tyCompact u) : t = u :=
  eraseKind_injective_of_kinds k t u kt ku (tyCompact_injective ht hu h)

/-- a generic type with ONE parameter: distinct fragment arguments give distinct instance names
(`TypeMono::ensure_instance`) -/
theorem monoTypeName_injective_one_param (k : Name → Bool) (base : Name) {t u : Ty} (ht : ffrag t = true) (hu : ffrag u = true)
    (kt : kindsBy k t = true) (ku : kindsBy k u = true) (h : monoTypeName base [t] = monoTypeName base [u]) : t = u := by
  simp only [monoTypeName, join, List.map_cons, List.map_nil] at h
  exact tyCompact_injective_of_kinds k ht hu kt ku (List.append_cancel_left h)

/-! ## the old fragment sits inside the new one -/

mutual
/-- every struct / enum name inside the type satisfies `p` -/
def namesAll (p : Name → Bool) : Ty → Bool
  | .tenum n => p n
  | .tstruct n => p n
  | .ttuple ts => namesAlls p ts
  | .tapp t args => namesAll p t && namesAlls p args
  | .tarray _ e => namesAll p e
  | .tvec e => namesAll p e
  | .tref e => namesAll p e
  | .tfunc ps r => namesAlls p ps && namesAll p r
  | _ => true
def namesAlls (p : Name → Bool) : List Ty → Bool
  | [] => true
  | t :: ts => namesAll p t && namesAlls p ts
end

/-- the fragment of `tyCompact_injective_partial` is inside `ffrag` as soon as its struct names also avoid
`Vec`, `Ref` and the prefix `dyn`.  (`_partial` only because the extra name condition is needed: `cfrag`
alone accepts a struct called `Vec`, which `ffrag` must exclude.) -/
theorem cfrag_ffrag_partial (t : Ty) : cfrag t = true → namesAll nameOk t = true → ffrag t = true := by
  apply Ty.rec
    (motive_1 := fun t => cfrag t = true → namesAll nameOk t = true → ffrag t = true)
    (motive_2 := fun ts => cfrags ts = true → namesAlls nameOk ts = true → ffrags ts = true)
  case tvar => intro n h; simp [cfrag] at h
  case tparam => intro n h; simp [cfrag] at h
  case tenum => intro n h; simp [cfrag] at h
  case tdyn => intro n h; simp [cfrag] at h
  case tarray => intro len e _ h; simp [cfrag] at h
  case tvec => intro e _ h; simp [cfrag] at h
  case tref => intro e _ h; simp [cfrag] at h
  case tfunc => intro ps r _ _ h; simp [cfrag] at h
  case prim => intro p _ _; rfl
  case tstruct => intro n _ h; simpa [namesAll, ffrag] using h
  case ttuple => intro ts ih h1 h2; simp only [cfrag] at h1; simp only [namesAll] at h2; simp only [ffrag]; exact ih h1 h2
  case tapp =>
    intro t0 args _ ih h1 h2
    simp only [cfrag, Bool.and_eq_true] at h1
    simp only [namesAll, Bool.and_eq_true] at h2
    cases t0 with
    | tstruct n =>
      simp only [namesAll] at h2
      simp only [ffrag, Bool.and_eq_true]
      exact ⟨⟨h2.1, h1.1.2⟩, ih h1.2 h2.2⟩
    | _ => simp at h1
  case nil => intro _ _; rfl
  case cons =>
    intro t ts iht ihts h1 h2
    simp only [cfrags, Bool.and_eq_true] at h1
    simp only [namesAlls, Bool.and_eq_true] at h2
    simp only [ffrags, Bool.and_eq_true]
    exact ⟨iht h1.1 h2.1, ihts h1.2 h2.2⟩

/-! ## non-vacuity -/

/-- a nested type using every new constructor is in the fragment, and its names are classified consistently -/
example :
    let t := Ty.tfunc [.tvec (.prim .int32), .tarray 12 (.tenum "E".toList)]
      (.tref (.ttuple [.tdyn "Show".toList, .tapp (.tenum "Opt".toList) [.prim .string]]))
    ffrag t = true ∧ kindsBy (fun n => n == "E".toList || n == "Opt".toList) t = true ∧
      tyCompact t = "(Vec[int32],[E;12])->Ref[(dynShow,Opt[string])]".toList := by decide

/-- the hypotheses of `tyCompact_injective_of_kinds` hold for two different nested types: the theorem applies
and their spellings differ (function `(a)->b` vs tuple-of-function, array length, enum application) -/
example :
    let k : Name → Bool := fun n => n == "E".toList || n == "Opt".toList
    let t := Ty.tfunc [.tvec (.prim .int32), .tarray 12 (.tenum "E".toList)] (.tref (.tdyn "Show".toList))
    let u := Ty.tfunc [.tvec (.prim .int32), .tarray 1 (.tenum "E".toList)] (.tref (.tdyn "Show".toList))
    ffrag t = true ∧ ffrag u = true ∧ kindsBy k t = true ∧ kindsBy k u = true ∧ tyCompact t ≠ tyCompact u := by decide

/-- `Opt[Pair[int32, E]]` with a struct head and an enum argument; `()`; `() -> ()` -/
example : ffrag (.tapp (.tstruct "Opt".toList) [.tapp (.tstruct "Pair".toList) [.prim .int32, .tenum "E".toList]]) = true ∧
    ffrag (.ttuple []) = true ∧ ffrag (.tfunc [] (.ttuple [])) = true := by decide

/-- a tuple followed by a stop vs a function type: told apart by what follows the `)` -/
example : tyCompact (.ttuple [.ttuple [.prim .int32], .prim .bool]) = "((int32),bool)".toList ∧
    tyCompact (.ttuple [.tfunc [.prim .int32] (.prim .bool)]) = "((int32)->bool)".toList := by decide

/-! ## negative witnesses: every side condition is necessary -/

/-- (1) kind: an enum and a struct of one name are both in the fragment and spelled alike — the conclusion
can only be `eraseKind t = eraseKind u` -/
example : ffrag (.tenum "E".toList) = true ∧ ffrag (.tstruct "E".toList) = true ∧
    tyCompact (.tenum "E".toList) = tyCompact (.tstruct "E".toList) := by decide

theorem tyCompact_not_injective_without_kinds :
    ¬ ∀ t u : Ty, ffrag t = true → ffrag u = true → tyCompact t = tyCompact u → t = u := by
  intro h
  have := h (.tenum "E".toList) (.tstruct "E".toList) (by decide) (by decide) (by decide)
  exact Ty.noConfusion this

/-- (1') … also at the head of an application -/
example : tyCompact (.tapp (.tenum "Opt".toList) [.prim .int32]) = tyCompact (.tapp (.tstruct "Opt".toList) [.prim .int32]) := by decide

/-- (2) **DEFECT**: `dyn Show` is spelled `dynShow`, like a struct of that name (`identOk` accepts it, only the
`dyn`-prefix condition of `nameOk` excludes it) … -/
example : tyCompact (.tdyn "Show".toList) = tyCompact (.tstruct "dynShow".toList) ∧
    identOk "dynShow".toList = true ∧ nameOk "dynShow".toList = false := by decide

/-- … so `Opt[dyn Show]` and `Opt[dynShow]` are one instance `Opt__dynShow` -/
example : monoTypeName "Opt".toList [.tdyn "Show".toList] = monoTypeName "Opt".toList [.tstruct "dynShow".toList] ∧
    monoTypeName "Opt".toList [.tdyn "Show".toList] = "Opt__dynShow".toList := by decide

/-- (2') trait names must be identifier runs: `(dyn A,B)` (one component) vs `(dyn A, B)` -/
example : tyCompact (.ttuple [.tdyn "A,B".toList]) = tyCompact (.ttuple [.tdyn "A".toList, .tstruct "B".toList]) ∧
    traitOk "A,B".toList = false := by decide

/-- (3) `Vec[e]` / `Ref[e]` vs an application of a struct called `Vec` / `Ref` -/
example : tyCompact (.tvec (.prim .int32)) = tyCompact (.tapp (.tstruct "Vec".toList) [.prim .int32]) ∧
    identOk "Vec".toList = true ∧ nameOk "Vec".toList = false := by decide
example : tyCompact (.tref (.prim .int32)) = tyCompact (.tapp (.tstruct "Ref".toList) [.prim .int32]) ∧
    identOk "Ref".toList = true ∧ nameOk "Ref".toList = false := by decide

/-- (4) a nominal type named like a primitive -/
example : tyCompact (.tstruct "int32".toList) = tyCompact (.prim .int32) ∧ nameOk "int32".toList = false := by decide

/-- (5) an application to no arguments is printed like its head (`!args.isEmpty` in `ffrag`) -/
example : tyCompact (.tapp (.tstruct "S".toList) []) = tyCompact (.tstruct "S".toList) ∧
    ffrag (.tapp (.tstruct "S".toList) []) = false := by decide

/-- (6) names with characters outside the identifier class: `S[a]` as a NAME vs the application -/
example : tyCompact (.tstruct "S[a]".toList) = tyCompact (.tapp (.tstruct "S".toList) [.tstruct "a".toList]) ∧
    nameOk "S[a]".toList = false := by decide

end Goml.Mangle
